// C08 E-SHIM harness for reader-writer locks with a single state word (spin_rw_mutex; rw_mutex uses rwm.cpp).
// usage: rw <rand|dfs|replay> <arg> [maxruns]   (scenario on stdin: one "prog op op ..." line per thread)
//   rand <seed> <nruns> | dfs <preemption bound> <maxruns> | replay <t,t,t,...>
// Per run prints:  run <i> / eff <tid> <ops actually executed> / e <tid> <kind> word <order> <a> <b> <ok> (accesses to the state
// word, in execution order) / res <tid> <results oldest-first> / mon <verdict> / sched <tids> / end
// Built with -fno-access-control (upgrade/downgrade are protected) and the E-SHIM prelude.
#include <oneapi/tbb/spin_rw_mutex.h>
#include "hb.h"
#include <cstdio>
#include <cstring>
#include <sstream>
#include <string>
#include <vector>

#ifndef MUTEX_T
#define MUTEX_T tbb::spin_rw_mutex
#endif

enum Mode { NONE, RD, WR };
struct Ghost { int W = 0, R = 0; long wgen = 0; std::string err; };

static std::vector<std::vector<std::string>> g_progs;

static bool run_once(verif::Schedule& sch, int run_idx, bool print) {
    MUTEX_T m;
    Ghost g;
    size_t T = g_progs.size();
    std::vector<std::vector<std::string>> eff(T);
    std::vector<std::vector<int>> res(T);
    verif::clear_names();
    verif::name_addr(&m.m_state, "state");
    std::vector<std::function<void()>> bodies;
    for (size_t t = 0; t < T; ++t) bodies.push_back([&, t] {
        Mode held = NONE;
        auto acquire_w = [&] { if (g.W || g.R) g.err = "writer entered while held (W=" + std::to_string(g.W) + ",R=" + std::to_string(g.R) + ")"; g.W = 1; g.wgen++; held = WR; cs_w(); };
        auto acquire_r = [&] { if (g.W) g.err = "reader entered while a writer holds"; g.R++; held = RD; cs_r(); };
        for (auto& op : g_progs[t]) {
            if (op == "lock" && held == NONE) { eff[t].push_back(op); m.lock(); acquire_w(); }
            else if (op == "try_lock" && held == NONE) { eff[t].push_back(op); bool b = m.try_lock(); res[t].push_back(b); if (b) acquire_w(); }
            else if (op == "unlock" && held == WR) { eff[t].push_back(op); cs_w(); g.W = 0; held = NONE; m.unlock(); }
            else if (op == "lock_shared" && held == NONE) { eff[t].push_back(op); m.lock_shared(); acquire_r(); }
            else if (op == "try_lock_shared" && held == NONE) { eff[t].push_back(op); bool b = m.try_lock_shared(); res[t].push_back(b); if (b) acquire_r(); }
            else if (op == "unlock_shared" && held == RD) { eff[t].push_back(op); cs_r(); g.R--; held = NONE; m.unlock_shared(); }
            else if (op == "upgrade" && held == RD) {
                eff[t].push_back(op);
                long gen0 = g.wgen;
                cs_r();
                g.R--;                       // ghost release first: ghost-held intervals are always inside real-held ones
                bool b = m.upgrade();
                res[t].push_back(b);
                if (b && g.wgen != gen0) g.err = "upgrade returned true although another writer held the lock in between";
                acquire_w();
            }
            else if (op == "downgrade" && held == WR) { eff[t].push_back(op); cs_w(); g.W = 0; acquire_r(); m.downgrade(); }   // ghost: a reader from before the call on, so a writer that gets in during the call is caught
        }
        // release whatever is still held so that other threads can finish
        if (held == WR) { eff[t].push_back("unlock"); cs_w(); g.W = 0; m.unlock(); }
        else if (held == RD) { eff[t].push_back("unlock_shared"); cs_r(); g.R--; m.unlock_shared(); }
    });
    verif::Result r = verif::run(bodies, sch);
    if (g.err.empty()) g.err = cs_hb(r, bodies.size());
    bool ok = g.err.empty() && !r.deadlock;
    if (print || !ok) {
        printf("run %d\n", run_idx);
        for (size_t t = 0; t < T; ++t) { printf("eff %zu", t); for (auto& o : eff[t]) printf(" %s", o.c_str()); printf("\n"); }
        const void* sa = (const void*)&m.m_state;
        for (auto& e : r.log) if (e.addr == sa && e.kind <= verif::K_FXOR)
            printf("e %d %s word %s %llu %llu %d\n", e.tid, verif::kind_name(e.kind), verif::order_name(e.order), (unsigned long long)e.a, (unsigned long long)e.b, e.ok);
        for (size_t t = 0; t < T; ++t) { printf("res %zu", t); for (int v : res[t]) printf(" %d", v); printf("\n"); }
        printf("mon %s%s\n", g.err.empty() ? (r.deadlock ? "DEADLOCK" : "ok") : "VIOLATION ", g.err.c_str());
        printf("sched"); for (int s : r.schedule) printf(" %d", s); printf("\nend\n");
        fflush(stdout);
    }
    if (r.deadlock) { fflush(stdout); _exit(3); }
    return ok;
}

int main(int argc, char** argv) {
    if (argc < 3) return 2;
    char line[1024];
    while (fgets(line, sizeof line, stdin)) {
        std::istringstream is(line); std::string w; is >> w;
        if (w != "prog") continue;
        std::vector<std::string> ops; while (is >> w) ops.push_back(w);
        g_progs.push_back(ops);
    }
    std::string mode = argv[1];
    long maxruns = argc > 3 ? atol(argv[3]) : 1;
    long runs = 0, bad = 0;
    if (mode == "rand") {
        unsigned long long seed = strtoull(argv[2], 0, 10);
        for (long i = 0; i < maxruns; ++i) { verif::RandomSchedule s(seed * 7919 + i, 64 + (int)(i % 3) * 64); if (!run_once(s, (int)i, true)) bad++; runs++; }
    } else if (mode == "dfs") {
        verif::DfsSchedule d(atoi(argv[2]));
        do { if (!run_once(d, (int)runs, false)) { bad++; break; } runs++; } while (runs < maxruns && d.next());
    } else if (mode == "replay") {
        verif::ReplaySchedule s; std::stringstream ss(argv[2]); std::string tok;
        while (std::getline(ss, tok, ',')) if (!tok.empty()) s.tids.push_back(atoi(tok.c_str()));
        if (!run_once(s, 0, true)) bad++; runs++;
    }
    printf("summary runs=%ld bad=%ld\n", runs, bad);
    return bad ? 1 : 0;
}
