// C08 E-SHIM harness for the SLEEPING locks tbb::mutex (default) and tbb::rw_mutex (-DRWM) on the instrumented runtime.
// src/tbb/address_waiter.cpp is #included (and its object left out of the link) so that the concurrent monitor that
// serves the lock's address can be named: cnt = my_waitset.count, epoch = my_epoch, mmx = the monitor's own mutex.
// The per-call sleep_node lives in wait_on_address's frame; its my_is_in_list flag (inl<t>) and semaphore word
// (sem<t>) are recognised in the log: the relaxed store of `true` that a thread issues right before it takes the
// monitor mutex is its node's my_is_in_list; the semaphore is at a fixed offset from it.
// usage: slp <rand|dfs|replay> <arg> [maxruns]; stdin: one "prog op ..." line per thread
// ops: lock try_lock unlock [lock_shared try_lock_shared unlock_shared upgrade downgrade await_reader]
// Per run: run / eff / e <tid> <kind> <var> <order> <a> <b> <ok> / res / mon / sched / end
#include "tbb/address_waiter.cpp"
#ifdef RWM
#include <oneapi/tbb/rw_mutex.h>
using MUTEX = tbb::rw_mutex;
#define WORD(m) (&(m).m_state)
#else
#include <oneapi/tbb/mutex.h>
using MUTEX = tbb::mutex;      // (the shim renames the token `mutex`; tbb::mutex is tbb::verif_mutex in this TU)
#define WORD(m) (&(m).my_flag.my_atomic)
#endif
#include "hb.h"
#include <cstdio>
#include <cstring>
#include <map>
#include <sstream>
#include <string>
#include <vector>

using namespace tbb::detail;
enum Mode { NONE, RD, WR };
struct Ghost { int W = 0, R = 0; long wgen = 0; std::string err; };
static std::vector<std::vector<std::string>> g_progs;
static int g_raw = 0;
static std::atomic<int> g_dummy{0};     // `work`: 12 writes to an unrelated atomic (keeps spinning waiters iterating until they go to sleep)

static int g_in_lock_shared = 0;      // threads inside m.lock_shared() right now (harness-level, plain: one controlled thread runs at a time)
static bool run_once(verif::Schedule& sch, int run_idx, bool print) {
    static MUTEX* mp = new MUTEX;          // one mutex object for the whole process: its monitor slot never changes
    MUTEX& m = *mp;
    Ghost g;
    g_in_lock_shared = 0;
    size_t T = g_progs.size();
    std::vector<std::vector<std::string>> eff(T);
    std::vector<std::vector<int>> res(T);
    r1::address_waiter& aw = r1::get_address_waiter(&m);
    const uint64_t epoch0 = aw.my_epoch.a.load();      // the monitor slot is static: print epochs relative to the run's start
    verif::clear_names();
    verif::name_addr(WORD(m), "word");
    verif::name_addr(&aw.my_waitset.count, "cnt");
    verif::name_addr(&aw.my_epoch, "epoch");
    verif::name_addr(&aw.my_mutex.my_flag, "mmx");
    verif::name_addr(&aw.my_mutex.my_waiters, "mmw");
    std::vector<std::function<void()>> bodies;
    for (size_t t = 0; t < T; ++t) bodies.push_back([&, t] {
        Mode held = NONE;
        auto acquire_w = [&] { if (g.W || g.R) g.err = "writer entered while held (W=" + std::to_string(g.W) + ",R=" + std::to_string(g.R) + ")"; g.W = 1; g.wgen++; held = WR; cs_w(); };
        auto acquire_r = [&] { if (g.W) g.err = "reader entered while a writer holds"; g.R++; held = RD; cs_r(); };
        (void)acquire_r;
        for (auto& op : g_progs[t]) {
            if (op == "work") { for (int i = 0; i < 12; ++i) g_dummy.fetch_add(1, std::memory_order_relaxed); }
            else if (op == "lock" && held == NONE) { eff[t].push_back(op); m.lock(); acquire_w(); }
            else if (op == "try_lock" && held == NONE) { eff[t].push_back(op); bool b = m.try_lock(); res[t].push_back(b); if (b) acquire_w(); }
            else if (op == "unlock" && held == WR) { eff[t].push_back(op); cs_w(); g.W = 0; held = NONE; m.unlock(); }
#ifdef RWM
            else if (op == "lock_shared" && held == NONE) { eff[t].push_back(op); ++g_in_lock_shared; m.lock_shared(); --g_in_lock_shared; acquire_r(); }
            else if (op == "try_lock_shared" && held == NONE) { eff[t].push_back(op); bool b = m.try_lock_shared(); res[t].push_back(b); if (b) acquire_r(); }
            else if (op == "unlock_shared" && held == RD) { eff[t].push_back(op); cs_r(); g.R--; held = NONE; m.unlock_shared(); }
            else if (op == "upgrade" && held == RD) {
                eff[t].push_back(op);
                long gen0 = g.wgen;
                cs_r();
                g.R--;
                bool b = m.upgrade();
                res[t].push_back(b);
                if (b && g.wgen != gen0) g.err = "upgrade returned true although another writer held the lock in between";
                acquire_w();
            }
            else if (op == "downgrade" && held == WR) { eff[t].push_back(op); cs_w(); g.W = 0; g.R++; held = RD; m.downgrade(); cs_r(); }
            // harness-level: keep the shared lock until another thread holds it too (nothing but the downgrade itself will wake a reader that
            // went to sleep behind the writer); not a mutex operation, not part of the effective program
            else if (op == "await_reader" && held == RD) { while (g.R < 2 && g_in_lock_shared > 0) { g_dummy.load(std::memory_order_relaxed); _mm_pause(); } }    // (only readers that are already inside lock_shared() are waited for)
#endif
        }
        if (held == WR) { eff[t].push_back("unlock"); cs_w(); g.W = 0; m.unlock(); }
#ifdef RWM
        else if (held == RD) { eff[t].push_back("unlock_shared"); cs_r(); g.R--; m.unlock_shared(); }
#endif
    });
    verif::Result r = verif::run(bodies, sch);
    if (g.err.empty()) g.err = cs_hb(r, bodies.size());
    bool ok = g.err.empty() && !r.deadlock;
    if (print || !ok) {
        printf("run %d\n", run_idx);
        for (size_t t = 0; t < T; ++t) { printf("eff %zu", t); for (auto& o : eff[t]) printf(" %s", o.c_str()); printf("\n"); }
        // offset of the semaphore word from my_is_in_list inside a sleep_node
        static r1::address_waiter::thread_context dummy{r1::address_context{}};
        const std::ptrdiff_t sem_off = (const char*)dummy.sema.begin() - (const char*)&dummy.my_is_in_list;
        const void* mmx = (const void*)&aw.my_mutex.my_flag;
        // next event index of the same thread
        std::vector<long> nxt(r.log.size(), -1);
        { std::map<int, long> last; for (long i = (long)r.log.size() - 1; i >= 0; --i) { auto& e = r.log[i]; if (e.kind > verif::K_FXOR && e.kind != verif::K_FWAIT && e.kind != verif::K_FWAKE) continue; auto it = last.find(e.tid); if (it != last.end()) nxt[i] = it->second; last[e.tid] = i; } }
        std::map<const void*, std::string> dyn;       // node field addresses -> names (current owner)
        for (size_t i = 0; i < r.log.size(); ++i) {
            auto& e = r.log[i];
            if (e.kind > verif::K_FXOR || !e.addr) { if (g_raw) printf("# %s\n", verif::format_event(e).c_str()); continue; }
            std::string nm = verif::addr_name(e.addr);
            if (nm.compare(0, 4, "anon") == 0) {
                if (e.kind == verif::K_STORE && e.a == 1 && e.order == 0 && nxt[i] >= 0 && r.log[nxt[i]].addr == mmx) {
                    // my_is_in_list.store(true) of a fresh prepare_wait: (re)bind this thread's node
                    for (auto it = dyn.begin(); it != dyn.end();) { if (it->second == "inl" + std::to_string(e.tid) || it->second == "sem" + std::to_string(e.tid)) it = dyn.erase(it); else ++it; }
                    dyn[e.addr] = "inl" + std::to_string(e.tid);
                    dyn[(const char*)e.addr + sem_off] = "sem" + std::to_string(e.tid);
                }
                auto it = dyn.find(e.addr);
                if (it == dyn.end()) { if (g_raw) printf("# %s\n", verif::format_event(e).c_str()); continue; }
                nm = it->second;
            }
            if (nm == "mmx" || nm == "mmw") { if (g_raw) printf("# %s\n", verif::format_event(e).c_str()); continue; }
            uint64_t a = e.a, b = e.b;
            if (nm == "epoch") { a = (uint32_t)(a - epoch0); if (e.kind != verif::K_LOAD) b = (uint32_t)(b - epoch0); }
            printf("e %d %s %s %s %llu %llu %d\n", e.tid, verif::kind_name(e.kind), nm.c_str(), verif::order_name(e.order), (unsigned long long)a, (unsigned long long)b, e.ok);
        }
        for (size_t t = 0; t < T; ++t) { printf("res %zu", t); for (int v : res[t]) printf(" %d", v); printf("\n"); }
        printf("mon %s%s\n", g.err.empty() ? (r.deadlock ? "DEADLOCK" : "ok") : "VIOLATION ", g.err.c_str());
        printf("sched"); for (int s : r.schedule) printf(" %d", s); printf("\nend\n");
        fflush(stdout);
    }
    if (r.deadlock) { fflush(stdout); _exit(3); }
    return ok;
}

int main(int argc, char** argv) {
    verif::init_determinism(argc, argv);
    if (argc < 3) return 2;
    if (getenv("C08_RAW")) g_raw = 1;
    { MUTEX wm; wm.lock(); wm.unlock(); }      // warm-up outside the scheduler (one-time initialisations of libtbb)
    char line[1024];
    while (fgets(line, sizeof line, stdin)) {
        std::istringstream is(line); std::string w; is >> w;
        if (w != "prog") continue;
        std::vector<std::string> ops; while (is >> w) ops.push_back(w);
        g_progs.push_back(ops);
    }
    std::string mode = argv[1];
    long maxruns = argc > 3 ? atol(argv[3]) : 1;
    long runs = 0, bad = 0;
    if (mode == "rand") {
        unsigned long long seed = strtoull(argv[2], 0, 10);
        for (long i = 0; i < maxruns; ++i) { verif::RandomSchedule s(seed * 7919 + i, 64 + (int)(i % 3) * 64); if (!run_once(s, (int)i, true)) bad++; runs++; }
    } else if (mode == "dfs") {
        verif::DfsSchedule d(atoi(argv[2]));
        do { if (!run_once(d, (int)runs, false)) { bad++; break; } runs++; } while (runs < maxruns && d.next());
    } else if (mode == "replay") {
        verif::ReplaySchedule s; std::stringstream ss(argv[2]); std::string tok;
        while (std::getline(ss, tok, ',')) if (!tok.empty()) s.tids.push_back(atoi(tok.c_str()));
        if (!run_once(s, 0, true)) bad++; runs++;
    }
    printf("summary runs=%ld bad=%ld\n", runs, bad);
    return bad ? 1 : 0;
}
