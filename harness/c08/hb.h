// C08: ghost plain accesses of the critical-section bodies + happens-before verdict (harness/shim/verif_hb.h) over a finished run.
// The protected datum is ONE ghost cell per mutex: a writer section reads and writes it at its begin and at its end, a reader
// section reads it at its begin and at its end.  "Everything written inside a critical section is visible to the next holder" =
// no two conflicting ghost accesses unordered by happens-before under the memory orders the code passed to its atomics.
#pragma once
#include "../shim/verif_hb.h"
#include <string>
static inline void cs_w() { verif::note("gr", 0); verif::note("gw", 0); }
static inline void cs_r() { verif::note("gr", 0); }
static inline bool cs_ghost_tag(const char* tag) { return tag && (!std::strcmp(tag, "gr") || !std::strcmp(tag, "gw")); }
// "" if the run is race free; otherwise the description of the first unordered pair
static inline std::string cs_hb(const verif::Result& r, size_t n_threads) {
    if (r.deadlock) return "";
    verif::HbStats st;
    std::vector<verif::HbRace> races = verif::hb_check(r.log, n_threads, &st);
    if (races.empty()) return "";
    return verif::hb_describe(r.log, races[0]) + " (critical sections of two holders: what one wrote under the lock is not guaranteed visible to the other)";
}
