// E-GEN constant dumper for C08 (lock-word layouts), compiled with -fno-access-control against /repo's headers
#include <oneapi/tbb/spin_rw_mutex.h>
#include <oneapi/tbb/rw_mutex.h>
#include <cstdio>
int main() {
    using S = tbb::spin_rw_mutex; using R = tbb::rw_mutex;
    printf("{\"spinWriter\": %ld, \"spinWriterPending\": %ld, \"spinOneReader\": %ld, \"spinReadersMaskLow\": %ld, \"spinBusyLow\": %ld,"
           " \"rwWriter\": %ld, \"rwWriterPending\": %ld, \"rwOneReader\": %ld}\n",
           (long)S::WRITER, (long)S::WRITER_PENDING, (long)S::ONE_READER, (long)(S::READERS & 0xff), (long)(S::BUSY & 0xff),
           (long)R::WRITER, (long)R::WRITER_PENDING, (long)R::ONE_READER);
}
