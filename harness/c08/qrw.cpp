// C08 E-SHIM harness for tbb::queuing_rw_mutex on the INSTRUMENTED runtime (src/tbb/queuing_rw_mutex.cpp compiled with the
// shim prelude).  scoped_lock based; every thread owns one scoped_lock (= its queue node).
// usage: qrw <rand|dfs|replay> <arg> [maxruns]   (scenario on stdin: one "prog op op ..." line per thread)
// ops: acquire_r acquire_w try_r try_w release upgrade downgrade
// Per run prints: run <i> / eff <tid> <ops> / v <spec event> (the holder-bookkeeping log that is validated against the
// Lean specification machine QRwSpec: enq = the thread's q_tail exchange taken from the trace, the others are ghost
// notes written immediately before / after the calls) / o <var class> <kind> <order> <a> <b> <ok> (accesses with
// their memory orders, for the Orders table) / res / mon / sched / end
// -DSPEC_RW: tbb::speculative_spin_rw_mutex, -DSPEC_MX: tbb::speculative_spin_mutex (RTM variants; same scenarios and
// monitors, no specification events besides the ghost notes, no node variables).
#if defined(SPEC_RW)
#include <oneapi/tbb/spin_rw_mutex.h>
#elif defined(SPEC_MX)
#include <oneapi/tbb/spin_mutex.h>
#else
#include <oneapi/tbb/queuing_rw_mutex.h>
#endif
#if defined(SPEC_RW) || defined(SPEC_MX)
#include "tbb/governor.h"
#endif
#include "hb.h"
#include <cstdio>
#include <cstring>
#include <map>
#include <set>
#include <sstream>
#include <string>
#include <vector>

#if defined(SPEC_RW)
using QRW = tbb::speculative_spin_rw_mutex;
#elif defined(SPEC_MX)
using QRW = tbb::speculative_spin_mutex;
#else
using QRW = tbb::queuing_rw_mutex;
#define QUEUING 1
#endif
#if defined(SPEC_MX)
static constexpr bool kRw = false;
static void do_acquire(QRW::scoped_lock& l, QRW& m, bool) { l.acquire(m); }
static bool do_try(QRW::scoped_lock& l, QRW& m, bool) { return l.try_acquire(m); }
static bool do_upgrade(QRW::scoped_lock&) { return true; }
static void do_downgrade(QRW::scoped_lock&) {}
#else
static constexpr bool kRw = true;
static void do_acquire(QRW::scoped_lock& l, QRW& m, bool w) { l.acquire(m, w); }
static bool do_try(QRW::scoped_lock& l, QRW& m, bool w) { return l.try_acquire(m, w); }
static bool do_upgrade(QRW::scoped_lock& l) { return l.upgrade_to_writer(); }
static void do_downgrade(QRW::scoped_lock& l) { l.downgrade_to_reader(); }
#endif
enum Mode { NONE, RD, WR };
struct Ghost { int W = 0, R = 0; long wgen = 0; std::string err; };
static std::vector<std::vector<std::string>> g_progs;
static bool g_orders = false;
static bool g_dfs = false;
static long g_starved = 0;
static bool g_speculation = false;

// bounded-preemption DFS made fair towards threads that spin WITH writes and without a pause (queuing_rw_mutex's `goto retry`
// loops never park): after 60 consecutive steps of one thread while others are runnable the next runnable thread is
// scheduled (deterministically, so the enumeration stays replayable; not counted as a preemption)
struct FairDfs : verif::DfsSchedule {
    int last = -1; long streak = 0;
    std::vector<size_t> lastrun;
    explicit FairDfs(int b) : verif::DfsSchedule(b) {}
    int pick(int cur, const std::vector<int>& en, size_t step) override {
        if (step == 0) { last = -1; streak = 0; lastrun.assign(64, 0); }
        int t = -1;
        if (cur >= 0 && cur == last && ++streak > 60 && en.size() > 1) {
            // forced switch to the runnable thread that has not run for the longest time
            for (int x : en) if (x != cur && (t < 0 || lastrun[x] < lastrun[t])) t = x;
        }
        if (t < 0) t = verif::DfsSchedule::pick(cur, en, step);
        if (t != last) { last = t; streak = 0; }
        lastrun[t] = step + 1;
        return t;
    }
};

static bool run_once(verif::Schedule& sch, int run_idx, bool print) {
    QRW m;
    size_t T = g_progs.size();
    std::vector<QRW::scoped_lock> lk(T);
    Ghost g;
    std::vector<std::vector<std::string>> eff(T);
    std::vector<std::vector<int>> res(T);
    verif::clear_names();
#ifdef QUEUING
    verif::name_addr(&m.q_tail, "tail");
    for (size_t t = 0; t < T; ++t) {
        // scoped_lock() leaves my_prev / my_next / my_state unset (recycled heap memory): start every run from the all-zero node
        // the header documents ("equivalent to zero-initialization of *this"), as the model does; outside verif::run, not logged
        lk[t].my_prev.store(0, std::memory_order_relaxed); lk[t].my_next.store(0, std::memory_order_relaxed);
        lk[t].my_state.store(0, std::memory_order_relaxed);
        verif::name_addr(&lk[t].my_prev, "prev");
        verif::name_addr(&lk[t].my_next, "next");
        verif::name_addr(&lk[t].my_state, "state");
        verif::name_addr(&lk[t].my_going, "going");
        verif::name_addr(&lk[t].my_internal_lock, "ilock");
    }
    const void* tail_addr = (const void*)&m.q_tail;
#elif defined(SPEC_RW)
    verif::name_addr(&m.m_state, "word");
    verif::name_addr(&m.write_flag, "wflag");
    const void* tail_addr = nullptr;
#else
    verif::name_addr(&m.m_flag, "word");
    const void* tail_addr = nullptr;
#endif
    std::vector<std::function<void()>> bodies;
    for (size_t t = 0; t < T; ++t) bodies.push_back([&, t] {
        Mode held = NONE;
        auto acquire_w = [&] { if (g.W || g.R) g.err = "writer entered while held (W=" + std::to_string(g.W) + ",R=" + std::to_string(g.R) + ")"; g.W = 1; g.wgen++; held = WR; cs_w(); };
        auto acquire_r = [&] { if (g.W) g.err = "reader entered while a writer holds"; g.R++; held = RD; cs_r(); };
        auto do_release = [&] {
            if (held == WR) { cs_w(); g.W = 0; } else { cs_r(); g.R--; }
            held = NONE;
            verif::note("rel", t);
            lk[t].release();
        };
        for (auto& op : g_progs[t]) {
            if ((op == "acquire_w" || op == "acquire_r") && held == NONE) {
                bool w = op == "acquire_w";
#ifdef SPEC_MX
                w = true;
#endif
                eff[t].push_back(op);
                verif::note("req", t, w);
                do_acquire(lk[t], m, w);
                if (w) acquire_w(); else acquire_r();
                verif::note("grant", t, w);
            } else if ((op == "try_w" || op == "try_r") && held == NONE) {
                bool w = op == "try_w";
#ifdef SPEC_MX
                w = true;
#endif
                eff[t].push_back(op);
                bool b = do_try(lk[t], m, w);
                res[t].push_back(b);
                if (b) { if (w) acquire_w(); else acquire_r(); verif::note("tryOk", t, w); } else verif::note("tryFail", t);
            } else if (op == "release" && held != NONE) {
                eff[t].push_back(op);
                do_release();
            } else if (kRw && op == "upgrade" && held == RD) {
                eff[t].push_back(op);
                long gen0 = g.wgen;
                cs_r();
                g.R--;                       // ghost release first: ghost-held intervals lie inside the real ones
                verif::note("upgBegin", t);
                bool b = do_upgrade(lk[t]);
                res[t].push_back(b);
                if (b && g.wgen != gen0) g.err = "upgrade_to_writer returned true although another writer held the lock in between";
                acquire_w();
                verif::note("upgEnd", t, b);
            } else if (kRw && op == "downgrade" && held == WR) {
                eff[t].push_back(op);
                cs_w();
                g.W = 0; g.R++; held = RD;   // ghost: a reader from before the call on (a writer entering during the call is caught)
                verif::note("downgrade", t);
                do_downgrade(lk[t]);
                cs_r();
            }
        }
        if (held != NONE) { eff[t].push_back("release"); do_release(); }
    });
    verif::Result r = verif::run(bodies, sch, g_dfs ? 50000 : 2000000);
    std::vector<int> wmode(T, 0);
    // step limit hit with nobody parked: a thread that spins WITH writes and without a pause (queuing_rw_mutex's `goto retry` loops)
    // was never preempted by the bounded-preemption enumeration — an unfair schedule, not a lost hand-off.  Skip it in DFS mode
    // (the stuck OS threads are leaked, parked for ever); under the fair random schedules it is reported.
    bool starved = r.deadlock && r.parked.empty();
    if (starved && g_dfs) {
        printf("starved-sched"); for (size_t i = 0; i < r.schedule.size() && i < 6000; ++i) printf(" %d", r.schedule[i]);
        printf("\nsummary runs=%d bad=0 starved=1\n", run_idx); fflush(stdout); _exit(4);
    }
#ifdef SPEC_RW
    // write_flag monitor (implementation side, independent of the model): speculative readers subscribe to write_flag only, so
    // from the return of a real writer's acquire / try_acquire / upgrade to its release / downgrade call write_flag must read true.
    // Here every holder is a real one (no RTM under the shim: speculation_enabled() is false); with speculation the monitor is skipped.
    if (g.err.empty() && !r.deadlock && !g_speculation) {
        int wholders = 0; bool flag = false; size_t idx = 0;
        for (auto& e : r.log) {
            if (e.kind == verif::K_NOTE) {
                std::string tag = e.tag;
                if ((tag == "grant" || tag == "tryOk") && e.b) wholders++;
                else if (tag == "upgEnd") wholders++;
                else if (tag == "rel" && wmode[e.a]) wholders--;
                else if (tag == "downgrade") wholders--;
                if (tag == "grant" || tag == "tryOk") wmode[e.a] = (int)e.b;
                if (tag == "upgEnd") wmode[e.a] = 1;
                if (tag == "downgrade") wmode[e.a] = 0;
            } else if (e.addr == (const void*)&m.write_flag && e.kind == verif::K_STORE) flag = e.a != 0;
            if (wholders > 0 && !flag && g.err.empty())
                g.err = "a real writer holds the lock while write_flag == false (speculative readers are not locked out), log index " + std::to_string(idx);
            idx++;
        }
    }
#endif
    // happens-before between the critical sections under the orders the code passed (speculative holders synchronise through the
    // transaction, which the shim does not log: real paths only)
    if (g.err.empty() && !g_speculation) g.err = cs_hb(r, bodies.size());
    bool ok = g.err.empty() && !r.deadlock;
    if (print || !ok) {
        printf("run %d\n", run_idx);
        for (size_t t = 0; t < T; ++t) { printf("eff %zu", t); for (auto& o : eff[t]) printf(" %s", o.c_str()); printf("\n"); }
        std::vector<int> req_mode(T, 0);
        std::vector<int> in_acquire(T, 0);
        std::set<std::string> seen;
        for (auto& e : r.log) {
            if (e.kind == verif::K_NOTE) {
                std::string tag = e.tag;
                if (cs_ghost_tag(e.tag)) continue;
                if (tag == "req" || tag == "upgBegin") in_acquire[e.a] = 1;
                if (tag == "grant" || tag == "upgEnd") in_acquire[e.a] = 0;
                if (tag == "req") req_mode[e.a] = (int)e.b;
                else if (tag == "grant" || tag == "tryOk") printf("v %s %d %s\n", e.tag, (int)e.a, e.b ? "W" : "R");
                else if (tag == "upgEnd") printf("v upgEnd %d %d\n", (int)e.a, (int)e.b);
                else printf("v %s %d\n", e.tag, (int)e.a);
            } else if (tail_addr && e.addr == tail_addr && e.kind == verif::K_XCHG) {
                printf("v enq %d %s\n", e.tid, req_mode[e.tid] ? "W" : "R");
            }
            if (g_orders && e.addr && e.kind <= verif::K_FXOR) {
                std::string nm = verif::addr_name(e.addr);
                if (nm.compare(0, 4, "anon") == 0) continue;
                char buf[160];
                bool ptr = nm == "tail" || nm == "prev" || nm == "next";
                // role of the access in the lock hand-over (queuing_rw_mutex): 2 = hands the lock on (going := 1 in ANOTHER thread's
                // node; q_tail CAS back to null), 1 = obtains it (own going seen 1 while inside acquire / upgrade; q_tail exchange
                // or CAS that found null), 0 = other; '-' = to be classified by the check (single-word locks)
                int role = 0;
#ifdef QUEUING
                if (nm == "going") {
                    int owner = -1;
                    for (size_t k = 0; k < T; ++k) if (e.addr == (const void*)&lk[k].my_going) owner = (int)k;
                    if (e.kind == verif::K_STORE && e.a == 1 && owner != e.tid) role = 2;
                    if (e.kind == verif::K_LOAD && e.a == 1 && owner == e.tid && in_acquire[e.tid]) role = 1;
                } else if (nm == "tail") {
                    if (e.kind == verif::K_XCHG && e.a == 0) role = 1;
                    if (e.kind == verif::K_CAS && e.ok && e.a == 0) role = 1;
                    if (e.kind == verif::K_CAS && e.ok && e.b == 0) role = 2;
                }
                snprintf(buf, sizeof buf, "o %s %s %s %llu %llu %d %d", nm.c_str(), verif::kind_name(e.kind), verif::order_name(e.order),
                         ptr ? (unsigned long long)(e.a != 0) : (unsigned long long)e.a, ptr ? (unsigned long long)(e.b != 0) : (unsigned long long)e.b, e.ok, role);
#else
                (void)role; (void)ptr;
                snprintf(buf, sizeof buf, "o %s %s %s %llu %llu %d -", nm.c_str(), verif::kind_name(e.kind), verif::order_name(e.order),
                         (unsigned long long)e.a, (unsigned long long)e.b, e.ok);
#endif
                if (seen.insert(buf).second) printf("%s\n", buf);
            }
        }
#ifdef QUEUING
        // access-level trace for the replay on the Lean node-protocol model `QRwN` (Model/C08N.lean): every access to q_tail and to
        // the nodes' my_prev / my_next / my_state / my_going / my_internal_lock.  Node pointers are canonicalised to
        // 2*(owner+1) + tag bit (0 = null, 1 = null|FLAG), the variable name carries the owner's thread id.
        {
            auto ptrval = [&](uint64_t v) -> unsigned long long {
                uint64_t base = v & ~(uint64_t)1, flag = v & 1;
                if (base == 0) return flag;
                for (size_t k = 0; k < T; ++k) if (base == (uint64_t)(uintptr_t)&lk[k]) return 2 * (k + 1) + flag;
                return 1000000 + flag;       // a pointer to something that is not a node: never matches the model
            };
            size_t ecount = 0;
            for (auto& e : r.log) if (e.addr && e.kind <= verif::K_FXOR) {
                if (r.deadlock && ++ecount > 4000) break;     // a deadlocked / spinning run: the verdict is the finding, not its (huge) trace
                std::string nm = verif::addr_name(e.addr);
                if (nm.compare(0, 4, "anon") == 0) continue;
                bool ptr = nm == "tail" || nm == "prev" || nm == "next";
                std::string var = nm;
                if (nm != "tail") {
                    int owner = -1;
                    for (size_t k = 0; k < T; ++k) {
                        const void* f = nm == "prev" ? (const void*)&lk[k].my_prev : nm == "next" ? (const void*)&lk[k].my_next :
                                        nm == "state" ? (const void*)&lk[k].my_state : nm == "going" ? (const void*)&lk[k].my_going : (const void*)&lk[k].my_internal_lock;
                        if (e.addr == f) owner = (int)k;
                    }
                    var += std::to_string(owner);
                }
                printf("e %d %s %s %s %llu %llu %d\n", e.tid, verif::kind_name(e.kind), var.c_str(), verif::order_name(e.order),
                       ptr ? ptrval(e.a) : (unsigned long long)e.a, ptr ? ptrval(e.b) : (unsigned long long)e.b, e.ok);
            }
        }
#endif
#ifdef SPEC_MX
        // access-level trace of the REAL path of rtm_mutex (= spin_mutex::lock / try_lock / unlock on m_flag), replayed on the Lean model `Spin`
        size_t ecount = 0;
        for (auto& e : r.log) if (e.addr == (const void*)&m.m_flag && e.kind <= verif::K_FXOR && !(r.deadlock && ++ecount > 4000))
            printf("e %d %s word %s %llu %llu %d\n", e.tid, verif::kind_name(e.kind), verif::order_name(e.order),
                   (unsigned long long)e.a, (unsigned long long)e.b, e.ok);
#endif
#ifdef SPEC_RW
        // access-level trace of the REAL (non-speculative) paths of rtm_rw_mutex for the replay on the Lean model `Rtm` (Model/C08R.lean):
        // every access to the underlying spin_rw_mutex word (m_state) and to write_flag
        size_t ecount = 0;
        for (auto& e : r.log) if (e.addr && e.kind <= verif::K_FXOR) {
            if (r.deadlock && ++ecount > 4000) break;
            std::string nm = verif::addr_name(e.addr);
            if (nm != "word" && nm != "wflag") continue;
            printf("e %d %s %s %s %llu %llu %d\n", e.tid, verif::kind_name(e.kind), nm.c_str(), verif::order_name(e.order),
                   (unsigned long long)e.a, (unsigned long long)e.b, e.ok);
        }
#endif
        for (size_t t = 0; t < T; ++t) { printf("res %zu", t); for (int v : res[t]) printf(" %d", v); printf("\n"); }
        printf("mon %s%s\n", g.err.empty() ? (r.deadlock ? (starved ? "LIVELOCK (step limit reached, nobody parked)" : "DEADLOCK") : "ok") : "VIOLATION ", g.err.c_str());
        printf("sched"); for (int s : r.schedule) printf(" %d", s); printf("\nend\n");
        fflush(stdout);
    }
    if (r.deadlock) { fflush(stdout); _exit(3); }
    return ok;
}

int main(int argc, char** argv) {
    verif::init_determinism(argc, argv);
    if (argc < 3) return 2;
    if (getenv("C08_ORDERS")) g_orders = true;
    {   // warm-up outside the scheduler: libtbb's one-time initialisation (speculation_enabled() etc.) must not happen inside
        // the first controlled run, or the runs of one process would not be comparable / replayable
        QRW wm; QRW::scoped_lock wl; do_acquire(wl, wm, true); wl.release();
    }
#if defined(SPEC_RW) || defined(SPEC_MX)
    // C08_NOSPEC=1: take the REAL (non-speculative) paths only — their accesses are replayed on the Lean model `Rtm`; hardware
    // transactions that happen to commit under the scheduler would make the access trace depend on the machine
    if (getenv("C08_NOSPEC")) tbb::detail::r1::governor::cpu_features.rtm_enabled = false;
    g_speculation = tbb::detail::r1::governor::speculation_enabled();
    printf("speculation %d\n", (int)g_speculation);
#endif
    char line[1024];
    while (fgets(line, sizeof line, stdin)) {
        std::istringstream is(line); std::string w; is >> w;
        if (w != "prog") continue;
        std::vector<std::string> ops; while (is >> w) ops.push_back(w);
        g_progs.push_back(ops);
    }
    std::string mode = argv[1];
    long maxruns = argc > 3 ? atol(argv[3]) : 1;
    long runs = 0, bad = 0;
    if (mode == "rand") {
        unsigned long long seed = strtoull(argv[2], 0, 10);
        for (long i = 0; i < maxruns; ++i) { verif::RandomSchedule s(seed * 7919 + i, 64 + (int)(i % 3) * 64); if (!run_once(s, (int)i, true)) bad++; runs++; }
    } else if (mode == "dfs") {
        g_dfs = true;
        FairDfs d(atoi(argv[2]));
        do { if (!run_once(d, (int)runs, false)) { bad++; break; } runs++; } while (runs < maxruns && d.next());
    } else if (mode == "replay") {
        verif::ReplaySchedule s; std::stringstream ss(argv[2]); std::string tok;
        while (std::getline(ss, tok, ',')) if (!tok.empty()) s.tids.push_back(atoi(tok.c_str()));
        if (!run_once(s, 0, true)) bad++; runs++;
    }
    printf("summary runs=%ld bad=%ld starved=%ld\n", runs, bad, g_starved);
    return bad ? 1 : 0;
}
