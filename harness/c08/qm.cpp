// C08 E-SHIM harness for tbb::queuing_mutex (MCS queue lock), scoped_lock based.
// usage: qm <rand|dfs|replay> <arg> [maxruns]   (scenario on stdin: one "prog op op ..." line per thread)
// ops: acquire try_acquire release.  Every thread owns ONE scoped_lock object (= its queue node) that it re-uses.
// Per run prints: run <i> / eff <tid> <ops executed> / e <tid> <kind> <var> <order> <a> <b> <ok> for every access to
// q_tail and to the nodes' m_next / m_going (pointer values are printed as node ids: 0 = null, k+1 = node of
// thread k) / res <tid> <try results> / grant <tids in the order in which they obtained the lock> /
// mon <verdict> / sched <tids> / end
#include <oneapi/tbb/queuing_mutex.h>
#include "hb.h"
#include <cstdio>
#include <cstring>
#include <map>
#include <sstream>
#include <string>
#include <vector>

using QM = tbb::queuing_mutex;
static std::vector<std::vector<std::string>> g_progs;

static bool run_once(verif::Schedule& sch, int run_idx, bool print) {
    QM m;
    size_t T = g_progs.size();
    std::vector<QM::scoped_lock> lk(T);
    int holders = 0; std::string gerr;
    std::vector<int> grant;                  // ghost: order in which threads obtained the lock
    std::vector<std::vector<std::string>> eff(T);
    std::vector<std::vector<int>> res(T);
    verif::clear_names();
    verif::name_addr(&m.q_tail, "tail");
    std::map<uint64_t, int> node_id;
    for (size_t t = 0; t < T; ++t) {
        verif::name_addr(&lk[t].m_next, "next" + std::to_string(t));
        verif::name_addr(&lk[t].m_going, "going" + std::to_string(t));
        verif::name_value((uint64_t)(uintptr_t)&lk[t], std::to_string(t + 1));
        node_id[(uint64_t)(uintptr_t)&lk[t]] = (int)t + 1;
    }
    std::vector<std::function<void()>> bodies;
    for (size_t t = 0; t < T; ++t) bodies.push_back([&, t] {
        bool held = false;
        auto acquired = [&] { if (holders) gerr = "second thread entered the critical section"; holders++; held = true; grant.push_back((int)t); cs_w(); };
        for (auto& op : g_progs[t]) {
            if (op == "acquire" && !held) { eff[t].push_back(op); lk[t].acquire(m); acquired(); }
            else if (op == "try_acquire" && !held) { eff[t].push_back(op); bool b = lk[t].try_acquire(m); res[t].push_back(b); if (b) acquired(); }
            else if (op == "release" && held) { eff[t].push_back(op); cs_w(); holders--; held = false; lk[t].release(); }
        }
        if (held) { eff[t].push_back("release"); cs_w(); holders--; lk[t].release(); }
    });
    verif::Result r = verif::run(bodies, sch);
    // FIFO monitor, read from the trace: threads enter the queue at their successful q_tail exchange / CAS(null -> node);
    // the lock must be granted in exactly that order
    std::vector<int> enq;
    for (auto& e : r.log) if (e.addr == (const void*)&m.q_tail) {
        if (e.kind == verif::K_XCHG) enq.push_back(e.tid);
        else if (e.kind == verif::K_CAS && e.ok && e.a == 0) enq.push_back(e.tid);
    }
    if (gerr.empty() && !r.deadlock) {
        for (size_t i = 0; i < grant.size(); ++i)
            if (i >= enq.size() || enq[i] != grant[i]) { gerr = "lock granted out of queue order (grant #" + std::to_string(i) + " went to thread " + std::to_string(grant[i]) + ")"; break; }
        if (gerr.empty() && grant.size() != enq.size()) gerr = "a queued request was never granted";
    }
    if (gerr.empty()) gerr = cs_hb(r, bodies.size());
    bool ok = gerr.empty() && !r.deadlock;
    if (print || !ok) {
        printf("run %d\n", run_idx);
        for (size_t t = 0; t < T; ++t) { printf("eff %zu", t); for (auto& o : eff[t]) printf(" %s", o.c_str()); printf("\n"); }
        auto val = [&](uint64_t v) -> unsigned long long { auto it = node_id.find(v); return it == node_id.end() ? (unsigned long long)v : (unsigned long long)it->second; };
        for (auto& e : r.log) if (e.addr && e.kind <= verif::K_FXOR) {
            std::string nm = verif::addr_name(e.addr);
            if (nm.compare(0, 4, "anon") == 0) continue;
            printf("e %d %s %s %s %llu %llu %d\n", e.tid, verif::kind_name(e.kind), nm.c_str(), verif::order_name(e.order), val(e.a), val(e.b), e.ok);
        }
        for (size_t t = 0; t < T; ++t) { printf("res %zu", t); for (int v : res[t]) printf(" %d", v); printf("\n"); }
        printf("grant"); for (int g : grant) printf(" %d", g); printf("\n");
        printf("mon %s%s\n", gerr.empty() ? (r.deadlock ? "DEADLOCK" : "ok") : "VIOLATION ", gerr.c_str());
        printf("sched"); for (int s : r.schedule) printf(" %d", s); printf("\nend\n");
        fflush(stdout);
    }
    if (r.deadlock) { fflush(stdout); _exit(3); }
    return ok;
}

int main(int argc, char** argv) {
    if (argc < 3) return 2;
    char line[1024];
    while (fgets(line, sizeof line, stdin)) {
        std::istringstream is(line); std::string w; is >> w;
        if (w != "prog") continue;
        std::vector<std::string> ops; while (is >> w) ops.push_back(w);
        g_progs.push_back(ops);
    }
    std::string mode = argv[1];
    long maxruns = argc > 3 ? atol(argv[3]) : 1;
    long runs = 0, bad = 0;
    if (mode == "rand") {
        unsigned long long seed = strtoull(argv[2], 0, 10);
        for (long i = 0; i < maxruns; ++i) { verif::RandomSchedule s(seed * 7919 + i, 64 + (int)(i % 3) * 64); if (!run_once(s, (int)i, true)) bad++; runs++; }
    } else if (mode == "dfs") {
        verif::DfsSchedule d(atoi(argv[2]));
        do { if (!run_once(d, (int)runs, false)) { bad++; break; } runs++; } while (runs < maxruns && d.next());
    } else if (mode == "replay") {
        verif::ReplaySchedule s; std::stringstream ss(argv[2]); std::string tok;
        while (std::getline(ss, tok, ',')) if (!tok.empty()) s.tids.push_back(atoi(tok.c_str()));
        if (!run_once(s, 0, true)) bad++; runs++;
    }
    printf("summary runs=%ld bad=%ld\n", runs, bad);
    return bad ? 1 : 0;
}
