// Minimal stand-ins for the few exported r1:: entry points that header-only containers reference,
// so that container harnesses link without libtbb (the container logic under test is all in headers).
#include <oneapi/tbb/detail/_exception.h>
#include <oneapi/tbb/detail/_utils.h>
#include <oneapi/tbb/cache_aligned_allocator.h>
#include <oneapi/tbb/tbb_allocator.h>
#include <cstdlib>
#include <cstdio>
#include <new>
#include <stdexcept>

namespace tbb { namespace detail { namespace r1 {
void throw_exception(exception_id eid) {
    switch (eid) {
    case exception_id::bad_alloc: throw std::bad_alloc();
    case exception_id::out_of_range: throw std::out_of_range("out_of_range");
    case exception_id::reservation_length_error: throw std::length_error("reservation_length_error");
    case exception_id::user_abort: throw tbb::detail::r1::user_abort();
    case exception_id::invalid_key: throw std::out_of_range("invalid key");
    default: throw std::runtime_error("tbb exception");
    }
}
void* cache_aligned_allocate(std::size_t size) {
    void* p = nullptr;
    if (posix_memalign(&p, 128, size ? size : 1)) throw std::bad_alloc();
    return p;
}
void cache_aligned_deallocate(void* p) { free(p); }
std::size_t cache_line_size() { return 128; }
void* allocate_memory(std::size_t size) { void* p = malloc(size ? size : 1); if (!p) throw std::bad_alloc(); return p; }
void deallocate_memory(void* p) { free(p); }
bool is_tbbmalloc_used() { return false; }
void assertion_failure(const char* location, int line, const char* expression, const char* comment) {
    fprintf(stderr, "TBB assertion %s failed at %s:%d (%s)\n", expression, location, line, comment ? comment : "");
    abort();
}
}}}
const char* tbb::detail::r1::user_abort::what() const noexcept { return "User-initiated abort has terminated this operation"; }
const char* tbb::detail::r1::bad_last_alloc::what() const noexcept { return "bad allocation in previous or concurrent attempt"; }
const char* tbb::detail::r1::missing_wait::what() const noexcept { return "wait() was not called on the structured_task_group"; }
