// C01 E-SHIM component harness: task proxies mailed to another slot while they also sit in the sender's task pool.
// Thread 0 = owner of an arena slot of the real (instrumented) runtime: plain spawns, affinity spawns (proxy creation
// exactly as task_dispatcher.cpp spawn(t, ctx, id): push into the recipient's mail_outbox, then spawn the proxy into the
// own pool) and get_task.  Thread 1 = recipient: get_mailbox_task loop (mail_inbox::pop + extract_task<mailbox_bit>).
// Threads 2.. = thieves: arena_slot::steal_task + the proxy handling of arena::steal_task (extract_task<pool_bit>).
// r1::deallocate is interposed (-Wl,--wrap): freeing a proxy becomes a note (exactly-once / no-access-after-free monitors).
//
// usage: mail <rand|dfs|replay> <arg> [maxruns]     scenario on stdin:
//   owner m<id>:<iso> s<id>:<iso> g<iso> w<k> ...   recv <iso> w<k> ...   thief <iso> ...   [opt reuse]
//   w<k> = handshake: wait until the other side (owner <-> recipient) has completed k of its operations, so that a
//   scenario can force "the recipient took the mailed task BEFORE the owner walks down to the proxy" (empty proxy);
//   opt reuse = memory of a freed proxy is handed (LIFO, like the small-object pool) to the next task the owner creates.
// Besides the access trace the owner prints, after each of its operations, a white-box snapshot
//   snap <head> <tail> <task ids in task_pool_ptr[head..tail), _ = nullptr>
// (the cells are plain memory: their CONTENT is compared with the model's pool at the same trace position), and the
// implementation-side monitor checks that no cell in [head,tail) points to freed proxy memory / to a task twice.
#include "oneapi/tbb/global_control.h"
#include "oneapi/tbb/task_arena.h"
#include "oneapi/tbb/task_group.h"
#include "tbb/governor.h"
#include "tbb/thread_data.h"
#include "tbb/arena.h"
#include "tbb/arena_slot.h"
#include "tbb/mailbox.h"
#include "tbb/task_dispatcher.h"
#include <cstdio>
#include <map>
#include <set>
#include <sstream>
#include <string>
#include <vector>

using namespace tbb::detail;

struct Tk : d1::task {
    int id = 0;
    d1::task* execute(d1::execution_data&) override { return nullptr; }
    d1::task* cancel(d1::execution_data&) override { return nullptr; }
};

struct OOp { char kind; int id; long iso; };
static std::vector<OOp> g_owner;
struct ROp { bool wait; long v; };
static std::vector<ROp> g_recv;
static bool g_reuse = false, g_sync = false;
static std::atomic<int> g_odone{0}, g_rdone{0};    // completed operations of owner / recipient (handshakes)
static std::vector<void*> g_freelist;               // opt reuse: blocks of freed proxies, LIFO
static std::set<const void*> g_freed_addr;          // blocks of freed proxies not handed out again yet
static const size_t BLOCK = 128;
static std::vector<std::vector<long>> g_thieves;

static r1::arena_slot* g_slot;
static r1::arena* g_arena;
static r1::execution_data_ext* g_ed;

static std::map<const void*, int> g_proxy_of;    // proxy address -> task id it carries
static std::map<int, int> g_free_count;
static std::map<int, int> g_freed_by;

static void note_freed(void* ptr) {
    if (g_freed_addr.insert(ptr).second && g_reuse) g_freelist.push_back(ptr);
}

extern "C" {
void __real__ZN3tbb6detail2r110deallocateERNS0_2d117small_object_poolEPvmRKNS2_14execution_dataE(d1::small_object_pool&, void*, std::size_t, const d1::execution_data&);
void __wrap__ZN3tbb6detail2r110deallocateERNS0_2d117small_object_poolEPvmRKNS2_14execution_dataE(d1::small_object_pool& p, void* ptr, std::size_t n, const d1::execution_data& ed) {
    auto it = g_proxy_of.find(ptr);
    if (it != g_proxy_of.end()) { g_free_count[it->second]++; g_freed_by[it->second] = verif::self(); verif::note("free", (uint64_t)it->second, 0); note_freed(ptr); return; }
    __real__ZN3tbb6detail2r110deallocateERNS0_2d117small_object_poolEPvmRKNS2_14execution_dataE(p, ptr, n, ed);
}
void __real__ZN3tbb6detail2r110deallocateERNS0_2d117small_object_poolEPvm(d1::small_object_pool&, void*, std::size_t);
void __wrap__ZN3tbb6detail2r110deallocateERNS0_2d117small_object_poolEPvm(d1::small_object_pool& p, void* ptr, std::size_t n) {
    auto it = g_proxy_of.find(ptr);
    if (it != g_proxy_of.end()) { g_free_count[it->second]++; g_freed_by[it->second] = verif::self(); verif::note("free", (uint64_t)it->second, 0); note_freed(ptr); return; }
    __real__ZN3tbb6detail2r110deallocateERNS0_2d117small_object_poolEPvm(p, ptr, n);
}
}

static const d1::slot_id RECIPIENT = 1;

static long long canon_pool(uint64_t v, std::map<uint64_t, int>& gens) {
    if (v == 0) return 0;
    if (v == ~uint64_t(0)) return 1;
    auto it = gens.find(v);
    if (it == gens.end()) it = gens.emplace(v, (int)gens.size() + 1).first;
    return 2 + it->second;
}

static bool run_once(verif::Schedule& sch, int run_idx, bool print) {
    size_t NT = g_thieves.size();
    std::vector<Tk*> tasks;
    std::vector<r1::task_proxy*> proxies;            // in creation order
    std::vector<int> proxy_task;                      // task id carried by proxies[i]
    std::map<int, int> executed, spawned;             // task id -> count
    std::vector<std::vector<int>> res(2 + NT);        // owner: get results; recipient: tasks received; thieves: steal results (item ids)
    std::vector<std::vector<int>> xres(2 + NT);       // thieves: outcome of extract (task id or -1) per stolen proxy
    std::vector<long> pops;                           // isolation argument of every internal_pop call of the recipient
    std::vector<int> popped;                          // proxy (task id) returned by each pop, -1 = nullptr
    std::string err;
    std::vector<std::string> snaps;
    std::vector<void*> blocks;                        // every block allocated in this run
    std::map<const void*, int> task_at;               // address of a plain task -> id
    g_proxy_of.clear(); g_free_count.clear(); g_freed_by.clear();
    g_freelist.clear(); g_freed_addr.clear();
    g_odone.a.store(0); g_rdone.a.store(0);
    verif::clear_names();
    g_slot->free_task_pool();
    static_assert(sizeof(Tk) <= BLOCK && sizeof(r1::task_proxy) <= BLOCK, "block size");
    auto fresh_block = [&]() -> void* { void* b = aligned_alloc(BLOCK, BLOCK); blocks.push_back(b); return b; };
    // opt reuse: the next plain task the owner creates gets the block of the most recently freed proxy
    auto task_block = [&]() -> void* {
        if (g_reuse && !g_freelist.empty()) {
            void* b = g_freelist.back(); g_freelist.pop_back();
            g_freed_addr.erase(b); g_proxy_of.erase(b);
            verif::note("reuse", 0, 0);
            return b;
        }
        return fresh_block();
    };
    // white-box snapshot of [head, tail) taken by the owner between two of its operations (it holds the baton: raw reads)
    auto snap = [&](size_t opidx) {
        std::intptr_t H = (std::intptr_t)g_slot->head.a.load(std::memory_order_relaxed), T = (std::intptr_t)g_slot->tail.a.load(std::memory_order_relaxed);
        std::string sn = std::to_string((long)H) + " " + std::to_string((long)T);
        std::map<const void*, int> seen;
        if (g_slot->task_pool_ptr) for (std::intptr_t i = H; i < T; ++i) {
            d1::task* c = i >= 0 ? g_slot->task_pool_ptr[i] : nullptr;
            if (!c) { sn += " _"; continue; }
            int id = -1;
            if (g_proxy_of.count(c)) id = g_proxy_of[c]; else if (task_at.count(c)) id = task_at[c];
            sn += id < 0 ? std::string(" ?") : " " + std::to_string(id);
            std::string where = " (cell " + std::to_string((long)i) + ", head " + std::to_string((long)H) + ", tail " + std::to_string((long)T) + ", after owner op " + std::to_string(opidx) + ")";
            if (g_freed_addr.count(c)) { if (err.empty()) err = "VIOLATION a deque cell in [head,tail) points to the freed proxy of task " + std::to_string(id) + where; }
            else if (id < 0) { if (err.empty()) err = "VIOLATION a deque cell in [head,tail) holds a pointer that is neither a live task nor a live proxy" + where; }
            if (seen[c]++ && err.empty()) err = "VIOLATION task " + std::to_string(id) + " is referenced by two deque cells in [head,tail)" + where;
        }
        snaps.push_back(sn);
        verif::note("snap", snaps.size() - 1, 0);
    };
    r1::mail_outbox& box = g_arena->mailbox(RECIPIENT);
    r1::mail_inbox inbox; inbox.attach(box);
    auto got = [&](int id) { executed[id]++; };
    auto recv_one = [&](long iso, bool record) -> int {
        // task_dispatcher::get_mailbox_task
        for (;;) {
            if (record) pops.push_back(iso);
            r1::task_proxy* tp = inbox.pop((r1::isolation_type)iso);
            if (record) popped.push_back(tp ? g_proxy_of[tp] : -1);
            if (!tp) return -1;
            if (d1::task* r = tp->extract_task<r1::task_proxy::mailbox_bit>()) return static_cast<Tk*>(r)->id;
            tp->allocator.delete_object(tp, *g_ed);
        }
    };
    std::vector<std::function<void()>> bodies;
    bodies.push_back([&] {
        size_t opidx = 0;
        for (auto& op : g_owner) {
            if (op.kind == 'w') {
                while (g_rdone.load(std::memory_order_acquire) < op.id) _mm_pause();
                g_odone.fetch_add(1);
                ++opidx;
                continue;
            }
            if (op.kind == 's' || op.kind == 'm') {
                Tk* t = new (op.kind == 's' ? task_block() : fresh_block()) Tk; t->id = op.id; tasks.push_back(t); task_at[t] = op.id;
                r1::task_accessor::isolation(*t) = (r1::isolation_type)op.iso;
                spawned[op.id]++;
                if (op.kind == 'm') {
                    // task_dispatcher.cpp: spawn(t, ctx, id) with an affinity to another slot
                    d1::small_object_allocator alloc{};
                    r1::task_proxy* proxy = new (fresh_block()) r1::task_proxy;
                    proxies.push_back(proxy); proxy_task.push_back(op.id); g_proxy_of[proxy] = op.id;
                    r1::task_accessor::set_proxy_trait(*proxy);
                    r1::task_accessor::isolation(*proxy) = (r1::isolation_type)op.iso;
                    proxy->allocator = alloc;
                    proxy->slot = RECIPIENT;
                    proxy->outbox = &box;
                    proxy->task_and_tag = intptr_t(t) | r1::task_proxy::location_mask;
                    proxy->outbox->push(proxy);
                    g_slot->spawn(*proxy);
                } else g_slot->spawn(*t);
            } else {
                d1::task* t = nullptr;
                if (g_slot->is_task_pool_published()) t = g_slot->get_task(*g_ed, (r1::isolation_type)op.iso);
                int id = t ? static_cast<Tk*>(t)->id : -1;
                res[0].push_back(id);
                if (t) got(id);
            }
            snap(opidx++);
            if (g_sync) g_odone.fetch_add(1);
        }
    });
    bodies.push_back([&] {
        for (auto& op : g_recv) {
            if (op.wait) { while (g_odone.load(std::memory_order_acquire) < op.v) _mm_pause(); }
            else { int id = recv_one(op.v, true); res[1].push_back(id); if (id >= 0) got(id); }
            if (g_sync) g_rdone.fetch_add(1);
        }
    });
    for (size_t k = 0; k < NT; ++k) bodies.push_back([&, k] {
        for (long iso : g_thieves[k]) {
            d1::task* t = g_slot->steal_task(*g_arena, (r1::isolation_type)iso, 0);
            if (!t) { res[2 + k].push_back(-1); continue; }
            if (r1::task_accessor::is_proxy_task(*t)) {
                // arena::steal_task
                r1::task_proxy& tp = *(r1::task_proxy*)t;
                res[2 + k].push_back(g_proxy_of[&tp]);
                verif::note("xb", 0, 0);
                d1::task* r = tp.extract_task<r1::task_proxy::pool_bit>();
                verif::note("xe", 0, 0);
                if (!r) { tp.allocator.delete_object(&tp, *g_ed); xres[2 + k].push_back(-1); }
                else { int id = static_cast<Tk*>(r)->id; xres[2 + k].push_back(id); got(id); }
            } else { int id = static_cast<Tk*>(t)->id; res[2 + k].push_back(id); got(id); }
        }
    });
    verif::Result r = verif::run(bodies, sch);
    if (r.deadlock) err = "DEADLOCK";
    for (auto& kv : executed) if (kv.second > 1 && err.empty()) err = "VIOLATION task " + std::to_string(kv.first) + " handed out " + std::to_string(kv.second) + " times";
    std::vector<int> drained;
    if (!r.deadlock) {
        for (int guard = 0; guard < 100000 && g_slot->is_task_pool_published(); ++guard) {
            d1::task* t = g_slot->get_task(*g_ed, r1::no_isolation);
            if (t) { int id = static_cast<Tk*>(t)->id; drained.push_back(id); got(id); }
        }
        for (;;) { int id = recv_one(0, false); if (id < 0) break; drained.push_back(id); got(id); }
        for (auto& kv : spawned) {
            int n = executed.count(kv.first) ? executed[kv.first] : 0;
            if (n != 1 && err.empty()) err = "VIOLATION task " + std::to_string(kv.first) + (n == 0 ? " lost" : " handed out " + std::to_string(n) + " times");
        }
        for (int id : proxy_task) if (g_free_count[id] != 1 && err.empty()) err = "VIOLATION proxy of task " + std::to_string(id) + " freed " + std::to_string(g_free_count[id]) + " times";
    }
    // no access to a proxy after it was freed
    std::map<const void*, int> tat_of, next_of;
    for (size_t i = 0; i < proxies.size(); ++i) { tat_of[(const void*)&proxies[i]->task_and_tag] = (int)i; next_of[(const void*)&proxies[i]->next_in_mailbox] = (int)i; }
    {
        std::map<int, bool> freed;
        for (auto& e : r.log) {
            if (e.kind == verif::K_NOTE && e.tag && std::string(e.tag) == "free") freed[(int)e.a] = true;
            else if (e.kind <= verif::K_FXOR) {
                int pi = tat_of.count(e.addr) ? tat_of[e.addr] : next_of.count(e.addr) ? next_of[e.addr] : -1;
                if (pi >= 0 && freed[proxy_task[pi]] && err.empty()) err = "VIOLATION access to the proxy of task " + std::to_string(proxy_task[pi]) + " after it was freed";
            }
        }
    }
    bool ok = err.empty();
    if (print || !ok) {
        printf("run %d\n", run_idx);
        std::map<uint64_t, int> gens;
        const void* ah = (const void*)&g_slot->head; const void* at = (const void*)&g_slot->tail; const void* ap = (const void*)&g_slot->task_pool;
        const void* af = (const void*)&box.my_first; const void* al = (const void*)&box.my_last;
        std::map<uint64_t, int> pidx; for (size_t i = 0; i < proxies.size(); ++i) pidx[(uint64_t)proxies[i]] = (int)i;
        auto pval = [&](uint64_t v) -> long long { return v == 0 ? 0 : pidx.count(v) ? pidx[v] + 1 : -1; };
        auto lval = [&](uint64_t v) -> long long {
            if (v == (uint64_t)af) return 0;
            for (size_t i = 0; i < proxies.size(); ++i) if (v == (uint64_t)&proxies[i]->next_in_mailbox) return (long long)i + 1;
            return -1;
        };
        std::vector<int> inx(2 + NT, 0);
        for (auto& e : r.log) {
            if (e.kind == verif::K_NOTE && e.tag) {
                std::string tg = e.tag;
                if (tg == "xb") inx[e.tid] = 1; else if (tg == "xe") inx[e.tid] = 0; else if (tg == "free") printf("free %d %d\n", e.tid, (int)e.a);
                else if (tg == "snap") printf("snap %s\n", snaps[(size_t)e.a].c_str());
                else if (tg == "reuse") printf("reuse %d\n", e.tid);
                continue;
            }
            if (e.kind > verif::K_FXOR) continue;
            if (e.addr == ah || e.addr == at) {
                long long a = (long long)e.a, b = (long long)e.b;
                if (e.kind == verif::K_LOAD || e.kind == verif::K_STORE) b = 0;
                printf("e %d %s %s %lld %lld %d\n", e.tid, e.addr == ah ? "head" : "tail", verif::kind_name(e.kind), a, b, e.ok);
            } else if (e.addr == ap) {
                long long a = canon_pool(e.a, gens), b = 0;
                if (e.kind == verif::K_CAS) b = canon_pool(e.b, gens);
                printf("e %d pool %s %lld %lld %d\n", e.tid, verif::kind_name(e.kind), a, b, e.ok);
            } else if (tat_of.count(e.addr)) {
                // tat events: `t` = part of extract_task, `l` = another load (steal_task's is_shared check)
                bool extract = e.tid < 2 || inx[e.tid];
                long long a = (long long)(e.a & 3), b = (e.kind == verif::K_CAS) ? (long long)(e.b & 3) : 0;
                printf("%s %d tat%d %s %lld %lld %d\n", extract ? "t" : "l", e.tid, tat_of[e.addr], verif::kind_name(e.kind), a, b, e.ok);
            } else if (e.addr == af) {
                printf("b %d first %s %lld 0 %d\n", e.tid, verif::kind_name(e.kind), pval(e.a), e.ok);
            } else if (e.addr == al) {
                long long a = lval(e.a), b = (e.kind == verif::K_LOAD || e.kind == verif::K_STORE) ? 0 : lval(e.b);
                printf("b %d last %s %lld %lld %d\n", e.tid, verif::kind_name(e.kind), a, b, e.ok);
            } else if (next_of.count(e.addr)) {
                printf("b %d next%d %s %lld 0 %d\n", e.tid, next_of[e.addr], verif::kind_name(e.kind), pval(e.a), e.ok);
            }
        }
        for (size_t t = 0; t < 2 + NT; ++t) { printf("res %zu", t); for (int v : res[t]) printf(" %d", v); printf("\n"); }
        for (size_t t = 2; t < 2 + NT; ++t) { printf("xres %zu", t); for (int v : xres[t]) printf(" %d", v); printf("\n"); }
        printf("proxies"); for (int id : proxy_task) printf(" %d", id); printf("\n");
        printf("pops"); for (long v : pops) printf(" %ld", v); printf("\n");
        printf("popped"); for (int v : popped) printf(" %d", v); printf("\n");
        printf("deadowner"); for (int id : proxy_task) if (g_free_count[id] && g_freed_by[id] == 0) printf(" %d", id); printf("\n");
        printf("drained"); for (int v : drained) printf(" %d", v); printf("\n");
        printf("mon %s\n", ok ? "ok" : err.c_str());
        printf("sched"); for (int s : r.schedule) printf(" %d", s); printf("\nend\n");
        fflush(stdout);
    }
    if (r.deadlock) { fflush(stdout); _exit(3); }
    for (void* b : blocks) free(b);
    return ok;
}

int main(int argc, char** argv) {
    verif::init_determinism(argc, argv);
    if (argc < 3) return 2;
    char line[1 << 16];
    while (fgets(line, sizeof line, stdin)) {
        std::istringstream is(line); std::string w; is >> w;
        if (w == "owner") {
            while (is >> w) {
                OOp op{};
                op.kind = w[0];
                if (w[0] == 's' || w[0] == 'm') sscanf(w.c_str() + 1, "%d:%ld", &op.id, &op.iso);
                else if (w[0] == 'g') op.iso = atol(w.c_str() + 1);
                else if (w[0] == 'w') { op.id = atoi(w.c_str() + 1); g_sync = true; }
                else { printf("bad-op\n"); return 2; }
                g_owner.push_back(op);
            }
        } else if (w == "recv") {
            while (is >> w) {
                if (w[0] == 'w') { g_recv.push_back(ROp{true, atol(w.c_str() + 1)}); g_sync = true; }
                else g_recv.push_back(ROp{false, atol(w.c_str())});
            }
        } else if (w == "opt") { while (is >> w) if (w == "reuse") g_reuse = true; }
        else if (w == "thief") { std::vector<long> v; long x; while (is >> x) v.push_back(x); g_thieves.push_back(v); }
    }
    tbb::global_control gc(tbb::global_control::max_allowed_parallelism, 1);
    tbb::task_scheduler_handle handle{tbb::attach{}};
    std::string mode = argv[1];
    long maxruns = argc > 3 ? atol(argv[3]) : 1;
    long runs = 0, bad = 0;
    tbb::task_arena ta(4, 1);
    ta.execute([&] {
        r1::thread_data* td = r1::governor::get_thread_data();
        g_slot = td->my_arena_slot; g_arena = td->my_arena;
        g_ed = &td->my_task_dispatcher->m_execute_data_ext;
        if (!g_ed->task_disp) g_ed->task_disp = td->my_task_dispatcher;
        g_arena->advertise_new_work<r1::arena::wakeup>();   // one-time transition outside the controlled runs (determinism)
        if (mode == "rand") {
            unsigned long long seed = strtoull(argv[2], 0, 10);
            for (long i = 0; i < maxruns; ++i) { verif::RandomSchedule s(seed * 7919 + i, 32 + (int)(i % 4) * 56); if (!run_once(s, (int)i, true)) bad++; runs++; }
        } else if (mode == "dfs") {
            verif::DfsSchedule d(atoi(argv[2]));
            do { if (!run_once(d, (int)runs, false)) { bad++; break; } runs++; } while (runs < maxruns && d.next());
        } else if (mode == "replay") {
            verif::ReplaySchedule s; std::stringstream ss(argv[2]); std::string tok;
            while (std::getline(ss, tok, ',')) if (!tok.empty()) s.tids.push_back(atoi(tok.c_str()));
            if (!run_once(s, 0, true)) bad++; runs++;
        }
        printf("summary runs=%ld bad=%ld\n", runs, bad);
        fflush(stdout);
        _exit(bad ? 1 : 0);
    });
    return 0;
}
