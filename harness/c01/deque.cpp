// C01 E-SHIM component harness: one arena slot of the real (instrumented) runtime, driven white-box.
// The owner thread calls arena_slot::spawn / get_task, 0-3 other controlled threads call arena_slot::steal_task
// on the same slot.  The runtime is initialised outside the controlled run (the main thread's slot is used), so
// that the controlled part consists of the deque protocol only (bounded-preemption DFS is feasible).
//
// usage: deque <rand|dfs|replay> <arg> [maxruns]     scenario on stdin:
//   owner s<id>:<iso> g<iso> ...      thief <iso> <iso> ...   (one line per thief)
// Per run prints: run <i> / e <tid> <var> <kind> <a> <b> <ok> <memory order> (accesses to head, tail, task_pool word) /
//   f <tid> <order> (a std::atomic_thread_fence executed by a controlled thread; its position is relative to the e lines) /
//   snap <head> <tail> <task ids in task_pool_ptr[head..tail), _ = nullptr>  (white box, after every owner operation; the
//   cells of the array are plain memory, so their CONTENT is compared with the model's pool at the same trace position) /
//   res <tid> <ids, -1 = nullptr> / mon <verdict> / sched <tids> / end
#include "oneapi/tbb/global_control.h"
#include "oneapi/tbb/task_arena.h"
#include "oneapi/tbb/task_group.h"
#include "tbb/governor.h"
#include "tbb/thread_data.h"
#include "tbb/arena.h"
#include "tbb/arena_slot.h"
#include "tbb/task_dispatcher.h"
#include <cstdio>
#include <map>
#include <sstream>
#include <string>
#include <vector>

using namespace tbb::detail;

struct Tk : d1::task {
    int id = 0;
    d1::task* execute(d1::execution_data&) override { return nullptr; }
    d1::task* cancel(d1::execution_data&) override { return nullptr; }
};

struct OOp { bool spawn; int id; long iso; };
static std::vector<OOp> g_owner;
static std::vector<std::vector<long>> g_thieves;

static r1::arena_slot* g_slot;
static r1::arena* g_arena;
static r1::execution_data_ext* g_ed;

static long long canon_pool(uint64_t v, std::map<uint64_t, int>& gens) {
    if (v == 0) return 0;
    if (v == ~uint64_t(0)) return 1;
    auto it = gens.find(v);
    if (it == gens.end()) it = gens.emplace(v, (int)gens.size() + 1).first;
    return 2 + it->second;
}

static bool run_once(verif::Schedule& sch, int run_idx, bool print) {
    size_t NT = g_thieves.size();
    std::vector<Tk*> tasks;
    std::map<int, int> returned;          // id -> how many times handed out
    std::map<int, int> spawned;
    std::vector<std::vector<int>> res(1 + NT);
    std::string err;
    std::vector<std::string> snaps;
    std::map<const void*, int> id_of;     // task address -> id
    verif::clear_names();
    g_slot->free_task_pool();             // every run starts without an array (growth happens in every run)
    // white-box snapshot of [head, tail) taken by the owner between two of its operations (it holds the baton: raw reads)
    auto snap = [&](size_t opidx) {
        std::intptr_t H = (std::intptr_t)g_slot->head.a.load(std::memory_order_relaxed), T = (std::intptr_t)g_slot->tail.a.load(std::memory_order_relaxed);
        std::string sn = std::to_string((long)H) + " " + std::to_string((long)T);
        std::map<const void*, int> seen;
        if (g_slot->task_pool_ptr) for (std::intptr_t i = H; i < T; ++i) {
            d1::task* c = i >= 0 ? g_slot->task_pool_ptr[i] : nullptr;
            if (!c) { sn += " _"; continue; }
            auto it = id_of.find(c);
            if (it == id_of.end()) { sn += " ?"; if (err.empty()) err = "VIOLATION deque cell " + std::to_string((long)i) + " in [head,tail) holds a pointer that is not a spawned task (after owner op " + std::to_string(opidx) + ")"; continue; }
            sn += " " + std::to_string(it->second);
            if (seen[c]++ && err.empty()) err = "VIOLATION task " + std::to_string(it->second) + " is referenced by two deque cells in [head,tail) (after owner op " + std::to_string(opidx) + ")";
            if (returned.count(it->second) && err.empty()) err = "VIOLATION deque cell in [head,tail) still refers to task " + std::to_string(it->second) + " which was already handed out (after owner op " + std::to_string(opidx) + ")";
        }
        snaps.push_back(sn);
        verif::note("snap", snaps.size() - 1, 0);
    };
    std::vector<std::function<void()>> bodies;
    bodies.push_back([&] {
        size_t opidx = 0;
        for (auto& op : g_owner) {
            if (op.spawn) {
                Tk* t = new Tk; t->id = op.id; tasks.push_back(t); id_of[t] = op.id;
                r1::task_accessor::isolation(*t) = (r1::isolation_type)op.iso;
                spawned[op.id]++;
                g_slot->spawn(*t);
            } else {
                d1::task* t = nullptr;
                if (g_slot->is_task_pool_published()) t = g_slot->get_task(*g_ed, (r1::isolation_type)op.iso);
                int id = t ? static_cast<Tk*>(t)->id : -1;
                res[0].push_back(id);
                if (t) returned[id]++;
            }
            snap(opidx++);
        }
    });
    for (size_t k = 0; k < NT; ++k) bodies.push_back([&, k] {
        for (long iso : g_thieves[k]) {
            d1::task* t = g_slot->steal_task(*g_arena, (r1::isolation_type)iso, 0);
            int id = t ? static_cast<Tk*>(t)->id : -1;
            res[1 + k].push_back(id);
            if (t) returned[id]++;
        }
    });
    verif::Result r = verif::run(bodies, sch);
    if (r.deadlock) err = "DEADLOCK";
    // monitors (implementation side, independent of the model)
    for (auto& kv : returned) {
        if (kv.second > 1 && err.empty()) err = "VIOLATION task " + std::to_string(kv.first) + " handed out " + std::to_string(kv.second) + " times";
        if (!spawned.count(kv.first) && err.empty()) err = "VIOLATION task " + std::to_string(kv.first) + " handed out but never spawned";
    }
    std::vector<int> drained;
    if (!r.deadlock) {
        // drain what is left (uncontrolled): afterwards every spawned task must have been handed out exactly once
        for (int guard = 0; guard < 100000 && g_slot->is_task_pool_published(); ++guard) {
            d1::task* t = g_slot->get_task(*g_ed, r1::no_isolation);
            if (t) { int id = static_cast<Tk*>(t)->id; drained.push_back(id); returned[id]++; }
        }
        if (g_slot->is_task_pool_published() && err.empty()) err = "VIOLATION pool does not drain";
        for (auto& kv : spawned) {
            int n = returned.count(kv.first) ? returned[kv.first] : 0;
            if (n != 1 && err.empty()) err = "VIOLATION task " + std::to_string(kv.first) + (n == 0 ? " lost" : " handed out " + std::to_string(n) + " times");
        }
    }
    bool ok = err.empty();
    if (print || !ok) {
        printf("run %d\n", run_idx);
        std::map<uint64_t, int> gens;
        const void* ah = (const void*)&g_slot->head; const void* at = (const void*)&g_slot->tail; const void* ap = (const void*)&g_slot->task_pool;
        for (auto& e : r.log) {
            if (e.kind == verif::K_NOTE && e.tag && std::string(e.tag) == "snap") { printf("snap %s\n", snaps[(size_t)e.a].c_str()); continue; }
            if (e.kind == verif::K_FENCE) { printf("f %d %s\n", e.tid, verif::order_name(e.order)); continue; }
            if (e.kind > verif::K_FXOR) continue;
            if (e.addr == ah || e.addr == at) {
                long long a = (long long)e.a, b = (long long)e.b;
                if (e.kind == verif::K_LOAD || e.kind == verif::K_STORE) b = 0;
                printf("e %d %s %s %lld %lld %d %s\n", e.tid, e.addr == ah ? "head" : "tail", verif::kind_name(e.kind), a, b, e.ok, verif::order_name(e.order));
            } else if (e.addr == ap) {
                long long a = canon_pool(e.a, gens), b = 0;
                if (e.kind == verif::K_CAS) b = canon_pool(e.b, gens);
                printf("e %d pool %s %lld %lld %d %s\n", e.tid, verif::kind_name(e.kind), a, b, e.ok, verif::order_name(e.order));
            }
        }
        for (size_t t = 0; t <= NT; ++t) { printf("res %zu", t); for (int v : res[t]) printf(" %d", v); printf("\n"); }
        printf("drained"); for (int v : drained) printf(" %d", v); printf("\n");
        printf("mon %s\n", ok ? "ok" : err.c_str());
        printf("sched"); for (int s : r.schedule) printf(" %d", s); printf("\nend\n");
        fflush(stdout);
    }
    if (r.deadlock) { fflush(stdout); _exit(3); }
    for (Tk* t : tasks) delete t;
    return ok;
}

int main(int argc, char** argv) {
    verif::init_determinism(argc, argv);
    if (argc < 3) return 2;
    char line[1 << 16];
    while (fgets(line, sizeof line, stdin)) {
        std::istringstream is(line); std::string w; is >> w;
        if (w == "owner") {
            while (is >> w) {
                OOp op{};
                if (w[0] == 's') { op.spawn = true; sscanf(w.c_str() + 1, "%d:%ld", &op.id, &op.iso); }
                else if (w[0] == 'g') { op.spawn = false; op.iso = atol(w.c_str() + 1); }
                else { printf("bad-op\n"); return 2; }
                g_owner.push_back(op);
            }
        } else if (w == "thief") {
            std::vector<long> v; long x; while (is >> x) v.push_back(x);
            g_thieves.push_back(v);
        }
    }
    tbb::global_control gc(tbb::global_control::max_allowed_parallelism, 1);
    tbb::task_scheduler_handle handle{tbb::attach{}};
    r1::thread_data* td = r1::governor::get_thread_data();
    g_slot = td->my_arena_slot; g_arena = td->my_arena;
    g_ed = &td->my_task_dispatcher->m_execute_data_ext;
    if (!g_ed->task_disp) g_ed->task_disp = td->my_task_dispatcher;
    if (!g_slot || !g_arena) { printf("no slot\n"); return 2; }
    // every controlled run must execute the same code for the same schedule (DFS replays prefixes): take the arena's
    // one-time "work advertised" transition now, outside the controlled runs
    g_arena->advertise_new_work<r1::arena::wakeup>();

    std::string mode = argv[1];
    long maxruns = argc > 3 ? atol(argv[3]) : 1;
    long runs = 0, bad = 0;
    if (mode == "rand") {
        unsigned long long seed = strtoull(argv[2], 0, 10);
        for (long i = 0; i < maxruns; ++i) { verif::RandomSchedule s(seed * 7919 + i, 32 + (int)(i % 4) * 56); if (!run_once(s, (int)i, true)) bad++; runs++; }
    } else if (mode == "dfs") {
        verif::DfsSchedule d(atoi(argv[2]));
        do { if (!run_once(d, (int)runs, false)) { bad++; break; } runs++; } while (runs < maxruns && d.next());
    } else if (mode == "replay") {
        verif::ReplaySchedule s; std::stringstream ss(argv[2]); std::string tok;
        while (std::getline(ss, tok, ',')) if (!tok.empty()) s.tids.push_back(atoi(tok.c_str()));
        if (!run_once(s, 0, true)) bad++; runs++;
    }
    printf("summary runs=%ld bad=%ld\n", runs, bad);
    fflush(stdout);
    _exit(bad ? 1 : 0);     // skip runtime shutdown (nothing was submitted to the scheduler itself)
}
