// C01 E-SHIM component harness for the wait tree: (a) algorithm join tree (node / tree_node / wait_node, fold_tree),
// (b) wait_context_vertex + per-thread reference_vertex.  Real header code of /repo, linked against the instrumented
// runtime; r1::deallocate and r1::notify_waiters are interposed (-Wl,--wrap) so that node deletion and waiter
// notification become observable notes instead of touching a thread-local pool / arena.
//
// usage: wt <rand|dfs|replay> <arg> [maxruns]      scenario on stdin, one of
//   tree <par[0] par[1] ...> | <leaf[0] leaf[1] ...>     (node 0 = wait_node; par[j] < j; one controlled thread per leaf)
//   prog <r|t<k>|f|w> ...                                (one line per thread: run / take k-th pending / finish / wait)
// Per run prints: run / e <tid> <var> <kind> <a> <b> <ok> / res / x ... / mon / sched / end
#include "oneapi/tbb/detail/_task.h"
#include "oneapi/tbb/partitioner.h"
#include <cstdio>
#include <map>
#include <sstream>
#include <string>
#include <vector>

using namespace tbb::detail;

static std::map<const void*, int> g_node_of;     // tree_node address -> index (for the deallocate hook)
static std::vector<int> g_free_count;
static int g_notify = 0;
static long long g_notify_counter_value = -1;
static std::atomic<std::uint64_t>* g_watch = nullptr;   // the wait counter whose value is sampled at notify time

extern "C" {
void __real__ZN3tbb6detail2r110deallocateERNS0_2d117small_object_poolEPvmRKNS2_14execution_dataE(d1::small_object_pool&, void*, std::size_t, const d1::execution_data&);
void __wrap__ZN3tbb6detail2r110deallocateERNS0_2d117small_object_poolEPvmRKNS2_14execution_dataE(d1::small_object_pool& p, void* ptr, std::size_t n, const d1::execution_data& ed) {
    auto it = g_node_of.find(ptr);
    if (it != g_node_of.end()) { g_free_count[it->second]++; verif::note("free", (uint64_t)it->second, 0); return; }
    __real__ZN3tbb6detail2r110deallocateERNS0_2d117small_object_poolEPvmRKNS2_14execution_dataE(p, ptr, n, ed);
}
void __real__ZN3tbb6detail2r114notify_waitersEm(std::uintptr_t);
void __wrap__ZN3tbb6detail2r114notify_waitersEm(std::uintptr_t a) {
    if (verif::controlled()) {
        g_notify++;
        if (g_watch) g_notify_counter_value = (long long)reinterpret_cast<std::atomic<std::uint64_t>*>(g_watch)->a.load();
        verif::note("notify", 0, 0);
        return;
    }
    __real__ZN3tbb6detail2r114notify_waitersEm(a);
}
}

static std::vector<int> g_par, g_leaf;
static std::vector<std::vector<std::string>> g_progs;
static std::atomic<int> g_take{0};

struct NodeBuf { alignas(64) unsigned char b[sizeof(d1::tree_node)]; };

static void print_common(const verif::Result& r, const std::string& err) {
    printf("mon %s\n", err.empty() ? "ok" : err.c_str());
    printf("sched"); for (int s : r.schedule) printf(" %d", s); printf("\nend\n");
    fflush(stdout);
}

static bool run_fold(verif::Schedule& sch, int run_idx, bool print) {
    size_t N = g_par.size(), L = g_leaf.size();
    d1::wait_node root;
    std::vector<NodeBuf> bufs(N);
    std::vector<d1::node*> nodes(N);
    std::vector<int> nch(N, 0);
    for (size_t j = 1; j < N; ++j) nch[g_par[j]]++;
    for (size_t i = 0; i < L; ++i) nch[g_leaf[i]]++;
    nodes[0] = &root;
    g_node_of.clear(); g_free_count.assign(N, 0); g_notify = 0; g_notify_counter_value = -1;
    g_watch = reinterpret_cast<std::atomic<std::uint64_t>*>(&root.m_wait.m_ref_count);
    d1::small_object_allocator alloc{};
    for (size_t j = 1; j < N; ++j) {
        nodes[j] = new (bufs[j].b) d1::tree_node(nodes[g_par[j]], nch[j], alloc);
        g_node_of[nodes[j]] = (int)j;
    }
    verif::clear_names();
    d1::execution_data ed{};
    std::vector<std::function<void()>> bodies;
    for (size_t i = 0; i < L; ++i) bodies.push_back([&, i] { d1::fold_tree<d1::tree_node>(nodes[g_leaf[i]], ed); });
    verif::Result r = verif::run(bodies, sch);
    std::string err;
    if (r.deadlock) err = "DEADLOCK";
    // monitors
    std::map<const void*, int> ref_idx;
    for (size_t j = 0; j < N; ++j) ref_idx[(const void*)&nodes[j]->m_ref_count] = (int)j;
    const void* wa = (const void*)&root.m_wait.m_ref_count;
    std::vector<bool> freed(N, false), started(L, false);
    int releases = 0; size_t nstarted = 0;
    for (auto& e : r.log) {
        if (e.kind == verif::K_NOTE && e.tag && std::string(e.tag) == "free") freed[e.a] = true;
        else if (e.kind <= verif::K_FXOR && ref_idx.count(e.addr)) {
            int j = ref_idx[e.addr];
            if (freed[j] && err.empty()) err = "VIOLATION access to tree node " + std::to_string(j) + " after it was deleted";
            if (!started[e.tid]) { started[e.tid] = true; nstarted++; }
        } else if (e.kind <= verif::K_FXOR && e.addr == wa) {
            releases++;
            if (nstarted != L && err.empty()) err = "VIOLATION wait node released before the last leaf's decrement (" + std::to_string(nstarted) + " of " + std::to_string(L) + " leaves arrived)";
        }
    }
    if (!r.deadlock) {
        if (releases != 1 && err.empty()) err = "VIOLATION wait node released " + std::to_string(releases) + " times";
        if (root.m_wait.m_ref_count.a.load() != 0 && err.empty()) err = "VIOLATION wait counter is " + std::to_string((long long)root.m_wait.m_ref_count.a.load()) + " after all leaves finished";
        if (g_notify != 1 && err.empty()) err = "VIOLATION waiters notified " + std::to_string(g_notify) + " times";
        if (g_notify_counter_value != 0 && err.empty()) err = "VIOLATION waiters notified while the wait counter was " + std::to_string(g_notify_counter_value);
        for (size_t j = 1; j < N; ++j) if (g_free_count[j] != 1 && err.empty()) err = "VIOLATION tree node " + std::to_string(j) + " deleted " + std::to_string(g_free_count[j]) + " times";
    }
    bool ok = err.empty();
    if (print || !ok) {
        printf("run %d\n", run_idx);
        for (auto& e : r.log) {
            if (e.kind > verif::K_FXOR) continue;
            if (ref_idx.count(e.addr)) printf("e %d ref%d %s %d %d %d\n", e.tid, ref_idx[e.addr], verif::kind_name(e.kind), (int)(int32_t)e.a, (int)(int32_t)e.b, e.ok);
            else if (e.addr == wa) printf("e %d wait %s %lld %lld %d\n", e.tid, verif::kind_name(e.kind), (long long)e.a, (long long)e.b, e.ok);
        }
        printf("final %lld %d %d\n", (long long)root.m_wait.m_ref_count.a.load(), releases, g_notify);
        print_common(r, err);
    }
    if (r.deadlock) { fflush(stdout); _exit(3); }
    g_watch = nullptr;
    return ok;
}

static bool run_vertex(verif::Schedule& sch, int run_idx, bool print) {
    size_t T = g_progs.size();
    d1::wait_context_vertex root(0);
    std::vector<d1::reference_vertex*> vs;
    for (size_t k = 0; k < T; ++k) vs.push_back(new d1::reference_vertex(&root, 0));
    std::vector<int> pending;
    std::vector<int> live(T, 0);            // ghost: units created on vertex k that have not finished
    int live_total = 0;
    std::vector<int> waits(T, 0);
    std::string err;
    g_notify = 0; g_notify_counter_value = -1;
    g_watch = reinterpret_cast<std::atomic<std::uint64_t>*>(&root.m_wait.m_ref_count);
    verif::clear_names();
    std::vector<std::function<void()>> bodies;
    for (size_t k = 0; k < T; ++k) bodies.push_back([&, k] {
        std::vector<int> held;
        for (auto& op : g_progs[k]) {
            if (op == "r") {
                if (k != 0 && held.empty()) continue;        // outside the reserve discipline: never issued
                live[k]++; live_total++;                      // ghost first: the unit exists from the reserve on
                vs[k]->reserve();
                pending.push_back((int)k);
            } else if (op[0] == 't') {
                size_t i = (size_t)atoi(op.c_str() + 1);
                (void)g_take.load();
                if (i < pending.size()) { held.insert(held.begin(), pending[i]); pending.erase(pending.begin() + i); }
            } else if (op == "f") {
                if (held.empty()) continue;
                int v = held.front(); held.erase(held.begin());
                vs[v]->release();
                live[v]--; live_total--;                      // ghost last
            } else if (op == "w") {
                while (root.continue_execution()) {
                    (void)g_take.load();
                    if (!pending.empty()) {                   // like the dispatcher: execute a unit of the group while waiting
                        int v = pending.front(); pending.erase(pending.begin());
                        vs[v]->release();
                        live[v]--; live_total--;
                    } else _mm_pause();
                }
                // the property: the wait returned => every unit of the group has finished
                if (live_total != 0 && err.empty()) err = "VIOLATION wait returned while " + std::to_string(live_total) + " units of the group were unfinished";
                waits[k]++;
            }
        }
    });
    verif::Result r = verif::run(bodies, sch);
    // a thread spinning in `w` forever because others never finish is a scenario artefact, not a lost wake-up:
    // the generator makes every run/finish balanced, so a deadlock here is reported
    if (r.deadlock && err.empty()) err = "DEADLOCK";
    std::map<const void*, int> vidx;
    for (size_t k = 0; k < T; ++k) vidx[(const void*)&vs[k]->m_ref_count] = (int)k;
    const void* ra = (const void*)&root.m_wait.m_ref_count;
    bool ok = err.empty();
    if (print || !ok) {
        printf("run %d\n", run_idx);
        for (auto& e : r.log) {
            if (e.kind > verif::K_FXOR) continue;
            if (vidx.count(e.addr)) printf("e %d v%d %s %lld %lld %d\n", e.tid, vidx[e.addr], verif::kind_name(e.kind), (long long)e.a, e.kind == verif::K_LOAD ? 0LL : (long long)e.b, e.ok);
            else if (e.addr == ra) printf("e %d root %s %lld %lld %d\n", e.tid, verif::kind_name(e.kind), (long long)e.a, e.kind == verif::K_LOAD ? 0LL : (long long)e.b, e.ok);
            else if (e.addr == (const void*)&g_take) printf("e %d take load 0 0 1\n", e.tid);
        }
        printf("final %lld %d", (long long)root.m_wait.m_ref_count.a.load(), g_notify);
        for (size_t k = 0; k < T; ++k) printf(" %d", waits[k]);
        printf("\n");
        print_common(r, err);
    }
    if (r.deadlock) { fflush(stdout); _exit(3); }
    for (auto* v : vs) delete v;
    g_watch = nullptr;
    return ok;
}

int main(int argc, char** argv) {
    verif::init_determinism(argc, argv);
    if (argc < 3) return 2;
    char line[1 << 16];
    bool fold = false;
    while (fgets(line, sizeof line, stdin)) {
        std::istringstream is(line); std::string w; is >> w;
        if (w == "tree") {
            fold = true; bool leafs = false;
            while (is >> w) { if (w == "|") { leafs = true; continue; } (leafs ? g_leaf : g_par).push_back(atoi(w.c_str())); }
        } else if (w == "prog") {
            std::vector<std::string> ops; while (is >> w) ops.push_back(w);
            g_progs.push_back(ops);
        }
    }
    auto once = [&](verif::Schedule& s, int i, bool p) { return fold ? run_fold(s, i, p) : run_vertex(s, i, p); };
    std::string mode = argv[1];
    long maxruns = argc > 3 ? atol(argv[3]) : 1;
    long runs = 0, bad = 0;
    if (mode == "rand") {
        unsigned long long seed = strtoull(argv[2], 0, 10);
        for (long i = 0; i < maxruns; ++i) { verif::RandomSchedule s(seed * 7919 + i, 32 + (int)(i % 4) * 56); if (!once(s, (int)i, true)) bad++; runs++; }
    } else if (mode == "dfs") {
        verif::DfsSchedule d(atoi(argv[2]));
        do { if (!once(d, (int)runs, false)) { bad++; break; } runs++; } while (runs < maxruns && d.next());
    } else if (mode == "replay") {
        verif::ReplaySchedule s; std::stringstream ss(argv[2]); std::string tok;
        while (std::getline(ss, tok, ',')) if (!tok.empty()) s.tids.push_back(atoi(tok.c_str()));
        if (!once(s, 0, true)) bad++; runs++;
    }
    printf("summary runs=%ld bad=%ld\n", runs, bad);
    fflush(stdout);
    _exit(bad ? 1 : 0);
}
