// C01 E-GEN: constants of the current tree the Lean models / theorems refer to (printed as JSON).
#include "tbb/arena_slot.h"
#include "tbb/mailbox.h"
#include "oneapi/tbb/partitioner.h"
#include <cstdio>
using namespace tbb::detail;
int main() {
    d1::wait_node wn;
    printf("{\"minTaskPoolSize\": %zu, \"poolGranule\": %zu, \"proxyPoolBit\": %ld, \"proxyMailboxBit\": %ld, \"proxyLocationMask\": %ld, "
           "\"emptyTaskPool\": %zu, \"lockedTaskPoolIsAllOnes\": %d, \"waitNodeRef\": %d, \"waitNodeWait\": %llu}\n",
           (size_t)r1::arena_slot::min_task_pool_size, (size_t)(max_nfs_size / sizeof(d1::task*)),
           (long)r1::task_proxy::pool_bit, (long)r1::task_proxy::mailbox_bit, (long)r1::task_proxy::location_mask,
           (size_t)r1::EmptyTaskPool, (int)(r1::LockedTaskPool == reinterpret_cast<d1::task**>(~std::intptr_t(0))),
           wn.m_ref_count.load(), (unsigned long long)wn.m_wait.m_ref_count.load());
    return 0;
}
