// C01 E-SHIM end-to-end harness: small task programs on the WHOLE instrumented runtime (every src/tbb/*.cpp compiled
// with the shim), each run = initialise the runtime, run the program, finalise, all inside one controlled run under a
// seeded random schedule.  Implementation-side monitors, independent of the Lean models:
//   * per-unit execution counter == 1 (<= 1, and group status `canceled`, when the group was cancelled);
//   * "wait returned => every unit submitted to the group (transitively) has finished" — ghost flags read right
//     after the wait returns;
//   * HAPPENS-BEFORE (harness/shim/verif_hb.h): the submitter's initialisation of a unit, the unit's body and the waiter's read after the
//     wait are ghost accesses of the unit's cell; they must be ordered by happens-before as computed from the memory orders the runtime
//     passes to its atomic accesses ("a unit sees what was written before it was submitted", "the waiter then sees all of their writes");
//   * no deadlock (every live thread parked) and no step-limit overrun;
//   * task memory (r1::allocate / r1::deallocate are interposed with -Wl,--wrap, the real pool still does the work):
//     no small object is freed twice, and whenever a thread allocates or frees a small object no cell in [head, tail) of
//     its own task pool points to freed task memory (a stale cell would be handed the next task the thread creates).
// usage: e2e <program> <P = max_allowed_parallelism / arena size> <size> <rand seed nruns | replayf file>
#include "oneapi/tbb/global_control.h"
#include "oneapi/tbb/task_arena.h"
#include "oneapi/tbb/task_group.h"
#include "oneapi/tbb/parallel_for.h"
#include "oneapi/tbb/partitioner.h"
#include "oneapi/tbb/blocked_range.h"
#include "tbb/governor.h"
#include "tbb/thread_data.h"
#include "tbb/arena_slot.h"
#include "verif_hb.h"
#include <cstdio>
#include <memory>
#include <set>
#include <thread>
#include <fstream>
#include <sstream>
#include <string>
#include <vector>

static std::string g_prog;
static int g_P = 2, g_size = 4;

struct Mon {
    std::vector<int> exec, started, finished;
    std::string err;
    int next = 0;
    int fresh() { exec.push_back(0); started.push_back(0); finished.push_back(0); verif::note("gw", (uint64_t)next); return next++; }   // the submitter initialises the unit
    void begin(int id) { started[id]++; exec[id]++; verif::note("gw", (uint64_t)id); }
    void end(int id) { finished[id]++; verif::note("gw", (uint64_t)id); }
    void fail(const std::string& m) { if (err.empty()) err = m; }
    // called right after a wait returned: every unit in [lo, hi) must have run exactly once and be finished
    void covered(int lo, int hi, const char* what, bool cancelled = false) {
        for (int i = lo; i < hi; ++i) {
            verif::note("gr", (uint64_t)i);                                // the waiter reads what the unit wrote
            if (exec[i] > 1) fail(std::string("VIOLATION unit ") + std::to_string(i) + " of " + what + " executed " + std::to_string(exec[i]) + " times");
            else if (started[i] != finished[i]) fail(std::string("VIOLATION ") + what + " returned while unit " + std::to_string(i) + " was still running");
            else if (exec[i] == 0 && !cancelled) fail(std::string("VIOLATION ") + what + " returned but unit " + std::to_string(i) + " never ran (lost)");
        }
    }
};
static Mon* M;

// ---- task memory monitor ------------------------------------------------------------------------------------
static std::set<const void*> g_freed;     // small objects given back to a pool and not handed out again (one controlled thread runs at a time)
static bool g_mem_on = false;
static void scan_own_pool(const char* when) {
    using namespace tbb::detail;
    r1::thread_data* td = r1::governor::get_thread_data_if_initialized();
    if (!td || !td->my_arena_slot || !M) return;
    r1::arena_slot* sl = td->my_arena_slot;
    if (!sl->task_pool_ptr) return;
    std::intptr_t H = (std::intptr_t)sl->head.a.load(std::memory_order_relaxed), T = (std::intptr_t)sl->tail.a.load(std::memory_order_relaxed);
    if (T > (std::intptr_t)sl->my_task_pool_size) return;
    for (std::intptr_t i = H < 0 ? 0 : H; i < T; ++i) {
        const void* c = sl->task_pool_ptr[i];
        if (c && g_freed.count(c))
            M->fail(std::string("VIOLATION a cell in [head,tail) of a thread's task pool points to freed task memory (cell ") + std::to_string((long)(i - H)) +
                    " above head, " + std::to_string((long)(T - H)) + " cells, seen at " + when + ")");
    }
}
extern "C" {
void* __real__ZN3tbb6detail2r18allocateERPNS0_2d117small_object_poolEmRKNS2_14execution_dataE(tbb::detail::d1::small_object_pool*&, std::size_t, const tbb::detail::d1::execution_data&);
void* __wrap__ZN3tbb6detail2r18allocateERPNS0_2d117small_object_poolEmRKNS2_14execution_dataE(tbb::detail::d1::small_object_pool*& a, std::size_t n, const tbb::detail::d1::execution_data& ed) {
    void* p = __real__ZN3tbb6detail2r18allocateERPNS0_2d117small_object_poolEmRKNS2_14execution_dataE(a, n, ed);
    if (g_mem_on) { g_freed.erase(p); scan_own_pool("allocate"); }
    return p;
}
void* __real__ZN3tbb6detail2r18allocateERPNS0_2d117small_object_poolEm(tbb::detail::d1::small_object_pool*&, std::size_t);
void* __wrap__ZN3tbb6detail2r18allocateERPNS0_2d117small_object_poolEm(tbb::detail::d1::small_object_pool*& a, std::size_t n) {
    void* p = __real__ZN3tbb6detail2r18allocateERPNS0_2d117small_object_poolEm(a, n);
    if (g_mem_on) { g_freed.erase(p); scan_own_pool("allocate"); }
    return p;
}
static bool note_free(void* ptr) {      // false: do not forward (second free of the same object)
    if (!g_mem_on) return true;
    if (g_freed.count(ptr)) { if (M) M->fail("VIOLATION a task object (small object) was freed twice"); return false; }
    scan_own_pool("deallocate");
    g_freed.insert(ptr);
    return true;
}
void __real__ZN3tbb6detail2r110deallocateERNS0_2d117small_object_poolEPvmRKNS2_14execution_dataE(tbb::detail::d1::small_object_pool&, void*, std::size_t, const tbb::detail::d1::execution_data&);
void __wrap__ZN3tbb6detail2r110deallocateERNS0_2d117small_object_poolEPvmRKNS2_14execution_dataE(tbb::detail::d1::small_object_pool& p, void* ptr, std::size_t n, const tbb::detail::d1::execution_data& ed) {
    if (note_free(ptr)) __real__ZN3tbb6detail2r110deallocateERNS0_2d117small_object_poolEPvmRKNS2_14execution_dataE(p, ptr, n, ed);
}
void __real__ZN3tbb6detail2r110deallocateERNS0_2d117small_object_poolEPvm(tbb::detail::d1::small_object_pool&, void*, std::size_t);
void __wrap__ZN3tbb6detail2r110deallocateERNS0_2d117small_object_poolEPvm(tbb::detail::d1::small_object_pool& p, void* ptr, std::size_t n) {
    if (note_free(ptr)) __real__ZN3tbb6detail2r110deallocateERNS0_2d117small_object_poolEPvm(p, ptr, n);
}
}

struct Unit {      // body of one task_group unit
    int id;
    void operator()() const { M->begin(id); M->end(id); }
};

// ---- programs -------------------------------------------------------------------------------------------
static void prog_tg_nested() {
    // nested task_groups: outer units each run an inner group and wait for it
    tbb::task_group g;
    int lo = M->next;
    std::vector<int> ids;
    for (int i = 0; i < g_size; ++i) ids.push_back(M->fresh());
    for (int i = 0; i < g_size; ++i) {
        int id = ids[i];
        g.run([id] {
            M->begin(id);
            tbb::task_group in;
            int a = M->fresh(), b = M->fresh();
            in.run(Unit{a});
            in.run(Unit{b});
            in.wait();
            M->covered(a, a + 1, "inner task_group::wait"); M->covered(b, b + 1, "inner task_group::wait");
            M->end(id);
        });
    }
    g.wait();
    M->covered(lo, M->next, "task_group::wait");
}

static void spawn_tree(tbb::task_group& g, int depth) {
    int id = M->fresh();
    g.run([&g, id, depth] {
        M->begin(id);
        if (depth > 0) { spawn_tree(g, depth - 1); spawn_tree(g, depth - 1); }
        M->end(id);
    });
}
static void prog_tg_tree() {
    // tasks that submit tasks to the same group while the main thread is already waiting (transitive coverage)
    tbb::task_group g;
    int lo = M->next;
    spawn_tree(g, g_size > 3 ? 3 : g_size);
    g.wait();
    M->covered(lo, M->next, "task_group::wait");
    // second phase on the same group: run_and_wait
    int lo2 = M->next;
    int a = M->fresh();
    spawn_tree(g, 1);
    g.run_and_wait(Unit{a});
    M->covered(lo2, M->next, "task_group::run_and_wait");
}

static void prog_pfor_affinity() {
    // parallel_for with affinity_partitioner, twice: the second pass replays the recorded affinities (mailed proxies)
    tbb::affinity_partitioner ap;
    int n = 8 * g_size;
    for (int pass = 0; pass < 2; ++pass) {
        int lo = M->next;
        for (int i = 0; i < n; ++i) M->fresh();
        tbb::parallel_for(tbb::blocked_range<int>(0, n, 1), [lo](const tbb::blocked_range<int>& r) {
            for (int i = r.begin(); i != r.end(); ++i) { M->begin(lo + i); M->end(lo + i); }
        }, ap);
        M->covered(lo, lo + n, "parallel_for(affinity_partitioner)");
    }
}

static void prog_isolate() {
    // isolation: a nested parallel_for inside this_task_arena::isolate, next to unrelated outer tasks
    tbb::task_group g;
    int lo = M->next;
    for (int i = 0; i < g_size; ++i) g.run(Unit{M->fresh()});
    int inner_lo = 0, n = 4 * g_size;
    tbb::this_task_arena::isolate([&] {
        inner_lo = M->next;
        for (int i = 0; i < n; ++i) M->fresh();
        int base = inner_lo;
        tbb::parallel_for(tbb::blocked_range<int>(0, n, 1), [base](const tbb::blocked_range<int>& r) {
            for (int i = r.begin(); i != r.end(); ++i) { M->begin(base + i); M->end(base + i); }
        }, tbb::simple_partitioner{});
        M->covered(inner_lo, inner_lo + n, "isolated parallel_for");
    });
    g.wait();
    M->covered(lo, M->next, "task_group::wait");
}

// Mailed chunks under isolation: a parallel_for with static_partitioner / affinity_partitioner (chunks mailed to other
// slots: proxy in the spawner's task pool AND in the recipient's mailbox) runs inside this_task_arena::isolate; the chunk
// bodies spawn tasks of a FOREIGN isolation (nested isolate + task_group::run, not waited for there) on top of the
// proxies in the calling thread's pool, and the calling thread's first chunk waits until another thread has started a
// chunk, so that the owner's isolated wait walks down past skipped foreign tasks to proxies that may already be empty.
// Afterwards more tasks are created (they get recycled task memory) and the foreign group is waited for.
static std::atomic<int> g_started_elsewhere{0};
template <class Part>
static void iso_mail_pass(Part& part, tbb::task_group& foreign, std::vector<int>& foreign_ids, int n, int nforeign, std::thread::id main_id) {
    int lo = M->next;
    for (int i = 0; i < n; ++i) M->fresh();
    g_started_elsewhere.store(0);
    std::atomic<int> first{0};
    tbb::parallel_for(tbb::blocked_range<int>(0, n, 1), [&, lo](const tbb::blocked_range<int>& r) {
        bool on_main = std::this_thread::get_id() == main_id;
        if (!on_main) g_started_elsewhere.fetch_add(1);
        for (int i = r.begin(); i != r.end(); ++i) { M->begin(lo + i); M->end(lo + i); }
        if (on_main && first.fetch_add(1) < 2) {
            for (int k = 0; k < nforeign; ++k) {
                int z = M->fresh(); foreign_ids.push_back(z);
                tbb::this_task_arena::isolate([&] { foreign.run(Unit{z}); });      // another isolation, on top of the pool, no wait
            }
            if (g_P > 1) for (int spins = 0; g_started_elsewhere.load() == 0 && spins < 2000; ++spins) _mm_pause();
        }
    }, part);
    M->covered(lo, lo + n, "isolated parallel_for with mailed chunks");
}
template <class Part>
static void prog_iso_mail(bool two_pass_first) {
    std::thread::id main_id = std::this_thread::get_id();
    tbb::task_group foreign, own;
    std::vector<int> foreign_ids;
    int own_lo = 0, own_hi = 0;
    tbb::this_task_arena::isolate([&] {
        Part part;
        int n = 2 * g_P + (g_size % 3);
        if (two_pass_first) iso_mail_pass(part, foreign, foreign_ids, n, 0, main_id);      // records the affinities
        iso_mail_pass(part, foreign, foreign_ids, n, 1 + g_size % 2, main_id);
        // more work created by the same thread afterwards: recycled task memory
        own_lo = M->next;
        for (int i = 0; i < 2 + g_size; ++i) own.run(Unit{M->fresh()});
        own_hi = M->next;
        own.wait();
        M->covered(own_lo, own_hi, "task_group::wait (isolated)");
        iso_mail_pass(part, foreign, foreign_ids, n, g_size % 2, main_id);
    });
    foreign.wait();
    for (int z : foreign_ids) M->covered(z, z + 1, "task_group::wait (tasks of a foreign isolation)");
}

static void prog_enqueue() {
    // task_arena::enqueue (fifo stream) vs spawn: units of one group submitted both ways; arena.execute waits
    tbb::task_arena a(g_P);
    tbb::task_group g;
    int lo = M->next;
    for (int i = 0; i < g_size; ++i) {
        int id = M->fresh();
        if (i % 2 == 0) a.enqueue(g.defer(Unit{id}));
        else a.execute([&g, id] { g.run(Unit{id}); });
    }
    a.execute([&g] { g.wait(); });
    M->covered(lo, M->next, "task_arena::execute(task_group::wait)");
}

static void prog_cancel() {
    // a unit cancels its group: every unit runs at most once, the wait still covers all of them
    tbb::task_group g;
    int lo = M->next;
    std::vector<int> ids;
    for (int i = 0; i < 2 * g_size; ++i) ids.push_back(M->fresh());
    for (int i = 0; i < 2 * g_size; ++i) {
        int id = ids[i];
        if (i == 1) g.run([&g, id] { M->begin(id); g.cancel(); M->end(id); });
        else g.run(Unit{id});
    }
    tbb::task_group_status st = g.wait();
    bool all = true;
    for (int i = lo; i < M->next; ++i) if (M->exec[i] != 1) all = false;
    if (!all && st != tbb::canceled) M->fail("VIOLATION a unit was skipped although the group reports it was not cancelled");
    M->covered(lo, M->next, "task_group::wait (cancelled group)", true);
}

static void external_body(int who) {
    // an additional external thread: joins an explicit arena (possibly full: oversubscription) and runs its own group
    tbb::task_arena a(g_P > 1 ? g_P - 1 : 1);
    a.execute([&] {
        tbb::task_group g;
        std::vector<int> ids;
        for (int i = 0; i < g_size; ++i) { int id = M->fresh(); ids.push_back(id); g.run(Unit{id}); }
        g.wait();
        for (int id : ids) M->covered(id, id + 1, "task_group::wait in an oversubscribed arena");
    });
    (void)who;
}

static std::atomic<int> g_ext_done{0};

// "reserved": an arena with TWO slots reserved for external threads.  Thread 0 sits in slot 0; a second external thread enters (slot 1, a reserved
// slot above 0), submits units from there and leaves without running or waiting for them; thread 0 (and workers, if P allows any) must find
// them in the pool of the vacated slot: "no matter which thread finally takes it ... or a thread that entered the arena later"
static tbb::task_arena* g_shared_arena = nullptr;
static tbb::task_group* g_shared_tg = nullptr;
static std::atomic<int> g_stage{0};
static int g_res_lo = 0, g_res_hi = 0;
// "reentrant": user code that runs at a SUBMISSION point uses the scheduler itself: the functor's copy constructor (called by task_group::run while
// the task is being built) creates and waits for many other task_groups on the same thread (more than a thousand live wait contexts).  The unit
// submitted by the outer run() is still covered by the outer wait.
static bool g_armed = false;
static std::vector<std::unique_ptr<tbb::task_group>> g_keep;
static void touch_many_groups(int n) {
    for (int i = 0; i < n; ++i) {
        g_keep.emplace_back(new tbb::task_group);
        g_keep.back()->run([] {});
        g_keep.back()->wait();
    }
}
struct ReWork {
    int id;
    explicit ReWork(int i) : id(i) {}
    ReWork(const ReWork& o) : id(o.id) { if (g_armed) { g_armed = false; touch_many_groups(1200); } }
    void operator()() const { M->begin(id); M->end(id); }
};
static void prog_reentrant() {
    for (int round = 0; round < 2; ++round) {
        tbb::task_group tg;
        int id = M->fresh();
        ReWork w(id);
        g_armed = true;
        if (round == 0) tg.run(w);
        else { tbb::task_handle h = tg.defer(w); tg.run(std::move(h)); }
        tg.wait();
        M->covered(id, id + 1, "task_group::wait after a submission whose functor copy used other task_groups");
        g_keep.clear();
    }
}

static void prog_reserved_main() {
    tbb::task_arena a(g_P > 2 ? g_P : 2, 2);
    a.initialize();
    tbb::task_group tg;
    g_shared_arena = &a; g_shared_tg = &tg;
    a.execute([&] {
        g_stage.store(1);
        while (g_stage.load() < 2) _mm_pause();            // the producer has submitted from its slot and left the arena
        tg.wait();
        M->covered(g_res_lo, g_res_hi, "task_group::wait by a thread that did not submit the units (submitted from another reserved slot, submitter gone)");
    });
    g_shared_arena = nullptr; g_shared_tg = nullptr;
}
static void reserved_producer() {
    while (g_stage.load() < 1) _mm_pause();
    g_shared_arena->execute([&] {
        g_res_lo = M->next;
        for (int i = 0; i < 2 * g_size + 2; ++i) g_shared_tg->run(Unit{M->fresh()});
        g_res_hi = M->next;
    });
    g_stage.store(2);
}

static bool run_once(verif::Schedule& sch, int run_idx, bool print_ok) {
    Mon mon; M = &mon;
    g_freed.clear(); g_mem_on = true;
    g_ext_done.a.store(0);
    int nextra = (g_prog == "oversub") ? 2 : (g_prog == "reserved") ? 1 : 0;
    g_stage.a.store(0);
    std::vector<std::function<void()>> bodies;
    bodies.push_back([&] {
        tbb::global_control gc(tbb::global_control::max_allowed_parallelism, (size_t)g_P);
        tbb::task_scheduler_handle h{tbb::attach{}};
        if (g_prog == "tg_nested") prog_tg_nested();
        else if (g_prog == "tg_tree") prog_tg_tree();
        else if (g_prog == "pfor_affinity") prog_pfor_affinity();
        else if (g_prog == "isolate") prog_isolate();
        else if (g_prog == "iso_static") prog_iso_mail<tbb::static_partitioner>(false);
        else if (g_prog == "iso_affinity") prog_iso_mail<tbb::affinity_partitioner>(true);
        else if (g_prog == "enqueue") prog_enqueue();
        else if (g_prog == "cancel") prog_cancel();
        else if (g_prog == "oversub") external_body(0);
        else if (g_prog == "reserved") prog_reserved_main();
        else if (g_prog == "reentrant") prog_reentrant();
        while (g_ext_done.load() < nextra) _mm_pause();
        tbb::finalize(h);
    });
    for (int k = 0; k < nextra; ++k) bodies.push_back([&, k] {
        if (g_prog == "reserved") reserved_producer(); else external_body(1 + k);
        tbb::detail::r1::governor::terminate_external_thread();
        g_ext_done.fetch_add(1);
    });
    verif::Result r = verif::run(bodies, sch, 4000000);
    g_mem_on = false;
    std::string err = mon.err;
    if (r.deadlock && err.empty()) err = "DEADLOCK (every live thread parked, or step limit)";
    if (!r.deadlock) for (int i = 0; i < mon.next; ++i) if (mon.exec[i] > 1 && err.empty()) err = "VIOLATION unit " + std::to_string(i) + " executed " + std::to_string(mon.exec[i]) + " times";
    verif::HbStats hbst;
    if (!r.deadlock && err.empty()) {
        auto races = verif::hb_check(r.log, bodies.size(), &hbst);
        if (!races.empty()) err = "VIOLATION " + verif::hb_describe(r.log, races[0]) + " [" + verif::format_event(r.log[races[0].first]) + " | " + verif::format_event(r.log[races[0].second]) + "]";
    }
    bool ok = err.empty();
    if (print_ok || !ok) {
        printf("run %d\n", run_idx);
        printf("units %d steps %zu threads %d\n", mon.next, r.steps, 1 + [&] { int mx = 0; for (int s : r.schedule) if (s > mx) mx = s; return mx; }());
        printf("hb ghost=%zu sync=%zu\n", hbst.ghost, hbst.sync_edges);
        printf("mon %s\n", ok ? "ok" : err.c_str());
        if (!ok) { printf("sched"); for (int s : r.schedule) printf(" %d", s); printf("\n"); }
        printf("end\n");
        fflush(stdout);
    }
    if (r.deadlock) { fflush(stdout); _exit(3); }
    return ok;
}

int main(int argc, char** argv) {
    verif::init_determinism(argc, argv);
    verif::report_crashes();       // a fault inside a controlled run prints `CRASH signal=<n> tid=<t>` + the schedule so far, exit code 4
    if (argc < 6) return 2;
    g_prog = argv[1]; g_P = atoi(argv[2]); g_size = atoi(argv[3]);
    std::string mode = argv[4];
    long runs = 0, bad = 0;
    if (mode == "rand") {
        unsigned long long seed = strtoull(argv[5], 0, 10);
        long n = argc > 6 ? atol(argv[6]) : 1;
        for (long i = 0; i < n; ++i) { verif::RandomSchedule s(seed * 7919 + i, 16 + (int)(i % 5) * 48); if (!run_once(s, (int)i, true)) bad++; runs++; }
    } else if (mode == "randat") {       // exactly the i-th schedule of `rand <seed> ...` (re-run of a run that crashed)
        unsigned long long seed = strtoull(argv[5], 0, 10);
        long i = argc > 6 ? atol(argv[6]) : 0;
        verif::RandomSchedule s(seed * 7919 + i, 16 + (int)(i % 5) * 48); if (!run_once(s, (int)i, true)) bad++; runs++;
    } else if (mode == "replayf") {
        verif::ReplaySchedule s; std::ifstream f(argv[5]); int t; while (f >> t) s.tids.push_back(t);
        if (!run_once(s, 0, true)) bad++; runs++;
    }
    printf("summary runs=%ld bad=%ld\n", runs, bad);
    fflush(stdout);
    _exit(bad ? 1 : 0);
}
