// C01 E-SHIM end-to-end harness WITH A TASK-LEVEL EVENT LOG: small task programs on the WHOLE instrumented runtime (every
// src/tbb/*.cpp compiled with the shim) under seeded random schedules.  Besides the implementation-side monitors of
// e2e.cpp (per-unit execution counters, "wait returned => group finished", no deadlock) every run prints the sequence of
// task-level events, in the exact order in which they happened (one controlled thread runs at a time):
//
//   A <arena> <nslots>                         an arena seen for the first time (address -> small id)
//   ent <tid> <arena> <slot> / lev <tid> <arena> <slot>     arena_slot::my_is_occupied acquired / released (from the
//                                              ATOMIC-ACCESS trace: exchange(true) that read false / store(true) / store(false))
//   cw <ctx> <value>                           a write to task_group_context::my_cancellation_requested (access trace)
//   grp <tid> <gid> <wc>                       a group (wait_context wc) is created by thread tid   (harness level)
//   sub <tid> <uid> <gid> <ctx> <iso> spawn | mail <dst slot> <pid> | stream <arena> <kind> | direct | byp | respawn
//                                              r1::spawn / r1::spawn(…, slot) / r1::enqueue / r1::submit / r1::execute_and_wait
//                                              are interposed with -Wl,--wrap; a mailed task is recognised by the task_proxy
//                                              the real spawn allocates (r1::allocate interposed)
//   exec <tid> <uid> <original_slot> <0|1>     the dispatcher called execute() (0) / cancel() (1) of the unit; original_slot
//                                              is what the runtime itself put into execution_data (65534 = from the mailbox)
//   fin <tid> <uid>                            that call returned
//   pfree <tid> <pid>                          a task_proxy was freed (r1::deallocate interposed)
//   zero <tid> <wc>                            r1::notify_waiters(wc): the wait_context's counter reached 0
//   wb <tid> <gid|-1> <iso> <wc> / we <tid>    r1::wait / r1::execute_and_wait entered / returned
//
// How units are observed without touching /repo: the interposed entry points hand the scheduler a WRAPPER task (a plain
// d1::task whose execute()/cancel() logs and then calls the original task's execute()/cancel() with the same
// execution_data); the scheduler code under test is unchanged and treats the wrapper like any task.
//
// usage: disp <program> <P> <size> <rand seed nruns | replayf file>
#include "oneapi/tbb/global_control.h"
#include "oneapi/tbb/task_arena.h"
#include "oneapi/tbb/task_group.h"
#include "oneapi/tbb/parallel_for.h"
#include "oneapi/tbb/partitioner.h"
#include "oneapi/tbb/blocked_range.h"
#include "tbb/governor.h"
#include "tbb/thread_data.h"
#include "tbb/arena.h"
#include "tbb/arena_slot.h"
#include "tbb/mailbox.h"
#include "tbb/task_dispatcher.h"
#include <cstdio>
#include <cstdarg>
#include <map>
#include <set>
#include <fstream>
#include <sstream>
#include <string>
#include <vector>

using namespace tbb::detail;

static std::string g_prog;
static int g_P = 2, g_size = 4;

// ---- monitors (as in e2e.cpp) ---------------------------------------------------------------------------------
struct Mon {
    std::vector<int> exec, started, finished;
    std::string err;
    int next = 0;
    int fresh() { exec.push_back(0); started.push_back(0); finished.push_back(0); return next++; }
    void begin(int id) { started[id]++; exec[id]++; }
    void end(int id) { finished[id]++; }
    void fail(const std::string& m) { if (err.empty()) err = m; }
    void covered(int lo, int hi, const char* what, bool cancelled = false) {
        for (int i = lo; i < hi; ++i) {
            if (exec[i] > 1) fail(std::string("VIOLATION unit ") + std::to_string(i) + " of " + what + " executed " + std::to_string(exec[i]) + " times");
            else if (started[i] != finished[i]) fail(std::string("VIOLATION ") + what + " returned while unit " + std::to_string(i) + " was still running");
            else if (exec[i] == 0 && !cancelled) fail(std::string("VIOLATION ") + what + " returned but unit " + std::to_string(i) + " never ran (lost)");
        }
    }
};
static Mon* M;

// ---- event log ----------------------------------------------------------------------------------------------------
static std::vector<std::string> g_lines;
static bool g_on = false;
static void emit(const char* fmt, ...) {
    if (!g_on || !verif::controlled()) return;
    char buf[256];
    va_list ap; va_start(ap, fmt); vsnprintf(buf, sizeof buf, fmt, ap); va_end(ap);
    g_lines.push_back(buf);
    verif::note("dp", g_lines.size() - 1, 0);
}

struct Tl {                        // per controlled thread
    std::vector<int> exec_uid, exec_gid;
    int next_gid = -1;             // group of the next submitted unit (harness-level override), else inherited
    int wait_gid = -1;             // group of the next wait
    bool in_aff = false;           // inside r1::spawn(t, ctx, slot)
    const void* aff_proxy = nullptr; int aff_pid = -1;
};
static std::map<int, Tl> g_tl;
static Tl& me() { return g_tl[verif::self()]; }

static int g_next_uid = 0, g_next_gid = 0, g_next_pid = 0;
static std::set<const void*> g_wraps;                 // live wrapper tasks
static std::map<const void*, int> g_proxy_id;         // live task_proxy -> pid
struct ArenaRec { int id; int nslots; };
static std::map<const void*, ArenaRec> g_arenas;
static std::map<const void*, std::pair<int, int>> g_occ_addr;   // &slot.my_is_occupied -> (arena id, slot)
static std::set<const void*> g_ctx_flag;              // &ctx.my_cancellation_requested of every context seen

static r1::thread_data* tdata() { return r1::governor::get_thread_data_if_initialized(); }

static int see_arena(r1::arena* a) {
    auto it = g_arenas.find(a);
    if (it != g_arenas.end()) return it->second.id;
    int id = (int)g_arenas.size();
    g_arenas[a] = ArenaRec{id, (int)a->my_num_slots};
    for (unsigned k = 0; k < a->my_num_slots; ++k) g_occ_addr[(const void*)&a->my_slots[k].my_is_occupied] = {id, (int)k};
    emit("A %d %d", id, (int)a->my_num_slots);
    return id;
}
static void see_ctx(d1::task_group_context& c) { g_ctx_flag.insert((const void*)&c.my_cancellation_requested); }

static int new_group(const void* wc) {
    int g = g_next_gid++;
    if (tdata() && tdata()->my_arena) see_arena(tdata()->my_arena);
    emit("grp %d %d %p", verif::self(), g, wc);
    return g;
}

// ---- the wrapper task ------------------------------------------------------------------------------------------------
struct Wrap;
static Wrap* make_wrap(d1::task& t, int gid);
struct Wrap : d1::task {
    d1::task* inner; int uid, gid;
    d1::task* run(d1::execution_data& ed, bool cancelled) {
        r1::execution_data_ext& e = static_cast<r1::execution_data_ext&>(ed);
        Tl& tl = me();
        if (tdata() && tdata()->my_arena) see_arena(tdata()->my_arena);
        emit("exec %d %d %u %d", verif::self(), uid, (unsigned)e.original_slot, cancelled ? 1 : 0);
        tl.exec_uid.push_back(uid); tl.exec_gid.push_back(gid);
        int saved = tl.next_gid; tl.next_gid = -1;
        r1::task_accessor::context(*inner) = r1::task_accessor::context(*this);
        r1::task_accessor::isolation(*inner) = r1::task_accessor::isolation(*this);
        d1::task* r = cancelled ? inner->cancel(ed) : inner->execute(ed);
        Tl& tl2 = me();
        tl2.next_gid = saved;
        d1::task* out = nullptr;
        if (r) {
            // a task returned by execute(): runs next on this thread (bypass)
            if (g_wraps.count(r)) out = r;
            else {
                Wrap* w = make_wrap(*r, gid);
                r1::task_accessor::context(*w) = e.context;
                r1::task_accessor::isolation(*w) = r1::task_accessor::isolation(*r);
                emit("sub %d %d %d %p %p byp", verif::self(), w->uid, gid, (void*)e.context, (void*)r1::task_accessor::isolation(*r));
                if (e.context) see_ctx(*e.context);
                out = w;
            }
        }
        tl2.exec_uid.pop_back(); tl2.exec_gid.pop_back();
        emit("fin %d %d", verif::self(), uid);
        g_wraps.erase(this);
        delete this;
        return out;
    }
    d1::task* execute(d1::execution_data& ed) override { return run(ed, false); }
    d1::task* cancel(d1::execution_data& ed) override { return run(ed, true); }
};
static Wrap* make_wrap(d1::task& t, int gid) {
    Wrap* w = new Wrap; w->inner = &t; w->uid = g_next_uid++; w->gid = gid;
    g_wraps.insert(w);
    return w;
}
static int gid_for_submit() {
    Tl& tl = me();
    if (tl.next_gid >= 0) return tl.next_gid;
    if (!tl.exec_gid.empty()) return tl.exec_gid.back();
    return -1;
}
static uintptr_t cur_iso() {
    r1::thread_data* td = tdata();
    return td && td->my_task_dispatcher ? (uintptr_t)td->my_task_dispatcher->m_execute_data_ext.isolation : 0;
}

// ---- interposed entry points (-Wl,--wrap) -----------------------------------------------------------------------------
extern "C" {
#define SPAWN2 _ZN3tbb6detail2r15spawnERNS0_2d14taskERNS2_18task_group_contextE
#define SPAWN3 _ZN3tbb6detail2r15spawnERNS0_2d14taskERNS2_18task_group_contextEt
#define SUBMIT _ZN3tbb6detail2r16submitERNS0_2d14taskERNS2_18task_group_contextEPNS1_5arenaEm
#define ENQ2 _ZN3tbb6detail2r17enqueueERNS0_2d14taskEPNS2_15task_arena_baseE
#define ENQ3 _ZN3tbb6detail2r17enqueueERNS0_2d14taskERNS2_18task_group_contextEPNS2_15task_arena_baseE
#define EAW _ZN3tbb6detail2r116execute_and_waitERNS0_2d14taskERNS2_18task_group_contextERNS2_12wait_contextES6_
#define WAIT _ZN3tbb6detail2r14waitERNS0_2d112wait_contextERNS2_18task_group_contextE
#define NOTIFY _ZN3tbb6detail2r114notify_waitersEm
#define ALLOC_ED _ZN3tbb6detail2r18allocateERPNS0_2d117small_object_poolEmRKNS2_14execution_dataE
#define ALLOC _ZN3tbb6detail2r18allocateERPNS0_2d117small_object_poolEm
#define DEALLOC_ED _ZN3tbb6detail2r110deallocateERNS0_2d117small_object_poolEPvmRKNS2_14execution_dataE
#define DEALLOC _ZN3tbb6detail2r110deallocateERNS0_2d117small_object_poolEPvm
#define REAL_(x) __real_##x
#define WRAP_(x) __wrap_##x
#define REAL(x) REAL_(x)
#define WRAPF(x) WRAP_(x)

void REAL(SPAWN2)(d1::task&, d1::task_group_context&);
void WRAPF(SPAWN2)(d1::task& t, d1::task_group_context& ctx) {
    if (!g_on || !verif::controlled()) return REAL(SPAWN2)(t, ctx);
    if (g_wraps.count(&t)) {        // the dispatcher re-spawns a displaced bypass task (get_critical_task)
        emit("sub %d %d %d %p %p respawn", verif::self(), static_cast<Wrap&>(t).uid, static_cast<Wrap&>(t).gid, (void*)&ctx, (void*)cur_iso());
        return REAL(SPAWN2)(t, ctx);
    }
    see_arena(tdata()->my_arena); see_ctx(ctx);
    Wrap* w = make_wrap(t, gid_for_submit());
    emit("sub %d %d %d %p %p spawn", verif::self(), w->uid, w->gid, (void*)&ctx, (void*)cur_iso());
    REAL(SPAWN2)(*w, ctx);
}
void REAL(SPAWN3)(d1::task&, d1::task_group_context&, d1::slot_id);
void WRAPF(SPAWN3)(d1::task& t, d1::task_group_context& ctx, d1::slot_id id) {
    if (!g_on || !verif::controlled() || g_wraps.count(&t)) return REAL(SPAWN3)(t, ctx, id);
    see_arena(tdata()->my_arena); see_ctx(ctx);
    Wrap* w = make_wrap(t, gid_for_submit());
    // whether the task is mailed is decided by the real code: it is iff the real spawn allocates a task_proxy
    Tl& tl = me();
    tl.in_aff = true; tl.aff_proxy = nullptr;
    size_t mark = g_lines.size();
    g_lines.push_back("");                      // the `sub` line is filled in after the real call, but logged HERE
    verif::note("dp", mark, 0);
    int self = verif::self(); void* iso = (void*)cur_iso();
    REAL(SPAWN3)(*w, ctx, id);
    Tl& tl2 = me();
    tl2.in_aff = false;
    char buf[256];
    if (tl2.aff_proxy) {
        int pid = tl2.aff_pid;
        snprintf(buf, sizeof buf, "sub %d %d %d %p %p mail %u %d", self, w->uid, w->gid, (void*)&ctx, iso, (unsigned)id, pid);
    } else snprintf(buf, sizeof buf, "sub %d %d %d %p %p spawn", self, w->uid, w->gid, (void*)&ctx, iso);
    g_lines[mark] = buf;
}
void REAL(SUBMIT)(d1::task&, d1::task_group_context&, r1::arena*, std::uintptr_t);
void WRAPF(SUBMIT)(d1::task& t, d1::task_group_context& ctx, r1::arena* a, std::uintptr_t crit) {
    if (!g_on || !verif::controlled() || g_wraps.count(&t)) return REAL(SUBMIT)(t, ctx, a, crit);
    int aid = see_arena(a); see_ctx(ctx);
    Wrap* w = make_wrap(t, gid_for_submit());
    bool attached = tdata()->is_attached_to(a);
    if (crit) emit("sub %d %d %d %p %p stream %d 2", verif::self(), w->uid, w->gid, (void*)&ctx, (void*)cur_iso(), aid);
    else if (attached) emit("sub %d %d %d %p %p spawn", verif::self(), w->uid, w->gid, (void*)&ctx, (void*)cur_iso());
    else emit("sub %d %d %d %p %p stream %d 1", verif::self(), w->uid, w->gid, (void*)&ctx, (void*)cur_iso(), aid);
    REAL(SUBMIT)(*w, ctx, a, crit);
}
static r1::arena* arena_of(d1::task_arena_base* ta) { return ta ? ta->my_arena.load(std::memory_order_relaxed) : tdata()->my_arena; }
void REAL(ENQ2)(d1::task&, d1::task_arena_base*);
void WRAPF(ENQ2)(d1::task& t, d1::task_arena_base* ta) {
    if (!g_on || !verif::controlled() || g_wraps.count(&t)) return REAL(ENQ2)(t, ta);
    r1::arena* a = arena_of(ta);
    int aid = see_arena(a); see_ctx(*a->my_default_ctx);
    Wrap* w = make_wrap(t, gid_for_submit());
    emit("sub %d %d %d %p %p stream %d 1", verif::self(), w->uid, w->gid, (void*)a->my_default_ctx, (void*)0, aid);
    REAL(ENQ2)(*w, ta);
}
void REAL(ENQ3)(d1::task&, d1::task_group_context&, d1::task_arena_base*);
void WRAPF(ENQ3)(d1::task& t, d1::task_group_context& ctx, d1::task_arena_base* ta) {
    if (!g_on || !verif::controlled() || g_wraps.count(&t)) return REAL(ENQ3)(t, ctx, ta);
    r1::arena* a = arena_of(ta);
    int aid = see_arena(a); see_ctx(ctx);
    Wrap* w = make_wrap(t, gid_for_submit());
    emit("sub %d %d %d %p %p stream %d 1", verif::self(), w->uid, w->gid, (void*)&ctx, (void*)0, aid);
    REAL(ENQ3)(*w, ctx, ta);
}
void REAL(EAW)(d1::task&, d1::task_group_context&, d1::wait_context&, d1::task_group_context&);
void WRAPF(EAW)(d1::task& t, d1::task_group_context& tctx, d1::wait_context& wc, d1::task_group_context& wctx) {
    if (!g_on || !verif::controlled()) return REAL(EAW)(t, tctx, wc, wctx);
    see_arena(tdata()->my_arena); see_ctx(tctx);
    Tl& tl = me();
    int wg = tl.wait_gid; tl.wait_gid = -1;
    Wrap* w = make_wrap(t, gid_for_submit());
    emit("sub %d %d %d %p %p direct", verif::self(), w->uid, w->gid, (void*)&tctx, (void*)cur_iso());
    emit("wb %d %d %p %p", verif::self(), wg, (void*)cur_iso(), (void*)&wc);
    REAL(EAW)(*w, tctx, wc, wctx);
    emit("we %d", verif::self());
}
void REAL(WAIT)(d1::wait_context&, d1::task_group_context&);
void WRAPF(WAIT)(d1::wait_context& wc, d1::task_group_context& ctx) {
    if (!g_on || !verif::controlled()) return REAL(WAIT)(wc, ctx);
    see_arena(tdata()->my_arena);
    Tl& tl = me();
    int wg = tl.wait_gid; tl.wait_gid = -1;
    emit("wb %d %d %p %p", verif::self(), wg, (void*)cur_iso(), (void*)&wc);
    REAL(WAIT)(wc, ctx);
    emit("we %d", verif::self());
}
void REAL(NOTIFY)(std::uintptr_t);
void WRAPF(NOTIFY)(std::uintptr_t wc) {
    emit("zero %d %p", verif::self(), (void*)wc);
    REAL(NOTIFY)(wc);
}
void* REAL(ALLOC_ED)(d1::small_object_pool*&, std::size_t, const d1::execution_data&);
static void note_proxy_alloc(void* p, std::size_t n) {
    if (!g_on || !verif::controlled()) return;
    Tl& tl = me();
    if (!tl.in_aff || n != sizeof(r1::task_proxy)) return;
    tl.aff_proxy = p; tl.aff_pid = g_next_pid++;
    g_proxy_id[p] = tl.aff_pid;
    // from here on accesses to this address are accesses to task_and_tag of proxy `pid` (the block may be a re-used one)
    verif::note("pa", (uint64_t)tl.aff_pid, (uint64_t)(uintptr_t)&static_cast<r1::task_proxy*>(p)->task_and_tag);
}
void* WRAPF(ALLOC_ED)(d1::small_object_pool*& a, std::size_t n, const d1::execution_data& ed) {
    void* p = REAL(ALLOC_ED)(a, n, ed);
    note_proxy_alloc(p, n);
    return p;
}
void* REAL(ALLOC)(d1::small_object_pool*&, std::size_t);
void* WRAPF(ALLOC)(d1::small_object_pool*& a, std::size_t n) {
    void* p = REAL(ALLOC)(a, n);
    note_proxy_alloc(p, n);
    return p;
}
static void note_free(void* ptr) {
    if (!g_on || !verif::controlled()) return;
    auto it = g_proxy_id.find(ptr);
    if (it == g_proxy_id.end()) return;
    emit("pfree %d %d", verif::self(), it->second);
    g_proxy_id.erase(it);
}
void REAL(DEALLOC_ED)(d1::small_object_pool&, void*, std::size_t, const d1::execution_data&);
void WRAPF(DEALLOC_ED)(d1::small_object_pool& p, void* ptr, std::size_t n, const d1::execution_data& ed) { note_free(ptr); REAL(DEALLOC_ED)(p, ptr, n, ed); }
void REAL(DEALLOC)(d1::small_object_pool&, void*, std::size_t);
void WRAPF(DEALLOC)(d1::small_object_pool& p, void* ptr, std::size_t n) { note_free(ptr); REAL(DEALLOC)(p, ptr, n); }
}

// ---- annotated groups -------------------------------------------------------------------------------------------------
struct G {                              // a tbb::task_group; one model group per wait phase
    tbb::task_group tg; int gid;
    const void* wc() { return (const void*)&tg.m_wait_vertex.m_wait; }
    G() { gid = new_group(wc()); }
    template <class F> void run(F f) { Tl& tl = me(); int s = tl.next_gid; tl.next_gid = gid; tg.run(std::move(f)); me().next_gid = s; }
    template <class F> tbb::task_handle defer(F f) { return tg.defer(std::move(f)); }
    tbb::task_group_status wait() {
        me().wait_gid = gid;
        tbb::task_group_status st = tg.wait();
        gid = new_group(wc());
        return st;
    }
    template <class F> void run_and_wait(F f) {
        Tl& tl = me(); int s = tl.next_gid; tl.next_gid = gid; tl.wait_gid = gid;
        tg.run_and_wait(std::move(f));
        me().next_gid = s;
        gid = new_group(wc());
    }
};
struct AlgScope {                       // a parallel algorithm call: root task + wait, children inherit the group
    int gid, saved;
    AlgScope() { gid = new_group(nullptr); Tl& tl = me(); saved = tl.next_gid; tl.next_gid = gid; tl.wait_gid = gid; }
    ~AlgScope() { me().next_gid = saved; }
};
struct GidScope {                       // submissions of this thread go to group `gid`
    int saved;
    explicit GidScope(int gid) { Tl& tl = me(); saved = tl.next_gid; tl.next_gid = gid; }
    ~GidScope() { me().next_gid = saved; }
};

// task_arena::execute with annotations: who called, who ran the body (another thread when the call was delegated)
static int g_next_did = 0;
template <class F> static void arena_execute(tbb::task_arena& a, F body) {
    int did = g_next_did++;
    r1::arena* ar = a.my_arena.load(std::memory_order_relaxed);
    emit("dcall %d %d %d", verif::self(), did, ar ? see_arena(ar) : -1);
    a.execute([&] {
        emit("dbody %d %d", verif::self(), did);
        Tl& tl = me(); int s1 = tl.next_gid, s2 = tl.wait_gid; tl.next_gid = -1; tl.wait_gid = -1;
        body();
        Tl& tl2 = me(); tl2.next_gid = s1; tl2.wait_gid = s2;
        emit("dend %d %d", verif::self(), did);
    });
    emit("dret %d %d", verif::self(), did);
}

struct Unit { int id; void operator()() const { M->begin(id); M->end(id); } };

// ---- programs ---------------------------------------------------------------------------------------------------------
static void prog_tg_nested() {
    G g;
    int lo = M->next;
    std::vector<int> ids;
    for (int i = 0; i < g_size; ++i) ids.push_back(M->fresh());
    for (int i = 0; i < g_size; ++i) {
        int id = ids[i];
        g.run([id] {
            M->begin(id);
            G in;
            int a = M->fresh(), b = M->fresh();
            in.run(Unit{a});
            in.run(Unit{b});
            in.wait();
            M->covered(a, a + 1, "inner task_group::wait"); M->covered(b, b + 1, "inner task_group::wait");
            M->end(id);
        });
    }
    g.wait();
    M->covered(lo, M->next, "task_group::wait");
}

static void spawn_tree(G& g, int depth) {
    int id = M->fresh();
    g.run([&g, id, depth] {
        M->begin(id);
        if (depth > 0) { spawn_tree(g, depth - 1); spawn_tree(g, depth - 1); }
        M->end(id);
    });
}
static void prog_tg_tree() {
    G g;
    int lo = M->next;
    spawn_tree(g, g_size > 3 ? 3 : g_size);
    g.wait();
    M->covered(lo, M->next, "task_group::wait");
    int lo2 = M->next;
    int a = M->fresh();
    spawn_tree(g, 1);
    g.run_and_wait(Unit{a});
    M->covered(lo2, M->next, "task_group::run_and_wait");
}

template <class Part>
static void pfor(int n, Part& part, int lo) {
    AlgScope sc;
    tbb::parallel_for(tbb::blocked_range<int>(0, n, 1), [lo](const tbb::blocked_range<int>& r) {
        for (int i = r.begin(); i != r.end(); ++i) { M->begin(lo + i); M->end(lo + i); }
    }, part);
}

static void prog_pfor_affinity() {
    tbb::affinity_partitioner ap;
    int n = 8 * g_size;
    for (int pass = 0; pass < 2; ++pass) {
        int lo = M->next;
        for (int i = 0; i < n; ++i) M->fresh();
        pfor(n, ap, lo);
        M->covered(lo, lo + n, "parallel_for(affinity_partitioner)");
    }
}

// affinity-mailed chunks whose proxy is claimed from either side: static_partitioner mails one chunk to every other slot;
// the caller keeps looking into its own pool (pool side: get_task finds the proxy) while the recipients look into their
// mailboxes (mailbox side) and idle threads steal the proxy from the caller's pool
static void prog_mail_claim() {
    int n = 2 * g_P + g_size;
    for (int pass = 0; pass < 2; ++pass) {
        tbb::static_partitioner sp;
        int lo = M->next;
        for (int i = 0; i < n; ++i) M->fresh();
        pfor(n, sp, lo);
        M->covered(lo, lo + n, "parallel_for(static_partitioner)");
    }
}

static void prog_isolate() {
    G g;
    int lo = M->next;
    for (int i = 0; i < g_size; ++i) g.run(Unit{M->fresh()});
    int inner_lo = 0, n = 4 * g_size;
    tbb::this_task_arena::isolate([&] {
        inner_lo = M->next;
        for (int i = 0; i < n; ++i) M->fresh();
        tbb::simple_partitioner sp;
        pfor(n, sp, inner_lo);
        M->covered(inner_lo, inner_lo + n, "isolated parallel_for");
    });
    g.wait();
    M->covered(lo, M->next, "task_group::wait");
}

// nested task_group inside the body of a parallel_for: every chunk runs its own group and waits for it
static void prog_pfor_tg() {
    int n = 2 + g_size;
    int lo = M->next;
    for (int i = 0; i < n; ++i) M->fresh();
    {
        AlgScope sc;
        tbb::parallel_for(tbb::blocked_range<int>(0, n, 1), [lo](const tbb::blocked_range<int>& r) {
            for (int i = r.begin(); i != r.end(); ++i) {
                M->begin(lo + i);
                G in;
                int a = M->fresh(), b = M->fresh();
                in.run(Unit{a}); in.run(Unit{b});
                in.wait();
                M->covered(a, b + 1, "task_group::wait inside a parallel_for body");
                M->end(lo + i);
            }
        }, tbb::simple_partitioner{});
    }
    M->covered(lo, lo + n, "parallel_for with nested task_groups");
}

static void prog_enqueue() {
    tbb::task_arena a(g_P);
    G g;
    int lo = M->next;
    for (int i = 0; i < g_size; ++i) {
        int id = M->fresh();
        if (i % 2 == 0) { GidScope gs(g.gid); a.enqueue(g.defer(Unit{id})); }
        else arena_execute(a, [&g, id] { g.run(Unit{id}); });
    }
    arena_execute(a, [&g] { g.wait(); });
    M->covered(lo, M->next, "task_arena::execute(task_group::wait)");
}

// enqueue into an arena nobody waits in: only workers that join that arena can run the units; the caller waits for the
// group in its own arena
static void prog_enq_nowait() {
    tbb::task_arena a(g_P > 1 ? g_P : 2, /*reserved for external threads*/ 0);
    G g;
    int lo = M->next;
    for (int i = 0; i < 1 + g_size; ++i) {
        int id = M->fresh();
        GidScope gs(g.gid);
        a.enqueue(g.defer(Unit{id}));
    }
    g.wait();
    M->covered(lo, M->next, "task_group::wait for units enqueued into another arena");
}

// critical tasks: units of one group submitted through the arena's critical stream (r1::submit(..., as_critical), the path
// flow-graph priorities use) next to ordinary spawns; the dispatcher consults the critical stream at every look-up
static void prog_critical() {
    G g;
    int lo = M->next;
    int n = 3 + 2 * g_size;
    // first the ordinary spawns (thieves go for them), then the critical ones: a thief that has just stolen a task finds a
    // critical task in get_critical_task and must re-spawn the stolen one
    for (int i = 0; i < n; ++i) g.run(Unit{M->fresh()});
    for (int i = 0; i < n; ++i) {
        int id = M->fresh();
        GidScope gs(g.gid);
        tbb::task_handle h = g.defer(Unit{id});
        d1::task_group_context& ctx = tbb::detail::d2::task_handle_accessor::ctx_of(h);
        d1::task* t = tbb::detail::d2::task_handle_accessor::release(h);
        r1::submit(*t, ctx, tdata()->my_arena, /*as_critical*/ 1);
    }
    g.wait();
    M->covered(lo, M->next, "task_group::wait (units in the critical stream)");
}

static void prog_cancel() {
    G g;
    int lo = M->next;
    std::vector<int> ids;
    for (int i = 0; i < 2 * g_size; ++i) ids.push_back(M->fresh());
    for (int i = 0; i < 2 * g_size; ++i) {
        int id = ids[i];
        if (i == 1) g.run([&g, id] { M->begin(id); g.tg.cancel(); M->end(id); });
        else g.run(Unit{id});
    }
    tbb::task_group_status st = g.wait();
    bool all = true;
    for (int i = lo; i < M->next; ++i) if (M->exec[i] != 1) all = false;
    if (!all && st != tbb::canceled) M->fail("VIOLATION a unit was skipped although the group reports it was not cancelled");
    M->covered(lo, M->next, "task_group::wait (cancelled group)", true);
}

static void external_body(int who) {
    tbb::task_arena a(g_P > 1 ? g_P - 1 : 1);
    arena_execute(a, [&] {
        G g;
        std::vector<int> ids;
        for (int i = 0; i < g_size; ++i) { int id = M->fresh(); ids.push_back(id); g.run(Unit{id}); }
        g.wait();
        for (int id : ids) M->covered(id, id + 1, "task_group::wait in an oversubscribed arena");
    });
    (void)who;
}

// task_arena::execute from external threads into ONE shared arena while its workers come and go: the main thread runs
// short parallel phases in the arena with idle gaps (workers leave when the arena runs dry and re-enter at the next
// phase); the other application threads call execute() on the same arena (they take a free slot or are delegated)
static tbb::task_arena* g_shared;
static void xexec_body(int rounds) {
    for (int r = 0; r < rounds; ++r) {
        arena_execute(*g_shared, [&] {
            G g;
            std::vector<int> ids;
            for (int i = 0; i < 1 + g_size % 3; ++i) { int id = M->fresh(); ids.push_back(id); g.run(Unit{id}); }
            g.wait();
            for (int id : ids) M->covered(id, id + 1, "task_group::wait inside task_arena::execute");
        });
        for (int k = 0; k < 40; ++k) _mm_pause();
    }
}

static std::atomic<int> g_ext_done{0};

static const char* kind_of(int k) { return verif::kind_name(k); }

static bool g_print_sched = false;
static bool run_once(verif::Schedule& sch, int run_idx) {
    Mon mon; M = &mon;
    g_lines.clear(); g_tl.clear(); g_wraps.clear(); g_proxy_id.clear(); g_arenas.clear(); g_occ_addr.clear(); g_ctx_flag.clear();
    g_next_uid = g_next_gid = g_next_pid = g_next_did = 0;
    g_ext_done.a.store(0);
    int nextra = (g_prog == "oversub") ? 2 : (g_prog == "xexec") ? 2 : 0;
    tbb::task_arena shared;
    g_shared = &shared;
    std::vector<std::function<void()>> bodies;
    bodies.push_back([&] {
        g_on = true;
        tbb::global_control gc(tbb::global_control::max_allowed_parallelism, (size_t)g_P);
        tbb::task_scheduler_handle h{tbb::attach{}};
        if (g_prog == "xexec") shared.initialize(g_P > 1 ? g_P : 2, 1);
        if (g_prog == "tg_nested") prog_tg_nested();
        else if (g_prog == "tg_tree") prog_tg_tree();
        else if (g_prog == "pfor_affinity") prog_pfor_affinity();
        else if (g_prog == "mail_claim") prog_mail_claim();
        else if (g_prog == "isolate") prog_isolate();
        else if (g_prog == "pfor_tg") prog_pfor_tg();
        else if (g_prog == "enqueue") prog_enqueue();
        else if (g_prog == "enq_nowait") prog_enq_nowait();
        else if (g_prog == "cancel") prog_cancel();
        else if (g_prog == "critical") prog_critical();
        else if (g_prog == "oversub") external_body(0);
        else if (g_prog == "xexec") {
            for (int phase = 0; phase < 2; ++phase) {
                arena_execute(shared, [&] {
                    int n = 2 + g_size, lo = M->next;
                    for (int i = 0; i < n; ++i) M->fresh();
                    tbb::simple_partitioner sp;
                    pfor(n, sp, lo);
                    M->covered(lo, lo + n, "parallel_for inside task_arena::execute");
                });
                for (int k = 0; k < 300; ++k) _mm_pause();       // idle gap: workers leave
            }
        }
        while (g_ext_done.load() < nextra) _mm_pause();
        if (g_prog == "xexec") shared.terminate();
        tbb::finalize(h);
        g_on = false;
    });
    for (int k = 0; k < nextra; ++k) bodies.push_back([&, k] {
        if (g_prog == "xexec") {
            while (!shared.is_active()) _mm_pause();
            xexec_body(2);
        } else external_body(1 + k);
        r1::governor::terminate_external_thread();
        g_ext_done.fetch_add(1);
    });
    verif::Result r = verif::run(bodies, sch, 4000000);
    g_on = false;
    std::string err = mon.err;
    if (r.deadlock && err.empty()) err = "DEADLOCK (every live thread parked, or step limit)";
    if (!r.deadlock) for (int i = 0; i < mon.next; ++i) if (mon.exec[i] > 1 && err.empty()) err = "VIOLATION unit " + std::to_string(i) + " executed " + std::to_string(mon.exec[i]) + " times";
    bool ok = err.empty();
    printf("run %d\n", run_idx);
    int maxt = 0; for (int s : r.schedule) if (s > maxt) maxt = s;
    printf("units %d steps %zu threads %d apps %d\n", mon.next, r.steps, 1 + maxt, 1 + nextra);
    std::map<const void*, int> tat;      // &task_proxy::task_and_tag -> pid, as of the current position in the log
    // the task-level event log, merged with the slot-occupancy / cancellation accesses of the atomic-access trace
    for (auto& e : r.log) {
        if (e.kind == verif::K_NOTE) {
            if (e.tag && std::string(e.tag) == "dp" && !g_lines[(size_t)e.a].empty()) printf("v %s\n", g_lines[(size_t)e.a].c_str());
            if (e.tag && std::string(e.tag) == "pa") tat[(const void*)(uintptr_t)e.b] = (int)e.a;
            continue;
        }
        if (e.kind > verif::K_FXOR) continue;
        auto oc = g_occ_addr.find(e.addr);
        if (oc != g_occ_addr.end()) {
            if (e.kind == verif::K_XCHG && e.a == 0 && e.b == 1) printf("v ent %d %d %d\n", e.tid, oc->second.first, oc->second.second);
            else if (e.kind == verif::K_STORE && e.a == 1) printf("v ent %d %d %d\n", e.tid, oc->second.first, oc->second.second);
            else if (e.kind == verif::K_STORE && e.a == 0) printf("v lev %d %d %d\n", e.tid, oc->second.first, oc->second.second);
            else if (e.kind != verif::K_LOAD && !(e.kind == verif::K_XCHG && e.a == 1)) printf("v occ-unknown %d %s\n", e.tid, kind_of(e.kind));
            continue;
        }
        auto ta = tat.find(e.addr);
        if (ta != tat.end()) {
            // task_proxy::extract_task: a successful CAS writes the cleaner bit (1 = pool_bit: the MAILBOX side took the task,
            // 2 = mailbox_bit: the POOL side took it)
            if (e.kind == verif::K_CAS && e.ok) printf("v claim %d %d %llu\n", e.tid, ta->second, (unsigned long long)(e.b & 3));
            else if (e.kind != verif::K_LOAD && e.kind != verif::K_CAS && e.kind != verif::K_STORE) printf("v tat-unknown %d %s\n", e.tid, kind_of(e.kind));
            continue;
        }
        if (g_ctx_flag.count(e.addr)) {
            const void* ctx = (const char*)e.addr - offsetof(d1::task_group_context, my_cancellation_requested);
            if (e.kind == verif::K_STORE) printf("v cw %p %llu\n", ctx, (unsigned long long)e.a);
            else if (e.kind == verif::K_XCHG) printf("v cw %p %llu\n", ctx, (unsigned long long)e.b);
            else if (e.kind != verif::K_LOAD) printf("v cw-unknown %p %s\n", ctx, kind_of(e.kind));
        }
    }
    printf("mon %s\n", ok ? "ok" : err.c_str());
    if (!ok || g_print_sched) { printf("sched"); for (int s : r.schedule) printf(" %d", s); printf("\n"); }
    printf("end\n");
    fflush(stdout);
    if (r.deadlock) { fflush(stdout); _exit(3); }
    return ok;
}

int main(int argc, char** argv) {
    verif::init_determinism(argc, argv);
    verif::report_crashes();
    if (argc < 6) return 2;
    g_prog = argv[1]; g_P = atoi(argv[2]); g_size = atoi(argv[3]);
    std::string mode = argv[4];
    long runs = 0, bad = 0;
    if (mode == "rand") {
        unsigned long long seed = strtoull(argv[5], 0, 10);
        long n = argc > 6 ? atol(argv[6]) : 1;
        for (long i = 0; i < n; ++i) { verif::RandomSchedule s(seed * 7919 + i, 16 + (int)(i % 5) * 48); if (!run_once(s, (int)i)) bad++; runs++; }
    } else if (mode == "randat") {       // exactly the i-th schedule of `rand <seed> ...`, schedule always printed
        unsigned long long seed = strtoull(argv[5], 0, 10);
        long i = argc > 6 ? atol(argv[6]) : 0;
        g_print_sched = true;
        verif::RandomSchedule s(seed * 7919 + i, 16 + (int)(i % 5) * 48); if (!run_once(s, (int)i)) bad++; runs++;
    } else if (mode == "replayf") {
        verif::ReplaySchedule s; std::ifstream f(argv[5]); int t; while (f >> t) s.tids.push_back(t);
        if (!run_once(s, 0)) bad++; runs++;
    }
    printf("summary runs=%ld bad=%ld\n", runs, bad);
    fflush(stdout);
    _exit(bad ? 1 : 0);
}
