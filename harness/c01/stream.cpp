// C01 E-SHIM component harness for r1::task_stream (lanes = d1::mutex + deque, population bitmap): real header code
// linked against the instrumented runtime.  N controlled threads push / pop / pop_specific on one stream.
// usage: stream <rand|dfs|replay> <arg> [maxruns]     scenario on stdin:
//   n <lanes>       prog u<id>:<iso>:<hint> o<hint> p<last>:<iso> ...     (one prog line per thread)
#include "tbb/task_stream.h"
#include <cstdio>
#include <map>
#include <sstream>
#include <string>
#include <vector>

using namespace tbb::detail;

struct Tk : d1::task {
    int id = 0;
    d1::task* execute(d1::execution_data&) override { return nullptr; }
    d1::task* cancel(d1::execution_data&) override { return nullptr; }
};
struct Op { char kind; int id; long iso; unsigned hint; };
static std::vector<std::vector<Op>> g_progs;
static unsigned g_n = 2;

static bool run_once(verif::Schedule& sch, int run_idx, bool print) {
    size_t T = g_progs.size();
    r1::task_stream<r1::front_accessor> st;
    st.initialize(g_n);
    std::vector<Tk*> tasks;
    std::map<int, int> pushed, poppedc;
    std::vector<std::vector<int>> res(T);
    std::string err;
    verif::clear_names();
    std::vector<std::function<void()>> bodies;
    for (size_t k = 0; k < T; ++k) bodies.push_back([&, k] {
        for (auto& op : g_progs[k]) {
            if (op.kind == 'u') {
                Tk* t = new Tk; t->id = op.id; tasks.push_back(t);
                r1::task_accessor::isolation(*t) = (r1::isolation_type)op.iso;
                pushed[op.id]++;
                unsigned h = op.hint;
                st.push(t, r1::subsequent_lane_selector(h));
            } else {
                d1::task* t = nullptr;
                unsigned h = op.hint;
                if (op.kind == 'o') t = st.pop(r1::subsequent_lane_selector(h));
                else t = st.pop_specific(h, (r1::isolation_type)op.iso);
                int id = t ? static_cast<Tk*>(t)->id : -1;
                res[k].push_back(id);
                if (t) poppedc[id]++;
            }
        }
    });
    verif::Result r = verif::run(bodies, sch);
    if (r.deadlock) err = "DEADLOCK";
    for (auto& kv : poppedc) if (kv.second > 1 && err.empty()) err = "VIOLATION task " + std::to_string(kv.first) + " popped " + std::to_string(kv.second) + " times";
    unsigned long long pop_end = (unsigned long long)st.population.a.load();
    std::vector<int> drained;
    if (!r.deadlock) {
        // population bit <=> lane non-empty (all lanes are unlocked now)
        for (unsigned i = 0; i < st.N; ++i) {
            bool bit = (pop_end >> i) & 1, nonempty = !st.lanes[i].my_queue.empty();
            if (bit != nonempty && err.empty()) err = "VIOLATION population bit " + std::to_string(i) + (bit ? " set on an empty lane" : " clear on a non-empty lane");
            if (st.lanes[i].my_mutex.my_flag.my_atomic.a.load() && err.empty()) err = "VIOLATION lane mutex left locked";
        }
        unsigned h = 0;
        for (int guard = 0; guard < 100000 && !st.empty(); ++guard) {
            d1::task* t = st.pop(r1::subsequent_lane_selector(h));
            if (t) { int id = static_cast<Tk*>(t)->id; drained.push_back(id); poppedc[id]++; }
        }
        for (auto& kv : pushed) {
            int n = poppedc.count(kv.first) ? poppedc[kv.first] : 0;
            if (n != 1 && err.empty()) err = "VIOLATION task " + std::to_string(kv.first) + (n == 0 ? " lost" : " popped " + std::to_string(n) + " times");
        }
    }
    bool ok = err.empty();
    if (print || !ok) {
        printf("run %d\n", run_idx);
        std::map<const void*, int> fl;
        for (unsigned i = 0; i < st.N; ++i) fl[(const void*)&st.lanes[i].my_mutex.my_flag.my_atomic] = (int)i;
        const void* pa = (const void*)&st.population;
        for (auto& e : r.log) {
            if (e.kind > verif::K_FXOR) continue;
            if (e.addr == pa) printf("e %d pop %s %llu %llu %d\n", e.tid, verif::kind_name(e.kind), (unsigned long long)e.a, e.kind == verif::K_LOAD ? 0ULL : (unsigned long long)e.b, e.ok);
            else if (fl.count(e.addr)) printf("e %d flag%d %s %llu %llu %d\n", e.tid, fl[e.addr], verif::kind_name(e.kind), (unsigned long long)(e.a & 1), e.kind == verif::K_LOAD ? 0ULL : (unsigned long long)(e.b & 1), e.ok);
        }
        for (size_t t = 0; t < T; ++t) { printf("res %zu", t); for (int v : res[t]) printf(" %d", v); printf("\n"); }
        printf("final %llu\n", pop_end);
        printf("drained"); for (int v : drained) printf(" %d", v); printf("\n");
        printf("mon %s\n", ok ? "ok" : err.c_str());
        printf("sched"); for (int s : r.schedule) printf(" %d", s); printf("\nend\n");
        fflush(stdout);
    }
    if (r.deadlock) { fflush(stdout); _exit(3); }
    for (Tk* t : tasks) delete t;
    return ok;
}

int main(int argc, char** argv) {
    verif::init_determinism(argc, argv);
    if (argc < 3) return 2;
    char line[1 << 16];
    while (fgets(line, sizeof line, stdin)) {
        std::istringstream is(line); std::string w; is >> w;
        if (w == "n") { is >> g_n; }
        else if (w == "prog") {
            std::vector<Op> ops;
            while (is >> w) {
                Op op{}; op.kind = w[0];
                if (w[0] == 'u') sscanf(w.c_str() + 1, "%d:%ld:%u", &op.id, &op.iso, &op.hint);
                else if (w[0] == 'o') sscanf(w.c_str() + 1, "%u", &op.hint);
                else if (w[0] == 'p') sscanf(w.c_str() + 1, "%u:%ld", &op.hint, &op.iso);
                else { printf("bad-op\n"); return 2; }
                ops.push_back(op);
            }
            g_progs.push_back(ops);
        }
    }
    std::string mode = argv[1];
    long maxruns = argc > 3 ? atol(argv[3]) : 1;
    long runs = 0, bad = 0;
    if (mode == "rand") {
        unsigned long long seed = strtoull(argv[2], 0, 10);
        for (long i = 0; i < maxruns; ++i) { verif::RandomSchedule s(seed * 7919 + i, 32 + (int)(i % 4) * 56); if (!run_once(s, (int)i, true)) bad++; runs++; }
    } else if (mode == "dfs") {
        verif::DfsSchedule d(atoi(argv[2]));
        do { if (!run_once(d, (int)runs, false)) { bad++; break; } runs++; } while (runs < maxruns && d.next());
    } else if (mode == "replay") {
        verif::ReplaySchedule s; std::stringstream ss(argv[2]); std::string tok;
        while (std::getline(ss, tok, ',')) if (!tok.empty()) s.tids.push_back(atoi(tok.c_str()));
        if (!run_once(s, 0, true)) bad++; runs++;
    }
    printf("summary runs=%ld bad=%ld\n", runs, bad);
    fflush(stdout);
    _exit(bad ? 1 : 0);
}
