// C10 E-GEN: constants of hash_map_base (printed as JSON; built with -fno-access-control)
#include <oneapi/tbb/concurrent_hash_map.h>
#include <cstdio>
int main() {
    typedef tbb::concurrent_hash_map<long, long> M;
    typedef M::base_type B;
    // load-factor rule: insert_new_node elects a grower when the new size reaches the mask snapshot; probe it on the real
    // table: the size at which the mask first changes, for the first two thresholds
    M m;
    unsigned long long thr[3] = {0, 0, 0}, masks[3] = {0, 0, 0};
    int found = 0;
    unsigned long long last = m.my_mask.load();
    for (long i = 0; i < 2000 && found < 3; ++i) {
        m.insert(std::make_pair(i, i));
        unsigned long long now = m.my_mask.load();
        if (now != last) { thr[found] = (unsigned long long)m.size(); masks[found] = now; ++found; last = now; }
    }
    printf("{\"embeddedBlock\": %zu, \"embeddedBuckets\": %zu, \"firstBlock\": %zu, \"pointersPerTable\": %zu, "
           "\"initialMask\": %zu, \"rehashReqFlag\": %zu, \"emptyRehashedFlag\": %zu, "
           "\"growAt0\": %llu, \"maskAfter0\": %llu, \"growAt1\": %llu, \"maskAfter1\": %llu, \"growAt2\": %llu, \"maskAfter2\": %llu, "
           "\"lockWriter\": %zu, \"lockWriterPending\": %zu, \"lockOneReader\": %zu}\n",
           (size_t)B::embedded_block, (size_t)B::embedded_buckets, (size_t)B::first_block, (size_t)B::pointers_per_table,
           (size_t)(B::embedded_buckets - 1), (size_t)tbb::detail::d2::rehash_req_flag, (size_t)tbb::detail::d2::empty_rehashed_flag,
           thr[0], masks[0], thr[1], masks[1], thr[2], masks[2],
           (size_t)tbb::spin_rw_mutex::WRITER, (size_t)tbb::spin_rw_mutex::WRITER_PENDING, (size_t)tbb::spin_rw_mutex::ONE_READER);
    return 0;
}
