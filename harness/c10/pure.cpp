// C10 E-PURE: the real static index helpers and check_rehashing_collision of hash_map_base, one answer line per query line.
//   seg <i>            -> segment_index_of(i) segment_base(s) i-segment_base(s) segment_size(s)
//   addr <i>           -> <allocation> <offset>: where get_bucket(i) points (allocation 0 = embedded array, n = n-th bucket
//                         array obtained from the allocator, in order), on a table grown to 2^12 buckets
//   chk <h> <lo> <lm> <c>  -> r1 r0: check_rehashing_collision(h, 2^lo-1, 2^lm-1) with exactly bucket c flagged / nothing flagged
//   grow <k>           -> my_mask after enable_segment(k) on a table whose segments below k are enabled
// Built with -fno-access-control.
#include <oneapi/tbb/concurrent_hash_map.h>
#include <cstdio>
#include <cstring>
#include <sstream>
#include <string>
#include <vector>

static std::vector<std::pair<char*, size_t>> g_allocs;      // bucket arrays, in allocation order (bytes)
template <class T> struct LogAlloc {
    using value_type = T;
    LogAlloc() {}
    template <class U> LogAlloc(const LogAlloc<U>&) {}
    T* allocate(std::size_t n) { T* p = (T*)calloc(n, sizeof(T)); g_allocs.push_back({(char*)p, n * sizeof(T)}); return p; }
    void deallocate(T* p, std::size_t) { free(p); }
    template <class U> bool operator==(const LogAlloc<U>&) const { return true; }
    template <class U> bool operator!=(const LogAlloc<U>&) const { return false; }
};
typedef tbb::concurrent_hash_map<long, long, tbb::tbb_hash_compare<long>, LogAlloc<std::pair<const long, long>>> Map;
typedef Map::base_type Base;

int main() {
    Map big_map;                   // 2^12 buckets, none flagged (initial reservation)
    Base& big = (Base&)big_map;    // (C-style cast: the base is protected)
    g_allocs.clear();
    big.reserve(1u << 12);
    char line[256];
    while (fgets(line, sizeof line, stdin)) {
        std::istringstream is(line); std::string w; is >> w;
        if (w == "seg") {
            unsigned long long i; is >> i;
            size_t s = Base::segment_index_of(i);
            printf("%zu %zu %llu %zu\n", s, (size_t)Base::segment_base(s), i - Base::segment_base(s), (size_t)Base::segment_size(s));
        } else if (w == "addr") {
            unsigned long long i; is >> i;
            if (i > big.my_mask.load()) { puts("bad-op"); continue; }
            char* p = (char*)big.get_bucket(i);
            if (p >= (char*)big.my_embedded_segment && p < (char*)(big.my_embedded_segment + Base::embedded_buckets)) {
                printf("0 %zu\n", (size_t)((Map::bucket*)p - big.my_embedded_segment)); continue;
            }
            bool found = false;
            for (size_t a = 0; a < g_allocs.size(); ++a)
                if (p >= g_allocs[a].first && p < g_allocs[a].first + g_allocs[a].second) {
                    printf("%zu %zu\n", a + 1, (size_t)((p - g_allocs[a].first) / sizeof(Map::bucket))); found = true; break;
                }
            if (!found) puts("outside");
        } else if (w == "chk") {
            unsigned long long h, lo, lm, c; is >> h >> lo >> lm >> c;
            if (lm > 12 || lo >= lm || c >= (1ull << 12)) { puts("bad-op"); continue; }
            Map::bucket* b = big.get_bucket(c);
            b->node_list.store(reinterpret_cast<Map::node_base*>(tbb::detail::d2::rehash_req_flag));
            bool r1 = big.check_rehashing_collision(h, (1ull << lo) - 1, (1ull << lm) - 1);
            b->node_list.store(nullptr);
            bool r0 = big.check_rehashing_collision(h, (1ull << lo) - 1, (1ull << lm) - 1);
            printf("%d %d\n", r1 ? 1 : 0, r0 ? 1 : 0);
        } else if (w == "grow") {
            unsigned long long k; is >> k;
            if (k < 1 || k > 14 || (k > 1 && k < Base::first_block)) { puts("bad-op"); continue; }
            Map mm; Base& m = (Base&)mm;
            m.enable_segment(Base::embedded_block);
            for (unsigned long long j = Base::first_block; j <= k; ++j) m.enable_segment(j);
            printf("%zu\n", (size_t)m.my_mask.load());
        } else puts("bad-op");
    }
    return 0;
}
