// C10 E-SHIM harness: the real tbb::concurrent_hash_map of /repo under the controlled scheduler.
//
// usage: hm <rand|dfs|replay> <arg> [maxruns]      (scenario on stdin)
//   rand <seed> <nruns> | guided <seed> <nruns> | dfs <preemption bound> <maxruns> | replay <t,t,t,...>
// scenario lines:
//   hash id | hash const <c> | hash shl <s> | hash mul <a> | hash fold <bits>     (user hash function, see HC::hash)
//   pre <k> <k> ...          sequential pre-population insert(k -> k), outside the scheduler
//   prer <from> <count>      pre-populate keys from .. from+count-1
//   prog <op> <op> ...       one line per thread.  ops:  i:K insert(no accessor)  ir:K insert(const_accessor)  iw:K insert(accessor)
//                            p:K / pr:K / pw:K emplace   fr:K find(const_accessor)  fw:K find(accessor)  c:K count  e:K erase(key)
//                            fra:K ira:K pra:K = fr / ir / pr with an `accessor` object passed as const_accessor& (shared lock in an accessor object)
//                            x erase(held accessor)   r release held accessor
//   A thread owns one accessor slot; an op that needs the slot or blocks on element locks (ir iw pr pw fr fw e) releases a
//   held accessor first (emitted as an explicit `r` in the effective program); x / r without a held accessor are dropped.
//
// Output per run (abstract, critical-section-level event trace derived from the atomic-access log; see translate()):
//   run <i> / eff <tid> <ops> / ev <tid> <label...> / h <tid> <op> <key> <res> <val> <inv> <resp> / final ... / mon <verdict> /
//   sched <tids> / end
// Implementation-side monitors (independent of the Lean model): holder counters stored in the mapped value, element
// liveness (destroyed while an accessor points to it), final-content sanity (each key once, findable, size() agrees).
#include "verif_hb.h"
#include <oneapi/tbb/concurrent_hash_map.h>
#include <cstdio>
#include <cstring>
#include <map>
#include <set>
#include <sstream>
#include <string>
#include <vector>

typedef unsigned long long u64;

// ---------------------------------------------------------------------------------------------------------------
// key hashing (user-supplied HashCompare), mapped value with ghost holder bookkeeping, quarantining allocator
// ---------------------------------------------------------------------------------------------------------------
static int g_hash_mode = 0;      // 0 id, 1 const, 2 shl, 3 mul, 4 fold
static u64 g_hash_par = 0;
static u64 hash_of(long k) {
    u64 x = (u64)k;
    switch (g_hash_mode) {
    case 0: return x;
    case 1: return g_hash_par;
    case 2: return x << g_hash_par;                                 // all keys collide in the low bits
    case 3: return x * g_hash_par;
    case 4: return (x & ((1ull << g_hash_par) - 1)) | ((x >> g_hash_par) << 20);   // low bits from the key, rest far above
    }
    return x;
}
// State hints for the guided schedule: the user-supplied HashCompare is called by the code under test at known places
// (hash(k') of a node key during the scan of rehash_bucket; equal() during a bucket search), between two scheduling points.
enum { HINT_NONE = 0, HINT_SCAN = 1, HINT_FOUND = 2 };
static const int MAXT = 16;
static long g_cur_key[MAXT];            // key of the operation each controlled thread is executing
static unsigned long g_hint_seq[MAXT];  // bumped whenever the thread passes a hint point
static int g_hint_kind[MAXT];
static void hint(int kind) {
    int me = verif::controlled() ? verif::self() : -1;
    if (me >= 0 && me < MAXT) { g_hint_seq[me]++; g_hint_kind[me] = kind; }
}
struct HC {
    std::size_t hash(const long& k) const {
        int me = verif::controlled() ? verif::self() : -1;
        if (me >= 0 && me < MAXT && k != g_cur_key[me]) hint(HINT_SCAN);       // a node of another key: rehash_bucket's scan
        return (std::size_t)hash_of(k);
    }
    bool equal(const long& a, const long& b) const { if (a == b) hint(HINT_FOUND); return a == b; }
};

static std::atomic<int> g_touch{0};   // dummy shared word: an access to it is a scheduling point inside an accessor-holding interval
static std::string g_err;        // first monitor violation of the current run
static void violation(const std::string& s) { if (g_err.empty()) g_err = s; }

static const int MAGIC = 0x600DF00D, DEAD = 0xDEADDEAD;
struct Val {
    long v = 0;
    mutable int writers = 0, readers = 0;
    int magic = MAGIC;
    Val() {}
    Val(long x) : v(x) {}
    Val(const Val& o) : v(o.v) {}
    Val(Val&& o) : v(o.v) {}
    ~Val() {
        if (magic == MAGIC && (writers || readers))
            violation("element destroyed while an accessor points to it (writers=" + std::to_string(writers) + ",readers=" + std::to_string(readers) + ")");
        if (magic == MAGIC) verif::note("free", (u64)(uintptr_t)this, 0);
        magic = DEAD;
    }
};

// memory is never reused during a run (node/bucket addresses identify objects in the trace; a use after free reads
// quarantined memory, where the monitors can see it)
static std::vector<void*> g_quarantine;
template <class T> struct QAlloc {
    using value_type = T;
    QAlloc() {}
    template <class U> QAlloc(const QAlloc<U>&) {}
    T* allocate(std::size_t n) { void* p = calloc(n ? n : 1, sizeof(T)); if (!p) throw std::bad_alloc(); return (T*)p; }
    void deallocate(T* p, std::size_t) { g_quarantine.push_back((void*)p); }
    template <class U> bool operator==(const QAlloc<U>&) const { return true; }
    template <class U> bool operator!=(const QAlloc<U>&) const { return false; }
};

typedef tbb::concurrent_hash_map<long, Val, HC, QAlloc<std::pair<const long, Val>>> Map;
typedef Map::node Node;
typedef Map::node_base NodeBase;
typedef Map::bucket Bucket;

// ---------------------------------------------------------------------------------------------------------------
// scenario
// ---------------------------------------------------------------------------------------------------------------
struct Op { std::string kind; long key = 0; bool as_acc = false; };   // as_acc: the reader-acquiring call receives an `accessor` object (as const_accessor&)
static std::vector<std::vector<Op>> g_progs;
static std::vector<long> g_pre;

static bool needs_slot(const std::string& k) { return k == "ir" || k == "iw" || k == "pr" || k == "pw" || k == "fr" || k == "fw" || k == "e"; }

// ---------------------------------------------------------------------------------------------------------------
// white-box snapshot of the table (no scheduling points: reads the std::atomic inside the shim wrapper directly)
// ---------------------------------------------------------------------------------------------------------------
struct Snap { u64 mask, size; std::vector<std::pair<u64, std::vector<const void*>>> chains; };   // unflagged buckets only
static std::vector<Snap> g_snaps;
static Bucket* bucket_at(Map& m, u64 idx) {
    std::size_t s = Map::base_type::segment_index_of(idx);
    Bucket* seg = m.my_table[s].a.load(std::memory_order_relaxed);
    if (!Map::base_type::is_valid(seg)) return nullptr;
    return seg + (idx - Map::base_type::segment_base(s));
}
static Snap take_snap(Map& m) {
    Snap sn;
    sn.mask = m.my_mask.a.load(std::memory_order_relaxed);
    sn.size = m.my_size.a.load(std::memory_order_relaxed);
    for (u64 i = 0; i <= sn.mask; ++i) {
        Bucket* b = bucket_at(m, i);
        if (!b) { sn.chains.push_back({i, {(const void*)1}}); continue; }      // mask covers a bucket that is not allocated
        NodeBase* n = b->node_list.a.load(std::memory_order_relaxed);
        if (tbb::detail::d2::rehash_required(n)) continue;
        std::vector<const void*> c;
        int guard = 0;
        for (; Map::base_type::is_valid(n) && guard < 100000; n = n->next, ++guard) c.push_back(n);
        sn.chains.push_back({i, c});
    }
    return sn;
}

// ---------------------------------------------------------------------------------------------------------------
// one run
// ---------------------------------------------------------------------------------------------------------------
struct Hist { int tid; std::string op; long key; int res; long val; size_t inv, resp; long gen; };

static std::ptrdiff_t g_val_off = 0;     // offset of the mapped value inside a node

struct RunOut {
    std::vector<std::vector<std::string>> eff;
    std::vector<std::string> lines;      // ev / h / final lines
};

static const char* op_names[] = {"i", "ir", "iw", "p", "pr", "pw", "fr", "fw", "c", "e", "x", "r"};
static int op_code(const std::string& k) { for (int i = 0; i < 12; ++i) if (k == op_names[i]) return i; return -1; }

static std::vector<std::vector<long>> g_xgen;      // per thread, per completed non-release op: generation targeted by `x`, else -1

// ---------------------------------------------------------------------------------------------------------------
// per-key linearizability of the completed-operation history against the sequential map (Wing-Gong search; the state of
// a key is the generation number of its element, -1 if absent), including the initial and the final contents
// ---------------------------------------------------------------------------------------------------------------
struct LOp { int kind; int res; long val; long gen; size_t inv, resp; bool acc; };   // kind 0 ins 1 find 2 count 3 erase 4 exclude
static bool lin_apply(const LOp& o, long& st) {
    switch (o.kind) {
    case 0: if (o.res) { if (st != -1) return false; st = o.gen; return !o.acc || o.val == o.gen; }
            return st != -1 && (!o.acc || o.val == st);
    case 1: return o.res ? (st != -1 && o.val == st) : st == -1;
    case 2: return (o.res != 0) == (st != -1);
    case 3: if (o.res) { if (st == -1) return false; st = -1; return true; } return st == -1;
    case 4: if (o.res) { if (st != o.gen) return false; st = -1; return true; } return st != o.gen;
    }
    return false;
}
static bool lin_search(const std::vector<LOp>& ops, unsigned done, long st, long fin, std::set<std::pair<unsigned, long>>& seen) {
    if (done == (1u << ops.size()) - 1) return st == fin;
    if (!seen.insert({done, st}).second) return false;
    size_t minresp = (size_t)-1;
    for (size_t i = 0; i < ops.size(); ++i) if (!(done >> i & 1)) minresp = std::min(minresp, ops[i].resp);
    for (size_t i = 0; i < ops.size(); ++i) {
        if (done >> i & 1) continue;
        if (ops[i].inv > minresp) continue;               // some other pending op finished before this one began
        long s2 = st;
        if (lin_apply(ops[i], s2) && lin_search(ops, done | (1u << i), s2, fin, seen)) return true;
    }
    return false;
}

// ---------------------------------------------------------------------------------------------------------------
// crash reporting: the schedule taken so far is printed when the code under test faults (e.g. a bucket of a segment
// that is not allocated is dereferenced)
// ---------------------------------------------------------------------------------------------------------------
struct Recording : verif::Schedule {
    verif::Schedule& inner; std::vector<int> picks;
    explicit Recording(verif::Schedule& s) : inner(s) {}
    int pick(int cur, const std::vector<int>& en, size_t step) override { int r = inner.pick(cur, en, step); picks.push_back(r); return r; }
};
// Guided schedule: random, but right after the running thread passed a hint point (it is in the middle of a rehash scan
// / has just found the node it searched for, i.e. it holds a bucket lock and is about to upgrade, unlink or take an
// element lock) it is, with some probability, preempted in favour of another thread that then runs for a while (until it
// parks or its budget ends).  This steers executions into the windows "two readers of one bucket, both about to upgrade".
struct GuidedSchedule : verif::Schedule {
    uint64_t s; int stay; int sticky = -1; int sticky_left = 0; unsigned long seen[MAXT];
    int p_scan, p_found;
    GuidedSchedule(uint64_t seed, int stay_) : s(seed * 0x9E3779B97F4A7C15ull + 0x7654321ull), stay(stay_) {
        for (int i = 0; i < MAXT; ++i) seen[i] = g_hint_seq[i];
        p_scan = 96 + (int)(seed % 3) * 48; p_found = 32 + (int)(seed % 5) * 32;
    }
    uint64_t next() { s ^= s << 13; s ^= s >> 7; s ^= s << 17; return s; }
    int pick(int cur, const std::vector<int>& en, size_t) override {
        bool cur_en = false; for (int t : en) if (t == cur) cur_en = true;
        if (cur >= 0 && cur < MAXT && g_hint_seq[cur] != seen[cur]) {
            seen[cur] = g_hint_seq[cur];
            int p = g_hint_kind[cur] == HINT_SCAN ? p_scan : p_found;
            std::vector<int> others; for (int t : en) if (t != cur) others.push_back(t);
            if (!others.empty() && (int)(next() & 255) < p) {
                sticky = others[next() % others.size()]; sticky_left = 30 + (int)(next() % 90);
                return sticky;
            }
        }
        if (sticky >= 0 && sticky_left > 0) {
            for (int t : en) if (t == sticky) { sticky_left--; return t; }
            sticky = -1;                                    // parked or finished
        }
        if (cur_en && (int)(next() & 255) < stay) return cur;
        return en[next() % en.size()];
    }
};
static Recording* g_rec = nullptr;
static int g_run_idx = 0;
static void crash_handler(int sig) {
    printf("run %d\nmon VIOLATION crash: signal %d inside the code under test\nsched", g_run_idx, sig);
    if (g_rec) for (int s : g_rec->picks) printf(" %d", s);
    printf("\nend\nsummary runs=%d bad=1\n", g_run_idx + 1);
    fflush(stdout);
    _exit(4);
}

static bool run_once(verif::Schedule& sch0, int run_idx, bool print) {
    Recording sch(sch0); g_rec = &sch; g_run_idx = run_idx;
    g_xgen.assign(g_progs.size(), {});
    g_err.clear();
    g_snaps.clear();
    Map* mp = new Map();
    Map& m = *mp;
    // pre-population (sequential, not under the scheduler); node ids = order of successful insertion
    std::vector<const void*> pre_nodes;
    for (long k : g_pre) {
        Map::accessor a;
        if (m.insert(a, std::make_pair(k, Val(k)))) pre_nodes.push_back(a.my_node);
    }
    size_t T = g_progs.size();
    std::vector<std::vector<std::string>> eff(T);
    std::vector<std::function<void()>> bodies;
    for (size_t t = 0; t < T; ++t) bodies.push_back([&, t] {
        Map::accessor wa; Map::const_accessor ra;
        int held = 0;                      // 0 none, 1 const_accessor, 2 accessor
        bool in_wa = false;                // the (shared) lock is held through the `accessor` object wa, passed to the call as const_accessor&
        const Map& cm = m;
        long held_key = 0, held_gen = 0;
        int opi = 0;
        auto cur_val = [&]() -> const Val& { return (held == 2 || in_wa) ? wa->second : ra->second; };
        auto ghost_check = [&] {
            if (!held) return;
            const Val& v = cur_val();
            if (v.magic != MAGIC) violation("accessor points to a destroyed element");
            else if (held == 2 && (v.writers != 1 || v.readers != 0)) violation("accessor (writer) shares its element: writers=" + std::to_string(v.writers) + " readers=" + std::to_string(v.readers));
            else if (held == 1 && (v.writers != 0 || v.readers < 1)) violation("const_accessor coexists with a writer: writers=" + std::to_string(v.writers) + " readers=" + std::to_string(v.readers));
        };
        auto ghost_acquire = [&](int kind) {
            held = kind;
            const Val& v = cur_val();
            held_key = (held == 2 || in_wa) ? wa->first : ra->first; held_gen = v.v;
            if (v.magic != MAGIC) { violation("accessor acquired on a destroyed element"); return; }
            if (kind == 2) { if (v.writers || v.readers) violation("accessor acquired while the element is held (writers=" + std::to_string(v.writers) + ",readers=" + std::to_string(v.readers) + ")"); v.writers++; }
            else { if (v.writers) violation("const_accessor acquired while an accessor holds the element"); v.readers++; }
            // happens-before ghosts: a writer accessor reads and writes the mapped value, a reader reads it (cell = the element's generation)
            verif::note("gr", (u64)v.v); if (kind == 2) verif::note("gw", (u64)v.v);
        };
        auto ghost_release = [&] {       // ghost release first: ghost-held intervals lie inside the real ones
            if (!held) return;
            const Val& v = cur_val();
            if (v.magic == MAGIC) { if (held == 2) { v.writers--; verif::note("gw", (u64)v.v); } else { v.readers--; verif::note("gr", (u64)v.v); } }   // last use under the accessor
        };
        auto do_release = [&] {
            eff[t].push_back("r");
            verif::note("begin", 11, 0);
            g_touch.load(std::memory_order_relaxed);
            ghost_check(); ghost_release();
            if (held == 2 || in_wa) wa.release(); else ra.release();
            held = 0; in_wa = false;
            verif::note("end", 1, 0);
        };
        for (auto& op : g_progs[t]) {
            ++opi;
            const std::string& k = op.kind;
            if ((k == "x" || k == "r") && !held) continue;
            if (needs_slot(k) && held) do_release();
            ghost_check();
            if (k == "r") { do_release(); continue; }
            long val = 1000000 + 100 * (long)(t + 1) + opi;
            bool has_val = k[0] == 'i' || k[0] == 'p';
            eff[t].push_back(k == "x" ? k : k + ":" + std::to_string(op.key) + ":" + std::to_string(has_val ? val : 0));
            if (t < (size_t)MAXT) g_cur_key[t] = (k == "x" ? held_key : op.key);
            verif::note("begin", (u64)op_code(k), (u64)(k == "x" ? held_key : op.key));
            verif::note("gen", (u64)val, 0);
            bool res = false; long rv = k == "x" ? held_gen : 0;
            if (has_val) verif::note("gw", (u64)val);          // the inserter constructs the value (cell = its generation) before it is published
            if (k == "i") res = m.insert(std::make_pair(op.key, Val(val)));
            else if (op.as_acc) {
                // documented uses of the base-class reference: the call takes the element lock shared, the object is an `accessor`
                Map::const_accessor& base = wa;
                in_wa = true;
                if (k == "ir") { res = m.insert(base, std::make_pair(op.key, Val(val))); ghost_acquire(1); rv = wa->second.v; }
                else if (k == "pr") { res = m.emplace(base, op.key, val); ghost_acquire(1); rv = wa->second.v; }
                else { res = cm.find(base, op.key); if (res) { ghost_acquire(1); rv = wa->second.v; } else in_wa = false; }
            }
            else if (k == "ir") { res = m.insert(ra, std::make_pair(op.key, Val(val))); ghost_acquire(1); rv = ra->second.v; }
            else if (k == "iw") { res = m.insert(wa, std::make_pair(op.key, Val(val))); ghost_acquire(2); rv = wa->second.v; }
            else if (k == "p") res = m.emplace(op.key, val);
            else if (k == "pr") { res = m.emplace(ra, op.key, val); ghost_acquire(1); rv = ra->second.v; }
            else if (k == "pw") { res = m.emplace(wa, op.key, val); ghost_acquire(2); rv = wa->second.v; }
            else if (k == "fr") { res = m.find(ra, op.key); if (res) { ghost_acquire(1); rv = ra->second.v; } }
            else if (k == "fw") { res = m.find(wa, op.key); if (res) { ghost_acquire(2); rv = wa->second.v; } }
            else if (k == "c") res = m.count(op.key) != 0;
            else if (k == "e") res = m.erase(op.key);
            else if (k == "x") {
                g_touch.load(std::memory_order_relaxed);
                ghost_check(); ghost_release();
                int was = held; held = 0;
                bool w_obj = was == 2 || in_wa; in_wa = false;
                res = w_obj ? m.erase(wa) : m.erase(ra);          // erase(accessor&) also when the accessor object holds the lock shared
            }
            g_snaps.push_back(take_snap(m));
            verif::note("snap", g_snaps.size() - 1, 0);
            verif::note("end", res ? 1 : 0, (u64)(k == "x" ? 0 : rv));
            g_xgen[t].push_back(k == "x" ? held_gen : -1);
            if (held) { g_touch.load(std::memory_order_relaxed); ghost_check(); }     // use the element while holding the accessor
        }
        if (held) do_release();
    });
    verif::clear_names();
    if (auto* d = dynamic_cast<verif::DfsSchedule*>(&sch0)) { d->pos = 0; d->preempts = 0; }
    verif::Result r = verif::run(bodies, sch);
    g_rec = nullptr;

    // ---- translate the atomic-access log into critical-section-level events -------------------------------------
    std::vector<std::string> out;
    enum VK { V_MASK, V_SIZE, V_TABLE, V_BLOCK, V_BLIST };
    struct Var { int kind; u64 idx; };
    std::map<const void*, Var> vars;
    vars[&m.my_mask.a] = {V_MASK, 0};
    vars[&m.my_size.a] = {V_SIZE, 0};
    for (u64 k = 0; k < Map::base_type::pointers_per_table; ++k) vars[&m.my_table[k].a] = {V_TABLE, k};
    {
        u64 mask = m.my_mask.a.load(std::memory_order_relaxed);
        // every allocated segment, also those not yet covered by the mask
        for (u64 k = 0; k < Map::base_type::pointers_per_table; ++k) {
            Bucket* seg = m.my_table[k].a.load(std::memory_order_relaxed);
            if (!Map::base_type::is_valid(seg)) continue;
            u64 base = Map::base_type::segment_base(k), sz = k ? Map::base_type::segment_size(k) : 2;
            for (u64 j = 0; j < sz; ++j) {
                vars[&seg[j].mutex.m_state.a] = {V_BLOCK, base + j};
                vars[&seg[j].node_list.a] = {V_BLIST, base + j};
            }
        }
        (void)mask;
    }
    std::map<const void*, long> node_id;          // node address -> model node id
    std::map<const void*, long> elock;            // address of node->mutex.m_state -> node id
    long next_id = 0;
    auto reg_node = [&](const void* p, long id) { node_id[p] = id; elock[&((NodeBase*)p)->mutex.m_state.a] = id; };
    for (const void* p : pre_nodes) reg_node(p, next_id++);
    std::vector<long> pending_link(T, -1);
    // lock-word protocol (spin_rw_mutex): what each thread holds on each lock word, derived from its successful RMWs
    struct LS { int st = 0; bool transient = false; };  // st: 0 none 1 reader 2 writer
    std::map<std::pair<int, const void*>, LS> ls;
    std::vector<Hist> hist;
    std::vector<Hist> open(T);
    std::vector<bool> in_op(T, false);
    char buf[256];
    auto emit = [&](int tid, const std::string& s) { out.push_back("ev " + std::to_string(tid) + " " + s); };
    // access-level trace for the refined model HMapR (every lock-word access with its values; node_list values)
    std::vector<std::string> out2;
    auto emit2 = [&](int tid, const std::string& s) { out2.push_back("rv " + std::to_string(tid) + " " + s); };
    auto ptr_name = [&](u64 v) -> std::string {
        if (v == 3) return "F";
        if (v == 0) return "nil";
        auto it = node_id.find((const void*)(uintptr_t)v);
        return it == node_id.end() ? std::string("?") : "n" + std::to_string(it->second);
    };
    for (size_t i = 0; i < r.log.size(); ++i) {
        const verif::Event& e = r.log[i];
        int t = e.tid;
        if (e.kind == verif::K_NOTE) {
            std::string tag = e.tag ? e.tag : "";
            if (tag == "begin") {
                open[t] = Hist{t, op_names[e.a], (long)e.b, 0, 0, i, 0, 0}; in_op[t] = true;
                snprintf(buf, sizeof buf, "begin %s %ld", op_names[e.a], (long)e.b); emit(t, buf); emit2(t, buf);
            } else if (tag == "gen") { open[t].gen = (long)e.a;
            } else if (tag == "end") {
                open[t].res = (int)e.a; open[t].val = (long)e.b; open[t].resp = i; hist.push_back(open[t]); in_op[t] = false;
                snprintf(buf, sizeof buf, "end %d %ld", (int)e.a, (long)e.b); emit(t, buf); emit2(t, buf);
            } else if (tag == "free") {
                const void* np = (const char*)(uintptr_t)e.a - g_val_off;
                auto it = node_id.find(np);
                if (it != node_id.end()) { emit(t, "free " + std::to_string(it->second)); emit2(t, "free " + std::to_string(it->second)); }
            } else if (tag == "snap") {
                const Snap& sn = g_snaps[e.a];
                std::string s = "snap " + std::to_string(sn.mask) + " " + std::to_string(sn.size);
                for (auto& c : sn.chains) {
                    s += " " + std::to_string(c.first) + ":";
                    bool first = true;
                    for (const void* p : c.second) {
                        auto it = node_id.find(p);
                        s += (first ? "" : ",") + (it == node_id.end() ? std::string("?") : std::to_string(it->second));
                        first = false;
                    }
                }
                emit(t, s); emit2(t, s);
            }
            continue;
        }
        if (e.kind > verif::K_FXOR || !e.addr) continue;
        auto vit = vars.find(e.addr);
        auto eit = elock.find(e.addr);
        if (vit == vars.end() && eit == elock.end()) continue;
        bool is_elem = vit == vars.end();
        int vk = is_elem ? -1 : vit->second.kind;
        u64 idx = is_elem ? (u64)eit->second : vit->second.idx;
        if (is_elem || vk == V_BLOCK) {
            const char* pre = is_elem ? "e" : "b";
            {   // raw: <bw|ew> <idx> <kind> <a> <b> <ok>   (load: value 0 1; cas: expected, desired | observed; fetch_*: old new)
                unsigned long long ra = e.a, rb = e.kind == verif::K_LOAD ? 0 : e.b;
                snprintf(buf, sizeof buf, "%sw %llu %s %llu %llu %d @%s", pre, (unsigned long long)idx, verif::kind_name(e.kind), ra, rb,
                         e.kind == verif::K_LOAD ? 1 : e.ok, verif::order_name(e.order));
                emit2(t, buf);
            }
            LS& s = ls[{t, e.addr}];
            std::string lab;
            long long delta = (long long)e.b - (long long)e.a;
            switch (e.kind) {
            case verif::K_CAS:
                if (e.ok && s.st == 0 && e.b == 1) { s.st = 2; lab = "l"; lab += " W"; }
                break;                                            // upgrade CAS (s | WRITER | PENDING): still a reader
            case verif::K_FADD:
                if (delta == 4 && s.st == 0) { if (!(e.a & 1)) { s.st = 1; lab = "l R"; } else s.transient = true; }
                else if (delta == 3 && s.st == 2) { s.st = 1; lab = "dn"; }
                else lab = "?fadd";
                break;
            case verif::K_FSUB:
                if (delta == -4 && s.transient) s.transient = false;
                else if (delta == -4 && s.st == 1) { s.st = 0; lab = "ur"; }
                else if (delta == -6 && s.st == 1) { s.st = 2; lab = "up"; }
                else lab = "?fsub";
                break;
            case verif::K_FAND:
                if (s.st == 2) { s.st = 0; lab = "uw"; } else lab = "?fand";
                break;
            default: break;                                       // loads, failed CAS, |= WRITER_PENDING
            }
            if (!lab.empty()) {
                // "bl b W" / "bl b R" / "bup b" / "bdn b" / "bur b" / "buw b"; same with e<node id>
                std::string name = lab.substr(0, lab.find(' '));
                std::string rest = lab.find(' ') == std::string::npos ? "" : lab.substr(lab.find(' '));
                emit(t, std::string(pre) + name + " " + std::to_string(idx) + rest);
            }
            continue;
        }
        std::string ord = std::string(" @") + verif::order_name(e.order);
        size_t n_before = out.size();
        if (vk == V_BLIST) {
            if (e.kind == verif::K_LOAD) emit2(t, "ldl " + std::to_string(idx) + " " + ptr_name(e.a) + ord);
            else if (e.kind == verif::K_STORE) {
                // a node linked by this store gets its id first
                if (pending_link[t] >= 0 && Map::base_type::is_valid((void*)(uintptr_t)e.a) && !node_id.count((const void*)(uintptr_t)e.a)) {
                    reg_node((const void*)(uintptr_t)e.a, pending_link[t]); pending_link[t] = -1;
                }
                emit2(t, "stl " + std::to_string(idx) + " " + ptr_name(e.a) + ord);
            } else emit2(t, "?list");
        }
        switch (vk) {
        case V_MASK:
            if (e.kind == verif::K_LOAD) emit(t, "ldmask " + std::to_string(e.a));
            else if (e.kind == verif::K_STORE) emit(t, "stmask " + std::to_string(e.a));
            else emit(t, "?mask");
            break;
        case V_SIZE:
            if (e.kind == verif::K_FADD && e.b == e.a + 1) { emit(t, "szinc " + std::to_string(e.b)); pending_link[t] = next_id++; }
            else if (e.kind == verif::K_FSUB && e.b + 1 == e.a) emit(t, "szdec " + std::to_string(e.b));
            else if (e.kind != verif::K_LOAD) emit(t, "?size");
            break;
        case V_TABLE:
            if (e.kind == verif::K_LOAD) emit(t, "ldt " + std::to_string(idx) + (e.a ? " 1" : " 0"));
            else if (e.kind == verif::K_CAS) emit(t, "tcas " + std::to_string(idx) + (e.ok ? " 1" : " 0"));
            else if (e.kind == verif::K_STORE) emit(t, "tst " + std::to_string(idx));
            else emit(t, "?table");
            break;
        case V_BLIST:
            if (e.kind == verif::K_LOAD) emit(t, "ldl " + std::to_string(idx) + (e.a == 3 ? " 1" : " 0"));
            else if (e.kind == verif::K_STORE) {
                if (e.a == 0 && e.b == 3) emit(t, "stl " + std::to_string(idx));      // "mark rehashed"
                if (pending_link[t] >= 0 && Map::base_type::is_valid((void*)(uintptr_t)e.a) && !node_id.count((const void*)(uintptr_t)e.a)) {
                    reg_node((const void*)(uintptr_t)e.a, pending_link[t]); pending_link[t] = -1;
                }
            } else emit(t, "?list");
            break;
        }
        if (vk != V_BLIST) for (size_t q = n_before; q < out.size(); ++q) out2.push_back("rv" + out[q].substr(2) + ord);
    }

    // ---- final content (sequential, after all threads finished) ------------------------------------------------
    std::string fin;
    bool ok = g_err.empty() && !r.deadlock;
    if (!r.deadlock) {
        std::map<long, long> content; bool dup = false;
        for (auto it = m.begin(); it != m.end(); ++it) { if (content.count(it->first)) dup = true; content[it->first] = it->second.v; }
        if (dup) violation("a key occurs twice in the final table");
        if (content.size() != m.size()) violation("size() = " + std::to_string(m.size()) + " but the table holds " + std::to_string(content.size()) + " keys");
        for (auto& kv : content) {
            Map::const_accessor a;
            if (m.count(kv.first) != 1 || !m.find(a, kv.first)) { violation("key " + std::to_string(kv.first) + " is linked in the table but cannot be found"); break; }
            if (a->second.magic != MAGIC || a->second.writers || a->second.readers) { violation("key " + std::to_string(kv.first) + ": stale holder bookkeeping or destroyed element in the final table"); break; }
        }
        fin = "final " + std::to_string(m.size());
        for (auto& kv : content) fin += " " + std::to_string(kv.first) + ":" + std::to_string(kv.second);
        // per-key linearizability (initial contents = pre-population, final contents = what the table holds now)
        std::map<long, std::vector<LOp>> per_key;
        std::map<long, long> initial;
        for (long k : g_pre) if (!initial.count(k)) initial[k] = k;
        std::vector<size_t> seen_ops(T, 0);
        for (auto& h : hist) {
            if (h.op == "r") continue;
            int kind = h.op[0] == 'i' || h.op[0] == 'p' ? 0 : h.op[0] == 'f' ? 1 : h.op == "c" ? 2 : h.op == "e" ? 3 : 4;
            long xg = g_xgen[h.tid][seen_ops[h.tid]++];
            LOp o{kind, h.res, h.val, kind == 0 ? h.gen : xg, h.inv, h.resp, h.op.size() > 1};
            per_key[h.key].push_back(o);
        }
        for (auto& kv : initial) per_key[kv.first];
        for (auto& kv : content) per_key[kv.first];
        for (auto& pk : per_key) {
            long st0 = initial.count(pk.first) ? initial[pk.first] : -1;
            long fin_st = content.count(pk.first) ? content[pk.first] : -1;
            std::set<std::pair<unsigned, long>> seen;
            if (pk.second.size() > 24) continue;
            if (!lin_search(pk.second, 0, st0, fin_st, seen)) {
                std::string d = "history of key " + std::to_string(pk.first) + " is not linearizable (initially " + (st0 < 0 ? "absent" : "present") + ", finally " + (fin_st < 0 ? "absent" : "present") + "):";
                static const char* kn[] = {"insert", "find", "count", "erase", "erase(accessor)"};
                for (auto& o : pk.second) d += std::string(" ") + kn[o.kind] + "=" + std::to_string(o.res) + "@[" + std::to_string(o.inv) + "," + std::to_string(o.resp) + "]";
                violation(d);
                break;
            }
        }
        ok = g_err.empty();
    }
    if (g_err.empty() && !r.deadlock) {
        auto races = verif::hb_check(r.log, bodies.size());
        if (!races.empty()) g_err = verif::hb_describe(r.log, races[0]) + " (ghost cell = generation of the mapped value; accesses under accessors / at construction)";
        ok = g_err.empty();
    }
    if (print || !ok) {
        printf("run %d\n", run_idx);
        for (size_t t = 0; t < T; ++t) { printf("eff %zu", t); for (auto& o : eff[t]) printf(" %s", o.c_str()); printf("\n"); }
        for (auto& l : out) puts(l.c_str());
        for (auto& l : out2) puts(l.c_str());
        for (auto& h : hist) printf("h %d %s %ld %d %ld %zu %zu\n", h.tid, h.op.c_str(), h.key, h.res, h.val, h.inv, h.resp);
        for (size_t t = 0; t < T; ++t) if (in_op[t]) printf("h %d %s %ld -1 0 %zu %zu\n", (int)t, open[t].op.c_str(), open[t].key, open[t].inv, r.log.size());
        if (!fin.empty()) puts(fin.c_str());
        printf("mon %s%s\n", g_err.empty() ? (r.deadlock ? "DEADLOCK" : "ok") : "VIOLATION ", g_err.c_str());
        printf("sched"); for (int s : r.schedule) printf(" %d", s); printf("\nend\n");
        fflush(stdout);
    }
    if (r.deadlock) { fflush(stdout); _exit(3); }
    delete mp;
    for (void* p : g_quarantine) free(p);
    g_quarantine.clear();
    return ok;
}

int main(int argc, char** argv) {
    if (argc < 3) return 2;
    setvbuf(stdout, nullptr, _IOFBF, 1 << 20);
    signal(SIGSEGV, crash_handler); signal(SIGBUS, crash_handler); signal(SIGABRT, crash_handler); signal(SIGFPE, crash_handler);
    {   // offset of the mapped value inside a node
        Map tmp; Map::accessor a; tmp.insert(a, std::make_pair(1L, Val(1)));
        g_val_off = (const char*)&a->second - (const char*)a.my_node;
    }
    char line[1 << 16];
    while (fgets(line, sizeof line, stdin)) {
        std::istringstream is(line); std::string w; is >> w;
        if (w == "hash") {
            std::string md; is >> md; u64 p = 0; is >> p;
            g_hash_mode = md == "id" ? 0 : md == "const" ? 1 : md == "shl" ? 2 : md == "mul" ? 3 : md == "fold" ? 4 : 0;
            g_hash_par = p;
        } else if (w == "pre") { long k; while (is >> k) g_pre.push_back(k); }
        else if (w == "prer") { long a, n; is >> a >> n; for (long i = 0; i < n; ++i) g_pre.push_back(a + i); }
        else if (w == "prog") {
            std::vector<Op> ops;
            while (is >> w) {
                Op o; size_t c = w.find(':');
                o.kind = w.substr(0, c);
                if (c != std::string::npos) o.key = atol(w.c_str() + c + 1);
                if (o.kind == "fra" || o.kind == "ira" || o.kind == "pra") { o.kind.pop_back(); o.as_acc = true; }   // same operation, other spelling
                if (op_code(o.kind) < 0) { printf("bad-op %s\n", w.c_str()); return 2; }
                ops.push_back(o);
            }
            g_progs.push_back(ops);
        }
    }
    std::string mode = argv[1];
    long maxruns = argc > 3 ? atol(argv[3]) : 1;
    long runs = 0, bad = 0;
    if (mode == "rand") {
        u64 seed = strtoull(argv[2], 0, 10);
        for (long i = 0; i < maxruns; ++i) { verif::RandomSchedule s(seed * 7919 + i, 32 + (int)(i % 4) * 64); if (!run_once(s, (int)i, true)) bad++; runs++; }
    } else if (mode == "guided") {
        u64 seed = strtoull(argv[2], 0, 10);
        for (long i = 0; i < maxruns; ++i) { GuidedSchedule s(seed * 104729 + i, 64 + (int)(i % 3) * 64); if (!run_once(s, (int)i, true)) bad++; runs++; }
    } else if (mode == "dfs") {
        verif::DfsSchedule d(atoi(argv[2]));
        do { if (!run_once(d, (int)runs, false)) { bad++; break; } runs++; } while (runs < maxruns && d.next());
    } else if (mode == "replay") {
        verif::ReplaySchedule s; std::stringstream ss(argv[2]); std::string tok;
        while (std::getline(ss, tok, ',')) if (!tok.empty()) s.tids.push_back(atoi(tok.c_str()));
        if (!run_once(s, 0, true)) bad++; runs++;
    }
    printf("summary runs=%ld bad=%ld\n", runs, bad);
    return bad ? 1 : 0;
}
