// C07 E-SHIM harness: the REAL tbb::parallel_pipeline on the WHOLE instrumented runtime (every atomic access of
// parallel_pipeline.cpp — input_tokens, end_of_input, the buffers' spin_mutex, wait_ctx — and of the scheduler is a
// scheduling point of the controlled scheduler; worker threads are created under its control).  One run per process;
// a run is reproduced bit for bit from (config, schedule).
//
//   shim <modes> <limit> <items> <P> <bodyseed> rand <seed> [stay]
//   shim <modes> <limit> <items> <P> <bodyseed> replay <rle-schedule>          (tid*count,tid*count,...)
//
//   modes   one letter per filter: p parallel, i serial_in_order, o serial_out_of_order (first = input filter)
//   P       max_allowed_parallelism
//   bodyseed  determines how many scheduling points every filter invocation contains (item- and stage-dependent)
//
// Output: `begin <modes> <limit> <items> <P> <bodyseed>`, then the per-filter event log in execution order
//   ib <inv> | ie <inv> <item|-> | b <k> <item> | e <k> <item> | ret
// then `tok <kind> <old> <new>` lines are NOT printed (addresses of the pipeline object are not known to the harness),
// `stat steps=<n> threads=<n> deadlock=<0|1>`, `sched <rle>`, `end`.  exit code 0, 3 on deadlock / step limit.
#include "oneapi/tbb/parallel_pipeline.h"
#include "oneapi/tbb/global_control.h"
#include "oneapi/tbb/task_arena.h"
#include "verif_hb.h"
#include <cstdio>
#include <cstring>
#include <sstream>
#include <string>
#include <vector>

static std::string g_modes;
static std::size_t g_limit = 1, g_items = 0;
static int g_P = 2;
static uint64_t g_bodyseed = 0;
static std::size_t g_next = 0, g_inv = 0;
static std::atomic<int> g_spin{0};          // instrumented: every load is a scheduling point
static const uint64_t NONE = ~0ull;
static const uint64_t SERIAL_CELL = 1ull << 40;

static uint64_t mix(uint64_t a, uint64_t b, uint64_t c) {
    uint64_t x = a * 0x9E3779B97F4A7C15ull ^ (b + 0x7F4A7C15ull) * 0xBF58476D1CE4E5B9ull ^ (c + 1) * 0x94D049BB133111EBull;
    x ^= x >> 31; x *= 0xD6E8FEB86659FD93ull; x ^= x >> 29;
    return x;
}
// scheduling points inside a filter body: 0..7, heavy-tailed (occasionally up to 40) so that items overtake each other
static void body_points(std::size_t stage, std::size_t item) {
    uint64_t h = mix(g_bodyseed, stage, item);
    unsigned n = (unsigned)(h % 8);
    if ((h >> 8) % 7 == 0) n += (unsigned)((h >> 16) % 33);
    if (g_bodyseed == 0) n = 0;
    for (unsigned i = 0; i < n; ++i) (void)g_spin.load(std::memory_order_relaxed);
}

static bool input_step(tbb::flow_control& fc, std::size_t& id) {
    std::size_t inv = g_inv++;
    if (inv > g_items + 2000) _exit(3);      // end of input is ignored: the pipeline would never return (reported like a deadlock)
    verif::note("ib", inv, 0);
    body_points(0, inv);
    // happens-before ghosts (verif_hb.h): successive invocations of a SERIAL filter write one cell per filter; every
    // invocation on an item writes the item's cell (the token is handed from filter to filter through spawn / the
    // input_buffer under its lock: the hand-over must be ordered by the memory orders the code uses, not only in this SC run)
    if (g_modes[0] != 'p') verif::note("gw", SERIAL_CELL + 0);
    if (g_next < g_items) {
        id = g_next++;
        verif::note("gw", id);
        verif::note("ie", inv, id);
        return true;
    }
    verif::note("ie", inv, NONE);
    fc.stop();
    return false;
}
static void enter(std::size_t k, std::size_t id) {
    verif::note("b", k, id);
    verif::note("gw", id);
    if (g_modes[k] != 'p') verif::note("gw", SERIAL_CELL + k);
    body_points(k, id);
}
static void leave(std::size_t k, std::size_t id) { verif::note("e", k, id); }

static tbb::filter_mode mode_of(char c) {
    return c == 'p' ? tbb::filter_mode::parallel : c == 'i' ? tbb::filter_mode::serial_in_order : tbb::filter_mode::serial_out_of_order;
}

static void run_pipeline() {
    using T = std::size_t;      // item id 0 is a null void* inside the pipeline: deliberately exercised
    std::size_t nf = g_modes.size();
    if (nf == 1) {
        tbb::filter<void, void> f = tbb::make_filter<void, void>(mode_of(g_modes[0]), [](tbb::flow_control& fc) {
            std::size_t id; input_step(fc, id);
        });
        tbb::parallel_pipeline(g_limit, f);
        return;
    }
    tbb::filter<void, T> chain = tbb::make_filter<void, T>(mode_of(g_modes[0]), [](tbb::flow_control& fc) -> T {
        std::size_t id = 0;
        input_step(fc, id);
        return id;
    });
    for (std::size_t k = 1; k + 1 < nf; ++k)
        chain = chain & tbb::make_filter<T, T>(mode_of(g_modes[k]), [k](T v) -> T { enter(k, v); leave(k, v); return v; });
    std::size_t k = nf - 1;
    tbb::filter<void, void> all = chain & tbb::make_filter<T, void>(mode_of(g_modes[k]), [k](T v) { enter(k, v); leave(k, v); });
    tbb::parallel_pipeline(g_limit, all);
}

static void main_body() {
    tbb::global_control gc(tbb::global_control::max_allowed_parallelism, g_P);
    tbb::task_scheduler_handle h{tbb::attach{}};
    run_pipeline();
    verif::note("ret", 0, 0);
    tbb::finalize(h);
}

static std::string rle(const std::vector<int>& s) {
    std::ostringstream o;
    for (size_t i = 0; i < s.size();) {
        size_t j = i; while (j < s.size() && s[j] == s[i]) ++j;
        if (i) o << ",";
        o << s[i] << "*" << (j - i);
        i = j;
    }
    return o.str();
}
static std::vector<int> unrle(const char* p) {
    std::vector<int> out;
    while (*p) {
        int t = (int)strtol(p, (char**)&p, 10);
        long n = 1;
        if (*p == '*') n = strtol(p + 1, (char**)&p, 10);
        for (long i = 0; i < n; ++i) out.push_back(t);
        if (*p == ',') ++p;
    }
    return out;
}

int main(int argc, char** argv) {
    verif::init_determinism(argc, argv);
    if (argc < 8) { fprintf(stderr, "usage: shim <modes> <limit> <items> <P> <bodyseed> rand <seed> [stay] | replay <rle>\n"); return 2; }
    g_modes = argv[1]; g_limit = strtoull(argv[2], nullptr, 10); g_items = strtoull(argv[3], nullptr, 10);
    g_P = atoi(argv[4]); g_bodyseed = strtoull(argv[5], nullptr, 10);
    if (g_modes.empty() || g_limit < 1 || g_P < 1) return 2;
    for (char c : g_modes) if (c != 'p' && c != 'i' && c != 'o') return 2;
    std::string mode = argv[6];
    std::vector<std::function<void()>> bodies;
    bodies.push_back(main_body);
    verif::Result r;
    if (mode == "rand") {
        verif::RandomSchedule rs(strtoull(argv[7], nullptr, 10), argc >= 9 ? atoi(argv[8]) : 96);
        r = verif::run(bodies, rs, 4000000);
    } else if (mode == "replay") {
        verif::ReplaySchedule rp; rp.tids = unrle(argv[7]);
        r = verif::run(bodies, rp, 4000000);
    } else return 2;
    printf("begin %s %zu %zu %d %llu\n", g_modes.c_str(), g_limit, g_items, g_P, (unsigned long long)g_bodyseed);
    int maxtid = 0;
    for (auto& e : r.log) {
        if (e.tid > maxtid) maxtid = e.tid;
        if (e.kind != verif::K_NOTE || !e.tag) continue;
        std::string t = e.tag;
        if (t == "ib") printf("ib %llu\n", (unsigned long long)e.a);
        else if (t == "ie") { if (e.b == NONE) printf("ie %llu -\n", (unsigned long long)e.a); else printf("ie %llu %llu\n", (unsigned long long)e.a, (unsigned long long)e.b); }
        else if (t == "b") printf("b %llu %llu\n", (unsigned long long)e.a, (unsigned long long)e.b);
        else if (t == "e") printf("e %llu %llu\n", (unsigned long long)e.a, (unsigned long long)e.b);
        else if (t == "ret") printf("ret\n");
    }
    verif::HbStats hs;
    std::vector<verif::HbRace> races = verif::hb_check(r.log, bodies.size(), &hs);
    for (auto& rc : races) printf("MON hb-race %s\n", verif::hb_describe(r.log, rc).c_str());
    printf("stat steps=%zu threads=%d deadlock=%d ghost=%zu sync=%zu\n", r.steps, maxtid + 1, r.deadlock ? 1 : 0, hs.ghost, hs.sync_edges);
    printf("sched %s\n", rle(r.schedule).c_str());
    printf("end\n");
    fflush(stdout);
    if (r.deadlock) _exit(3);
    return 0;
}
