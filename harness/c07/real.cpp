// C07 E-REAL harness: runs the real tbb::parallel_pipeline (libtbb built from the current tree) with logging filter
// bodies and prints the per-filter event log of every run, plus implementation-side monitor verdicts.
//
// stdin, one config per line:
//   run <modes> <limit> <items> <threads> <seed> <delaymode>
//     modes      string over p/i/o (parallel / serial_in_order / serial_out_of_order), one char per filter
//     limit      max_number_of_live_tokens
//     items      number of items the input filter yields before flow_control::stop()
//     threads    tbb::global_control::max_allowed_parallelism
//     delaymode  d + 10*v ; d: 0 none, 1 random spin 0-50us, 2 heavy-tailed (1/12: 1-3 ms), 3 reverse-biased (early
//                items slow), 4 sleep/yield based ; v: 0 items carried as std::size_t ids (id 0 is a null void* inside
//                TBB), 1 items carried as pointers, 2 items carried as a non-trivial 32-byte value (library-allocated tokens; every token must be
//                destroyed exactly once), 3 items carried as a trivially copyable class of pointer size whose item 0 is all-zero bytes; the call is spelled (limit,chain) / (limit,chain,context) / variadic / variadic+context by seed % 4
// stdout per config:
//   begin <modes> <limit> <items> <threads> <seed> <delaymode>
//   ib <inv> | ie <inv> <item|-> | b <k> <item> | e <k> <item>      (global log order)
//   ret
//   MON <what> <details>                                              (only on a monitor violation)
//   end
// If a run does not return within <argv[1]> seconds (default 60) the watchdog prints the log so far with `hang` instead
// of `ret`, `MON hang ...`, `end`, and the process exits with status 7 (the remaining configs are not run).
#include <oneapi/tbb/parallel_pipeline.h>
#include <oneapi/tbb/global_control.h>

#include <atomic>
#include <chrono>
#include <condition_variable>
#include <cstdint>
#include <cstdio>
#include <cstdlib>
#include <cstring>
#include <mutex>
#include <sstream>
#include <string>
#include <thread>
#include <type_traits>
#include <vector>
#include <sched.h>
#include <unistd.h>
#include <time.h>

namespace {

struct Event { char kind; long a; long b; };   // kind: 'B' ib, 'E' ie, 'b', 'e'

struct Item { std::size_t id; };

struct Run {
    std::string modes;
    std::size_t limit = 1, items = 0;
    int threads = 1;
    unsigned long long seed = 0;
    int dmode = 0;
    std::size_t nf = 0;
    std::string cfgline;

    std::mutex mu;
    std::vector<Event> log;
    std::vector<std::string> mon;
    std::size_t next = 0;       // next item id (guarded by mu)
    long next_inv = 0;          // next input invocation number (guarded by mu)
    bool returned = false;      // guarded by mu
    bool stopped = false;       // some input invocation called fc.stop() (guarded by mu)

    std::atomic<long> live{0};                 // items returned by the input filter that have not left the last filter
    std::vector<std::atomic<int>> inside;      // per filter: invocations currently inside the body
    std::vector<Item> pool;                    // pointer variant: the objects carried through the pipeline

    Run() : inside(0) {}

    void violation(const char* what, const std::string& det) {   // mu held
        if (mon.size() < 20) mon.push_back(std::string("MON ") + what + " " + det);
    }
    void add(char kind, long a, long b) {                          // mu held
        if (returned) {
            std::ostringstream o; o << kind << " " << a << " " << b;
            violation("event-after-return", o.str());
        }
        log.push_back(Event{kind, a, b});
    }
};

inline unsigned long long mix(unsigned long long x) {
    x += 0x9e3779b97f4a7c15ull;
    x = (x ^ (x >> 30)) * 0xbf58476d1ce4e5b9ull;
    x = (x ^ (x >> 27)) * 0x94d049bb133111ebull;
    return x ^ (x >> 31);
}

void spin_us(double us) {
    auto t0 = std::chrono::steady_clock::now();
    while (std::chrono::duration<double, std::micro>(std::chrono::steady_clock::now() - t0).count() < us) {
#if defined(__x86_64__) || defined(__i386__)
        __builtin_ia32_pause();
#endif
    }
}

// seeded per-(stage, key) delay; key = item id (filters k>=1) or invocation number (input filter)
void delay(const Run& r, std::size_t stage, unsigned long long key) {
    if (r.dmode == 0) return;
    unsigned long long h = mix(r.seed * 0x100000001b3ull + stage * 1000003ull + key * 7919ull + 17);
    double u = (double)(h >> 11) / (double)(1ull << 53);
    unsigned long long h2 = mix(h);
    switch (r.dmode) {
    case 1: spin_us(u * 50.0); break;
    case 2:
        if (h2 % 12 == 0) spin_us(1000.0 + u * 2000.0);   // occasionally very slow so that later items overtake
        else spin_us(u * 20.0);
        break;
    case 3: {
        double base = key < 8 ? (double)(8 - key) * 120.0 : 0.0;   // early items slow
        spin_us(base + u * 15.0);
        break; }
    case 4:
        if (h2 % 3 == 0) sched_yield();
        else if (h2 % 3 == 1) { timespec ts{0, (long)(20000 + u * 180000)}; nanosleep(&ts, nullptr); }
        else { std::this_thread::yield(); spin_us(u * 10.0); }
        break;
    default: break;
    }
}

// -------------------------------------------------------------------------------------------------------------
// item representation: std::size_t ids (id 0 == null void*) or pointers
template <class T> struct Rep;
template <> struct Rep<std::size_t> {
    static std::size_t make(Run&, std::size_t id) { return id; }
    static std::size_t none(Run&) { return 0; }
    static std::size_t id(std::size_t v) { return v; }
};
template <> struct Rep<Item*> {
    static Item* make(Run& r, std::size_t id) { return &r.pool[id]; }
    static Item* none(Run&) { return nullptr; }
    static std::size_t id(Item* p) { return p->id; }
};

// library-allocated tokens: a non-trivially-copyable value larger than a pointer (the filter wrappers allocate, move and destroy it)
std::atomic<long> g_big_live{0}, g_big_bad{0};
struct Big {
    std::size_t id; unsigned magic; char pad[20];
    static constexpr unsigned ALIVE = 0xB16A11E, DEAD = 0xDEADB16;
    Big() : id(0), magic(ALIVE) { ++g_big_live; }
    explicit Big(std::size_t i) : id(i), magic(ALIVE) { ++g_big_live; }
    Big(const Big& o) : id(o.id), magic(ALIVE) { if (o.magic != ALIVE) ++g_big_bad; ++g_big_live; }
    Big(Big&& o) noexcept : id(o.id), magic(ALIVE) { if (o.magic != ALIVE) ++g_big_bad; ++g_big_live; }
    Big& operator=(const Big& o) { if (o.magic != ALIVE || magic != ALIVE) ++g_big_bad; id = o.id; return *this; }
    ~Big() { if (magic != ALIVE) ++g_big_bad; magic = DEAD; --g_big_live; }
};
template <> struct Rep<Big> {
    static Big make(Run&, std::size_t id) { return Big(id); }
    static Big none(Run&) { return Big(0); }
    static std::size_t id(const Big& v) { if (v.magic != Big::ALIVE) ++g_big_bad; return v.id; }
};

// a trivially copyable CLASS type no larger than a pointer: the filter wrappers overlay its bytes on the void* token; item 0 is all-zero bytes
// (a legitimate item that looks like a null pointer: it must not be mistaken for end of input)
struct Small { std::uint32_t id; std::uint16_t a, b; };
static_assert(sizeof(Small) <= sizeof(void*) && std::is_trivially_copyable<Small>::value && !std::is_scalar<Small>::value, "Small token");
template <> struct Rep<Small> {
    static Small make(Run&, std::size_t id) { return Small{(std::uint32_t)id, 0, 0}; }
    static Small none(Run&) { return Small{0, 0, 0}; }
    static std::size_t id(Small v) { return v.id; }
};

// input body common part: returns true and sets id if an item was produced
bool input_step(Run& r, tbb::flow_control& fc, std::size_t& id) {
    long inv;
    {
        std::lock_guard<std::mutex> g(r.mu);
        inv = r.next_inv++;
        if (inv > (long)r.items + 20000) {      // end of input is ignored: the pipeline would never return; report like the watchdog does
            std::printf("%s\n", r.cfgline.c_str());
            std::puts("hang");
            std::printf("MON hang the input filter was invoked %ld times, more than 20000 times after it called flow_control::stop()\n", inv);
            std::puts("end");
            std::fflush(stdout);
            _exit(7);
        }
        r.add('B', inv, 0);
        int was = r.inside[0].fetch_add(1);
        if (was != 0 && r.modes[0] != 'p') {
            std::ostringstream o; o << "filter 0 inv " << inv << " entered while " << was << " other invocation(s) inside";
            r.violation("serial-overlap", o.str());
        }
    }
    delay(r, 0, (unsigned long long)inv);
    std::lock_guard<std::mutex> g(r.mu);
    r.inside[0].fetch_sub(1);
    if (r.next < r.items) {
        id = r.next++;
        r.add('E', inv, (long)id);
        if (r.nf > 1) {
            long l = r.live.fetch_add(1) + 1;
            if (l > (long)r.limit) {
                std::ostringstream o; o << "live=" << l << " limit=" << r.limit << " at ie of item " << id;
                r.violation("live>limit", o.str());
            }
        }
        return true;
    }
    r.add('E', inv, -1);
    r.stopped = true;
    fc.stop();
    return false;
}

void enter(Run& r, std::size_t k, std::size_t id) {
    std::lock_guard<std::mutex> g(r.mu);
    r.add('b', (long)k, (long)id);
    int was = r.inside[k].fetch_add(1);
    if (was != 0 && r.modes[k] != 'p') {
        std::ostringstream o; o << "filter " << k << " item " << id << " entered while " << was << " other invocation(s) inside";
        r.violation("serial-overlap", o.str());
    }
    long l = r.live.load();
    if (l > (long)r.limit) {
        std::ostringstream o; o << "live=" << l << " limit=" << r.limit << " at b " << k << " " << id;
        r.violation("live>limit", o.str());
    }
}

void leave(Run& r, std::size_t k, std::size_t id) {
    std::lock_guard<std::mutex> g(r.mu);
    r.inside[k].fetch_sub(1);
    r.add('e', (long)k, (long)id);
    if (k + 1 == r.nf) r.live.fetch_sub(1);
}

tbb::filter_mode mode_of(char c) {
    return c == 'p' ? tbb::filter_mode::parallel : c == 'i' ? tbb::filter_mode::serial_in_order : tbb::filter_mode::serial_out_of_order;
}

template <class T>
void run_pipeline(Run& r) {
    Run* rp = &r;
    if (r.nf == 1) {
        tbb::filter<void, void> f = tbb::make_filter<void, void>(mode_of(r.modes[0]), [rp](tbb::flow_control& fc) {
            std::size_t id;
            input_step(*rp, fc, id);
        });
        tbb::parallel_pipeline(r.limit, f);
        return;
    }
    tbb::filter<void, T> chain = tbb::make_filter<void, T>(mode_of(r.modes[0]), [rp](tbb::flow_control& fc) -> T {
        std::size_t id;
        if (input_step(*rp, fc, id)) return Rep<T>::make(*rp, id);
        return Rep<T>::none(*rp);
    });
    for (std::size_t k = 1; k + 1 < r.nf; ++k) {
        chain = chain & tbb::make_filter<T, T>(mode_of(r.modes[k]), [rp, k](T v) -> T {
            std::size_t id = Rep<T>::id(v);
            enter(*rp, k, id);
            delay(*rp, k, id);
            leave(*rp, k, id);
            return v;
        });
    }
    std::size_t k = r.nf - 1;
    tbb::filter<T, void> last = tbb::make_filter<T, void>(mode_of(r.modes[k]), [rp, k](T v) {
        std::size_t id = Rep<T>::id(v);
        enter(*rp, k, id);
        delay(*rp, k, id);
        leave(*rp, k, id);
    });
    // every public spelling of the call: (limit, chain) / (limit, chain, context) / variadic (limit, f1, f2) / variadic with context
    switch (r.seed % 4) {
    case 0: { tbb::filter<void, void> all = chain & last; tbb::parallel_pipeline(r.limit, all); break; }
    case 1: { tbb::filter<void, void> all = chain & last; tbb::task_group_context ctx; tbb::parallel_pipeline(r.limit, all, ctx); break; }
    case 2: tbb::parallel_pipeline(r.limit, chain, last); break;
    default: { tbb::task_group_context ctx; tbb::parallel_pipeline(r.limit, chain, last, ctx); break; }
    }
}

double g_watchdog_s = 60.0;

void print_log(Run& r, std::size_t upto) {   // r.mu held
    for (std::size_t i = 0; i < upto; ++i) {
        const Event& e = r.log[i];
        switch (e.kind) {
        case 'B': std::printf("ib %ld\n", e.a); break;
        case 'E': if (e.b < 0) std::printf("ie %ld -\n", e.a); else std::printf("ie %ld %ld\n", e.a, e.b); break;
        case 'b': std::printf("b %ld %ld\n", e.a, e.b); break;
        case 'e': std::printf("e %ld %ld\n", e.a, e.b); break;
        }
    }
}

void do_run(const char* line) {
    char modes[64];
    unsigned long long limit, items, seed;
    int threads, dm;
    if (std::sscanf(line, "run %63s %llu %llu %d %llu %d", modes, &limit, &items, &threads, &seed, &dm) != 6) {
        std::puts("bad-op");
        return;
    }
    // deliberately leaked: if a broken implementation lets a task run a filter body after parallel_pipeline returned,
    // the body must still find its Run object (and the event is reported as event-after-return if it comes in time)
    Run& r = *new Run;
    r.modes = modes;
    r.nf = r.modes.size();
    bool okm = r.nf >= 1;
    for (char c : r.modes) if (c != 'p' && c != 'i' && c != 'o') okm = false;
    if (!okm || limit < 1 || threads < 1 || dm < 0 || dm % 10 > 4 || dm / 10 > 3) { std::puts("bad-op"); return; }
    r.limit = limit; r.items = items; r.threads = threads; r.seed = seed; r.dmode = dm % 10;
    bool ptr = dm / 10 == 1;
    r.inside = std::vector<std::atomic<int>>(r.nf);
    for (auto& a : r.inside) a.store(0);
    r.log.reserve(items * (2 * r.nf + 2) + 4096);
    if (ptr) { r.pool.resize(items); for (std::size_t i = 0; i < items; ++i) r.pool[i].id = i; }
    std::mutex wmu;
    std::condition_variable wcv;
    bool finished = false;
    std::string cfgline;
    {
        std::ostringstream o; o << "begin " << modes << " " << limit << " " << items << " " << threads << " " << seed << " " << dm;
        cfgline = o.str();
        r.cfgline = cfgline;
    }
    std::thread watchdog([&] {
        std::unique_lock<std::mutex> lk(wmu);
        if (wcv.wait_for(lk, std::chrono::duration<double>(g_watchdog_s), [&] { return finished; })) return;
        std::lock_guard<std::mutex> g(r.mu);
        std::printf("%s\n", cfgline.c_str());
        print_log(r, r.log.size());
        std::puts("hang");
        for (const auto& m : r.mon) std::printf("%s\n", m.c_str());
        std::printf("MON hang parallel_pipeline did not return within %.0f s\n", g_watchdog_s);
        std::puts("end");
        std::fflush(stdout);
        _exit(7);
    });
    {
        tbb::global_control gc(tbb::global_control::max_allowed_parallelism, (std::size_t)threads);
        g_big_live = 0; g_big_bad = 0;
        if (dm / 10 == 3) run_pipeline<Small>(r); else if (dm / 10 == 2) run_pipeline<Big>(r); else if (ptr) run_pipeline<Item*>(r); else run_pipeline<std::size_t>(r);
        {
            std::lock_guard<std::mutex> lk(wmu);
            finished = true;
        }
        wcv.notify_all();
        watchdog.join();
        std::lock_guard<std::mutex> g(r.mu);
        r.returned = true;
        if (!r.stopped) r.violation("return-before-end-of-input", "parallel_pipeline returned but no input invocation called flow_control::stop()");
        if (r.next != r.items) {
            std::ostringstream o; o << "emitted " << r.next << " of " << r.items << " items";
            r.violation("return-before-end-of-input", o.str());
        }
        long l = r.live.load();
        if (l != 0) {
            std::ostringstream o; o << l << " emitted item(s) have not left the last filter at return";
            r.violation("return-before-drain", o.str());
        }
        if (g_big_live.load() != 0 || g_big_bad.load() != 0) {
            std::ostringstream o; o << g_big_live.load() << " library-allocated token(s) alive after return, " << g_big_bad.load() << " use(s) of a destroyed / never constructed token";
            r.violation("token-lifecycle", o.str());
        }
        for (std::size_t k = 0; k < r.nf; ++k)
            if (r.inside[k].load() != 0) {
                std::ostringstream o; o << "filter " << k << " still has an invocation inside at return";
                r.violation("return-before-drain", o.str());
            }
    }
    std::size_t logged;
    {
        std::lock_guard<std::mutex> g(r.mu);
        logged = r.log.size();
    }
    std::printf("%s\n", cfgline.c_str());
    {
        std::lock_guard<std::mutex> g(r.mu);
        print_log(r, logged);
        std::puts("ret");
        for (const auto& m : r.mon) std::printf("%s\n", m.c_str());
    }
    std::puts("end");
    std::fflush(stdout);
}

}  // namespace

int main(int argc, char** argv) {
    if (argc > 1) g_watchdog_s = std::atof(argv[1]);
    static char line[1024];
    while (std::fgets(line, sizeof line, stdin)) {
        if (!std::strncmp(line, "run ", 4)) do_run(line);
        else { std::puts("bad-op"); std::fflush(stdout); }
    }
    return 0;
}
