// C07 E-PURE harness: white-box differential of r1::input_buffer (the real code of src/tbb/parallel_pipeline.cpp,
// textually included) against the Lean `TokenBuf` (driver `c07buf`).
// Flags: -I REPO/src -I REPO/src/tbb -D__TBB_BUILD -fno-access-control ; linked with the real libtbb (allocators).
//
// Line protocol (one output line per input line):
//   new <0|1>                     -> <state>
//   neww <0|1> <offset>           -> <state>      (white box: low_token = high_token = offset)
//   put <item> <ready> <token>    -> P <parked> <item>:<token>:<ready> <tok> | <state>     or  reject
//   done                          -> D - | <state>    or   D <item>:<token>:<ready> | <state>
//   tok                           -> T <tok> | <state>
//   <state> = <array_size> <low_token> <high_token> <slot0> <slot1> ...   slot = - | item:token:ready
#include "tbb/parallel_pipeline.cpp"

#include <cstdint>
#include <cstdio>
#include <cstdlib>
#include <cstring>
#include <new>
#include <string>

namespace tbb { namespace detail { namespace r1 {
void handle_perror(int, const char* what) { std::fprintf(stderr, "handle_perror: %s\n", what); std::abort(); }
}}}

using namespace tbb::detail;
using r1::input_buffer;
using r1::task_info;
using r1::Token;

// the `StageTask` parameter of try_to_spawn_task_for_next_token: records the wakee instead of spawning a task
struct fake_spawner {
    bool woke = false;
    task_info wakee;
    void spawn_stage_task(const task_info& info, d1::execution_data&) {
        if (woke) { std::puts("FATAL two wakees from one call"); std::exit(3); }
        woke = true;
        wakee = info;
    }
};

static std::string show_info(const task_info& i) {
    char buf[96];
    unsigned long long item = (unsigned long long)(std::uintptr_t)i.my_object;
    if (item == 0) std::snprintf(buf, sizeof buf, "null:%lu:%d", (unsigned long)i.my_token, i.my_token_ready ? 1 : 0);
    else std::snprintf(buf, sizeof buf, "%llu:%lu:%d", item - 1, (unsigned long)i.my_token, i.my_token_ready ? 1 : 0);
    return buf;
}

static std::string show_state(const input_buffer& b) {
    std::string s;
    char buf[96];
    std::snprintf(buf, sizeof buf, "%lu %lu %lu", (unsigned long)b.array_size, (unsigned long)b.low_token, (unsigned long)b.high_token);
    s = buf;
    for (Token j = 0; j < b.array_size; ++j) {
        s += ' ';
        if (!b.array[j].is_valid) s += '-';
        else s += show_info(b.array[j]);
    }
    return s;
}

int main() {
    alignas(input_buffer) static unsigned char storage[sizeof(input_buffer)];
    input_buffer* b = new (storage) input_buffer(true);
    static char line[1 << 12];
    while (std::fgets(line, sizeof line, stdin)) {
        char cmd[32] = {0}, extra[8] = {0};
        unsigned long long a = 0, r = 0, t = 0;
        int n = std::sscanf(line, "%31s %llu %llu %llu %7s", cmd, &a, &r, &t, extra);
        if (n < 1) { std::puts("bad-op"); continue; }
        if (!std::strcmp(cmd, "new") && n == 2) {
            std::fflush(stdout);   // if the code under test crashes or hangs, the output is complete up to this sequence
            b->~input_buffer();
            b = new (storage) input_buffer(a != 0);
            std::printf("%s\n", show_state(*b).c_str());
        } else if (!std::strcmp(cmd, "neww") && n == 3) {
            // white box: a fresh buffer whose token counters start at <offset> (e.g. near SIZE_MAX)
            std::fflush(stdout);
            b->~input_buffer();
            b = new (storage) input_buffer(a != 0);
            b->low_token = (Token)r;
            b->high_token = (Token)r;
            std::printf("%s\n", show_state(*b).c_str());
        } else if (!std::strcmp(cmd, "put") && n == 4) {
            task_info info;
            info.my_object = (void*)(std::uintptr_t)(a + 1);
            info.my_token = (Token)t;
            info.my_token_ready = r != 0;
            info.is_valid = false;
            // the token under which the item is handled in this buffer
            Token used = (b->is_ordered && info.my_token_ready) ? info.my_token : b->high_token;
            if ((long)(used - b->low_token) < 0) {
                // the code's assertion __TBB_ASSERT((long)(token-low_token)>=0) would fail; not called (UB in release builds)
                std::puts("reject");
                continue;
            }
            bool parked = b->try_put_token(info);
            std::printf("P %d %s %lu | %s\n", parked ? 1 : 0, show_info(info).c_str(), (unsigned long)used, show_state(*b).c_str());
        } else if (!std::strcmp(cmd, "done") && n == 1) {
            fake_spawner sp;
            d1::execution_data ed{};
            b->try_to_spawn_task_for_next_token(sp, ed);
            if (sp.woke) std::printf("D %s | %s\n", show_info(sp.wakee).c_str(), show_state(*b).c_str());
            else std::printf("D - | %s\n", show_state(*b).c_str());
        } else if (!std::strcmp(cmd, "tok") && n == 1) {
            Token k = b->get_ordered_token();
            std::printf("T %lu | %s\n", (unsigned long)k, show_state(*b).c_str());
        } else {
            std::puts("bad-op");
        }
    }
    b->~input_buffer();
    return 0;
}
