// C07 token life cycle harness: the REAL tbb::parallel_pipeline with a FAULT injected (a filter body throws / somebody
// cancels the context) and a token-object ledger: the items travel as a non-trivial 32-byte value, so every token between
// two filters is an object the library allocates (token_helper<T,true>::create_token), moves and must destroy exactly
// once (destroy_token in the next filter's wrapper, or concrete_filter::finalize from ~stage_task of a cancelled task).
//
// Two builds of this file:
//   -DLIFE_SHIM   whole instrumented runtime under the controlled scheduler (one run per process, reproducible bit for
//                 bit from config + schedule):
//                     life <modes> <limit> <items> <P> <bodyseed> <fault> rand <seed> [stay] | replay <rle>
//   (default)     real threads, libtbb of the current tree; stdin lines
//                     run <modes> <limit> <items> <threads> <seed> <fault>
//   fault:  N      none
//           T<n>   the n-th filter invocation (all filters, counted in the order the bodies begin, from 0) throws
//           C<n>   the n-th filter invocation calls cancel_group_execution() on the pipeline's context and goes on
//           E<n>   another thread cancels the context: SHIM: after n of its own scheduling points; real: once n events are logged
// Output:  begin <modes> <limit> <items> <P|threads> <seed> <fault>
//          ib <inv> | ie <inv> <item|-> | ix <inv> | b <k> <item> | e <k> <item> | x <k> <item> | cq | d <item> <k> | ret
//          alive <item> <k>      (after ret: token objects never destroyed)
//          MON <what> <detail>   (implementation-side ledger monitor: destroyed twice / destroyed but never made /
//                                 stop value forwarded or not destroyed / use of a dead object)
//          [stat .. / sched ..]  end
// Token object (item,k) = the value returned by filter k for `item`; (inv,STOP) = the value returned by the input
// invocation `inv` that called fc.stop().
#include "oneapi/tbb/parallel_pipeline.h"
#include "oneapi/tbb/global_control.h"
#include "oneapi/tbb/task_arena.h"
#include "oneapi/tbb/task_group.h"
#ifdef LIFE_SHIM
#include "tbb/governor.h"
#include "verif_hb.h"
#endif
#include <atomic>
#include <cstdio>
#include <cstring>
#include <cstdlib>
#include <functional>
#include <map>
#include <mutex>
#include <sstream>
#include <string>
#include <thread>
#include <vector>
#include <stdexcept>
#include <unistd.h>

static const unsigned STOP = 999;
static const uint64_t NONE = ~0ull;

struct LogEv { std::string tag; uint64_t a, b; };

static std::string g_modes;
static std::size_t g_limit = 1, g_items = 0;
static int g_P = 2;
static uint64_t g_seed = 0;
static char g_fkind = 'N';
static long g_fn = -1;
static std::size_t g_next = 0, g_inv = 0;
static long g_invocations = 0;
static tbb::task_group_context* g_ctx = nullptr;
static std::atomic<int> g_spin{0};
static std::atomic<int> g_ext_done{0};

// ---- ledger: per object identity, how often constructed / destroyed (guarded by the log lock) ----
struct Cnt { int made = 0, dead = 0; };
static std::map<std::pair<unsigned, unsigned>, Cnt> g_ledger;
static std::vector<std::string> g_mon;
static void mon(const std::string& s) { if (g_mon.size() < 20) g_mon.push_back("MON " + s); }

#ifdef LIFE_SHIM
static void logev(const char* tag, uint64_t a, uint64_t b) { verif::note(tag, a, b); }
// happens-before ghosts (verif_hb.h): one cell per item (written by every invocation on it and by the destruction of its
// token objects), one cell per serial filter (written by each of its invocations)
static const uint64_t SERIAL_CELL = 1ull << 40;
static void ghost_item(uint64_t item) { verif::note("gw", item); }
static void ghost_serial(std::size_t k) { if (g_modes[k] != 'p') verif::note("gw", SERIAL_CELL + k); }
struct LogLock { };
static void spin_points(unsigned n) { for (unsigned i = 0; i < n; ++i) (void)g_spin.load(std::memory_order_relaxed); }
#else
static std::mutex g_mu;
static std::vector<LogEv> g_log;
static void logev(const char* tag, uint64_t a, uint64_t b) { g_log.push_back(LogEv{tag, a, b}); }   // g_mu held
struct LogLock { std::lock_guard<std::mutex> g{g_mu}; };
static void ghost_item(uint64_t) {}
static void ghost_serial(std::size_t) {}
static void spin_points(unsigned n) { for (volatile unsigned i = 0; i < n * 40; ++i) { } if (n % 5 == 0) std::this_thread::yield(); }
#endif

struct Tok {
    unsigned item, stage;
    bool ident;                 // this object IS the token (item,stage); false: moved-from shell / plain copy
    unsigned magic;
    char pad[16];
    static constexpr unsigned ALIVE = 0xB16A11E, DEAD = 0xDEADB16;
    Tok() : item(0), stage(0), ident(false), magic(ALIVE) {}
    Tok(unsigned i, unsigned k) : item(i), stage(k), ident(true), magic(ALIVE) { g_ledger[{i, k}].made++; }   // log lock held by the body
    Tok(const Tok& o) : item(o.item), stage(o.stage), ident(false), magic(ALIVE) { check(o); }
    Tok(Tok&& o) noexcept : item(o.item), stage(o.stage), ident(o.ident), magic(ALIVE) { check(o); o.ident = false; }
    Tok& operator=(const Tok&) = delete;
    static void check(const Tok& o) { if (o.magic != ALIVE) { LogLock l; mon("dead-object-used a token object was read after its destruction"); } }
    ~Tok() {
        if (magic != ALIVE) { LogLock l; mon("dead-object-destroyed a token object was destroyed twice (raw)"); }
        magic = DEAD;
        if (ident) {
            LogLock l;
            g_ledger[{item, stage}].dead++;
            if (stage != STOP) ghost_item(item);
            logev("d", item, stage);
        }
    }
};
static_assert(sizeof(Tok) > sizeof(void*) && !std::is_trivially_copyable<Tok>::value, "library-allocated token");

static uint64_t mix(uint64_t a, uint64_t b, uint64_t c) {
    uint64_t x = a * 0x9E3779B97F4A7C15ull ^ (b + 0x7F4A7C15ull) * 0xBF58476D1CE4E5B9ull ^ (c + 1) * 0x94D049BB133111EBull;
    x ^= x >> 31; x *= 0xD6E8FEB86659FD93ull; x ^= x >> 29;
    return x;
}
static unsigned body_len(std::size_t stage, std::size_t key) {
    if (g_seed == 0) return 0;
    uint64_t h = mix(g_seed, stage, key);
    unsigned n = (unsigned)(h % 8);
    if ((h >> 8) % 7 == 0) n += (unsigned)((h >> 16) % 33);
    return n;
}

// returns 0 nothing, 1 throw, 2 cancel — decided at the begin of the invocation (log lock held)
static int fault_here() {
    long me = g_invocations++;
    if (me == g_fn && g_fkind == 'T') return 1;
    if (me == g_fn && g_fkind == 'C') return 2;
    return 0;
}

// a pipeline that keeps calling the input filter long after fc.stop() never ends: report and leave
static void runaway() {
    printf("begin %s %zu %zu %d %llu %c%ld\n", g_modes.c_str(), g_limit, g_items, g_P, (unsigned long long)g_seed, g_fkind, g_fn < 0 ? 0 : g_fn);
    printf("MON stop-value-forwarded the input filter was invoked %zu times, more than 200 times after it called fc.stop(): end of input is ignored\n", g_inv);
    printf("end\n");
    fflush(stdout);
    _exit(4);
}

static Tok input_body(tbb::flow_control& fc) {
    std::size_t inv; int f;
    { LogLock l; inv = g_inv++; if (inv > g_items + 200) runaway(); logev("ib", inv, 0); f = fault_here(); if (f == 2) logev("cq", 0, 0); }
    if (f == 2) g_ctx->cancel_group_execution();
    spin_points(body_len(0, inv));
    LogLock l;
    if (f == 1) { logev("ix", inv, 0); throw std::runtime_error("injected"); }
    ghost_serial(0);
    if (g_next < g_items) {
        std::size_t id = g_next++;
        ghost_item(id);
        logev("ie", inv, id);
        return Tok((unsigned)id, 0);
    }
    logev("ie", inv, NONE);
    fc.stop();
    return Tok((unsigned)inv, STOP);
}

static void enter(std::size_t k, const Tok& in, int& f) {
    LogLock l;
    if (in.magic != Tok::ALIVE || !in.ident) mon("dead-object-used filter " + std::to_string(k) + " received a destroyed / moved-from token object");
    if (in.stage == STOP) mon("stop-value-forwarded the value returned by the invocation that called fc.stop() reached filter " + std::to_string(k));
    else if (in.stage + 1 != k) mon("wrong-object filter " + std::to_string(k) + " received the token object made by filter " + std::to_string(in.stage));
    logev("b", k, in.item);
    ghost_item(in.item);
    ghost_serial(k);
    f = fault_here();
    if (f == 2) logev("cq", 0, 0);
}
static void middle(std::size_t k, const Tok& in) {
    int f; enter(k, in, f);
    if (f == 2) g_ctx->cancel_group_execution();
    spin_points(body_len(k, in.item));
    if (f == 1) { { LogLock l; logev("x", k, in.item); } throw std::runtime_error("injected"); }
}

static tbb::filter_mode mode_of(char c) {
    return c == 'p' ? tbb::filter_mode::parallel : c == 'i' ? tbb::filter_mode::serial_in_order : tbb::filter_mode::serial_out_of_order;
}

static void run_pipeline() {
    std::size_t nf = g_modes.size();
    try {
        if (nf == 1) {
            tbb::filter<void, void> f = tbb::make_filter<void, void>(mode_of(g_modes[0]), [](tbb::flow_control& fc) {
                Tok t = input_body(fc); t.ident = false;     // single filter: nothing travels; the value is the body's own
                LogLock l; g_ledger.erase({t.item, t.stage});
            });
            tbb::parallel_pipeline(g_limit, f, *g_ctx);
        } else {
            tbb::filter<void, Tok> chain = tbb::make_filter<void, Tok>(mode_of(g_modes[0]), [](tbb::flow_control& fc) -> Tok { return input_body(fc); });
            for (std::size_t k = 1; k + 1 < nf; ++k)
                chain = chain & tbb::make_filter<Tok, Tok>(mode_of(g_modes[k]), [k](const Tok& in) -> Tok {
                    middle(k, in);
                    LogLock l; logev("e", k, in.item);
                    return Tok(in.item, (unsigned)k);
                });
            std::size_t k = nf - 1;
            tbb::filter<void, void> all = chain & tbb::make_filter<Tok, void>(mode_of(g_modes[k]), [k](const Tok& in) {
                middle(k, in);
                LogLock l; logev("e", k, in.item);
            });
            tbb::parallel_pipeline(g_limit, all, *g_ctx);
        }
    } catch (...) { }
    LogLock l; logev("ret", 0, 0);
}

static bool parse_fault(const char* s) {
    g_fkind = s[0];
    if (g_fkind == 'N') return true;
    if (g_fkind != 'T' && g_fkind != 'C' && g_fkind != 'E') return false;
    g_fn = atol(s + 1);
    return g_fn >= 0;
}

static void print_tail() {
    for (auto& kv : g_ledger) {
        const Cnt& c = kv.second;
        unsigned i = kv.first.first, k = kv.first.second;
        if (c.dead > c.made || c.dead > 1 || c.made > 1) {
            std::ostringstream o; o << (c.dead > 1 ? "token-destroyed-twice" : c.made > 1 ? "token-made-twice" : "token-destroyed-never-made") << " token object (" << i << "," << k << ") constructed " << c.made << "x destroyed " << c.dead << "x";
            mon(o.str());
        }
        if (c.made >= 1 && c.dead == 0) {
            if (k == STOP) { std::ostringstream o; o << "stop-value-not-destroyed the value returned by the stop() invocation " << i << " was never destroyed"; mon(o.str()); }
            else printf("alive %u %u\n", i, k);
        }
    }
    for (auto& m : g_mon) printf("%s\n", m.c_str());
}

#ifdef LIFE_SHIM
static void main_body() {
    tbb::global_control gc(tbb::global_control::max_allowed_parallelism, g_P);
    tbb::task_scheduler_handle h{tbb::attach{}};
    run_pipeline();
    if (g_fkind == 'E') while (!g_ext_done.load(std::memory_order_acquire)) { }
    tbb::finalize(h);
}
static void ext_body() {
    for (long i = 0; i < g_fn; ++i) (void)g_spin.load(std::memory_order_relaxed);
    verif::note("cq", 0, 0);
    g_ctx->cancel_group_execution();
    tbb::detail::r1::governor::terminate_external_thread();
    g_ext_done.store(1, std::memory_order_release);
}
static std::string rle(const std::vector<int>& s) {
    std::ostringstream o;
    for (size_t i = 0; i < s.size();) {
        size_t j = i; while (j < s.size() && s[j] == s[i]) ++j;
        if (i) o << ",";
        o << s[i] << "*" << (j - i);
        i = j;
    }
    return o.str();
}
static std::vector<int> unrle(const char* p) {
    std::vector<int> out;
    while (*p) {
        int t = (int)strtol(p, (char**)&p, 10);
        long n = 1;
        if (*p == '*') n = strtol(p + 1, (char**)&p, 10);
        for (long i = 0; i < n; ++i) out.push_back(t);
        if (*p == ',') ++p;
    }
    return out;
}
int main(int argc, char** argv) {
    verif::init_determinism(argc, argv);
    verif::report_crashes();
    if (argc < 9) { fprintf(stderr, "usage: life <modes> <limit> <items> <P> <bodyseed> <fault> rand <seed> [stay] | replay <rle>\n"); return 2; }
    g_modes = argv[1]; g_limit = strtoull(argv[2], nullptr, 10); g_items = strtoull(argv[3], nullptr, 10);
    g_P = atoi(argv[4]); g_seed = strtoull(argv[5], nullptr, 10);
    if (g_modes.empty() || g_limit < 1 || g_P < 1 || !parse_fault(argv[6])) return 2;
    for (char c : g_modes) if (c != 'p' && c != 'i' && c != 'o') return 2;
    g_ctx = new tbb::task_group_context;
    std::string mode = argv[7];
    std::vector<std::function<void()>> bodies;
    bodies.push_back(main_body);
    if (g_fkind == 'E') bodies.push_back(ext_body);
    verif::Result r;
    if (mode == "rand") {
        verif::RandomSchedule rs(strtoull(argv[8], nullptr, 10), argc >= 10 ? atoi(argv[9]) : 96);
        r = verif::run(bodies, rs, 4000000);
    } else if (mode == "replay") {
        verif::ReplaySchedule rp; rp.tids = unrle(argv[8]);
        r = verif::run(bodies, rp, 4000000);
    } else return 2;
    printf("begin %s %zu %zu %d %llu %s\n", g_modes.c_str(), g_limit, g_items, g_P, (unsigned long long)g_seed, argv[6]);
    int maxtid = 0;
    for (auto& e : r.log) {
        if (e.tid > maxtid) maxtid = e.tid;
        if (e.kind != verif::K_NOTE || !e.tag) continue;
        std::string t = e.tag;
        if (t == "ib" || t == "ix") printf("%s %llu\n", t.c_str(), (unsigned long long)e.a);
        else if (t == "ie") { if (e.b == NONE) printf("ie %llu -\n", (unsigned long long)e.a); else printf("ie %llu %llu\n", (unsigned long long)e.a, (unsigned long long)e.b); }
        else if (t == "b" || t == "e" || t == "x" || t == "d") printf("%s %llu %llu\n", t.c_str(), (unsigned long long)e.a, (unsigned long long)e.b);
        else if (t == "cq" || t == "ret") printf("%s\n", t.c_str());
    }
    verif::HbStats hs;
    std::vector<verif::HbRace> races = verif::hb_check(r.log, bodies.size(), &hs);
    for (auto& rc : races) mon("hb-race " + verif::hb_describe(r.log, rc));
    print_tail();
    printf("stat steps=%zu threads=%d deadlock=%d ghost=%zu sync=%zu\n", r.steps, maxtid + 1, r.deadlock ? 1 : 0, hs.ghost, hs.sync_edges);
    printf("sched %s\n", rle(r.schedule).c_str());
    printf("end\n");
    fflush(stdout);
    if (r.deadlock) _exit(3);
    _exit(0);
}
#else
static void do_run(const char* line) {
    char modes[64], fault[32];
    unsigned long long limit, items, seed; int threads;
    if (sscanf(line, "run %63s %llu %llu %d %llu %31s", modes, &limit, &items, &threads, &seed, fault) != 6 || !parse_fault(fault)) { puts("bad-op"); return; }
    g_modes = modes; g_limit = limit; g_items = items; g_P = threads; g_seed = seed;
    for (char c : g_modes) if (c != 'p' && c != 'i' && c != 'o') { puts("bad-op"); return; }
    if (g_modes.empty() || g_limit < 1 || g_P < 1) { puts("bad-op"); return; }
    g_next = 0; g_inv = 0; g_invocations = 0; g_ledger.clear(); g_mon.clear(); g_log.clear(); g_ext_done = 0;
    g_ctx = new tbb::task_group_context;
    std::atomic<bool> finished{false};
    std::thread ext;
    if (g_fkind == 'E') ext = std::thread([&] {
        for (;;) {
            { std::lock_guard<std::mutex> g(g_mu); if ((long)g_log.size() >= g_fn || finished.load()) { logev("cq", 0, 0); break; } }
            std::this_thread::yield();
        }
        g_ctx->cancel_group_execution();
    });
    {
        tbb::global_control gc(tbb::global_control::max_allowed_parallelism, (std::size_t)threads);
        run_pipeline();
    }
    finished = true;
    if (ext.joinable()) ext.join();
    printf("begin %s %zu %zu %d %llu %s\n", g_modes.c_str(), g_limit, g_items, g_P, (unsigned long long)g_seed, fault);
    {
        std::lock_guard<std::mutex> g(g_mu);
        bool ret_seen = false;
        for (auto& e : g_log) {
            if (ret_seen && e.tag != "cq") { mon("event-after-return " + e.tag); continue; }
            if (ret_seen) continue;
            if (e.tag == "ib" || e.tag == "ix") printf("%s %llu\n", e.tag.c_str(), (unsigned long long)e.a);
            else if (e.tag == "ie") { if (e.b == NONE) printf("ie %llu -\n", (unsigned long long)e.a); else printf("ie %llu %llu\n", (unsigned long long)e.a, (unsigned long long)e.b); }
            else if (e.tag == "cq" || e.tag == "ret") printf("%s\n", e.tag.c_str());
            else printf("%s %llu %llu\n", e.tag.c_str(), (unsigned long long)e.a, (unsigned long long)e.b);
            if (e.tag == "ret") ret_seen = true;
        }
        print_tail();
    }
    puts("end");
    fflush(stdout);
    delete g_ctx; g_ctx = nullptr;
}
int main() {
    static char line[1024];
    while (fgets(line, sizeof line, stdin)) {
        if (!strncmp(line, "run ", 4)) do_run(line);
        else { puts("bad-op"); fflush(stdout); }
    }
    return 0;
}
#endif
