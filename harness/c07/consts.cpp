// E-GEN constant dumper for C07: compiled against the current src/tbb/parallel_pipeline.cpp on every run.
// Flags: -I REPO/src -I REPO/src/tbb -D__TBB_BUILD -fno-access-control
#include "tbb/parallel_pipeline.cpp"
#include <cstdio>

namespace tbb { namespace detail { namespace r1 {
// not exported by libtbb; only referenced from the TLS helpers of input_buffer
void handle_perror(int, const char* what) { std::fprintf(stderr, "handle_perror: %s\n", what); std::abort(); }
// out-of-line definition for the in-class initialised static (ODR-use safety at -O0)
const input_buffer::size_type input_buffer::initial_buffer_size;
}}}

int main() {
    using namespace tbb::detail::r1;
    std::printf("{\"initialBufferSize\": %lu, \"tokenBits\": %zu}\n",
                (unsigned long)input_buffer::initial_buffer_size, 8 * sizeof(Token));
    return 0;
}
