#!/usr/bin/env python3
"""Generator of the mechanical preservation proofs of C04 (lean/TbbVerif/Proofs/C04/Struct[B-G].lean, OrigA/OrigB.lean,
Reach[A-G].lean, WinA.lean).  Not run by the check: the generated .lean files are committed sources and are what
`lake build` checks.  It exists so that the ~45 x (exec + begin) case analyses can be regenerated when the model's step
function changes.  Each table entry: field name -> (statement over the post-state S, intro names, is the first bound
variable a thread id, invariant fields used as hypotheses, lemmas for simp | lemmas for grind only).

usage (from /verif/lean):  python3 ../harness/c04/gen_lean_proofs.py <OutModule> <ImportedModule> <field> [<field>...]
  the invocations that produced the committed files:
    StructB StructA lmxBind lmxDes bindReg          | StructC StructB parSet isoRoot parDone ownsSt ownerPar
    StructD StructC regMem snapPar rootPar createdLst | StructE StructD itemsOk itemsNodup preReg desGone createdPar
    StructF StructE boundReg parAlive bindAlive dyingOk bindNotDying | StructG StructF dyingSt
    OrigA OrigInv won paint copy | OrigB OrigA can | WinA WinInv copyT winsLe winsClr
    ReachA ReachLemmas propMx propHeld noResetOp noResetPc epochLe | ReachB ReachA srcCan skipCan walkG syncG wonCan
    ReachC ReachB snapLe copyTrue mhcReg mhcBind | ReachD ReachC epochNear epochFree epochWalk
    ReachE ReachD snapEpoch pend painting | ReachF ReachLemmas2 walked | ReachG ReachF spec fbDone
"""
import sys
FIELDS = {
 # name: (statement over S, intro names (first = thread var or None), hypotheses (fields of Struct), grind lemmas)
 "lmxBind": ("∀ t' x p sn, S.pc t' = .bRegU x p sn → S.lmx t' = some t'", "t' x p sn h1", True, ["lmxWalk","lmxBind","lmxDes"], "Pc.walkIdx"),
 "lmxDes": ("∀ t' x L, S.pc t' = .dUnlock x → S.lst x = some L → S.lmx L = some t'", "t' x L h1 h2", True, ["lmxWalk","lmxBind","lmxDes","bindNotDying","dyingOk"], "Pc.walkIdx, Pc.bindTarget, Pc.destroying"),
 "bindReg": ("∀ t', (S.pc t').isBind = true → t' ∈ reg", "t' h1", True, ["bindReg"], "Pc.isBind"),
 "parSet": ("∀ x p, S.par x = some p → S.cst x ≠ .created ∧ S.depth x = S.depth p + 1", "x p h1", False, ["parSet","parDone","bindAlive"], "Pc.bindParent, okParent"),
 "isoRoot": ("∀ x, S.cst x = .isolated → S.par x = none", "x h1", False, ["isoRoot","ownsSt","ownerPar"], "Pc.owner, Pc.owns"),
 "parDone": ("∀ y p, S.par y = some p → S.cst p ≠ .created ∧ S.cst p ≠ .locked", "y p h1", False, ["parDone","bindAlive","ownsSt"], "Pc.bindParent, Pc.owns, okParent"),
 "ownsSt": ("∀ t' x, (S.pc t').owns = some x → S.cst x = .locked", "t' x h1", True, ["ownsSt","ownsUnique","bindNotDying","dyingOk"], "Pc.owns, Pc.owns_bindTarget, Pc.bindTarget, Pc.destroying"),
 "ownsUnique": ("∀ t1 t2 x, (S.pc t1).owns = some x → (S.pc t2).owns = some x → t1 = t2", "t1 t2 x h1 h2", "two", ["ownsSt","ownsUnique"], "Pc.owns"),
 "ownerPar": ("∀ t' x p, (S.pc t').owner = some (x, p) → S.par x = p", "t' x p h1", True, ["ownerPar","ownsSt"], "Pc.owner, Pc.owns, Pc.owner_owns"),
 "regMem": ("∀ t' x, (S.pc t').registered = some x → x ∈ S.items t'", "t' x h1", True, ["regMem","dyingOk","bindNotDying"], "Pc.registered, Pc.registered_owns, Pc.owns_bindTarget, Pc.destroying, Pc.bindTarget"),
 "snapPar": ("∀ t' p, (S.pc t').snapBranch = some p → S.par p ≠ none", "t' p h1", True, ["snapPar","bindAlive"], "Pc.snapBranch, Pc.snapBranch_bindParent, Pc.bindParent, okParent"),
 "rootPar": ("∀ t' p, (S.pc t').rootBranch = some p → S.par p = none", "t' p h1", True, ["rootPar","bindAlive"], "Pc.rootBranch, Pc.rootBranch_bindParent, Pc.bindParent, okParent"),
 "itemsOk": ("∀ L x, x ∈ S.items L → S.lst x = some L ∧ L ∈ reg ∧ S.par x ≠ none", "L x h1", False, ["itemsOk","itemsNodup","bindReg","ownerPar","preReg","desGone","createdPar"], "Pc.owner, Pc.registered, Pc.isBind, List.Nodup.mem_erase_iff"),
 "itemsNodup": ("∀ L, (S.items L).Nodup", "L", False, ["itemsOk","itemsNodup","preReg"], "Pc.owner, Pc.registered, List.Nodup.erase, List.nodup_cons"),
 "createdLst": ("∀ x, S.cst x = .created → S.lst x = none", "x h1", False, ["createdLst","ownsSt"], "Pc.owns"),
 "preReg": ("∀ t' x p, (S.pc t').owner = some (x, p) → (S.pc t').registered = none → S.lst x = none", "t' x p h1 h2", True, ["preReg","createdLst","ownsUnique","ownsSt"], "Pc.owner, Pc.registered, Pc.owns, Pc.owner_owns"),
 "desGone": ("∀ t' x L, S.pc t' = .dUnlock x → x ∉ S.items L", "t' x L h1", True, ["desGone","itemsOk","itemsNodup","dyingOk","bindNotDying"], "Pc.destroying, Pc.bindTarget, List.Nodup.mem_erase_iff"),
 "boundReg": ("∀ x, S.cst x = .bound → S.dying x = false → ∃ L, S.lst x = some L ∧ x ∈ S.items L", "x h1 h2", False, ["boundReg","regMem","itemsOk","dyingOk","ownsSt"], "Pc.registered, Pc.destroying, Pc.owns, List.mem_cons"),
 "parAlive": ("∀ L x p, x ∈ S.items L → S.par x = some p → (S.cst p = .bound ∨ S.cst p = .isolated) ∧ S.dying p = false", "L x p h1 h2", False, ["parAlive","bindAlive","itemsOk","dyingOk","ownerPar","parSet","ownsSt"], "okParent, Pc.bindParent, Pc.owner, Pc.owns, Pc.destroying, List.mem_of_mem_erase, List.mem_cons"),
 "bindAlive": ("∀ t' p, (S.pc t').bindParent = some p → (S.cst p = .bound ∨ S.cst p = .isolated) ∧ S.dying p = false", "t' p h1", True, ["bindAlive","dyingOk","bindReg","ownsSt"], "okParent, Pc.bindParent, Pc.destroying, Pc.bindParent_isBind, Pc.owns"),
 "dyingOk": ("∀ t' x, (S.pc t').destroying = some x → S.dying x = true", "t' x h1", True, ["dyingOk"], "Pc.destroying"),
 "bindNotDying": ("∀ t' x, (S.pc t').bindTarget = some x → S.dying x = false", "t' x h1", True, ["bindNotDying","bindReg"], "Pc.bindTarget, Pc.bindTarget_isBind"),
 "createdPar": ("∀ x, S.cst x = .created → S.par x = none", "x h1", False, ["createdPar"], "Pc.owns"),
 "dyingSt": ("∀ x, S.dying x = true → S.cst x = .dead ∨ ∃ t', (S.pc t').destroying = some x", "x h1", False, ["dyingSt","dyingOk","bindNotDying","ownsSt"], "Pc.destroying, Pc.owns, Pc.owns_bindTarget"),
 "can": ("∀ x, S.can x = true → Justified S.par S.wins x", "x h1", False, ["O.can","O.won","O.paint","O.copy","S.ownerPar","S.createdPar","S.parDone"], "Pc.wonSrc, Pc.copyVal, Pc.owner, justified_self, justified_anc, justified_child, justified_upd_wins, justified_upd_wins_self, justified_upd_par"),
 "won": ("∀ t' a, (S.pc t').wonSrc = some a → 1 ≤ S.wins a", "t' a h1", True, ["O.won"], "Pc.wonSrc"),
 "paint": ("∀ t' src i x chain rest, S.pc t' = .cPaint src i x chain rest → ∀ e ∈ chain, Anc S.par e src", "t' src i x chain rest h1 e h2", True, ["O.paint","S.createdPar","S.parDone"], "chainUp_sound, anc_upd_par"),
 "copy": ("∀ t' p, (S.pc t').copyVal = some (p, true) → Justified S.par S.wins p", "t' p h1", True, ["O.copy","O.can","S.createdPar","S.parDone"], "Pc.copyVal, justified_upd_wins, justified_upd_par"),
}
RF = {
 "propMx": ("∀ t', (S.pc t').inProp = true → S.propMx = some t'", "t' h1", True, ["R.propMx"], "Pc.inProp"),
 "propHeld": ("∀ t', S.propMx = some t' → (S.pc t').inProp = true", "t' h1", True, ["R.propMx","R.propHeld"], "Pc.inProp"),
 "noResetOp": ("∀ t' x, Op.reset x ∉ S.prog t'", "t' x", True, ["R.noResetOp"], "List.mem_cons"),
 "noResetPc": ("∀ t' x, S.pc t' ≠ .rStore x", "t' x", True, ["R.noResetPc","R.noResetOp"], "List.mem_cons"),
 "epochLe": ("∀ L, S.epoch L ≤ S.G", "L", False, ["R.epochLe","R.syncG"], ""),
 "srcCan": ("∀ n, 1 ≤ n → n ≤ S.G → S.can (S.srcOf n) = true", "n h1 h2", False, ["R.srcCan","R.noResetPc","R.copyTrue","R.wonCan"], "Pc.copyVal, Pc.wonSrc"),
 "skipCan": ("∀ x, S.skip x = true → S.can x = true", "x h1", False, ["R.skipCan","R.noResetPc","R.copyTrue","R.wonCan"], "Pc.copyVal, Pc.wonSrc"),
 "walkG": ("∀ t' a, (S.pc t').walkSrc = some a → S.srcOf S.G = a ∧ 1 ≤ S.G", "t' a h1", True, ["R.walkG","S.regMx"], "Pc.walkSrc, Pc.inReg, Pc.walkSrc_inReg"),
 "syncG": ("∀ t' a i g, S.pc t' = .cSync a i g → g = S.G", "t' a i g h1", True, ["R.syncG","S.regMx"], "Pc.inReg"),
 "wonCan": ("∀ t' a, (S.pc t').wonSrc = some a → S.can a = true", "t' a h1", True, ["R.wonCan","R.noResetPc","R.copyTrue"], "Pc.wonSrc, Pc.copyVal"),
 "snapLe": ("∀ t' n, (S.pc t').snapVal = some n → n ≤ S.G", "t' n h1", True, ["R.snapLe","R.epochLe"], "Pc.snapVal"),
 "copyTrue": ("∀ t' p v, (S.pc t').copyVal = some (p, v) → v = true", "t' p v h1", True, ["R.copyTrue"], "Pc.copyVal"),
 "mhcReg": ("∀ L x p, x ∈ S.items L → S.par x = some p → S.mhc p = true", "L x p h1 h2", False, ["R.mhcReg","R.mhcBind","S.ownerPar","S.itemsOk","S.createdPar"], "Pc.pastHint, Pc.owner, List.mem_cons, List.mem_of_mem_erase"),
 "mhcBind": ("∀ t' p, (S.pc t').pastHint = some p → S.mhc p = true", "t' p h1", True, ["R.mhcBind"], "Pc.pastHint"),
 "epochNear": ("∀ L, L ∈ reg → S.epoch L = S.G ∨ S.epoch L + 1 = S.G", "L h1", False, ["R.epochNear","R.epochWalk","R.propMx","R.syncG"], "Pc.inProp, Pc.walkFrom"),
 "epochFree": ("∀ L, L ∈ reg → S.propMx = none → S.epoch L = S.G", "L h1 h2", False, ["R.epochFree","R.epochWalk","R.propMx","R.syncG"], "Pc.inProp, Pc.walkFrom"),
 "epochWalk": ("∀ t' L, L ∈ reg → S.propMx = some t' → S.epoch L ≠ S.G → ∃ j, (S.pc t').walkFrom = some j ∧ L ∈ reg.drop j", "t' L h1 h2 h3", True, ["R.epochWalk","R.epochFree","R.propMx","R.syncG","R.epochNear"], "Pc.inProp, Pc.walkFrom, mem_drop_succ, drop_nil_of_len, drop_nil_of_none, List.drop_zero"),
 "snapEpoch": ("∀ t' x p n L, S.pc t' = .bSpecL x p n → S.lst p = some L → n ≤ S.epoch L", "t' x p n L h1 h2", True, ["R.snapEpoch","R.epochLe","R.syncG","S.bindAlive","S.ownsSt","S.dyingOk"], "Pc.bindParent, Pc.owns, Pc.destroying, okParent"),
 "pend": ("∀ a, 1 ≤ S.wins a → PassedUpTo S.skip S.srcOf S.G a ∨ ∃ t', (S.pc t').preWalk = some a", "a h1", False, ["R.pend","R.wonCan"], "Pc.preWalk, Pc.wonSrc, passed_upd_skip, passed_bump"),
 "painting": ("∀ t' a i x chain rest, S.pc t' = .cPaint a i x chain rest → S.can x = true ∨ chain.head? = some x", "t' a i x chain rest h1", True, ["R.painting","R.noResetPc","R.copyTrue"], "chainUp_sound, Pc.copyVal"),
 "walked": ("∀ t' a i pend L z, (S.pc t').pending = some (a, i, pend) → reg[i]? = some L → z ∈ S.items L → z ∈ pend ∨ (Anc S.par z a → S.can z = true)", "t' a i pend L z h1 h2 h3", True, ["R.walked","R.painting","R.noResetPc","R.copyTrue","S.lmxWalk","S.lmxBind","S.createdPar","S.parDone","S.itemsOk"], "Pc.pending, Pc.pending_walk, Pc.walkIdx, Pc.copyVal, chain_none_not_anc, chain_some_head, anc_irrefl_s, anc_cas_back, ne_of_registered_created, List.mem_cons, List.mem_of_mem_erase"),
 "spec": ("∀ t' x n a, (S.pc t').afterSpec = some (x, n) → PassedUpTo S.skip S.srcOf n a → Anc S.par x a → S.can x = true", "t' x n a h1 h2 h3", True, ["R.spec","R.copyTrue","R.noResetPc","R.snapLe"], "Pc.afterSpec, Pc.copyVal, Pc.snapVal | → Pc.afterSpec_owner, → passed_below_bump, passed_upd_skip, → ne_of_locked_created"),
 "fbDone": ("∀ t' x p a, S.pc t' = .bFbU x p → PassedUpTo S.skip S.srcOf S.G a → Anc S.par x a → S.can x = true", "t' x p a h1 h2 h3", True, ["R.fbDone","R.copyTrue","R.noResetPc","R.propMx","S.ownsSt"], "Pc.copyVal, Pc.inProp, Pc.owns | passed_upd_skip, passed_bump, → ne_of_locked_created"),
 "listed": ("∀ L x a, x ∈ S.items L → PassedUpTo S.skip S.srcOf (S.epoch L) a → Anc S.par x a → S.can x = true ∨ ∃ t', (S.pc t').coverOf S.G = some x", "L x a h1 h2 h3", False, ["R.listed","R.spec","R.copyTrue","R.noResetPc","R.snapLe","R.epochLe","R.epochNear","R.syncG","R.walkG","R.walked","S.itemsOk"], "Pc.coverOf, Pc.afterSpec, Pc.copyVal, Pc.pending, Pc.walkSrc, Pc.snapVal | → passed_below_bump, passed_upd_skip, → passed_mono, → Pc.coverOf_mono, → mem_of_getElem?_some, List.mem_cons, → List.mem_of_mem_erase"),
}
FIELDS.update(RF)
RFIELDS = set(RF)
LOCAL = {
 "spec": ["@snap_le_of_afterSpec reg s hR", "@spec_establish reg s hS hR", "@no_anc_afterSpec reg s hS hR", "@locked_afterSpec reg s hS", "@anc_cas_back reg s hS"],
 "listed": ["@listed_sync reg s hS hR", "@fb_establish reg s hS hR", "@root_establish reg s hS hR", "@no_anc_of_hint_clear_reg reg s hS hR", "@anc_cas_back reg s hS", "@ne_of_registered_created reg s hS"],
 "fbDone": ["@fb_establish reg s hS hR", "@no_anc_fbU reg s hS hR", "@anc_cas_back reg s hS"],
}
HEAVY = {'walked','spec','fbDone','listed'}
WF = {
 "copyT": ("∀ t' p v, (S.pc t').copyVal = some (p, v) → v = true", "t' p v h1", True, ["W.copyT"], "Pc.copyVal"),
 "winsLe": ("∀ x, S.wins x ≤ S.resets x + 1", "x", False, ["W.winsLe","W.winsClr"], ""),
 "winsClr": ("∀ x, S.can x = false → S.wins x ≤ S.resets x", "x h1", False, ["W.winsLe","W.winsClr","W.copyT"], "Pc.copyVal"),
}
FIELDS.update(WF)
EXTRA = {"walked": ["all_goals (have gw := fun t' a i pend (h : (s.pc t').pending = some (a, i, pend)) => (Pc.pending_walk h).1)"],
 "can": ["all_goals (try (have hp := g2t _ _ _ _ _ rfl rfl rfl rfl rfl; simp at hp))"]}
SIG = {"can": " (hO : Orig s)", "won": " (hO : Orig s)", "paint": " (hO : Orig s)", "copy": " (hO : Orig s)"}
for k in RF: SIG[k] = " (hO : Orig s) (hR : Reach reg s)"
for k in WF: SIG[k] = " (hc : cfg.copyNeverClears = true) (hW : Win s)"
NOTHREAD = {"W.winsLe","W.winsClr","R.noResetPcX","R.epochLe","R.epochNear","R.epochFree","R.srcCan","R.skipCan","R.pend","R.listed","R.mhcReg","O.can","S.createdPar","S.parDone","createdPar","parSet","isoRoot","parDone","itemsOk","itemsNodup","createdLst","boundReg","parAlive","dyingSt"}
def emit_one(name, kind, fam=None):
    stmt, names, thr, hyps, lem = FIELDS[name]
    glem = lem.replace("|", ",")
    lem = lem.split("|")[0].strip().rstrip(",")
    isR = name in RFIELDS
    cfgx = "C" if isR else "cfg"
    if kind == "begin":
        S = "(begin reg s t)"; tname = "%s_begin" % name
    elif fam == "c":
        S = "(execCancel %s reg s t)" % cfgx; tname = "%s_exec_c" % name
    elif fam == "b":
        S = "(execBind %s s t)" % cfgx; tname = "%s_exec_b" % name
    else:
        S = "(execOther s t)"; tname = "%s_exec_o" % name
    hn = " ".join(w for w in names.split() if w.startswith("h"))
    out = ("set_option maxHeartbeats 1600000 in\n" if name in HEAVY else "") + ("theorem %s (hS : Struct reg s)" + SIG.get(name, "") + "%s :\n    %s := by\n") % (tname, " (hi : s.pc t = .idle)" if kind == "begin" else "", stmt.replace("S.", S + "."))
    def src(h):
        return ("h" + h) if "." in h else ("hS." + h)
    for i, h in enumerate(hyps):
        out += "  have g%d := %s\n" % (i, src(h))
        if h not in NOTHREAD:
            out += "  have g%dt := %s t\n" % (i, src(h))
    for i, l in enumerate(LOCAL.get(name, [])):
        out += "  have l%d := %s\n" % (i, l)
    if kind == "begin":
        out += "  begin_cases\n"
    else:
        out += "  unfold %s\n" % {"c": "execCancel", "b": "execBind", "o": "execOther"}[fam]
        out += "  try unfold walkNext\n  try unfold afterHint\n"
        if isR:
            out += "  try simp only [C_propHolds, C_copyNeverClears, afterLists, ↓reduceIte, Bool.true_and]\n"
        out += "  repeat' split\n"
    for i, h in enumerate(hyps):
        if h not in NOTHREAD:
            out += "  all_goals (try rw [%s] at g%dt)\n" % ("‹s.pc t = _›" if kind == "exec" else "hi", i)
            out += "  all_goals (try simp [%s] at g%dt)\n" % (lem, i)
    if kind == "exec":
        for line in EXTRA.get(name, []):
            out += "  " + line + "\n"
    sl = ("C, " if isR else "") + "upd_apply, afterLists, nextList"
    if thr == "two":
        out += "  all_goals (intro %s; by_cases ht1 : t1 = t <;> by_cases ht2 : t2 = t <;> try simp [ht1, ht2, %s] at %s ⊢)\n" % (names, sl, hn)
    elif thr:
        out += "  all_goals (intro %s; by_cases ht : t' = t <;> first | (subst ht; try simp [%s, %s] at %s ⊢) | (try simp [ht, %s] at %s ⊢))\n" % (names, sl, lem, hn, sl, hn)
    else:
        out += "  all_goals (intro %s; try simp [%s] at %s ⊢)\n" % (names, sl, hn)
    out += "  all_goals grind [%s]\n\n" % glem
    return out

def emit(name, kind):
    if kind == "begin":
        return emit_one(name, "begin")
    stmt = FIELDS[name][0]
    isR = name in RFIELDS
    cfgx = "C" if isR else "cfg"
    out = emit_one(name, "exec", "c") + emit_one(name, "exec", "b") + emit_one(name, "exec", "o")
    S = "(exec %s reg s t)" % cfgx
    args = "hS" + (" hO" if "hO" in SIG.get(name, "") else "") + (" hR" if "hR" in SIG.get(name, "") else "") + (" hc hW" if "hW" in SIG.get(name, "") else "")
    out += ("theorem %s_exec (hS : Struct reg s)" + SIG.get(name, "") + " :\n    %s := by\n") % (name, stmt.replace("S.", S + "."))
    out += "  unfold exec\n  split\n  · exact %s_exec_c %s\n  · split\n    · exact %s_exec_b %s\n    · exact %s_exec_o %s\n\n" % (name, args, name, args, name, args)
    return out

def main():
    fname, prev, names = sys.argv[1], sys.argv[2], sys.argv[3:]
    out = "/-\nC04 proofs — structural invariants (%s): preservation by `exec` and `begin`.\n-/\nimport TbbVerif.Proofs.C04.%s\n\nnamespace TbbVerif.C04\nvariable {cfg : Cfg} {reg : List Nat} {s : St} {t : Nat}\n\n" % (", ".join(n.replace(":b", "") for n in names), prev)
    for nm in names:
        if nm.endswith(":b"):
            out += emit(nm[:-2], "begin")
        else:
            out += emit(nm, "exec") + emit(nm, "begin")
    out += "end TbbVerif.C04\n"
    open("/verif/lean/TbbVerif/Proofs/C04/%s.lean" % fname, "w").write(out)
main()
