#!/usr/bin/env python3
"""Generator of the mechanical preservation proofs of C04 (lean/TbbVerif/Proofs/C04/Struct[A-G].lean, OrigA/OrigB.lean,
HintA.lean, Reach[A-F].lean, WinA.lean).  Not run by the check: the generated .lean files are committed sources and are what
`lake build` checks.  It exists so that the ~60 x (exec + begin) case analyses can be regenerated when the model's step
function changes.  Each table entry: field name -> (statement over the post-state S, intro names, is the first bound
variable a thread id, invariant fields used as hypotheses, lemmas for simp | lemmas for grind only).
Hand-written proof files (not generated): Basic, Chain, Inv, Tactics, Frame (ownsUnique), StructAll, OrigInv, OrigAll, WinInv,
WinAll, ReachInv, ReachLemmas, ReachLemmas2, ReachH-K (P1 `listed`), ReachAll, HintAll, NoReset, ResetLemmas, Final, Witness, Quiet.

usage (from lean/):  python3 ../harness/c04/gen_lean_proofs.py <OutModule> <ImportedModule> <field> [<field>...]
  the invocations that produced the committed files:
    StructA Frame regMx lmxWalk lmxOrph            | StructB StructA lmxBind lmxDes bindReg regPc actReg actWas bindAct
    StructC StructB parSet isoRoot parDone ownsSt ownerPar | StructD StructC regMem snapPar rootPar createdLst
    StructE StructD itemsOk itemsNodup preReg desGone createdPar | StructF StructE boundReg parAlive bindAlive dyingOk bindNotDying
    StructG StructF dyingSt walkAct notWasEmpty ocItems
    OrigA OrigInv won paint copy | OrigB OrigA can | WinA WinInv copyT winsLe winsClr
    HintA ReachLemmas rseq mhcReg mhcBind
    ReachA HintA propMx propHeld epochLe joinedLe freshLe walkG syncG | ReachB ReachA snapLe copyTrue wstLe pstLe skipLe
    ReachC ReachB epochNear epochFree | ReachC2 ReachC epochWalk | ReachD ReachC2 snapEpoch curCan pend
    ReachE ReachLemmas2 painting walked | ReachF ReachE spec fbDone
"""
import sys
FIELDS = {
 # name: (statement over S, intro names (first = thread var or None), hypotheses (fields of Struct), grind lemmas)
 "regMx": ("∀ t', (S.pc t').inReg = true → S.regMx = some t'", "t' h1", True, ["regMx"], "Pc.inReg"),
 "lmxWalk": ("∀ t' i L, (S.pc t').walkIdx = some i → reg[i]? = some L → S.lmx L = some t'", "t' i L h1 h2", True, ["lmxWalk","lmxBind","lmxDes","lmxOrph"], "Pc.walkIdx"),
 "lmxOrph": ("∀ t', S.pc t' = .xOrphU → S.lmx t' = some t'", "t' h1", True, ["lmxWalk","lmxBind","lmxDes","lmxOrph"], "Pc.walkIdx"),
 "lmxBind": ("∀ t' x p sn, S.pc t' = .bRegU x p sn → S.lmx t' = some t'", "t' x p sn h1", True, ["lmxWalk","lmxBind","lmxDes","lmxOrph"], "Pc.walkIdx"),
 "lmxDes": ("∀ t' x L, S.pc t' = .dUnlock x → S.lst x = some L → S.lmx L = some t'", "t' x L h1 h2", True, ["lmxWalk","lmxBind","lmxDes","lmxOrph","bindNotDying","dyingOk"], "Pc.walkIdx, Pc.bindTarget, Pc.destroying"),
 "bindReg": ("∀ t', (S.pc t').isBind = true → t' ∈ reg", "t' h1", True, ["bindReg"], "Pc.isBind"),
 "regPc": ("∀ t', S.pc t' = .gLock → t' ∈ reg ∧ S.act t' = false ∧ S.wasReg t' = false", "t' h1", True, ["regPc"], ""),
 "actReg": ("∀ u, S.act u = true → u ∈ reg", "u h1", False, ["actReg","regPc"], ""),
 "actWas": ("∀ u, S.act u = true → S.wasReg u = true", "u h1", False, ["actWas","regPc"], ""),
 "bindAct": ("∀ t', (S.pc t').isBind = true → S.act t' = true", "t' h1", True, ["bindAct"], "Pc.isBind"),
 "walkAct": ("∀ t' i L, (S.pc t').atList = some i → reg[i]? = some L → S.act L = true", "t' i L h1 h2", True, ["walkAct","regMx"], "Pc.inReg | Pc.atList, → nextList_atList, → Pc.atList_inReg"),
 "notWasEmpty": ("∀ L, S.wasReg L = false → S.items L = []", "L h1", False, ["notWasEmpty","bindAct","actWas","regPc"], "Pc.isBind"),
 "ocItems": ("∀ L x, x ∈ S.items L → S.act L = false → S.oc x = true", "L x h1 h2", False, ["ocItems","bindAct"], "Pc.isBind, List.mem_cons, List.mem_of_mem_erase"),
 "parSet": ("∀ x p, S.par x = some p → S.cst x ≠ .created ∧ S.depth x = S.depth p + 1", "x p h1", False, ["parSet","parDone","bindAlive"], "Pc.bindParent, okParent"),
 "isoRoot": ("∀ x, S.cst x = .isolated → S.par x = none", "x h1", False, ["isoRoot","ownsSt","ownerPar"], "Pc.owner, Pc.owns"),
 "parDone": ("∀ y p, S.par y = some p → S.cst p ≠ .created ∧ S.cst p ≠ .locked", "y p h1", False, ["parDone","bindAlive","ownsSt"], "Pc.bindParent, Pc.owns, okParent"),
 "ownsSt": ("∀ t' x, (S.pc t').owns = some x → S.cst x = .locked", "t' x h1", True, ["ownsSt","ownsUnique","bindNotDying","dyingOk"], "Pc.owns, Pc.owns_bindTarget, Pc.bindTarget, Pc.destroying"),
 "ownsUnique": ("∀ t1 t2 x, (S.pc t1).owns = some x → (S.pc t2).owns = some x → t1 = t2", "t1 t2 x h1 h2", "two", ["ownsSt","ownsUnique"], "Pc.owns"),
 "ownerPar": ("∀ t' x p, (S.pc t').owner = some (x, p) → S.par x = p", "t' x p h1", True, ["ownerPar","ownsSt"], "Pc.owner, Pc.owns, Pc.owner_owns"),
 "regMem": ("∀ t' x, (S.pc t').registered = some x → x ∈ S.items t'", "t' x h1", True, ["regMem","dyingOk","bindNotDying"], "Pc.registered, Pc.registered_owns, Pc.owns_bindTarget, Pc.destroying, Pc.bindTarget"),
 "snapPar": ("∀ t' p, (S.pc t').snapBranch = some p → S.par p ≠ none", "t' p h1", True, ["snapPar","bindAlive"], "Pc.snapBranch, Pc.snapBranch_bindParent, Pc.bindParent, okParent"),
 "rootPar": ("∀ t' p, (S.pc t').rootBranch = some p → S.par p = none", "t' p h1", True, ["rootPar","bindAlive"], "Pc.rootBranch, Pc.rootBranch_bindParent, Pc.bindParent, okParent"),
 "itemsOk": ("∀ L x, x ∈ S.items L → S.lst x = some L ∧ L ∈ reg ∧ S.par x ≠ none", "L x h1", False, ["itemsOk","itemsNodup","bindReg","ownerPar","preReg","desGone","createdPar"], "Pc.owner, Pc.registered, Pc.isBind, List.Nodup.mem_erase_iff"),
 "itemsNodup": ("∀ L, (S.items L).Nodup", "L", False, ["itemsOk","itemsNodup","preReg"], "Pc.owner, Pc.registered, List.Nodup.erase, List.nodup_cons"),
 "createdLst": ("∀ x, S.cst x = .created → S.lst x = none", "x h1", False, ["createdLst","ownsSt"], "Pc.owns"),
 "preReg": ("∀ t' x p, (S.pc t').owner = some (x, p) → (S.pc t').registered = none → S.lst x = none", "t' x p h1 h2", True, ["preReg","createdLst","ownsUnique","ownsSt"], "Pc.owner, Pc.registered, Pc.owns, Pc.owner_owns"),
 "desGone": ("∀ t' x L, S.pc t' = .dUnlock x → x ∉ S.items L", "t' x L h1", True, ["desGone","itemsOk","itemsNodup","dyingOk","bindNotDying"], "Pc.destroying, Pc.bindTarget, List.Nodup.mem_erase_iff"),
 "boundReg": ("∀ x, S.cst x = .bound → S.dying x = false → ∃ L, S.lst x = some L ∧ x ∈ S.items L", "x h1 h2", False, ["boundReg","regMem","itemsOk","dyingOk","ownsSt"], "Pc.registered, Pc.destroying, Pc.owns, List.mem_cons"),
 "parAlive": ("∀ L x p, x ∈ S.items L → S.par x = some p → (S.cst p = .bound ∨ S.cst p = .isolated) ∧ S.dying p = false", "L x p h1 h2", False, ["parAlive","bindAlive","itemsOk","dyingOk","ownerPar","parSet","ownsSt"], "okParent, Pc.bindParent, Pc.owner, Pc.owns, Pc.destroying, List.mem_of_mem_erase, List.mem_cons"),
 "bindAlive": ("∀ t' p, (S.pc t').bindParent = some p → (S.cst p = .bound ∨ S.cst p = .isolated) ∧ S.dying p = false", "t' p h1", True, ["bindAlive","dyingOk","bindReg","ownsSt"], "okParent, Pc.bindParent, Pc.destroying, Pc.bindParent_isBind, Pc.owns"),
 "dyingOk": ("∀ t' x, (S.pc t').destroying = some x → S.dying x = true", "t' x h1", True, ["dyingOk"], "Pc.destroying"),
 "bindNotDying": ("∀ t' x, (S.pc t').bindTarget = some x → S.dying x = false", "t' x h1", True, ["bindNotDying","bindReg"], "Pc.bindTarget, Pc.bindTarget_isBind"),
 "createdPar": ("∀ x, S.cst x = .created → S.par x = none", "x h1", False, ["createdPar"], "Pc.owns"),
 "dyingSt": ("∀ x, S.dying x = true → S.cst x = .dead ∨ ∃ t', (S.pc t').destroying = some x", "x h1", False, ["dyingSt","dyingOk","bindNotDying","ownsSt"], "Pc.destroying, Pc.owns, Pc.owns_bindTarget"),
 "can": ("∀ x, S.can x = true → Justified S.par S.wins x", "x h1", False, ["O.can","O.won","O.paint","O.copy","S.ownerPar","S.createdPar","S.parDone"], "Pc.wonSrc, Pc.copyVal, Pc.owner, justified_self, justified_anc, justified_child, justified_upd_wins, justified_upd_wins_self, justified_upd_par"),
 "won": ("∀ t' a, (S.pc t').wonSrc = some a → 1 ≤ S.wins a", "t' a h1", True, ["O.won"], "Pc.wonSrc"),
 "paint": ("∀ t' src i x chain rest, S.pc t' = .cPaint src i x chain rest → ∀ e ∈ chain, Anc S.par e src", "t' src i x chain rest h1 e h2", True, ["O.paint","S.createdPar","S.parDone"], "chainUp_sound, anc_upd_par"),
 "copy": ("∀ t' p, (S.pc t').copyVal = some (p, true) → Justified S.par S.wins p", "t' p h1", True, ["O.copy","O.can","S.createdPar","S.parDone"], "Pc.copyVal, justified_upd_wins, justified_upd_par"),
}
RF = {
 "propMx": ("∀ t', (S.pc t').inProp = true → S.propMx = some t'", "t' h1", True, ["R.propMx"], "Pc.inProp"),
 "propHeld": ("∀ t', S.propMx = some t' → (S.pc t').inProp = true", "t' h1", True, ["R.propMx","R.propHeld"], "Pc.inProp"),
 "epochLe": ("∀ L, S.epoch L ≤ S.G", "L", False, ["R.epochLe","R.syncG"], ""),
 "joinedLe": ("∀ L, S.joined L ≤ S.G", "L", False, ["R.joinedLe"], ""),
 "freshLe": ("∀ L, S.fresh L = true → S.epoch L ≤ S.joined L", "L h1", False, ["R.freshLe","R.epochLe","S.walkAct","S.regPc"], "Pc.atList"),
 "walkG": ("∀ t' a, (S.pc t').walkSrc = some a → S.srcOf S.G = a ∧ 1 ≤ S.G", "t' a h1", True, ["R.walkG","S.regMx"], "Pc.walkSrc, Pc.inReg, Pc.walkSrc_inReg"),
 "syncG": ("∀ t' a i g, S.pc t' = .cSync a i g → g = S.G", "t' a i g h1", True, ["R.syncG","S.regMx"], "Pc.inReg"),
 "snapLe": ("∀ t' n, (S.pc t').snapVal = some n → n ≤ S.G", "t' n h1", True, ["R.snapLe","R.epochLe"], "Pc.snapVal"),
 "copyTrue": ("∀ t' p v, (S.pc t').copyVal = some (p, v) → v = true", "t' p v h1", True, ["R.copyTrue"], "Pc.copyVal"),
 "epochNear": ("∀ L, L ∈ reg → S.act L = true → S.eff L = S.G ∨ S.eff L + 1 = S.G", "L h1 h2", False, ["R.epochNear","R.epochWalk","R.propMx","R.syncG","S.regMx"], "Pc.inProp, Pc.walkFrom, Pc.inReg, St.eff"),
 "epochFree": ("∀ L, L ∈ reg → S.act L = true → S.propMx = none → S.eff L = S.G", "L h1 h2 h3", False, ["R.epochFree","R.epochWalk","R.propMx","R.syncG","S.regMx"], "Pc.inProp, Pc.walkFrom, Pc.inReg, St.eff"),
 "epochWalk": ("∀ t' L, L ∈ reg → S.act L = true → S.propMx = some t' → S.eff L ≠ S.G → ∃ j, (S.pc t').walkFrom = some j ∧ L ∈ reg.drop j", "t' L h1 h2 h3 h4", True, ["R.epochWalk","R.epochFree","R.propMx","R.syncG","R.epochNear","S.regMx"], "Pc.inProp, Pc.inReg, St.eff | Pc.walkFrom, mem_drop_succ, drop_nil_of_len, drop_nil_of_none, List.drop_zero, nextList_cases"),
 "snapEpoch": ("∀ t' x p n L, S.pc t' = .bSpecL x p n → S.lst p = some L → n ≤ S.eff L", "t' x p n L h1 h2", True, ["R.snapEpoch","R.epochLe","R.joinedLe","R.freshLe","R.syncG","S.bindAlive","S.ownsSt","S.dyingOk","S.regPc","S.itemsOk","S.notWasEmpty"], "Pc.bindParent, Pc.owns, Pc.destroying, okParent, St.eff"),
 "wstLe": ("∀ a, S.wst a ≤ S.clk", "a", False, ["R.wstLe"], ""),
 "pstLe": ("∀ n, S.pst n ≤ S.clk", "n", False, ["R.pstLe","R.wstLe"], ""),
 "skipLe": ("∀ a, S.skipSt a ≤ S.clk", "a", False, ["R.skipLe","R.wstLe"], ""),
 "curCan": ("∀ a m, Cur S.wst S.rst a m → S.can a = true", "a m h1", False, ["R.curCan","R.copyTrue","R.wstLe"], "Pc.copyVal | → cur_upd_wst, → cur_upd_rst"),
 "pend": ("∀ a m, Cur S.wst S.rst a m → Passed S.skipSt S.srcOf S.pst S.G a m ∨ ∃ t', (S.pc t').preWalk = some a", "a m h1", False, ["R.pend","R.curCan","R.wstLe"], "Pc.preWalk | → cur_wst, → cur_upd_wst, → cur_upd_rst, passed_upd_skip_fwd, passed_upd_skip_self, passed_bump"),
 "painting": ("∀ t' a i x chain rest, S.pc t' = .cPaint a i x chain rest → Vf S.par S.can S.rst S.oc (S.pst S.G) a x ∨ chain.head? = some x", "t' a i x chain rest h1", True, ["R.painting","R.copyTrue","R.pstLe","S.regMx"], "Pc.copyVal, Pc.inReg | chainUp_sound, vf_upd_true, vf_upd_true_self, vf_reset, vf_exit"),
 "walked": ("∀ t' a i pend L z, (S.pc t').pending = some (a, i, pend) → reg[i]? = some L → z ∈ S.items L → z ∈ pend ∨ (Anc S.par z a → Vf S.par S.can S.rst S.oc (S.pst S.G) a z)", "t' a i pend L z h1 h2 h3", True, ["R.walked","R.painting","R.copyTrue","R.pstLe","S.regMx","S.lmxWalk","S.lmxBind","S.createdPar","S.parDone","S.itemsOk"], "Pc.pending, Pc.pending_walk, Pc.walkIdx, Pc.copyVal, Pc.inReg, nextList_pending, nextList_inReg, nextList_walkIdx, nextList_copyVal | → Pc.pending_inReg, chain_none_not_anc, chain_some_head, anc_irrefl_s, anc_cas_back, ne_of_registered_created, List.mem_cons, List.mem_of_mem_erase, vf_upd_true, vf_upd_true_self, vf_reset, vf_exit, vf_can"),
 "spec": ("∀ t' x n a m, (S.pc t').afterSpec = some (x, n) → Passed S.skipSt S.srcOf S.pst n a m → Cur S.wst S.rst a m → Anc S.par x a → Vf S.par S.can S.rst S.oc m a x", "t' x n a m h1 h2 h3 h4", True, ["R.spec","R.copyTrue","R.snapLe","R.wstLe"], "Pc.afterSpec, Pc.copyVal, Pc.snapVal | → Pc.afterSpec_owner, → passed_below_bump, → passed_upd_skip_back, → ne_of_locked_created, → cur_upd_wst, → cur_upd_rst, vf_upd_true, vf_upd_true_self, vf_reset, vf_exit"),
 "fbDone": ("∀ t' x p a m, S.pc t' = .bFbU x p → Passed S.skipSt S.srcOf S.pst S.G a m → Cur S.wst S.rst a m → Anc S.par x a → Vf S.par S.can S.rst S.oc m a x", "t' x p a m h1 h2 h3 h4", True, ["R.fbDone","R.copyTrue","R.propMx","R.wstLe","S.ownsSt"], "Pc.copyVal, Pc.inProp, Pc.owns | → passed_upd_skip_back, passed_bump, → ne_of_locked_created, → cur_upd_wst, → cur_upd_rst, vf_upd_true, vf_upd_true_self, vf_reset, vf_exit"),
}
HF = {
 "rseq": ("∀ t' x l, S.pc t' = .rSeq x l → RF.mhc ∉ l", "t' x l h1", True, ["H.rseq"], "List.mem_cons"),
 "mhcReg": ("∀ L x p, x ∈ S.items L → S.par x = some p → S.mhc p = true", "L x p h1 h2", False, ["H.mhcReg","H.mhcBind","H.rseq","S.ownerPar","S.itemsOk","S.createdPar"], "Pc.pastHint, Pc.owner, List.mem_cons, List.mem_of_mem_erase"),
 "mhcBind": ("∀ t' p, (S.pc t').pastHint = some p → S.mhc p = true", "t' p h1", True, ["H.mhcBind","H.rseq"], "Pc.pastHint, List.mem_cons"),
}
FIELDS.update(HF)
FIELDS.update(RF)
RFIELDS = set(RF)
LOCAL = {
 "spec": ["@snap_le_of_afterSpec reg s hR", "@spec_establish reg s hS hR", "@no_anc_afterSpec reg s hS hH", "@locked_afterSpec reg s hS", "@anc_cas_back reg s hS", "@passed_le_s reg s hR", "@cur_le_s reg s hR", "@vf_cas reg s hS"],
 "fbDone": ["@fb_establish reg s hS hR", "@no_anc_fbU reg s hS hH", "@anc_cas_back reg s hS", "@passed_le_s reg s hR", "@cur_le_s reg s hR", "@vf_cas reg s hS"],
 "walked": ["@vf_cas reg s hS"],
 "painting": ["@vf_cas reg s hS"],
}
PREPASS = {"walked": "nextList_pending, nextList_inReg, nextList_walkIdx, nextList_copyVal"}
KEEP_NEXTLIST = {"walkAct", "epochWalk", "walked"}
HEAVY = {'walked','spec','fbDone'}
WF = {
 "copyT": ("∀ t' p v, (S.pc t').copyVal = some (p, v) → v = true", "t' p v h1", True, ["W.copyT"], "Pc.copyVal"),
 "winsLe": ("∀ x, S.wins x ≤ S.resets x + 1", "x", False, ["W.winsLe","W.winsClr"], ""),
 "winsClr": ("∀ x, S.can x = false → S.wins x ≤ S.resets x", "x h1", False, ["W.winsLe","W.winsClr","W.copyT"], "Pc.copyVal"),
}
FIELDS.update(WF)
EXTRA = {"walked": ["all_goals (have gw := fun t' a i pend (h : (s.pc t').pending = some (a, i, pend)) => (Pc.pending_walk h).1)"],
 "can": ["all_goals (try (have hp := g2t _ _ _ _ _ rfl rfl rfl rfl rfl; simp at hp))"]}
SIG = {"can": " (hO : Orig s)", "won": " (hO : Orig s)", "paint": " (hO : Orig s)", "copy": " (hO : Orig s)"}
for k in RF: SIG[k] = " (hO : Orig s) (hH : Hint s) (hR : Reach reg s)"
for k in HF: SIG[k] = " (hm : RF.mhc ∉ cfg.resetSeq) (hH : Hint s)"
for k in WF: SIG[k] = " (hc : cfg.copyNeverClears = true) (hW : Win s)"
NOTHREAD = {"R.joinedLe","R.freshLe","actReg","actWas","notWasEmpty","ocItems","W.winsLe","W.winsClr","R.epochLe","R.epochNear","R.epochFree","R.wstLe","R.pstLe","R.skipLe","R.curCan","R.pend","R.listed","H.mhcReg","O.can","S.createdPar","S.parDone","createdPar","parSet","isoRoot","parDone","itemsOk","itemsNodup","createdLst","boundReg","parAlive","dyingSt"}
def emit_one(name, kind, fam=None):
    stmt, names, thr, hyps, lem = FIELDS[name]
    glem = lem.replace("|", ",")
    lem = lem.split("|")[0].strip().rstrip(",")
    isR = name in RFIELDS
    cfgx = "(C r)" if isR else "cfg"
    if kind == "begin":
        S = "(begin %s reg s t)" % cfgx; tname = "%s_begin" % name
    elif fam == "c":
        S = "(execCancel %s reg s t)" % cfgx; tname = "%s_exec_c" % name
    elif fam == "b":
        S = "(execBind %s s t)" % cfgx; tname = "%s_exec_b" % name
    else:
        S = "(execOther s t)"; tname = "%s_exec_o" % name
    hn = " ".join(w for w in names.split() if w.startswith("h"))
    out = ("set_option maxHeartbeats 1600000 in\n" if name in HEAVY else "") + ("theorem %s (hS : Struct reg s)" + SIG.get(name, "") + "%s :\n    %s := by\n") % (tname, " (hi : s.pc t = .idle)" if kind == "begin" else "", stmt.replace("S.", S + "."))
    def src(h):
        return ("h" + h) if "." in h else ("hS." + h)
    if name in HF:
        out += "  have hm' : RF.mhc ∉ cfg.resetSeq := hm\n"
    for i, h in enumerate(hyps):
        out += "  have g%d := %s\n" % (i, src(h))
        if h not in NOTHREAD:
            out += "  have g%dt := %s t\n" % (i, src(h))
    for i, l in enumerate(LOCAL.get(name, [])):
        out += "  have l%d := %s\n" % (i, l)
    if kind == "begin":
        out += "  begin_cases\n"
    else:
        out += "  unfold %s\n" % {"c": "execCancel", "b": "execBind", "o": "execOther"}[fam]
        out += "  try unfold walkNext\n  try unfold afterHint\n  try unfold applyReset\n"
        if isR:
            out += "  try simp only [C_propHolds, C_copyNeverClears, afterLists, ↓reduceIte, Bool.true_and]\n"
        out += "  repeat' split\n"
    for i, h in enumerate(hyps):
        if h not in NOTHREAD:
            out += "  all_goals (try rw [%s] at g%dt)\n" % ("‹s.pc t = _›" if kind == "exec" else "hi", i)
            out += "  all_goals (try simp [%s] at g%dt)\n" % (lem, i)
    if kind == "exec":
        for line in EXTRA.get(name, []):
            out += "  " + line + "\n"
    sl = ("C, St.eff, " if isR else "") + "upd_apply, afterLists, nextList"
    if name in KEEP_NEXTLIST:
        sl = ("C, St.eff, " if isR else "") + "upd_apply, afterLists"
    if thr == "two":
        out += "  all_goals (intro %s; by_cases ht1 : t1 = t <;> by_cases ht2 : t2 = t <;> try simp [ht1, ht2, %s] at %s ⊢)\n" % (names, sl, hn)
    elif thr and name in PREPASS:
        out += "  all_goals (intro %s; by_cases ht : t' = t <;> first | (subst ht; (try simp only [upd_same, setPc_pc, finishCancel_pc, %s] at %s ⊢); try simp [%s, %s] at %s ⊢) | (try simp [ht, %s] at %s ⊢))\n" % (names, PREPASS[name], hn, sl, lem, hn, sl, hn)
    elif thr:
        out += "  all_goals (intro %s; by_cases ht : t' = t <;> first | (subst ht; try simp [%s, %s] at %s ⊢) | (try simp [ht, %s] at %s ⊢))\n" % (names, sl, lem, hn, sl, hn)
    else:
        out += "  all_goals (intro %s; try simp [%s] at %s ⊢)\n" % (names, sl, hn)
    out += "  all_goals grind [%s]\n\n" % glem
    return out

def emit(name, kind):
    if kind == "begin":
        return emit_one(name, "begin")
    stmt = FIELDS[name][0]
    isR = name in RFIELDS
    cfgx = "(C r)" if isR else "cfg"
    out = emit_one(name, "exec", "c") + emit_one(name, "exec", "b") + emit_one(name, "exec", "o")
    S = "(exec %s reg s t)" % cfgx
    args = "hS" + (" hO" if "hO" in SIG.get(name, "") else "") + (" hm" if "(hm " in SIG.get(name, "") else "") + (" hH" if "hH" in SIG.get(name, "") else "") + (" hR" if "hR" in SIG.get(name, "") else "") + (" hc hW" if "hW" in SIG.get(name, "") else "")
    out += ("theorem %s_exec (hS : Struct reg s)" + SIG.get(name, "") + " :\n    %s := by\n") % (name, stmt.replace("S.", S + "."))
    out += "  unfold exec\n  split\n  · exact %s_exec_c %s\n  · split\n    · exact %s_exec_b %s\n    · exact %s_exec_o %s\n\n" % (name, args, name, args, name, args)
    return out

def main():
    fname, prev, names = sys.argv[1], sys.argv[2], sys.argv[3:]
    out = "/-\nC04 proofs — structural invariants (%s): preservation by `exec` and `begin`.\n-/\nimport TbbVerif.Proofs.C04.%s\n\nnamespace TbbVerif.C04\nvariable {cfg : Cfg} {r : List RF} {reg : List Nat} {s : St} {t : Nat}\n\n" % (", ".join(n.replace(":b", "") for n in names), prev)
    for nm in names:
        if nm.endswith(":b"):
            out += emit(nm[:-2], "begin")
        else:
            out += emit(nm, "exec") + emit(nm, "begin")
    out += "end TbbVerif.C04\n"
    import os
    open(os.path.join(os.path.dirname(os.path.abspath(__file__)), "..", "..", "lean", "TbbVerif", "Proofs", "C04", "%s.lean" % fname), "w").write(out)
main()
