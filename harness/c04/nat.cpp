// C04 E-SHIM harness, natural usage on the WHOLE instrumented runtime: nested parallel_for loops with explicit
// task_group_context objects (a context is bound at its first use inside a task of the enclosing context, by whichever
// thread runs that task: main, a worker that stole it, or an extra external thread), cancels issued from loop bodies at
// different levels and from another external thread while children are being created and bound.
// Monitors at the end (everything has returned: no cancel or bind in flight), independent of any model:
//   reach: bound beneath a cancelled context => cancelled;  overreach: cancelled => a cancel call on it or on an ancestor
//   returned true;  winner: at most one `true` per context;  no hang.
// argv: <P> <W> <plan> rand <seed> <nruns> | <P> <W> <plan> replay <schedule-file>
//   plan = comma separated cancel points  L<level>:<index>:<b|e>  (body number <index> of level <level> cancels its own
//   loop's context at its begin / end), X:<k> (the external thread cancels the root as soon as k contexts have been created)
#include "oneapi/tbb/global_control.h"
#include "oneapi/tbb/task_arena.h"
#include "oneapi/tbb/parallel_for.h"
#include "oneapi/tbb/task_group.h"
#include "tbb/governor.h"
#include <cstdio>
#include <fstream>
#include <sstream>
#include <string>
#include <vector>
#include <map>

using namespace tbb::detail;
typedef d1::task_group_context Ctx;
static const int MAXC = 256;
alignas(128) static char g_store[MAXC][(sizeof(Ctx) + 127) / 128 * 128];
static std::atomic<int> g_next{0};
static int g_wins[MAXC], g_calls[MAXC];
static std::atomic<int> g_body[4];
static int g_P = 3, g_W = 3;
struct CancelPoint { int level, index; bool at_end; };
static std::vector<CancelPoint> g_points;
static int g_ext_ticks = -1;
static std::atomic<int> g_done{0}, g_main_done{0};
static std::atomic<int> g_tick{0};

static Ctx* C(int i) { return reinterpret_cast<Ctx*>(g_store[i]); }
static int fresh() { int i = g_next.fetch_add(1); if (i >= MAXC) { printf("pool exhausted\n"); _exit(2); } new (g_store[i]) Ctx(Ctx::bound); return i; }
static void do_cancel(int c) { bool r = C(c)->cancel_group_execution(); __atomic_fetch_add(&g_calls[c], 1, __ATOMIC_RELAXED); if (r) __atomic_fetch_add(&g_wins[c], 1, __ATOMIC_RELAXED); }
static bool point(int level, int idx, bool at_end) { for (auto& p : g_points) if (p.level == level && p.index == idx && p.at_end == at_end) return true; return false; }

static void level_body(int level, int own_ctx) {
    int idx = g_body[level].fetch_add(1);
    if (point(level, idx, false)) do_cancel(own_ctx);
    if (level < 2) {
        int c = fresh();
        tbb::parallel_for(0, g_W, [level, c](int) { level_body(level + 1, c); }, tbb::simple_partitioner(), *C(c));
    } else {
        g_tick.fetch_add(1);
    }
    if (point(level, idx, true)) do_cancel(own_ctx);
}

static int idx_of(const Ctx* p) {
    if (!p) return -1;
    const char* a = reinterpret_cast<const char*>(p);
    if (a < g_store[0] || a >= g_store[MAXC - 1] + sizeof(g_store[0])) return -2;
    return (int)((a - g_store[0]) / sizeof(g_store[0]));
}

static std::string S(long v) { return std::to_string(v); }

static std::string monitors(int n, std::string& table) {
    std::string err;
    auto fail = [&](const std::string& m) { if (err.empty()) err = m; };
    int nbound = 0, ncancelled = 0;
    for (int x = 0; x < n; ++x) {
        Ctx* c = C(x);
        int st = (int)c->my_state.load(std::memory_order_relaxed);
        int can = (int)c->my_cancellation_requested.load(std::memory_order_relaxed);
        int par = idx_of(c->my_parent);
        if (st == (int)Ctx::state::bound) nbound++;
        if (can) ncancelled++;
        if (g_wins[x] > 1) fail("VIOLATION single-winner: " + S(g_wins[x]) + " cancel calls on context " + S(x) + " returned true");
        if (g_calls[x] > 0 && !can) fail("VIOLATION sticky: context " + S(x) + " was cancelled by a call and is not cancelled at the end");
        if (can) {
            bool just = false;
            for (int a = x, k = 0; a >= 0 && k < MAXC; ++k) { if (g_wins[a] > 0) just = true; a = idx_of(C(a)->my_parent); }
            if (!just) fail("VIOLATION overreach: context " + S(x) + " is cancelled although no cancel call on it or an ancestor returned true");
        }
        if (st == (int)Ctx::state::bound && par >= 0) {
            int pcan = (int)C(par)->my_cancellation_requested.load(std::memory_order_relaxed);
            if (pcan && !can) fail("VIOLATION reach: context " + S(x) + " is bound beneath cancelled context " + S(par) + " and is not cancelled at the end");
        }
    }
    table = "contexts " + S(n) + " bound " + S(nbound) + " cancelled " + S(ncancelled);
    return err;
}

static bool run_once(verif::Schedule& sch, long run_idx) {
    g_next.store(0); g_done.store(0); g_main_done.store(0); g_tick.store(0);
    for (int i = 0; i < MAXC; ++i) { g_wins[i] = 0; g_calls[i] = 0; }
    for (int i = 0; i < 4; ++i) g_body[i].store(0);
    std::vector<std::function<void()>> bodies;
    bodies.push_back([&] {
        tbb::global_control gc(tbb::global_control::max_allowed_parallelism, (size_t)g_P);
        tbb::task_scheduler_handle h{tbb::attach{}};
        int root = fresh();                                  // context 0
        // an enclosing loop with a context of its own so that context 0's children are bound (not isolated)
        tbb::parallel_for(0, g_W, [root](int) { level_body(0, root); }, tbb::simple_partitioner(), *C(root));
        g_main_done.store(1);
        while (g_done.load() < 1) _mm_pause();
        tbb::finalize(h);
    });
    bodies.push_back([&] {
        // extra external thread: cancels the root while the tree is being built, then helps with a loop of its own
        if (g_ext_ticks >= 0) {
            while (g_next.load() < g_ext_ticks && !g_main_done.load()) _mm_pause();
            do_cancel(0);
        }
        r1::governor::terminate_external_thread();
        g_done.fetch_add(1);
    });
    verif::Result r = verif::run(bodies, sch, 6000000);
    std::string table;
    std::string err = r.deadlock ? std::string("DEADLOCK every live thread parked (or step limit)") : monitors(g_next.load(), table);
    bool ok = err.empty();
    printf("run %ld\n%s\nsteps %zu\nmon %s\n", run_idx, table.c_str(), r.steps, ok ? "ok" : err.c_str());
    if (!ok) { printf("sched"); for (int s : r.schedule) printf(" %d", s); printf("\n"); }
    printf("end\n");
    fflush(stdout);
    if (r.deadlock) _exit(3);
    for (int x = 0; x < g_next.load(); ++x) C(x)->~Ctx();
    return ok;
}

int main(int argc, char** argv) {
    verif::init_determinism(argc, argv);
    if (argc < 6) return 2;
    g_P = atoi(argv[1]); g_W = atoi(argv[2]);
    { std::istringstream ps(argv[3]); std::string tok;
      while (std::getline(ps, tok, ',')) {
          if (tok.empty() || tok == "-") continue;
          if (tok[0] == 'X') g_ext_ticks = atoi(tok.c_str() + 2);
          else { CancelPoint p; char be = 'b'; if (sscanf(tok.c_str(), "L%d:%d:%c", &p.level, &p.index, &be) >= 2) { p.at_end = be == 'e'; g_points.push_back(p); } }
      } }
    std::string mode = argv[4];
    long runs = 0, bad = 0;
    if (mode == "rand") {
        unsigned long long seed = strtoull(argv[5], 0, 10);
        long n = argc > 6 ? atol(argv[6]) : 1;
        for (long i = 0; i < n; ++i) { verif::RandomSchedule s(seed * 7919 + i, 32 + (int)(i % 6) * 40); if (!run_once(s, i)) bad++; runs++; }
    } else if (mode == "replay") {
        verif::ReplaySchedule s; std::ifstream f(argv[5]); int t; while (f >> t) s.tids.push_back(t);
        if (!run_once(s, 0)) bad++;
        runs++;
    }
    printf("summary runs=%ld bad=%ld\n", runs, bad);
    fflush(stdout);
    _exit(bad ? 1 : 0);
}
