// C04 E-SHIM harness, natural usage on the WHOLE instrumented runtime: nested parallel_for loops with explicit
// task_group_context objects (a context is bound at its first use inside a task of the enclosing context, by whichever
// thread runs that task: main, a worker that stole it, or an extra external thread), cancels issued from loop bodies at
// different levels and from another external thread while children are being created and bound.
// Monitors at the end (everything has returned: no cancel or bind in flight), independent of any model:
//   reach: bound beneath a cancelled context => cancelled;  overreach: cancelled => a cancel call on it or on an ancestor
//   returned true;  winner: at most one `true` per context;  no hang.
// Second program (plan `TG:<depth>:<cancel level>:<rounds>`): task_group reuse.  A chain of persistent task_group objects
// tg[0] (outer) ... tg[depth]; in every round a task of tg[k] runs tg[k+1].run(...) and tg[k+1].wait() — so the context of
// tg[k+1] is bound beneath the context of tg[k] at its first use and STAYS bound across rounds, while every wait() resets its
// own group's context on completion.  In the last round an external thread cancels tg[<cancel level>] while the innermost task
// is running.  Monitors: at the moment the cancel call has returned (observed by the innermost task, before any wait() can
// reset anything): every group below the cancelled one is cancelled (reach), no group above it is (overreach); the cancel
// call returned true; after every round all contexts are reset; every wait() returned; no hang.
// Third program (plan `EX:<0|1>`): contexts bound by a thread that exits.  An external thread E runs
// parallel_for(..., P) whose body runs parallel_for(..., X): X is bound beneath P in E's context list.  With EX:1, E then
// leaves (governor::terminate_external_thread: unregister_thread + ~thread_data -> context_list::orphan) BEFORE the main thread
// reuses P and X the same way and a third thread cancels P while the inner body runs; with EX:0 (control) E leaves at the end.
// Monitor: X is bound beneath P, cancel_group_execution(P) returned true, nothing was reset => the running inner body must
// see X cancelled.
// argv: <P> <W> <plan> rand <seed> <nruns> | <P> <W> <plan> replay <schedule-file>
//   plan = comma separated cancel points  L<level>:<index>:<b|e>  (body number <index> of level <level> cancels its own
//   loop's context at its begin / end), X:<k> (the external thread cancels the root as soon as k contexts have been created)
#include "oneapi/tbb/global_control.h"
#include "oneapi/tbb/task_arena.h"
#include "oneapi/tbb/parallel_for.h"
#include "oneapi/tbb/task_group.h"
#include "tbb/governor.h"
#include "tbb/arena.h"
#include <cstdio>
#include <fstream>
#include <sstream>
#include <string>
#include <vector>
#include <map>

using namespace tbb::detail;
typedef d1::task_group_context Ctx;
static const int MAXC = 256;
alignas(128) static char g_store[MAXC][(sizeof(Ctx) + 127) / 128 * 128];
static std::atomic<int> g_next{0};
static int g_wins[MAXC], g_calls[MAXC];
static std::atomic<int> g_body[4];
static int g_P = 3, g_W = 3;
struct CancelPoint { int level, index; bool at_end; };
static std::vector<CancelPoint> g_points;
static int g_ext_ticks = -1;
static std::atomic<int> g_done{0}, g_main_done{0};
static std::atomic<int> g_tick{0};

static Ctx* C(int i) { return reinterpret_cast<Ctx*>(g_store[i]); }
static int fresh() { int i = g_next.fetch_add(1); if (i >= MAXC) { printf("pool exhausted\n"); _exit(2); } new (g_store[i]) Ctx(Ctx::bound); return i; }
static void do_cancel(int c) { bool r = C(c)->cancel_group_execution(); __atomic_fetch_add(&g_calls[c], 1, __ATOMIC_RELAXED); if (r) __atomic_fetch_add(&g_wins[c], 1, __ATOMIC_RELAXED); }
static bool point(int level, int idx, bool at_end) { for (auto& p : g_points) if (p.level == level && p.index == idx && p.at_end == at_end) return true; return false; }

static void level_body(int level, int own_ctx) {
    int idx = g_body[level].fetch_add(1);
    if (point(level, idx, false)) do_cancel(own_ctx);
    if (level < 2) {
        int c = fresh();
        tbb::parallel_for(0, g_W, [level, c](int) { level_body(level + 1, c); }, tbb::simple_partitioner(), *C(c));
    } else {
        g_tick.fetch_add(1);
    }
    if (point(level, idx, true)) do_cancel(own_ctx);
}

static int idx_of(const Ctx* p) {
    if (!p) return -1;
    const char* a = reinterpret_cast<const char*>(p);
    if (a < g_store[0] || a >= g_store[MAXC - 1] + sizeof(g_store[0])) return -2;
    return (int)((a - g_store[0]) / sizeof(g_store[0]));
}

static std::string S(long v) { return std::to_string(v); }

static std::string monitors(int n, std::string& table) {
    std::string err;
    auto fail = [&](const std::string& m) { if (err.empty()) err = m; };
    int nbound = 0, ncancelled = 0;
    for (int x = 0; x < n; ++x) {
        Ctx* c = C(x);
        int st = (int)c->my_state.load(std::memory_order_relaxed);
        int can = (int)c->my_cancellation_requested.load(std::memory_order_relaxed);
        int par = idx_of(c->my_parent);
        if (st == (int)Ctx::state::bound) nbound++;
        if (can) ncancelled++;
        if (g_wins[x] > 1) fail("VIOLATION single-winner: " + S(g_wins[x]) + " cancel calls on context " + S(x) + " returned true");
        if (g_calls[x] > 0 && !can) fail("VIOLATION sticky: context " + S(x) + " was cancelled by a call and is not cancelled at the end");
        if (can) {
            bool just = false;
            for (int a = x, k = 0; a >= 0 && k < MAXC; ++k) { if (g_wins[a] > 0) just = true; a = idx_of(C(a)->my_parent); }
            if (!just) fail("VIOLATION overreach: context " + S(x) + " is cancelled although no cancel call on it or an ancestor returned true");
        }
        if (st == (int)Ctx::state::bound && par >= 0) {
            int pcan = (int)C(par)->my_cancellation_requested.load(std::memory_order_relaxed);
            if (pcan && !can) fail("VIOLATION reach: context " + S(x) + " is bound beneath cancelled context " + S(par) + " and is not cancelled at the end");
        }
    }
    table = "contexts " + S(n) + " bound " + S(nbound) + " cancelled " + S(ncancelled);
    return err;
}

// ---- task_group reuse -------------------------------------------------------------------------------------------------
static int g_tg_depth = -1, g_tg_cancel = 0, g_tg_rounds = 2;
static tbb::task_group* g_tg[5];
static std::atomic<int> g_tg_running{0}, g_tg_cancel_done{0}, g_tg_round{0}, g_tg_leaf_runs{0};
static int g_tg_seen[5], g_tg_bound[5], g_tg_res = -1, g_tg_after_round[8][5], g_tg_status[8][5];
static Ctx* tg_ctx(int k) { return &g_tg[k]->context(); }

static void tg_level(int k, int round) {
    if (k < g_tg_depth) {
        g_tg[k + 1]->run([k, round] { tg_level(k + 1, round); });
        g_tg_status[round][k + 1] = (int)g_tg[k + 1]->wait();
        return;
    }
    g_tg_leaf_runs.fetch_add(1);
    if (round == g_tg_rounds - 1) {
        // innermost task of the last round: let the external thread cancel, then look at every group's flag
        g_tg_running.store(1);
        while (!g_tg_cancel_done.load()) _mm_pause();
        for (int j = 0; j <= g_tg_depth; ++j) {
            g_tg_seen[j] = (int)tg_ctx(j)->my_cancellation_requested.load(std::memory_order_relaxed);
            g_tg_bound[j] = (tg_ctx(j)->my_state.load(std::memory_order_relaxed) == Ctx::state::bound && j > 0 && tg_ctx(j)->my_parent == tg_ctx(j - 1)) ? 1 : 0;
        }
    }
}

static bool run_tg(verif::Schedule& sch, long run_idx) {
    g_tg_running.store(0); g_tg_cancel_done.store(0); g_tg_round.store(0); g_tg_leaf_runs.store(0); g_done.store(0); g_tg_res = -1;
    for (int j = 0; j < 5; ++j) { g_tg_seen[j] = -1; g_tg_bound[j] = -1; }
    for (int r = 0; r < 8; ++r) for (int j = 0; j < 5; ++j) { g_tg_after_round[r][j] = -1; g_tg_status[r][j] = -1; }
    std::vector<std::function<void()>> bodies;
    bodies.push_back([&] {
        tbb::global_control gc(tbb::global_control::max_allowed_parallelism, (size_t)g_P);
        tbb::task_scheduler_handle h{tbb::attach{}};
        {
            tbb::task_group groups[5];
            for (int j = 0; j < 5; ++j) g_tg[j] = &groups[j];
            for (int round = 0; round < g_tg_rounds; ++round) {
                g_tg_round.store(round);
                g_tg[0]->run([round] { tg_level(0, round); });
                g_tg_status[round][0] = (int)g_tg[0]->wait();
                for (int j = 0; j <= g_tg_depth; ++j)
                    g_tg_after_round[round][j] = (int)tg_ctx(j)->my_cancellation_requested.load(std::memory_order_relaxed);
            }
            g_main_done.store(1);
            while (g_done.load() < 1) _mm_pause();
        }
        tbb::finalize(h);
    });
    bodies.push_back([&] {
        while (!g_tg_running.load()) _mm_pause();
        g_tg_res = tg_ctx(g_tg_cancel)->cancel_group_execution() ? 1 : 0;
        g_tg_cancel_done.store(1);
        r1::governor::terminate_external_thread();
        g_done.fetch_add(1);
    });
    verif::Result r = verif::run(bodies, sch, 6000000);
    std::string err;
    auto fail = [&](const std::string& m) { if (err.empty()) err = m; };
    if (r.deadlock) fail("DEADLOCK every live thread parked (or step limit)");
    else {
        if (g_tg_leaf_runs.load() != g_tg_rounds) fail("VIOLATION lost-task: the innermost task ran " + S(g_tg_leaf_runs.load()) + " times in " + S(g_tg_rounds) + " rounds");
        if (g_tg_res != 1) fail("VIOLATION single-winner: the only cancel call on the (reset) context of task_group " + S(g_tg_cancel) + " returned false");
        for (int j = 1; j <= g_tg_depth; ++j)
            if (g_tg_bound[j] != 1) fail("VIOLATION harness: context of task_group " + S(j) + " is not bound beneath the context of task_group " + S(j - 1));
        for (int j = 0; j <= g_tg_depth; ++j) {
            if (j >= g_tg_cancel && g_tg_seen[j] != 1)
                fail("VIOLATION reach: the context of task_group " + S(j) + " is bound beneath the context of task_group " + S(g_tg_cancel) +
                     " (bound in round 0, kept across the wait()/reset of every round), cancel_group_execution on the latter returned true in round " + S(g_tg_rounds - 1) +
                     ", nothing was reset since, and the running innermost task does not see it cancelled");
            if (j < g_tg_cancel && g_tg_seen[j] != 0)
                fail("VIOLATION overreach: the context of task_group " + S(j) + " (an ancestor of the cancelled group " + S(g_tg_cancel) + ") is cancelled");
        }
        for (int round = 0; round < g_tg_rounds; ++round) for (int j = 0; j <= g_tg_depth; ++j) {
            if (g_tg_after_round[round][j] != 0)
                fail("VIOLATION reset: after round " + S(round) + " the context of task_group " + S(j) + " is still cancelled although its wait() has returned");
            bool expect_cancel = round == g_tg_rounds - 1 && j >= g_tg_cancel;
            if (g_tg_status[round][j] != (expect_cancel ? (int)tbb::canceled : (int)tbb::complete))
                fail("VIOLATION status: task_group " + S(j) + " wait() in round " + S(round) + " returned " + S(g_tg_status[round][j]));
        }
    }
    bool ok = err.empty();
    printf("run %ld\ntask_groups %d cancel %d rounds %d seen", run_idx, g_tg_depth + 1, g_tg_cancel, g_tg_rounds);
    for (int j = 0; j <= g_tg_depth; ++j) printf(" %d", g_tg_seen[j]);
    printf("\nsteps %zu\nmon %s\n", r.steps, ok ? "ok" : err.c_str());
    if (!ok) { printf("sched"); for (int s : r.schedule) printf(" %d", s); printf("\n"); }
    printf("end\n");
    fflush(stdout);
    if (r.deadlock) _exit(3);
    return ok;
}

// ---- contexts bound by a thread that exits --------------------------------------------------------------------------------
static int g_ex_mode = -1;
static std::atomic<int> g_ex_bound{0}, g_ex_gone{0}, g_ex_running{0}, g_ex_cancel_done{0}, g_ex_finish{0};
static int g_ex_seen = -1, g_ex_isbound = -1, g_ex_res = -1;

static bool run_ex(verif::Schedule& sch, long run_idx) {
    g_ex_bound.store(0); g_ex_gone.store(0); g_ex_running.store(0); g_ex_cancel_done.store(0); g_ex_finish.store(0); g_done.store(0);
    g_ex_seen = -1; g_ex_isbound = -1; g_ex_res = -1;
    new (g_store[0]) Ctx(Ctx::bound);      // P
    new (g_store[1]) Ctx(Ctx::bound);      // X
    std::vector<std::function<void()>> bodies;
    bodies.push_back([&] {
        tbb::global_control gc(tbb::global_control::max_allowed_parallelism, 1);
        tbb::task_scheduler_handle h{tbb::attach{}};
        while (!g_ex_bound.load()) _mm_pause();
        if (g_ex_mode == 1) while (!g_ex_gone.load()) _mm_pause();
        tbb::parallel_for(0, 1, [&](int) {
            tbb::parallel_for(0, 1, [&](int) {
                g_ex_running.store(1);
                while (!g_ex_cancel_done.load()) _mm_pause();
                g_ex_seen = (int)C(1)->my_cancellation_requested.load(std::memory_order_relaxed);
                g_ex_isbound = (C(1)->my_state.load(std::memory_order_relaxed) == Ctx::state::bound && C(1)->my_parent == C(0)) ? 1 : 0;
            }, tbb::simple_partitioner(), *C(1));
        }, tbb::simple_partitioner(), *C(0));
        g_ex_finish.store(1);
        while (g_done.load() < 2) _mm_pause();
        tbb::finalize(h);
    });
    bodies.push_back([&] {     // E: first user of P and X
        tbb::parallel_for(0, 1, [&](int) { tbb::parallel_for(0, 1, [](int) {}, tbb::simple_partitioner(), *C(1)); }, tbb::simple_partitioner(), *C(0));
        g_ex_bound.store(1);
        if (g_ex_mode != 1) while (!g_ex_finish.load()) _mm_pause();
        r1::governor::terminate_external_thread();
        g_ex_gone.store(1);
        g_done.fetch_add(1);
    });
    bodies.push_back([&] {     // canceller
        while (!g_ex_running.load()) _mm_pause();
        g_ex_res = C(0)->cancel_group_execution() ? 1 : 0;
        g_ex_cancel_done.store(1);
        r1::governor::terminate_external_thread();
        g_done.fetch_add(1);
    });
    verif::Result r = verif::run(bodies, sch, 6000000);
    std::string err;
    auto fail = [&](const std::string& m) { if (err.empty()) err = m; };
    if (r.deadlock) fail("DEADLOCK every live thread parked (or step limit)");
    else {
        if (g_ex_res != 1) fail("VIOLATION single-winner: the only cancel call on context P returned false");
        if (g_ex_isbound != 1) fail("VIOLATION harness: context X is not bound beneath context P");
        else if (g_ex_seen != 1)
            fail(std::string("VIOLATION ") + (g_ex_mode == 1 ? "reach-orphan" : "reach") + ": context X is bound beneath context P (bound by an external thread that ran a task of P" +
                 (g_ex_mode == 1 ? " and has exited since: X sits in its orphaned context list" : "") +
                 "), cancel_group_execution(P) returned true while a task of X is running, nothing was reset, and the task does not see X cancelled");
    }
    bool ok = err.empty();
    printf("run %ld\nexit-before %d seen %d bound %d\nsteps %zu\nmon %s\n", run_idx, g_ex_mode, g_ex_seen, g_ex_isbound, r.steps, ok ? "ok" : err.c_str());
    if (!ok) { printf("sched"); for (int s : r.schedule) printf(" %d", s); printf("\n"); }
    printf("end\n");
    fflush(stdout);
    if (r.deadlock) _exit(3);
    C(0)->~Ctx(); C(1)->~Ctx();
    return ok;
}

// Fourth program (plan `PK:<0|1>`): a context bound on a WORKER that has left the arena since.  A task of group P is forced onto the only worker
// (the main thread submits it and keeps out of the dispatch loop until it has started); the task binds the persistent context X beneath P (first
// use: task_group sub(X); sub.run_and_wait) -- X is registered in the WORKER's context list.  All work completes; with PK:1 the main thread
// waits until the worker has run out of work and left the arena (it is parked, its thread_data has no arena slot), then cancels P; with
// PK:0 (control) it cancels at once.  Monitor: X is bound beneath P, the cancel call returned true, nothing was reset => X is cancelled.
static int g_pk_mode = -1;
static std::atomic<int> g_pk_started{0}, g_pk_bound{0};
static bool run_pk(verif::Schedule& sch, long run_idx) {
    g_pk_started.store(0); g_pk_bound.store(0); g_done.store(0);
    int res = -1, seen = -1, isbound = -1, on_worker = -1, left = -1;
    new (g_store[0]) Ctx(Ctx::isolated);   // P
    new (g_store[1]) Ctx(Ctx::bound);      // X
    std::vector<std::function<void()>> bodies;
    bodies.push_back([&] {
        tbb::global_control gc(tbb::global_control::max_allowed_parallelism, 2);
        tbb::task_scheduler_handle h{tbb::attach{}};
        {
            tbb::task_arena a(2, 1);
            a.initialize();
            tbb::task_group tg(*C(0));
            a.execute([&] {
                tg.run([&] {
                    on_worker = verif::self() != 0 ? 1 : 0;
                    g_pk_started.store(1);
                    tbb::task_group sub(*C(1));
                    sub.run_and_wait([] {});
                    g_pk_bound.store(1);
                });
                while (!g_pk_started.load()) _mm_pause();      // stay out of the dispatch loop: the worker has to take the task
                tg.wait();
            });
            isbound = (C(1)->my_state.load(std::memory_order_relaxed) == Ctx::state::bound && C(1)->my_parent == C(0)) ? 1 : 0;
            if (g_pk_mode == 1) {
                r1::arena* ar = a.my_arena.load(std::memory_order_relaxed);
                long spins = 0;
                while (ar->num_workers_active() != 0 && ++spins < 200000) _mm_pause();
                for (int i = 0; i < 64; ++i) { (void)g_pk_bound.load(); _mm_pause(); }      // let it finish leaving and go to sleep
                left = ar->num_workers_active() == 0 ? 1 : 0;
            }
            res = C(0)->cancel_group_execution() ? 1 : 0;
            seen = (int)C(1)->my_cancellation_requested.load(std::memory_order_relaxed);
        }
        tbb::finalize(h);
    });
    verif::Result r = verif::run(bodies, sch, 6000000);
    std::string err;
    auto fail = [&](const std::string& m) { if (err.empty()) err = m; };
    if (r.deadlock) fail("DEADLOCK every live thread parked (or step limit)");
    else {
        if (res != 1) fail("VIOLATION single-winner: the only cancel call on context P returned false");
        if (isbound != 1) fail("VIOLATION harness: context X is not bound beneath context P");
        else if (seen != 1)
            fail(std::string("VIOLATION reach-parked-worker: context X is bound beneath context P (bound by a ") + (on_worker == 1 ? "worker" : "thread") + " that ran a task of P" +
                 (g_pk_mode == 1 ? (left == 1 ? " and has left the arena since: it is parked without an arena slot" : " (the worker had not left the arena yet)") : "") +
                 "), cancel_group_execution(P) returned true, nothing was reset, and X is not cancelled");
    }
    bool ok = err.empty();
    printf("run %ld\npk-mode %d on-worker %d left %d seen %d bound %d\nsteps %zu\nmon %s\n", run_idx, g_pk_mode, on_worker, left, seen, isbound, r.steps, ok ? "ok" : err.c_str());
    if (!ok) { printf("sched"); for (int s : r.schedule) printf(" %d", s); printf("\n"); }
    printf("end\n");
    fflush(stdout);
    if (r.deadlock) _exit(3);
    C(1)->~Ctx(); C(0)->~Ctx();
    return ok;
}

static bool run_once(verif::Schedule& sch, long run_idx) {
    if (g_pk_mode >= 0) return run_pk(sch, run_idx);
    if (g_tg_depth >= 0) return run_tg(sch, run_idx);
    if (g_ex_mode >= 0) return run_ex(sch, run_idx);
    g_next.store(0); g_done.store(0); g_main_done.store(0); g_tick.store(0);
    for (int i = 0; i < MAXC; ++i) { g_wins[i] = 0; g_calls[i] = 0; }
    for (int i = 0; i < 4; ++i) g_body[i].store(0);
    std::vector<std::function<void()>> bodies;
    bodies.push_back([&] {
        tbb::global_control gc(tbb::global_control::max_allowed_parallelism, (size_t)g_P);
        tbb::task_scheduler_handle h{tbb::attach{}};
        int root = fresh();                                  // context 0
        // an enclosing loop with a context of its own so that context 0's children are bound (not isolated)
        tbb::parallel_for(0, g_W, [root](int) { level_body(0, root); }, tbb::simple_partitioner(), *C(root));
        g_main_done.store(1);
        while (g_done.load() < 1) _mm_pause();
        tbb::finalize(h);
    });
    bodies.push_back([&] {
        // extra external thread: cancels the root while the tree is being built, then helps with a loop of its own
        if (g_ext_ticks >= 0) {
            while (g_next.load() < g_ext_ticks && !g_main_done.load()) _mm_pause();
            do_cancel(0);
        }
        r1::governor::terminate_external_thread();
        g_done.fetch_add(1);
    });
    verif::Result r = verif::run(bodies, sch, 6000000);
    std::string table;
    std::string err = r.deadlock ? std::string("DEADLOCK every live thread parked (or step limit)") : monitors(g_next.load(), table);
    bool ok = err.empty();
    printf("run %ld\n%s\nsteps %zu\nmon %s\n", run_idx, table.c_str(), r.steps, ok ? "ok" : err.c_str());
    if (!ok) { printf("sched"); for (int s : r.schedule) printf(" %d", s); printf("\n"); }
    printf("end\n");
    fflush(stdout);
    if (r.deadlock) _exit(3);
    for (int x = 0; x < g_next.load(); ++x) C(x)->~Ctx();
    return ok;
}

int main(int argc, char** argv) {
    verif::init_determinism(argc, argv);
    if (argc < 6) return 2;
    g_P = atoi(argv[1]); g_W = atoi(argv[2]);
    if (std::string(argv[3]).compare(0, 3, "PK:") == 0) {
        g_pk_mode = atoi(argv[3] + 3);
        if (g_pk_mode != 0 && g_pk_mode != 1) { printf("bad-plan\n"); return 2; }
    } else
    if (std::string(argv[3]).compare(0, 3, "EX:") == 0) {
        g_ex_mode = atoi(argv[3] + 3);
        if (g_ex_mode != 0 && g_ex_mode != 1) { printf("bad-plan\n"); return 2; }
    } else
    if (std::string(argv[3]).compare(0, 3, "TG:") == 0) {
        if (sscanf(argv[3], "TG:%d:%d:%d", &g_tg_depth, &g_tg_cancel, &g_tg_rounds) != 3 || g_tg_depth < 1 || g_tg_depth > 4 ||
            g_tg_cancel < 0 || g_tg_cancel > g_tg_depth || g_tg_rounds < 1 || g_tg_rounds > 8) { printf("bad-plan\n"); return 2; }
    } else
    { std::istringstream ps(argv[3]); std::string tok;
      while (std::getline(ps, tok, ',')) {
          if (tok.empty() || tok == "-") continue;
          if (tok[0] == 'X') g_ext_ticks = atoi(tok.c_str() + 2);
          else { CancelPoint p; char be = 'b'; if (sscanf(tok.c_str(), "L%d:%d:%c", &p.level, &p.index, &be) >= 2) { p.at_end = be == 'e'; g_points.push_back(p); } }
      } }
    std::string mode = argv[4];
    long runs = 0, bad = 0;
    if (mode == "rand") {
        unsigned long long seed = strtoull(argv[5], 0, 10);
        long n = argc > 6 ? atol(argv[6]) : 1;
        for (long i = 0; i < n; ++i) { verif::RandomSchedule s(seed * 7919 + i, 32 + (int)(i % 6) * 40); if (!run_once(s, i)) bad++; runs++; }
    } else if (mode == "replay") {
        verif::ReplaySchedule s; std::ifstream f(argv[5]); int t; while (f >> t) s.tids.push_back(t);
        if (!run_once(s, 0)) bad++;
        runs++;
    }
    printf("summary runs=%ld bad=%ld\n", runs, bad);
    fflush(stdout);
    _exit(bad ? 1 : 0);
}
