// C04 E-SHIM harness on the WHOLE instrumented runtime: white-box op programs over task_group_context objects.
// Every controlled thread is an external thread with its own thread_data (own context list); thread t runs its ops:
//   bind x p   task_group_context_impl::bind_to(ctx[x], td) while the thread "runs a task of ctx[p]" (p = -: arena default ctx)
//   cancel x   ctx[x].cancel_group_execution()      reset x   ctx[x].reset()      destroy x   r1::destroy(ctx[x])
//   register   governor::get_thread_data() of a thread that has no thread_data yet (a thread whose FIRST op is `register` is a
//              late thread: it does not create its thread_data in the prologue): thread_data construction (new context_list,
//              epoch 0) + cancellation_disseminator::register_thread (push_front under my_threads_list_mutex)
//   exit       governor::terminate_external_thread(): unregister_thread (under my_threads_list_mutex), ~thread_data ->
//              context_list::orphan() (under the list mutex; the list lives on while it has contexts)
// stdin:  threads N | order t.. (thread_data creation order; the registry walk order is its reverse) |
//         op <id> <thread> <kind> <x> <p|-> <dep,dep|->   (ops of one thread run in id order after their deps completed) | go
//         guide <thread> var=val,var=val   (optional, for mode `guide`: run <thread> until all conditions hold, then the next guide)
// argv:   rand <seed> <nruns> | replay <schedule-file> | guide x | dfs <preemption bound> <max runs>      [flag bit 1: always print schedule]
// Output per run: the access trace restricted to the named context / epoch / mutex variables, op begin/end notes with
// results, the registry order read back from the disseminator, the final context table, and the verdict of the
// implementation-side monitors (independent of the Lean model).
#include "oneapi/tbb/global_control.h"
#include "oneapi/tbb/task_group.h"
#include "oneapi/tbb/task_arena.h"
#include "tbb/governor.h"
#include "tbb/thread_data.h"
#include "tbb/arena.h"
#include "tbb/threading_control.h"
#include "tbb/cancellation_disseminator.h"
#include "tbb/scheduler_common.h"
#include "tbb/task_dispatcher.h"
#include <cstdio>
#include <fstream>
#include <sstream>
#include <string>
#include <vector>
#include <map>
#include <set>

using namespace tbb::detail;
typedef d1::task_group_context Ctx;

struct OpRec { int id, th; std::string kind; int x, p; std::vector<int> deps; };
static const int MAXC = 64, MAXOPS = 256, MAXT = 8;
static int g_N = 0;
static std::vector<int> g_order;
static std::vector<OpRec> g_ops;
// logical op times: a counter that ticks at every op begin and end (one controlled thread runs at a time, so the order of
// the ticks is the real order of the calls); tb/te of an op that never ran stay 0
static long g_clock = 0;
static long g_tb[256], g_te[256];
// dynamic registry: when a thread created its thread_data / exited (logical times), and how many live contexts its list holds
static bool g_late[8], g_exited[8];
static long g_regtime[8], g_exittime[8];
static int g_count[8];
// time-scoped names for the per-thread context-list words: a list is freed when its orphaned owner's last context goes, and the
// address may be reused, so these names are switched on/off by notes in the event log and resolved in log order
struct NameEv { const void* addr; std::string name; bool on; };
static std::vector<NameEv> g_nameevs;
static void scoped_name(const volatile void* addr, const std::string& name, bool on) {
    g_nameevs.push_back(NameEv{(const void*)addr, name, on});
    verif::note("nm", (uint64_t)(g_nameevs.size() - 1), 0);
}

alignas(128) static char g_store[MAXC][(sizeof(Ctx) + 127) / 128 * 128];
static bool g_alive[MAXC], g_used[MAXC];
static Ctx* C(int i) { return reinterpret_cast<Ctx*>(g_store[i]); }

static std::atomic<int> g_turn{0}, g_finished{0}, g_ext_done{0};
static std::atomic<int> g_done[MAXOPS];
static r1::thread_data* g_td[MAXT];
static r1::context_list* g_cl[MAXT];
static int g_result[MAXOPS];
static std::vector<int> g_registry;

static std::string S(long v) { return std::to_string(v); }

// --- state-guided schedule: "run thread t until <named variable = value, ...>" --------------------------------------
// The conditions are evaluated on the live memory of the runtime at every scheduling point, so a guide pins down a
// window (e.g. "the propagator has finished list 2") independently of instruction counts.  The schedule actually taken is
// recorded as a plain tid list and is what replays use.
static std::map<std::string, std::function<uint64_t()>> g_probe;
struct Guide { int tid; std::vector<std::pair<std::string, uint64_t>> conds; };
static std::vector<Guide> g_guides;
template <class T> static void probe(const std::string& n, const T* p) {
    static_assert(sizeof(T) <= 8, "probe");
    const void* q = (const void*)p; g_probe[n] = [q] { uint64_t v = 0; std::memcpy(&v, q, sizeof(T)); return v; };
}
struct GuidedSchedule : verif::Schedule {
    size_t pos = 0;
    bool holds(const Guide& g) {
        for (auto& c : g.conds) { auto it = g_probe.find(c.first); if (it == g_probe.end() || it->second() != c.second) return false; }
        return true;
    }
    int pick(int cur, const std::vector<int>& en, size_t) override {
        while (pos < g_guides.size() && holds(g_guides[pos])) ++pos;
        if (pos < g_guides.size()) for (int t : en) if (t == g_guides[pos].tid) return t;
        for (int t : en) if (t == cur) return t;
        return en[0];
    }
};

static void name_globals(r1::thread_data* td) {
    probe("G", &r1::the_context_state_propagation_epoch); probe("propmx", &r1::the_context_state_propagation_mutex.m_flag);
    probe("regmx", &td->my_arena->my_threading_control->my_pimpl->my_cancellation_disseminator->my_threads_list_mutex.my_flag.my_atomic);
    verif::name_addr(&r1::the_context_state_propagation_epoch, "G");
    verif::name_addr(&r1::the_context_state_propagation_mutex.m_flag, "propmx");
    auto* dis = td->my_arena->my_threading_control->my_pimpl->my_cancellation_disseminator.get();
    verif::name_addr(&dis->my_threads_list_mutex.my_flag.my_atomic, "regmx");
}

static void adopt_thread_data(int t, r1::thread_data* td) {
    g_td[t] = td; g_cl[t] = td->my_context_list; g_regtime[t] = ++g_clock;
    scoped_name(&td->my_context_list->epoch, "ep" + S(t), true);
    scoped_name(&td->my_context_list->m_mutex.my_flag.my_atomic, "lm" + S(t), true);
    probe("ep" + S(t), &td->my_context_list->epoch); probe("lm" + S(t), &td->my_context_list->m_mutex.my_flag.my_atomic);
}
static void drop_list_names(int t) {
    if (!g_cl[t]) return;
    // the words live inside the context_list object; g_cl[t] is only used as an address here
    scoped_name(&g_cl[t]->epoch, "ep" + S(t), false);
    scoped_name(&g_cl[t]->m_mutex.my_flag.my_atomic, "lm" + S(t), false);
    g_probe.erase("ep" + S(t)); g_probe.erase("lm" + S(t));
}

static void do_op(const OpRec& o, r1::thread_data*& td) {
    g_tb[o.id] = ++g_clock;
    verif::note("opb", (uint64_t)o.id, 0);
    int res = -1;
    if (o.kind == "register") {
        td = r1::governor::get_thread_data();
        adopt_thread_data(o.th, td);
    } else if (o.kind == "exit") {
        g_exittime[o.th] = g_tb[o.id];                         // from here on the thread may already be out of the registry
        r1::governor::terminate_external_thread();
        td = nullptr; g_exited[o.th] = true;
        if (g_count[o.th] == 0) drop_list_names(o.th);       // an empty orphaned list is freed at once
    } else if (o.kind == "bind") {
        auto* disp = td->my_task_dispatcher;
        Ctx* old = disp->m_execute_data_ext.context;
        disp->m_execute_data_ext.context = o.p >= 0 ? C(o.p) : td->my_arena->my_default_ctx;
        bool had_list = C(o.x)->my_context_list != nullptr;
        r1::task_group_context_impl::bind_to(*C(o.x), td);
        disp->m_execute_data_ext.context = old;
        if (!had_list && C(o.x)->my_context_list == td->my_context_list) g_count[o.th]++;
    } else if (o.kind == "cancel") {
        res = r1::cancel_group_execution(*C(o.x)) ? 1 : 0;
    } else if (o.kind == "reset") {
        r1::reset(*C(o.x));
    } else if (o.kind == "destroy") {
        int owner = -1;
        for (int k = 0; k < g_N; ++k) if (C(o.x)->my_context_list && C(o.x)->my_context_list == g_cl[k]) owner = k;
        r1::destroy(*C(o.x));
        g_alive[o.x] = false;
        if (owner >= 0 && --g_count[owner] == 0 && g_exited[owner]) drop_list_names(owner);   // last context of an orphaned list: list freed
    }
    g_result[o.id] = res;
    g_te[o.id] = ++g_clock;
    verif::note("ope", (uint64_t)o.id, (uint64_t)(res + 1));
}

static void thread_body(int t) {
    int pos = 0;
    for (size_t i = 0; i < g_order.size(); ++i) if (g_order[i] == t) pos = (int)i;
    while (g_turn.load() != pos) _mm_pause();
    r1::thread_data* td = nullptr;
    if (!g_late[t]) {
        td = r1::governor::get_thread_data();
        adopt_thread_data(t, td);
        if (t == 0) name_globals(td);
    }
    g_turn.fetch_add(1);
    while (g_turn.load() < g_N) _mm_pause();
    verif::note("phase", 1, 0);
    for (const OpRec& o : g_ops) {
        if (o.th != t) continue;
        for (int d : o.deps) while (g_done[d].load() == 0) _mm_pause();
        do_op(o, td);
        g_done[o.id].store(1);
    }
    verif::note("phase", 2, 0);
    g_finished.fetch_add(1);
    while (g_finished.load() < g_N) _mm_pause();
    if (t == 0) {
        // registry order as the propagator walks it (threads that are registered now)
        auto* dis = td->my_arena->my_threading_control->my_pimpl->my_cancellation_disseminator.get();
        g_registry.clear();
        for (auto& thr : dis->my_threads_list) {
            int who = -1;
            for (int k = 0; k < g_N; ++k) if (!g_exited[k] && g_td[k] == &thr) who = k;
            g_registry.push_back(who);
        }
        g_finished.fetch_add(1);
    } else {
        while (g_finished.load() < g_N + 1) _mm_pause();
    }
}

static int idx_of(const Ctx* p) {
    if (!p) return -1;
    const char* a = reinterpret_cast<const char*>(p);
    if (a < g_store[0] || a >= g_store[MAXC - 1] + sizeof(g_store[0])) return -2;    // e.g. an arena's default context
    return (int)((a - g_store[0]) / sizeof(g_store[0]));
}

// implementation-side property monitors at quiescence (independent of the Lean model).
// They are sound for programs that respect the documented precondition of reset(): a reset of x does not overlap any other
// operation on x or on a context bound beneath x (cancellations of proper ancestors MAY overlap it).  The scenario
// generators only produce such programs, and the model's `misuse` flag re-checks it on every replayed run.
//   tb/te = logical begin/end time of an op.  For a context x:  lastResetEnd(x), lastResetBegin(x) over its reset ops.
//   single-winner  between two winning cancels of x there is a reset of x
//   sticky         a cancel call on x (whatever it returned) after which x was not reset  =>  x is cancelled at the end
//   reach          winning cancel c on a, x bound beneath a (final parent chain), must(x,c)  =>  x is cancelled at the end
//                    must(a,c) = a not reset after c began
//                    must(x,c) = x not reset after c began  and  (x's binding completed before c began  or  must(parent x, c))
//   overreach      x cancelled at the end  =>  a cancel call on x or on an ancestor returned true and either ended after x's
//                    last reset began, or x's binding completed after x's last reset began (x copied the flag when bound)
static std::string monitors(std::vector<std::string>& table) {
    std::string err, orphan_err;
    auto fail = [&](const std::string& m) { if (err.empty()) err = m; };
    auto fail_orphan = [&](const std::string& m) { if (orphan_err.empty()) orphan_err = m; };   // reported only if nothing else failed
    std::map<int, int> wins, resets, calls;
    std::map<int, long> lastResetEnd, lastResetBegin, bindEnd;
    std::map<int, std::vector<const OpRec*>> winners, cancels, resetOps;
    for (const OpRec& o : g_ops) {
        if (g_te[o.id] == 0) continue;                      // never ran (cannot happen at quiescence)
        if (o.kind == "cancel") { calls[o.x]++; cancels[o.x].push_back(&o); if (g_result[o.id] == 1) { wins[o.x]++; winners[o.x].push_back(&o); } }
        if (o.kind == "reset") {
            resets[o.x]++; resetOps[o.x].push_back(&o);
            lastResetEnd[o.x] = std::max(lastResetEnd.count(o.x) ? lastResetEnd[o.x] : 0L, g_te[o.id]);
            lastResetBegin[o.x] = std::max(lastResetBegin.count(o.x) ? lastResetBegin[o.x] : 0L, g_tb[o.id]);
        }
        if (o.kind == "bind") { if (!bindEnd.count(o.x) || g_te[o.id] < bindEnd[o.x]) bindEnd[o.x] = g_te[o.id]; }
    }
    auto noResetAfter = [&](int x, long t) { return !lastResetEnd.count(x) || lastResetEnd[x] < t; };
    auto parent = [&](int x) { return g_alive[x] ? idx_of(C(x)->my_parent) : -1; };
    for (int x = 0; x < MAXC; ++x) {
        if (!g_used[x]) continue;
        if (!g_alive[x]) { table.push_back("ctx " + S(x) + " 4 - - - -"); continue; }
        Ctx* c = C(x);
        int st = (int)c->my_state.load(std::memory_order_relaxed);
        int can = (int)c->my_cancellation_requested.load(std::memory_order_relaxed);
        int mhc = (int)c->my_may_have_children.load(std::memory_order_relaxed);
        int par = idx_of(c->my_parent);
        int lst = -1;
        for (int k = 0; k < g_N; ++k) if (c->my_context_list && c->my_context_list == g_cl[k]) lst = k;
        table.push_back("ctx " + S(x) + " " + S(st) + " " + S(can) + " " + S(mhc) + " " + (par >= 0 ? S(par) : std::string("-")) + " " + (lst >= 0 ? S(lst) : std::string("-")));
        // single winner
        if (wins[x] > 1 + resets[x])
            fail("VIOLATION single-winner: " + S(wins[x]) + " cancel_group_execution calls on context " + S(x) + " returned true (resets: " + S(resets[x]) + ")");
        for (const OpRec* c1 : winners[x]) for (const OpRec* c2 : winners[x]) {
            if (c1 == c2 || g_tb[c1->id] > g_tb[c2->id]) continue;
            bool between = false;
            for (const OpRec* r : resetOps[x]) if (g_tb[r->id] > g_tb[c1->id] && g_te[r->id] < g_te[c2->id]) between = true;
            if (!between)
                fail("VIOLATION single-winner: cancel ops " + S(c1->id) + " and " + S(c2->id) + " on context " + S(x) + " both returned true and the context was not reset in between");
        }
        // sticky
        for (const OpRec* cc : cancels[x])
            if (noResetAfter(x, g_tb[cc->id]) && !can)
                fail("VIOLATION sticky: cancel_group_execution (op " + S(cc->id) + ", returned " + S(g_result[cc->id]) + ") was called on context " + S(x) + ", the context was not reset afterwards, and it is not cancelled at quiescence");
        // overreach
        if (can) {
            bool justified = false;
            long lrb = lastResetBegin.count(x) ? lastResetBegin[x] : -1;
            bool boundAfterReset = bindEnd.count(x) && bindEnd[x] > lrb;
            for (int a = x, n = 0; a >= 0 && n < MAXC; ++n) {
                for (const OpRec* w : winners[a]) {
                    if (g_te[w->id] > lrb) justified = true;
                    if (a != x && boundAfterReset && g_tb[w->id] < bindEnd[x]) justified = true;
                }
                a = parent(a);
            }
            if (!justified) fail("VIOLATION overreach: context " + S(x) + " is cancelled at quiescence although no cancel call on it or on any of its ancestors returned true after its last reset (" + S(resets[x]) + " resets)");
        }
        // reach
        if (st == (int)Ctx::state::bound && !can) {
            // walk up: `fresh` = no context on the path so far (x ... below a) was reset after c began, as long as none of them
            // was bound before c began; once a context bound before c is met, the contexts above it no longer matter
            for (int a = parent(x), n = 0; a >= 0 && n < MAXC; a = parent(a), ++n) {
                for (const OpRec* w : winners[a]) {
                    long tc = g_tb[w->id];
                    if (!noResetAfter(a, tc)) continue;            // a itself was reset after c: no claim through c
                    bool must = true, orphan = false;
                    for (int z = x, k = 0; z != a && z >= 0 && k < MAXC; z = parent(z), ++k) {
                        if (!noResetAfter(z, tc)) { must = false; break; }
                        // the thread whose context list holds z began to exit before c ended: the propagator may not have walked its list
                        for (int q = 0; q < g_N; ++q) if (g_alive[z] && C(z)->my_context_list == g_cl[q] && g_exited[q] && g_exittime[q] < g_te[w->id]) orphan = true;
                        if (bindEnd.count(z) && bindEnd[z] < tc) break;      // z was bound before c: c's walk paints it directly
                    }
                    if (must && orphan)
                        fail_orphan("VIOLATION reach-orphan: context " + S(x) + " is bound beneath context " + S(a) + ", cancel op " + S(w->id) + " on " + S(a) +
                             " returned true, nothing on the path was reset afterwards, and " + S(x) + " is not cancelled at quiescence: it (or a context it inherits through) is registered in the "
                             "context list of a thread that has exited (orphaned list: the propagation walks the lists of registered threads only)");
                    else if (must)
                        fail("VIOLATION reach: context " + S(x) + " is bound beneath context " + S(a) + ", cancel op " + S(w->id) + " on " + S(a) +
                             " returned true, neither " + S(x) + " nor a context it inherited the flag through was reset after that call began, and " + S(x) + " is not cancelled at quiescence (no cancel or bind in flight)");
                }
            }
        }
    }
    return err.empty() ? orphan_err : err;
}

static int g_flags = 0;

static bool run_once(verif::Schedule& sch, long run_idx, bool print_all) {
    verif::clear_names(); g_probe.clear();
    g_turn.store(0); g_finished.store(0); g_ext_done.store(0);
    for (int i = 0; i < MAXOPS; ++i) { g_done[i].store(0); g_result[i] = -1; g_tb[i] = 0; g_te[i] = 0; }
    g_clock = 0;
    for (int i = 0; i < MAXC; ++i) { g_alive[i] = false; g_used[i] = false; }
    for (int t = 0; t < MAXT; ++t) { g_late[t] = false; g_exited[t] = false; g_regtime[t] = 0; g_exittime[t] = 0; g_count[t] = 0; g_td[t] = nullptr; g_cl[t] = nullptr; }
    g_nameevs.clear();
    { bool seen[MAXT] = {false};
      for (const OpRec& o : g_ops) { if (!seen[o.th]) { seen[o.th] = true; g_late[o.th] = (o.kind == "register"); } } }
    for (const OpRec& o : g_ops) { if (o.kind == "register" || o.kind == "exit") continue; g_used[o.x] = true; if (o.p >= 0) g_used[o.p] = true; }
    for (int x = 0; x < MAXC; ++x) if (g_used[x]) {
        new (g_store[x]) Ctx(Ctx::bound);
        g_alive[x] = true;
        verif::name_addr(&C(x)->my_cancellation_requested, "can" + S(x));
        verif::name_addr(&C(x)->my_may_have_children, "mhc" + S(x));
        verif::name_addr(&C(x)->my_state, "st" + S(x));
        probe("can" + S(x), &C(x)->my_cancellation_requested); probe("mhc" + S(x), &C(x)->my_may_have_children);
        probe("st" + S(x), &C(x)->my_state);
        { Ctx* c = C(x); g_probe["reg" + S(x)] = [c] { return (uint64_t)(c->my_context_list != nullptr); }; }
    }
    r1::the_context_state_propagation_epoch.store(0);     // every run starts like a fresh process (new context lists start at epoch 0)
    std::vector<std::function<void()>> bodies;
    bodies.push_back([&] {
        tbb::global_control gc(tbb::global_control::max_allowed_parallelism, 1);
        tbb::task_scheduler_handle h{tbb::attach{}};
        thread_body(0);
        while (g_ext_done.load() < g_N - 1) _mm_pause();
        tbb::finalize(h);
    });
    for (int t = 1; t < g_N; ++t) bodies.push_back([t] {
        thread_body(t);
        r1::governor::terminate_external_thread();
        g_ext_done.fetch_add(1);
    });
    verif::Result r = verif::run(bodies, sch, 4000000);
    std::vector<std::string> table;
    std::string err = r.deadlock ? std::string("DEADLOCK every live thread parked (or step limit)") : monitors(table);
    // the static walk order of the model: every thread that ever had a thread_data, newest first (push_front)
    // (registration order = order of the threads' first acquisitions of my_threads_list_mutex: register_thread is the first thing
    // a thread does under that mutex)
    std::vector<int> reg_all;
    { bool seen[MAXT] = {false};
      for (const verif::Event& e : r.log) {
          if (e.kind == verif::K_NOTE || !e.addr || e.tid < 0 || e.tid >= g_N || seen[e.tid]) continue;
          if (std::string(verif::kind_name(e.kind)) == "xchg" && e.a == 0 && e.b == 1 && verif::addr_name(e.addr) == "regmx") { seen[e.tid] = true; reg_all.insert(reg_all.begin(), e.tid); }
      }
      for (int k = 0; k < g_N; ++k) if (g_regtime[k] > 0 && !seen[k]) reg_all.push_back(k); }
    { std::vector<int> now; for (int w : reg_all) if (!g_exited[w]) now.push_back(w);
      if (!r.deadlock && now != g_registry && err.empty())
          err = "VIOLATION harness: the registry read back from the disseminator is not the threads registered and not exited, newest first"; }
    bool ok = err.empty();
    if (print_all || !ok) {
        printf("run %ld\n", run_idx);
        printf("reg"); for (int w : reg_all) printf(" %d", w); printf("\n");
        for (int k = 0; k < g_N; ++k) printf("thr %d %d %d\n", k, g_regtime[k] > 0 ? 1 : 0, g_exited[k] ? 1 : 0);
        std::vector<int> phase(64, 0);
        std::map<const void*, std::string> scoped;
        // a thread can only name the words of its context list after get_thread_data() has returned, but the list is in the registry
        // (and may be walked by a propagator) from the thread's register_thread on: a name switched on by a note takes effect at the
        // thread's first acquisition of my_threads_list_mutex
        std::map<size_t, std::vector<size_t>> name_at;       // log index -> name events that take effect there
        { std::map<int, size_t> first_reg;
          for (size_t i = 0; i < r.log.size(); ++i) {
              const verif::Event& e = r.log[i];
              if (e.kind == verif::K_NOTE || !e.addr || first_reg.count(e.tid)) continue;
              if (std::string(verif::kind_name(e.kind)) == "xchg" && e.a == 0 && e.b == 1 && verif::addr_name(e.addr) == "regmx") first_reg[e.tid] = i;
          }
          for (size_t i = 0; i < r.log.size(); ++i) {
              const verif::Event& e = r.log[i];
              if (e.kind != verif::K_NOTE || std::string(e.tag ? e.tag : "") != "nm" || e.a >= g_nameevs.size()) continue;
              size_t at = i;
              if (g_nameevs[e.a].on && first_reg.count(e.tid) && first_reg[e.tid] < i) at = first_reg[e.tid];
              name_at[at].push_back((size_t)e.a);
          } }
        for (size_t li = 0; li < r.log.size(); ++li) {
            const verif::Event& e = r.log[li];
            { auto it = name_at.find(li);
              if (it != name_at.end()) for (size_t k : it->second) { const NameEv& n = g_nameevs[k]; if (n.on) scoped[n.addr] = n.name; else scoped.erase(n.addr); } }
            if (e.tid < 0 || e.tid >= 64) continue;
            if (e.kind == verif::K_NOTE) {
                std::string tag = e.tag ? e.tag : "";
                if (tag == "phase") phase[e.tid] = (int)e.a;
                else if (tag == "opb" || tag == "ope") printf("n %d %s %llu %lld\n", e.tid, tag.c_str(), (unsigned long long)e.a, (long long)e.b - 1);
                continue;
            }
            if (phase[e.tid] != 1 || !e.addr) continue;
            auto sit = scoped.find(e.addr);
            std::string nm = sit != scoped.end() ? sit->second : verif::addr_name(e.addr);
            if (nm.compare(0, 4, "anon") == 0) continue;
            printf("e %d %s %s %llu %llu %d\n", e.tid, verif::kind_name(e.kind), nm.c_str(), (unsigned long long)e.a, (unsigned long long)e.b, e.ok);
        }
        for (auto& l : table) printf("%s\n", l.c_str());
        printf("steps %zu\n", r.steps);
        printf("mon %s\n", ok ? "ok" : err.c_str());
        if (!ok || (g_flags & 1)) { printf("sched"); for (int s : r.schedule) printf(" %d", s); printf("\n"); }
        printf("end\n");
        fflush(stdout);
    }
    if (r.deadlock) { fflush(stdout); _exit(3); }
    // destroy what the program left alive (uncontrolled)
    for (int x = 0; x < MAXC; ++x) if (g_used[x] && g_alive[x]) { C(x)->~Ctx(); g_alive[x] = false; }
    return ok;
}

int main(int argc, char** argv) {
    verif::init_determinism(argc, argv);
    if (argc < 3) return 2;
    std::string line;
    while (std::getline(std::cin, line)) {
        std::istringstream is(line); std::string w; is >> w;
        if (w == "threads") is >> g_N;
        else if (w == "order") { int t; g_order.clear(); while (is >> t) g_order.push_back(t); }
        else if (w == "op") {
            OpRec o; std::string p, deps; is >> o.id >> o.th >> o.kind >> o.x >> p >> deps;
            if ((o.kind == "register" || o.kind == "exit") && o.th == 0) { printf("bad-op\n"); return 2; }   // thread 0 owns the scheduler handle
            o.p = (p == "-") ? -1 : atoi(p.c_str());
            if (deps != "-") { std::istringstream ds(deps); std::string d; while (std::getline(ds, d, ',')) o.deps.push_back(atoi(d.c_str())); }
            if (o.id < 0 || o.id >= MAXOPS || o.x < 0 || o.x >= MAXC || o.p >= MAXC || o.th < 0 || o.th >= MAXT) { printf("bad-op\n"); return 2; }
            g_ops.push_back(o);
        } else if (w == "guide") {
            Guide g; std::string cs; is >> g.tid >> cs;
            std::istringstream ds(cs); std::string c;
            while (std::getline(ds, c, ',')) { size_t e = c.find('='); if (e != std::string::npos) g.conds.emplace_back(c.substr(0, e), strtoull(c.c_str() + e + 1, 0, 10)); }
            g_guides.push_back(g);
        } else if (w == "go") break;
    }
    if (g_N < 1 || g_N > MAXT || (int)g_order.size() != g_N) { printf("bad-scenario\n"); return 2; }
    std::string mode = argv[1];
    long runs = 0, bad = 0;
    if (mode == "rand") {
        unsigned long long seed = strtoull(argv[2], 0, 10);
        long n = argc > 3 ? atol(argv[3]) : 1;
        g_flags = argc > 4 ? atoi(argv[4]) : 0;
        for (long i = 0; i < n; ++i) {
            verif::RandomSchedule s(seed * 7919 + i, 32 + (int)(i % 6) * 40);
            if (!run_once(s, i, true)) bad++;
            runs++;
        }
    } else if (mode == "replay") {
        verif::ReplaySchedule s; std::ifstream f(argv[2]); int t; while (f >> t) s.tids.push_back(t);
        g_flags = 1;
        if (!run_once(s, 0, true)) bad++;
        runs++;
    } else if (mode == "guide") {
        GuidedSchedule s; g_flags = 1;
        if (!run_once(s, 0, true)) bad++;
        runs++;
    } else if (mode == "dfs") {
        int bound = atoi(argv[2]); long maxruns = argc > 3 ? atol(argv[3]) : 1000;
        verif::DfsSchedule s(bound);
        do { if (!run_once(s, runs, false)) { bad++; runs++; break; } runs++; } while (runs < maxruns && s.next());
    }
    printf("summary runs=%ld bad=%ld\n", runs, bad);
    fflush(stdout);
    _exit(bad ? 1 : 0);
}
