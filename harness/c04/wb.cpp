// C04 E-SHIM harness on the WHOLE instrumented runtime: white-box op programs over task_group_context objects.
// Every controlled thread is an external thread with its own thread_data (own context list); thread t runs its ops:
//   bind x p   task_group_context_impl::bind_to(ctx[x], td) while the thread "runs a task of ctx[p]" (p = -: arena default ctx)
//   cancel x   ctx[x].cancel_group_execution()      reset x   ctx[x].reset()      destroy x   r1::destroy(ctx[x])
// stdin:  threads N | order t.. (thread_data creation order; the registry walk order is its reverse) |
//         op <id> <thread> <kind> <x> <p|-> <dep,dep|->   (ops of one thread run in id order after their deps completed) | go
//         guide <thread> var=val,var=val   (optional, for mode `guide`: run <thread> until all conditions hold, then the next guide)
// argv:   rand <seed> <nruns> | replay <schedule-file> | guide x | dfs <preemption bound> <max runs>      [flag bit 1: always print schedule]
// Output per run: the access trace restricted to the named context / epoch / mutex variables, op begin/end notes with
// results, the registry order read back from the disseminator, the final context table, and the verdict of the
// implementation-side monitors (independent of the Lean model).
#include "oneapi/tbb/global_control.h"
#include "oneapi/tbb/task_group.h"
#include "oneapi/tbb/task_arena.h"
#include "tbb/governor.h"
#include "tbb/thread_data.h"
#include "tbb/arena.h"
#include "tbb/threading_control.h"
#include "tbb/cancellation_disseminator.h"
#include "tbb/scheduler_common.h"
#include "tbb/task_dispatcher.h"
#include <cstdio>
#include <fstream>
#include <sstream>
#include <string>
#include <vector>
#include <map>
#include <set>

using namespace tbb::detail;
typedef d1::task_group_context Ctx;

struct OpRec { int id, th; std::string kind; int x, p; std::vector<int> deps; };
static const int MAXC = 64, MAXOPS = 256, MAXT = 8;
static int g_N = 0;
static std::vector<int> g_order;
static std::vector<OpRec> g_ops;
static bool g_has_reset = false;

alignas(128) static char g_store[MAXC][(sizeof(Ctx) + 127) / 128 * 128];
static bool g_alive[MAXC], g_used[MAXC];
static Ctx* C(int i) { return reinterpret_cast<Ctx*>(g_store[i]); }

static std::atomic<int> g_turn{0}, g_finished{0}, g_ext_done{0};
static std::atomic<int> g_done[MAXOPS];
static r1::thread_data* g_td[MAXT];
static r1::context_list* g_cl[MAXT];
static int g_result[MAXOPS];
static std::vector<int> g_registry;

static std::string S(long v) { return std::to_string(v); }

// --- state-guided schedule: "run thread t until <named variable = value, ...>" --------------------------------------
// The conditions are evaluated on the live memory of the runtime at every scheduling point, so a guide pins down a
// window (e.g. "the propagator has finished list 2") independently of instruction counts.  The schedule actually taken is
// recorded as a plain tid list and is what replays use.
static std::map<std::string, std::function<uint64_t()>> g_probe;
struct Guide { int tid; std::vector<std::pair<std::string, uint64_t>> conds; };
static std::vector<Guide> g_guides;
template <class T> static void probe(const std::string& n, const T* p) {
    static_assert(sizeof(T) <= 8, "probe");
    const void* q = (const void*)p; g_probe[n] = [q] { uint64_t v = 0; std::memcpy(&v, q, sizeof(T)); return v; };
}
struct GuidedSchedule : verif::Schedule {
    size_t pos = 0;
    bool holds(const Guide& g) {
        for (auto& c : g.conds) { auto it = g_probe.find(c.first); if (it == g_probe.end() || it->second() != c.second) return false; }
        return true;
    }
    int pick(int cur, const std::vector<int>& en, size_t) override {
        while (pos < g_guides.size() && holds(g_guides[pos])) ++pos;
        if (pos < g_guides.size()) for (int t : en) if (t == g_guides[pos].tid) return t;
        for (int t : en) if (t == cur) return t;
        return en[0];
    }
};

static void name_globals(r1::thread_data* td) {
    probe("G", &r1::the_context_state_propagation_epoch); probe("propmx", &r1::the_context_state_propagation_mutex.m_flag);
    probe("regmx", &td->my_arena->my_threading_control->my_pimpl->my_cancellation_disseminator->my_threads_list_mutex.my_flag.my_atomic);
    verif::name_addr(&r1::the_context_state_propagation_epoch, "G");
    verif::name_addr(&r1::the_context_state_propagation_mutex.m_flag, "propmx");
    auto* dis = td->my_arena->my_threading_control->my_pimpl->my_cancellation_disseminator.get();
    verif::name_addr(&dis->my_threads_list_mutex.my_flag.my_atomic, "regmx");
}

static void do_op(const OpRec& o, r1::thread_data* td) {
    verif::note("opb", (uint64_t)o.id, 0);
    int res = -1;
    if (o.kind == "bind") {
        auto* disp = td->my_task_dispatcher;
        Ctx* old = disp->m_execute_data_ext.context;
        disp->m_execute_data_ext.context = o.p >= 0 ? C(o.p) : td->my_arena->my_default_ctx;
        r1::task_group_context_impl::bind_to(*C(o.x), td);
        disp->m_execute_data_ext.context = old;
    } else if (o.kind == "cancel") {
        res = r1::cancel_group_execution(*C(o.x)) ? 1 : 0;
    } else if (o.kind == "reset") {
        r1::reset(*C(o.x));
    } else if (o.kind == "destroy") {
        r1::destroy(*C(o.x));
        g_alive[o.x] = false;
    }
    g_result[o.id] = res;
    verif::note("ope", (uint64_t)o.id, (uint64_t)(res + 1));
}

static void thread_body(int t) {
    int pos = 0;
    for (size_t i = 0; i < g_order.size(); ++i) if (g_order[i] == t) pos = (int)i;
    while (g_turn.load() != pos) _mm_pause();
    r1::thread_data* td = r1::governor::get_thread_data();
    g_td[t] = td; g_cl[t] = td->my_context_list;
    verif::name_addr(&td->my_context_list->epoch, "ep" + S(t));
    verif::name_addr(&td->my_context_list->m_mutex.my_flag.my_atomic, "lm" + S(t));
    probe("ep" + S(t), &td->my_context_list->epoch); probe("lm" + S(t), &td->my_context_list->m_mutex.my_flag.my_atomic);
    if (pos == 0) name_globals(td);
    g_turn.fetch_add(1);
    while (g_turn.load() < g_N) _mm_pause();
    verif::note("phase", 1, 0);
    for (const OpRec& o : g_ops) {
        if (o.th != t) continue;
        for (int d : o.deps) while (g_done[d].load() == 0) _mm_pause();
        do_op(o, td);
        g_done[o.id].store(1);
    }
    verif::note("phase", 2, 0);
    g_finished.fetch_add(1);
    while (g_finished.load() < g_N) _mm_pause();
    if (t == 0) {
        // registry order as the propagator walks it
        auto* dis = td->my_arena->my_threading_control->my_pimpl->my_cancellation_disseminator.get();
        g_registry.clear();
        for (auto& thr : dis->my_threads_list) {
            int who = -1;
            for (int k = 0; k < g_N; ++k) if (g_td[k] == &thr) who = k;
            g_registry.push_back(who);
        }
        g_finished.fetch_add(1);
    } else {
        while (g_finished.load() < g_N + 1) _mm_pause();
    }
}

static int idx_of(const Ctx* p) {
    if (!p) return -1;
    const char* a = reinterpret_cast<const char*>(p);
    if (a < g_store[0] || a >= g_store[MAXC - 1] + sizeof(g_store[0])) return -2;    // e.g. an arena's default context
    return (int)((a - g_store[0]) / sizeof(g_store[0]));
}

// implementation-side property monitors at quiescence
static std::string monitors(std::vector<std::string>& table) {
    std::string err;
    auto fail = [&](const std::string& m) { if (err.empty()) err = m; };
    std::map<int, int> wins, resets, calls;
    for (const OpRec& o : g_ops) {
        if (o.kind == "cancel") { calls[o.x]++; if (g_result[o.id] == 1) wins[o.x]++; }
        if (o.kind == "reset") resets[o.x]++;
    }
    for (int x = 0; x < MAXC; ++x) {
        if (!g_used[x]) continue;
        if (!g_alive[x]) { table.push_back("ctx " + S(x) + " 4 - - - -"); continue; }
        Ctx* c = C(x);
        int st = (int)c->my_state.load(std::memory_order_relaxed);
        int can = (int)c->my_cancellation_requested.load(std::memory_order_relaxed);
        int mhc = (int)c->my_may_have_children.load(std::memory_order_relaxed);
        int par = idx_of(c->my_parent);
        int lst = -1;
        for (int k = 0; k < g_N; ++k) if (c->my_context_list && c->my_context_list == g_cl[k]) lst = k;
        table.push_back("ctx " + S(x) + " " + S(st) + " " + S(can) + " " + S(mhc) + " " + (par >= 0 ? S(par) : std::string("-")) + " " + (lst >= 0 ? S(lst) : std::string("-")));
        if (wins[x] > 1 + resets[x])
            fail("VIOLATION single-winner: " + S(wins[x]) + " cancel_group_execution calls on context " + S(x) + " returned true (resets: " + S(resets[x]) + ")");
        if (calls[x] > 0 && resets[x] == 0 && !can)
            fail("VIOLATION sticky: cancel_group_execution was called on context " + S(x) + " (" + S(wins[x]) + " returned true), it was never reset, and it is not cancelled at quiescence");
        if (can) {
            bool justified = false;
            for (int a = x, n = 0; a >= 0 && n < MAXC; ++n) { if (wins[a] > 0) justified = true; a = g_alive[a] ? idx_of(C(a)->my_parent) : -1; }
            if (!justified) fail("VIOLATION overreach: context " + S(x) + " is cancelled although no cancel call on it or on any of its ancestors returned true");
        }
        if (!g_has_reset && st == (int)Ctx::state::bound && par >= 0 && g_alive[par]) {
            int pcan = (int)C(par)->my_cancellation_requested.load(std::memory_order_relaxed);
            if (pcan && !can)
                fail("VIOLATION reach: context " + S(x) + " is bound beneath cancelled context " + S(par) + " and is not cancelled at quiescence (no cancel or bind in flight)");
        }
    }
    return err;
}

static int g_flags = 0;

static bool run_once(verif::Schedule& sch, long run_idx, bool print_all) {
    verif::clear_names(); g_probe.clear();
    g_turn.store(0); g_finished.store(0); g_ext_done.store(0);
    for (int i = 0; i < MAXOPS; ++i) { g_done[i].store(0); g_result[i] = -1; }
    for (int i = 0; i < MAXC; ++i) { g_alive[i] = false; g_used[i] = false; }
    for (const OpRec& o : g_ops) { g_used[o.x] = true; if (o.p >= 0) g_used[o.p] = true; }
    for (int x = 0; x < MAXC; ++x) if (g_used[x]) {
        new (g_store[x]) Ctx(Ctx::bound);
        g_alive[x] = true;
        verif::name_addr(&C(x)->my_cancellation_requested, "can" + S(x));
        verif::name_addr(&C(x)->my_may_have_children, "mhc" + S(x));
        verif::name_addr(&C(x)->my_state, "st" + S(x));
        probe("can" + S(x), &C(x)->my_cancellation_requested); probe("mhc" + S(x), &C(x)->my_may_have_children);
        probe("st" + S(x), &C(x)->my_state);
        { Ctx* c = C(x); g_probe["reg" + S(x)] = [c] { return (uint64_t)(c->my_context_list != nullptr); }; }
    }
    r1::the_context_state_propagation_epoch.store(0);     // every run starts like a fresh process (new context lists start at epoch 0)
    std::vector<std::function<void()>> bodies;
    bodies.push_back([&] {
        tbb::global_control gc(tbb::global_control::max_allowed_parallelism, 1);
        tbb::task_scheduler_handle h{tbb::attach{}};
        thread_body(0);
        while (g_ext_done.load() < g_N - 1) _mm_pause();
        tbb::finalize(h);
    });
    for (int t = 1; t < g_N; ++t) bodies.push_back([t] {
        thread_body(t);
        r1::governor::terminate_external_thread();
        g_ext_done.fetch_add(1);
    });
    verif::Result r = verif::run(bodies, sch, 4000000);
    std::vector<std::string> table;
    std::string err = r.deadlock ? std::string("DEADLOCK every live thread parked (or step limit)") : monitors(table);
    bool ok = err.empty();
    if (print_all || !ok) {
        printf("run %ld\n", run_idx);
        printf("reg"); for (int w : g_registry) printf(" %d", w); printf("\n");
        std::vector<int> phase(64, 0);
        for (const verif::Event& e : r.log) {
            if (e.tid < 0 || e.tid >= 64) continue;
            if (e.kind == verif::K_NOTE) {
                std::string tag = e.tag ? e.tag : "";
                if (tag == "phase") phase[e.tid] = (int)e.a;
                else if (tag == "opb" || tag == "ope") printf("n %d %s %llu %lld\n", e.tid, tag.c_str(), (unsigned long long)e.a, (long long)e.b - 1);
                continue;
            }
            if (phase[e.tid] != 1 || !e.addr) continue;
            std::string nm = verif::addr_name(e.addr);
            if (nm.compare(0, 4, "anon") == 0) continue;
            printf("e %d %s %s %llu %llu %d\n", e.tid, verif::kind_name(e.kind), nm.c_str(), (unsigned long long)e.a, (unsigned long long)e.b, e.ok);
        }
        for (auto& l : table) printf("%s\n", l.c_str());
        printf("steps %zu\n", r.steps);
        printf("mon %s\n", ok ? "ok" : err.c_str());
        if (!ok || (g_flags & 1)) { printf("sched"); for (int s : r.schedule) printf(" %d", s); printf("\n"); }
        printf("end\n");
        fflush(stdout);
    }
    if (r.deadlock) { fflush(stdout); _exit(3); }
    // destroy what the program left alive (uncontrolled)
    for (int x = 0; x < MAXC; ++x) if (g_used[x] && g_alive[x]) { C(x)->~Ctx(); g_alive[x] = false; }
    return ok;
}

int main(int argc, char** argv) {
    verif::init_determinism(argc, argv);
    if (argc < 3) return 2;
    std::string line;
    while (std::getline(std::cin, line)) {
        std::istringstream is(line); std::string w; is >> w;
        if (w == "threads") is >> g_N;
        else if (w == "order") { int t; g_order.clear(); while (is >> t) g_order.push_back(t); }
        else if (w == "op") {
            OpRec o; std::string p, deps; is >> o.id >> o.th >> o.kind >> o.x >> p >> deps;
            o.p = (p == "-") ? -1 : atoi(p.c_str());
            if (deps != "-") { std::istringstream ds(deps); std::string d; while (std::getline(ds, d, ',')) o.deps.push_back(atoi(d.c_str())); }
            if (o.kind == "reset") g_has_reset = true;
            if (o.id < 0 || o.id >= MAXOPS || o.x < 0 || o.x >= MAXC || o.p >= MAXC || o.th < 0 || o.th >= MAXT) { printf("bad-op\n"); return 2; }
            g_ops.push_back(o);
        } else if (w == "guide") {
            Guide g; std::string cs; is >> g.tid >> cs;
            std::istringstream ds(cs); std::string c;
            while (std::getline(ds, c, ',')) { size_t e = c.find('='); if (e != std::string::npos) g.conds.emplace_back(c.substr(0, e), strtoull(c.c_str() + e + 1, 0, 10)); }
            g_guides.push_back(g);
        } else if (w == "go") break;
    }
    if (g_N < 1 || g_N > MAXT || (int)g_order.size() != g_N) { printf("bad-scenario\n"); return 2; }
    std::string mode = argv[1];
    long runs = 0, bad = 0;
    if (mode == "rand") {
        unsigned long long seed = strtoull(argv[2], 0, 10);
        long n = argc > 3 ? atol(argv[3]) : 1;
        g_flags = argc > 4 ? atoi(argv[4]) : 0;
        for (long i = 0; i < n; ++i) {
            verif::RandomSchedule s(seed * 7919 + i, 32 + (int)(i % 6) * 40);
            if (!run_once(s, i, true)) bad++;
            runs++;
        }
    } else if (mode == "replay") {
        verif::ReplaySchedule s; std::ifstream f(argv[2]); int t; while (f >> t) s.tids.push_back(t);
        g_flags = 1;
        if (!run_once(s, 0, true)) bad++;
        runs++;
    } else if (mode == "guide") {
        GuidedSchedule s; g_flags = 1;
        if (!run_once(s, 0, true)) bad++;
        runs++;
    } else if (mode == "dfs") {
        int bound = atoi(argv[2]); long maxruns = argc > 3 ? atol(argv[3]) : 1000;
        verif::DfsSchedule s(bound);
        do { if (!run_once(s, runs, false)) { bad++; runs++; break; } runs++; } while (runs < maxruns && s.next());
    }
    printf("summary runs=%ld bad=%ld\n", runs, bad);
    fflush(stdout);
    _exit(bad ? 1 : 0);
}
