// C03 white-box observation points (no code of the library is replaced):
//
//  * src/tbb/parallel_pipeline.cpp is compiled HERE (this object is linked instead of the runtime's parallel_pipeline object), so that the
//    complete types r1::pipeline / input_buffer / stage_task are visible.  r1::execute_and_wait is interposed (-Wl,--wrap): when the task it
//    is given is a stage_task (the call made by r1::parallel_pipeline) the input buffers of that pipeline are inspected right after the wait
//    returned or threw — i.e. after quiescence, BEFORE ~pipeline — and the token objects still parked in them are recorded.
//  * r1::allocate_memory / deallocate_memory interposed: memory blocks of the size of the harness' token type (token_helper<T,true>::create_token).
//  * r1::allocate / r1::deallocate (small objects = task objects, selectors, tree nodes) interposed: a live set, so that a second deallocation
//    of the same object and objects never deallocated are seen.
#include "tbb/parallel_pipeline.cpp"
#include <map>
#include <set>
#include <vector>

namespace c03spy {
std::vector<void*> parked;          // my_object of every valid entry of every input_buffer at the last pipeline exit
int pipelines = 0;                  // pipeline exits observed
std::set<void*> token_mem;          // live blocks of size token_size from r1::allocate_memory
std::size_t token_size = 0;
std::map<void*, std::size_t> small_live;         // live small objects -> size
long small_allocs = 0, small_frees = 0, small_double = 0;
bool on = false;

static void snapshot(tbb::detail::r1::pipeline* p) {
    using namespace tbb::detail;
    parked.clear();
    pipelines++;
    for (d1::base_filter* f = p->first_filter; f; f = f->next_filter_in_pipeline) {
        r1::input_buffer* b = f->my_input_buffer;
        if (!b || !b->array) continue;
        for (r1::input_buffer::size_type i = 0; i < b->array_size; ++i)
            if (b->array[i].is_valid && b->array[i].my_object) parked.push_back(b->array[i].my_object);
    }
}
}

using namespace tbb::detail;
extern "C" {
void __real__ZN3tbb6detail2r116execute_and_waitERNS0_2d14taskERNS2_18task_group_contextERNS2_12wait_contextES6_(d1::task&, d1::task_group_context&, d1::wait_context&, d1::task_group_context&);
void __wrap__ZN3tbb6detail2r116execute_and_waitERNS0_2d14taskERNS2_18task_group_contextERNS2_12wait_contextES6_(d1::task& t, d1::task_group_context& c, d1::wait_context& w, d1::task_group_context& wc) {
    r1::stage_task* st = c03spy::on ? dynamic_cast<r1::stage_task*>(&t) : nullptr;
    r1::pipeline* p = st ? &st->my_pipeline : nullptr;
    try {
        __real__ZN3tbb6detail2r116execute_and_waitERNS0_2d14taskERNS2_18task_group_contextERNS2_12wait_contextES6_(t, c, w, wc);
    } catch (...) {
        if (p) c03spy::snapshot(p);
        throw;
    }
    if (p) c03spy::snapshot(p);
}

void* __real__ZN3tbb6detail2r115allocate_memoryEm(std::size_t);
void* __wrap__ZN3tbb6detail2r115allocate_memoryEm(std::size_t n) {
    void* p = __real__ZN3tbb6detail2r115allocate_memoryEm(n);
    if (c03spy::on && n == c03spy::token_size) c03spy::token_mem.insert(p);
    return p;
}
void __real__ZN3tbb6detail2r117deallocate_memoryEPv(void*);
void __wrap__ZN3tbb6detail2r117deallocate_memoryEPv(void* p) {
    if (c03spy::on) c03spy::token_mem.erase(p);
    __real__ZN3tbb6detail2r117deallocate_memoryEPv(p);
}

static void small_new(void* p, std::size_t n) { if (c03spy::on) { c03spy::small_live[p] = n; c03spy::small_allocs++; } }
static bool small_del(void* p) {      // false: second deallocation of the same object (not forwarded)
    if (!c03spy::on) { c03spy::small_live.erase(p); return true; }      // (still tracked: objects freed by a thread that is just leaving)
    auto it = c03spy::small_live.find(p);
    if (it == c03spy::small_live.end()) { c03spy::small_double++; return false; }
    c03spy::small_live.erase(it); c03spy::small_frees++;
    return true;
}
void* __real__ZN3tbb6detail2r18allocateERPNS0_2d117small_object_poolEmRKNS2_14execution_dataE(d1::small_object_pool*&, std::size_t, const d1::execution_data&);
void* __wrap__ZN3tbb6detail2r18allocateERPNS0_2d117small_object_poolEmRKNS2_14execution_dataE(d1::small_object_pool*& a, std::size_t n, const d1::execution_data& ed) {
    void* p = __real__ZN3tbb6detail2r18allocateERPNS0_2d117small_object_poolEmRKNS2_14execution_dataE(a, n, ed);
    small_new(p, n); return p;
}
void* __real__ZN3tbb6detail2r18allocateERPNS0_2d117small_object_poolEm(d1::small_object_pool*&, std::size_t);
void* __wrap__ZN3tbb6detail2r18allocateERPNS0_2d117small_object_poolEm(d1::small_object_pool*& a, std::size_t n) {
    void* p = __real__ZN3tbb6detail2r18allocateERPNS0_2d117small_object_poolEm(a, n);
    small_new(p, n); return p;
}
void __real__ZN3tbb6detail2r110deallocateERNS0_2d117small_object_poolEPvmRKNS2_14execution_dataE(d1::small_object_pool&, void*, std::size_t, const d1::execution_data&);
void __wrap__ZN3tbb6detail2r110deallocateERNS0_2d117small_object_poolEPvmRKNS2_14execution_dataE(d1::small_object_pool& p, void* ptr, std::size_t n, const d1::execution_data& ed) {
    if (small_del(ptr)) __real__ZN3tbb6detail2r110deallocateERNS0_2d117small_object_poolEPvmRKNS2_14execution_dataE(p, ptr, n, ed);
}
void __real__ZN3tbb6detail2r110deallocateERNS0_2d117small_object_poolEPvm(d1::small_object_pool&, void*, std::size_t);
void __wrap__ZN3tbb6detail2r110deallocateERNS0_2d117small_object_poolEPvm(d1::small_object_pool& p, void* ptr, std::size_t n) {
    if (small_del(ptr)) __real__ZN3tbb6detail2r110deallocateERNS0_2d117small_object_poolEPvm(p, ptr, n);
}
}
