// C03 E-SHIM harness: user code that THROWS inside parallel algorithms / task_group / task_arena::execute / flow graph /
// pipeline, on the WHOLE instrumented runtime (every src/tbb/*.cpp compiled with the shim), one controlled run per
// (program, fault schedule, thread schedule).
//
// Fault schedule = "the k-th occurrence of a fault point of kind K throws" (kinds: body invocation, Range split ctor,
// Range copy ctor, Body copy ctor, Body split ctor, reduce join, pipeline/flow item copy).  Exceptions carry a unique id.
//
// Implementation-side monitors (independent of the Lean model):
//   M1 exactly one exception reaches the waiting call when some body of the group threw (none otherwise) and its id is
//      one that a body of THAT group threw;
//   M2 live-body counter of the group == 0 when the call exits, and no body of the group starts afterwards;
//   M3 constructor/destructor balance with identities of every Range / Body / functor / item / message object
//      (destroyed exactly once: no double destruction, nothing left alive at the end / when the call exits);
//   M4 no exception on a worker thread (std::terminate handler reports) and no exception escapes anywhere else;
//   M5 after the call the same group / context / partitioner / graph objects are reusable: a second, non-throwing round
//      completes, runs every body, and task_group reports `complete`;
//   M6 no hang (every live thread parked), no crash.
// Task-level event log (programs tg_*, raw): printed as `ev` lines for validation against the Lean model DispatchEH.
//
// stdin: one run per line
//   run <prog> <P> <size> <seed> <stay> <faults|-> <flags>          flags: 1 = print ev lines, 2 = always print schedule
//   replay <prog> <P> <size> <faults|-> <flags> <schedule file>
#define TBB_PREVIEW_ISOLATED_TASK_GROUP 1
#include "oneapi/tbb/global_control.h"
#include "oneapi/tbb/task_arena.h"
#include "oneapi/tbb/task_group.h"
#include "oneapi/tbb/parallel_for.h"
#include "oneapi/tbb/parallel_reduce.h"
#include "oneapi/tbb/parallel_for_each.h"
#include "oneapi/tbb/parallel_invoke.h"
#include "oneapi/tbb/parallel_pipeline.h"
#include "oneapi/tbb/flow_graph.h"
#include "oneapi/tbb/partitioner.h"
#include "tbb/governor.h"
#include "../shim/verif_hb.h"
#include <cstdio>
#include <fstream>
#include <sstream>
#include <string>
#include <vector>
#include <map>
#include <set>

// white-box observation points (harness/c03/spy.cpp)
namespace c03spy {
extern std::vector<void*> parked; extern int pipelines; extern std::set<void*> token_mem; extern std::size_t token_size;
extern std::map<void*, std::size_t> small_live; extern long small_allocs, small_frees, small_double; extern bool on;
}

// ---------------------------------------------------------------------------------------------------------------
// fault plan
// ---------------------------------------------------------------------------------------------------------------
enum FK { K_BODY = 0, K_RSPLIT, K_RCOPY, K_BCOPY, K_BSPLIT, K_JOIN, K_ITEM, NK };
static const char* fk_name[NK] = {"body", "rsplit", "rcopy", "bcopy", "bsplit", "join", "item"};

struct Exc {        // the exception object itself is tracked: a leaked tbb_exception_ptr shows up as an Exc never destroyed
    int id; int gid;
    Exc(int i, int g);
    Exc(const Exc& o);
    ~Exc();
};

struct Group {
    int live = 0;            // bodies of the group currently running
    int bodies = 0;          // bodies started
    bool closed = false;     // the waiting call has exited
    bool ext_cancel = false; // the program itself cancelled the group
    std::vector<int> thrown; // exception ids thrown by bodies of this group
};

struct Obj { int type; int id; int gid; };
enum OT { T_RANGE = 0, T_BODY, T_FUNCTOR, T_ITEM, T_EXC, NT };
static const char* ot_name[NT] = {"Range", "Body", "functor", "item", "exception"};

struct Mon {
    // faults
    std::set<int> at[NK];
    int cnt[NK] = {0};
    bool faults_on = true;
    // groups
    std::vector<Group> groups;
    // objects
    std::map<const void*, Obj> live;
    int created[NT] = {0}, destroyed[NT] = {0};
    int next_obj = 0;
    // outcome
    std::string err;
    std::vector<std::string> info;
    int next_exc = 0;
    bool events = false;
    std::vector<std::string> ev;        // task-level event log
    int main_tid = 0;

    void fail(const std::string& m) { if (err.empty()) err = m; }
    int new_group() { groups.emplace_back(); return (int)groups.size() - 1; }
};
static Mon* M;

static std::string S(long v) { return std::to_string(v); }

// throws when the fault plan says so
static void fault_point(int kind, int gid) {
    if (!M->faults_on) return;
    int k = M->cnt[kind]++;
    if (M->at[kind].count(k)) {
        int id = kind * 1000 + k;
        verif::note("throw", (uint64_t)gid, (uint64_t)id);
        M->groups[gid].thrown.push_back(id);
        verif::note("gw", 0x10000000ull + (uint64_t)id);      // ghost: the exception object is constructed (plain writes) by the throwing thread
        throw Exc{id, gid};
    }
}

static int obj_reg(const void* p, int type, int gid) {
    auto it = M->live.find(p);
    if (it != M->live.end())
        M->fail(std::string("VIOLATION a ") + ot_name[type] + " was constructed on top of a live " + ot_name[it->second.type] + " (id " + S(it->second.id) + ") that was never destroyed");
    M->live[p] = Obj{type, M->next_obj++, gid};
    M->created[type]++;
    return M->next_obj - 1;
}
static int obj_unreg(const void* p, int type) {
    auto it = M->live.find(p);
    if (it == M->live.end() || it->second.type != type) {
        M->fail(std::string("VIOLATION a ") + ot_name[type] + " object was destroyed twice (or destroyed without having been constructed)");
        return -1;
    }
    int id = it->second.id;
    M->live.erase(it);
    M->destroyed[type]++;
    return id;
}

Exc::Exc(int i, int g) : id(i), gid(g) { obj_reg(this, T_EXC, -1); }
Exc::Exc(const Exc& o) : id(o.id), gid(o.gid) { obj_reg(this, T_EXC, -1); }
Exc::~Exc() { obj_unreg(this, T_EXC); }

// white-box, WITHOUT a scheduling point: is the innermost context of the calling task cancelled right now?
static bool ctx_cancelled_now() {
    tbb::task_group_context* c = tbb::detail::r1::current_context();
    if (!c) return false;
    return *reinterpret_cast<volatile std::uint32_t*>(&c->my_cancellation_requested) != 0;
}

// scheduling points inside user code (an atomic access of the harness is a scheduling point like any other): a body is
// not atomic with respect to the other threads, so "still running when the call exited" is observable
static std::atomic<int> g_tick{0};
static void tick() { g_tick.fetch_add(1, std::memory_order_relaxed); }

// every piece of user code of a group runs inside body_scope
template <class Fn> static void body_scope(int gid, Fn fn) {
    {
        Group& G = M->groups[gid];
        if (G.closed) M->fail("VIOLATION a body of group " + S(gid) + " started after the waiting call had exited");
        G.live++; G.bodies++;
    }
    // ghost: whatever the body wrote (plain) must be visible to the thread that leaves the waiting call
    struct L { int g; uint64_t cell; ~L() { tick(); verif::note("gw", cell); M->groups[g].live--; } } l{gid, 0x40000000ull + (uint64_t)gid * 0x10000ull + (uint64_t)M->groups[gid].bodies};
    tick(); tick();
    try { fn(); tick(); }
    catch (Exc& e) {       // an exception of a nested group that goes on through this body belongs to this group's work too
        bool have = false;
        for (int id : M->groups[gid].thrown) if (id == e.id) have = true;
        if (!have) M->groups[gid].thrown.push_back(e.id);
        throw;
    }
}

struct CallResult { int caught = -1; bool threw = false; };

// the waiting call of group gid: M1, M2 and the per-call part of M3
template <class Call> static CallResult guarded(int gid, const char* what, Call call, bool check_objects = true) {
    CallResult r;
    size_t base = M->live.size();
    try { call(); }
    catch (Exc& e) { r.caught = e.id; r.threw = true; if (e.id < 4000) verif::note("gr", 0x10000000ull + (uint64_t)e.id); }
    catch (...) { r.threw = true; M->fail(std::string("VIOLATION ") + what + " threw an exception that no body threw (foreign type)"); }
    for (int k = 1; k <= M->groups[gid].bodies; ++k) verif::note("gr", 0x40000000ull + (uint64_t)gid * 0x10000ull + (uint64_t)k);
    Group& G = M->groups[gid];
    if (G.live != 0) M->fail(std::string("VIOLATION ") + what + " exited (" + (r.threw ? "threw" : "returned") + ") while " + S(G.live) + " bodies of the group were still running");
    G.closed = true;
    if (G.thrown.empty() && r.threw) M->fail(std::string("VIOLATION ") + what + " threw exception " + S(r.caught) + " although no body of the group threw");
    if (!G.thrown.empty() && !r.threw && !G.ext_cancel)
        M->fail(std::string("VIOLATION exception swallowed: bodies of the group threw (first id ") + S(G.thrown[0]) + ") but " + what + " returned normally");
    if (r.threw && r.caught >= 0) {
        bool found = false;
        for (int id : G.thrown) if (id == r.caught) found = true;
        if (!found) M->fail(std::string("VIOLATION ") + what + " rethrew exception " + S(r.caught) + " which was not thrown by this group's work");
    }
    if (check_objects && M->live.size() != base) {
        std::string k;
        size_t n = 0;
        for (auto& kv : M->live) if (kv.second.gid == gid) { if (k.empty()) k = std::string(ot_name[kv.second.type]) + " #" + S(kv.second.id); n++; }
        if (n) M->fail(std::string("VIOLATION ") + what + " exited but " + S((long)n) + " object(s) the library created for the group are still alive (first: " + k + ")");
    }
    return r;
}

// ---------------------------------------------------------------------------------------------------------------
// instrumented user types
// ---------------------------------------------------------------------------------------------------------------
struct R {      // Range
    int b, e, grain, gid;
    R(int b_, int e_, int g_, int gid_) : b(b_), e(e_), grain(g_), gid(gid_) { obj_reg(this, T_RANGE, gid); }
    R(const R& o) : b(o.b), e(o.e), grain(o.grain), gid(o.gid) { fault_point(K_RCOPY, gid); obj_reg(this, T_RANGE, gid); }
    R(R& o, tbb::split) : b(0), e(0), grain(o.grain), gid(o.gid) {
        fault_point(K_RSPLIT, gid);
        int m = o.b + (o.e - o.b) / 2;
        b = m; e = o.e; o.e = m;
        obj_reg(this, T_RANGE, gid);
    }
    ~R() { obj_unreg(this, T_RANGE); }
    bool empty() const { return b >= e; }
    bool is_divisible() const { return e - b > grain; }
    R& operator=(const R&) = delete;
};

static std::vector<int>* g_hits;     // per-index execution counters of the current round

struct FB {     // parallel_for body
    int gid;
    explicit FB(int g) : gid(g) { obj_reg(this, T_BODY, gid); }
    FB(const FB& o) : gid(o.gid) { fault_point(K_BCOPY, gid); obj_reg(this, T_BODY, gid); }
    ~FB() { obj_unreg(this, T_BODY); }
    void operator()(const R& r) const {
        body_scope(gid, [&] {
            for (int i = r.b; i < r.e; ++i) (*g_hits)[i]++;
            fault_point(K_BODY, gid);
        });
    }
};

struct RB {     // parallel_reduce body
    int gid; long sum = 0;
    explicit RB(int g) : gid(g) { obj_reg(this, T_BODY, gid); }
    RB(RB& o, tbb::split) : gid(o.gid) { fault_point(K_BSPLIT, gid); obj_reg(this, T_BODY, gid); }
    RB(const RB&) = delete;
    ~RB() { obj_unreg(this, T_BODY); }
    void operator()(const R& r) {
        body_scope(gid, [&] {
            for (int i = r.b; i < r.e; ++i) { (*g_hits)[i]++; sum += i; }
            fault_point(K_BODY, gid);
        });
    }
    void join(RB& rhs) {
        // the library tests the flag immediately before calling join (no scheduling point in between under the shim)
        if (ctx_cancelled_now()) M->fail("VIOLATION reduction join callback executed although the group's context is cancelled");
        body_scope(gid, [&] { fault_point(K_JOIN, gid); sum += rhs.sum; });
    }
};

// task-level events ------------------------------------------------------------------------------------------------
static void ev(const char* what, long a = -1, long b = -1, long c = -1) {
    if (!M->events) return;
    verif::note(what, (uint64_t)a, (uint64_t)b);
    (void)c;
}

struct TF {     // task_group functor: one copy == one function_task
    int gid, unit; bool is_task;
    std::function<void()>* extra;   // user action (submits more work), may be null
    TF(int g, int u, std::function<void()>* x = nullptr) : gid(g), unit(u), is_task(false), extra(x) { obj_reg(this, T_FUNCTOR, gid); }
    TF(const TF& o) : gid(o.gid), unit(o.unit), is_task(true), extra(o.extra) { obj_reg(this, T_FUNCTOR, gid); ev("spawn", gid, unit); }
    ~TF() { if (is_task) ev("fin", gid, unit); obj_unreg(this, T_FUNCTOR); }
    void operator()() const {
        body_scope(gid, [&] {
            ev("exec", gid, unit);
            (*g_hits)[unit]++;
            if (extra) (*extra)();
            fault_point(K_BODY, gid);
            ev("bodyok", gid, unit);
        });
    }
};

struct Item {   // pipeline token / flow-graph message (value type: the library copies it)
    int v, gid, stage;
    bool token;     // this object lives in memory that token_helper::create_token obtained: it IS a pipeline token
    void reg() {
        int id = obj_reg(this, T_ITEM, gid);
        token = c03spy::token_mem.count(this) != 0;
        if (token) ev("tnew", id, (long)stage * 1000 + v);
    }
    Item() : v(-1), gid(0), stage(-1), token(false) { obj_reg(this, T_ITEM, 0); }
    Item(int v_, int g, int st = -1) : v(v_), gid(g), stage(st), token(false) { reg(); }
    Item(const Item& o) : v(o.v), gid(o.gid), stage(o.stage), token(false) { fault_point(K_ITEM, gid); reg(); }
    Item& operator=(const Item& o) { v = o.v; gid = o.gid; stage = o.stage; return *this; }
    ~Item() { int id = obj_unreg(this, T_ITEM); if (token) ev("tdel", id, (long)stage * 1000 + v); }
};

// ---------------------------------------------------------------------------------------------------------------
// programs.  Each runs round 1 with the fault plan, then round 2 without faults on the same objects (M5).
// ---------------------------------------------------------------------------------------------------------------
static std::string g_prog;
static int g_P = 2, g_size = 8;

static void check_all_ran(const std::vector<int>& hits, int n, const char* what, bool must_all) {
    for (int i = 0; i < n; ++i) {
        if (hits[i] > 1) M->fail(std::string("VIOLATION ") + what + ": element " + S(i) + " processed " + S(hits[i]) + " times");
        if (must_all && hits[i] != 1) M->fail(std::string("VIOLATION ") + what + " (non-throwing round) did not process element " + S(i));
    }
}

template <class Part> static void prog_pfor(Part& part) {
    int n = g_size;
    for (int round = 0; round < 2; ++round) {
        M->faults_on = (round == 0);
        std::vector<int> hits(n, 0); g_hits = &hits;
        int gid = M->new_group();
        CallResult cr = guarded(gid, "parallel_for", [&] {
            R range(0, n, 1, gid);
            FB body(gid);
            tbb::parallel_for(range, body, part);
        });
        check_all_ran(hits, n, "parallel_for", !cr.threw);
    }
}

template <bool deterministic, class Part> static void prog_preduce(Part& part) {
    int n = g_size;
    for (int round = 0; round < 2; ++round) {
        M->faults_on = (round == 0);
        std::vector<int> hits(n, 0); g_hits = &hits;
        int gid = M->new_group();
        long sum = -1;
        CallResult cr = guarded(gid, deterministic ? "parallel_deterministic_reduce" : "parallel_reduce", [&] {
            R range(0, n, 1, gid);
            RB body(gid);
            if constexpr (deterministic) tbb::parallel_deterministic_reduce(range, body, part);
            else tbb::parallel_reduce(range, body, part);
            sum = body.sum;
        });
        check_all_ran(hits, n, "parallel_reduce", !cr.threw);
        if (!cr.threw && sum != (long)n * (n - 1) / 2) M->fail("VIOLATION parallel_reduce returned normally with a wrong sum " + S(sum));
    }
}

static void prog_pforeach() {
    int n = g_size;
    for (int round = 0; round < 2; ++round) {
        M->faults_on = (round == 0);
        std::vector<int> hits(n + 2, 0); g_hits = &hits;
        int gid = M->new_group();
        std::vector<int> items;
        for (int i = 0; i < n; ++i) items.push_back(i);
        CallResult cr = guarded(gid, "parallel_for_each", [&] {
            tbb::parallel_for_each(items.begin(), items.end(), [gid, n](int& it, tbb::feeder<int>& feeder) {
                body_scope(gid, [&] {
                    (*g_hits)[it]++;
                    if (it < 2) feeder.add(n + it);
                    fault_point(K_BODY, gid);
                });
            });
        });
        check_all_ran(hits, n + 2, "parallel_for_each", !cr.threw);
    }
}

struct IF {     // parallel_invoke functor (passed by reference)
    int gid, unit;
    void operator()() const { body_scope(gid, [&] { (*g_hits)[unit]++; fault_point(K_BODY, gid); }); }
};
static void prog_pinvoke(int nf) {
    for (int round = 0; round < 2; ++round) {
        M->faults_on = (round == 0);
        std::vector<int> hits(nf, 0); g_hits = &hits;
        int gid = M->new_group();
        IF f0{gid, 0}, f1{gid, 1}, f2{gid, 2}, f3{gid, 3}, f4{gid, 4}, f5{gid, 5}, f6{gid, 6};
        CallResult cr = guarded(gid, "parallel_invoke", [&] {
            if (nf == 2) tbb::parallel_invoke(f0, f1);
            else if (nf == 3) tbb::parallel_invoke(f0, f1, f2);
            else if (nf == 5) tbb::parallel_invoke(f0, f1, f2, f3, f4);
            else tbb::parallel_invoke(f0, f1, f2, f3, f4, f5, f6);
        });
        check_all_ran(hits, nf == 2 || nf == 3 || nf == 5 ? nf : 7, "parallel_invoke", !cr.threw);
    }
}

// naming of the context words for the event log
static void name_ctx(tbb::task_group_context& c, int gid) {
    if (!M->events) return;
    verif::name_addr(&c.my_cancellation_requested, "cancel");
    verif::name_addr(&c.my_exception, "exc");
    (void)gid;
}

// after parallel_pipeline exited: every token object of the group that is still alive must be one that was parked in an input buffer at the
// exit (white-box snapshot taken after quiescence, before ~pipeline); those are accounted for separately (known finding while the tear-down
// does not clear the buffers: spec flag 4 says that it does)
static int g_parked_leaked = 0;
static void pipeline_ledger(int gid, const char* what, bool clears) {
    std::set<const void*> parked(c03spy::parked.begin(), c03spy::parked.end());
    std::vector<const void*> drop;
    int other = 0, first_other = -1;
    for (auto& kv : M->live) {
        if (kv.second.gid != gid || kv.second.type != T_ITEM) continue;
        if (parked.count(kv.first)) drop.push_back(kv.first);
        else { if (!other) first_other = kv.second.id; other++; }
    }
    ev("parked", gid, (long)drop.size());
    if (other) M->fail(std::string("VIOLATION ") + what + " exited but " + S(other) + " token object(s) that were NOT parked in a buffer are still alive (first: item #" + S(first_other) + ")");
    if (!drop.empty()) {
        g_parked_leaked += (int)drop.size();
        M->fail(std::string("VIOLATION ") + what + " exited but " + S((long)drop.size()) + " token object(s) parked in a serial filter's buffer at cancellation were never destroyed" +
                (clears ? " although the tear-down is supposed to clear the buffers" : ""));
        for (const void* q : drop) M->live.erase(q);       // accounted for: not reported again at the end of the run
    }
}

// variant 0: serial_in_order -> parallel -> serial_out_of_order;  variant 1: serial_in_order -> parallel -> serial_in_order (more parking);
// variant 2: parallel input -> serial_out_of_order -> parallel sink
static bool g_pipe_clears = false;
static void prog_pipeline(int variant) {
    int n = g_size;
    using fm = tbb::filter_mode;
    fm m0 = variant == 2 ? fm::parallel : fm::serial_in_order;
    fm m1 = variant == 2 ? fm::serial_out_of_order : fm::parallel;
    fm m2 = variant == 0 ? fm::serial_out_of_order : variant == 1 ? fm::serial_in_order : fm::parallel;
    c03spy::token_size = sizeof(Item);
    for (int round = 0; round < 2; ++round) {
        M->faults_on = (round == 0);
        std::vector<int> hits(n, 0); g_hits = &hits;
        std::vector<int> out(n, 0);
        int gid = M->new_group();
        std::atomic<int> next{0};
        tbb::task_group_context ctx;
        name_ctx(ctx, gid);
        int before = c03spy::pipelines;
        CallResult cr = guarded(gid, "parallel_pipeline", [&] {
            ev("begin", gid);
            try {
                tbb::parallel_pipeline(variant == 1 ? 4 : 3,
                    tbb::make_filter<void, Item>(m0, [&](tbb::flow_control& fc) -> Item {
                        Item res;
                        body_scope(gid, [&] {
                            int k = next.fetch_add(1, std::memory_order_relaxed);
                            ev("pb", 0, k);
                            if (k >= n) { fc.stop(); ev("pstop", 0, k); return; }
                            res.v = k; res.gid = gid; res.stage = 0;
                            fault_point(K_BODY, gid);
                            ev("pe", 0, k);
                        });
                        return res;
                    }) &
                    tbb::make_filter<Item, Item>(m1, [&](const Item& it) -> Item {
                        Item res(it.v, gid, 1);
                        body_scope(gid, [&] { ev("pb", 1, it.v); (*g_hits)[it.v]++; fault_point(K_BODY, gid); ev("pe", 1, it.v); });
                        return res;
                    }) &
                    tbb::make_filter<Item, void>(m2, [&](const Item& it) {
                        body_scope(gid, [&] { ev("pb", 2, it.v); out[it.v]++; fault_point(K_BODY, gid); ev("pe", 2, it.v); });
                    }), ctx);
            } catch (Exc& e) { ev("rethrow", gid, e.id); throw; }
            ev("ret", gid, ctx.is_group_execution_cancelled() ? 2 : 1);
        }, /*check_objects=*/false);
        if (c03spy::pipelines != before + 1) M->fail("harness: the pipeline exit was not observed (white-box hook not in place)");
        pipeline_ledger(gid, "parallel_pipeline", g_pipe_clears);
        check_all_ran(hits, n, "parallel_pipeline", !cr.threw);
        if (!cr.threw) for (int i = 0; i < n; ++i) if (out[i] != 1) M->fail("VIOLATION parallel_pipeline (non-throwing round) lost or duplicated item " + S(i));
        if (cr.threw && !ctx.is_group_execution_cancelled()) M->fail("VIOLATION parallel_pipeline threw but its context is not cancelled");
    }
}

// task_group: run + wait
static void prog_tg(const std::string& kind) {
    int n = g_size;
    tbb::task_group tg;
    for (int round = 0; round < 2; ++round) {
        M->faults_on = (round == 0);
        std::vector<int> hits(4 * n + 4, 0); g_hits = &hits;
        int gid = M->new_group();
        name_ctx(tg.context(), gid);
        int units = 0;
        tbb::task_group_status st = tbb::not_complete;
        std::function<void()> more;
        int extra_budget = n;
        more = [&] {       // a task that submits two more tasks to its own group (transitive work, same context)
            if (extra_budget <= 0) return;
            extra_budget -= 2;
            tg.run(TF(gid, units++, nullptr));
            tg.run(TF(gid, units++, &more));
        };
        CallResult cr = guarded(gid, kind.c_str(), [&] {
            ev("begin", gid);
            if (kind == "tg_wait") {
                for (int i = 0; i < n; ++i) tg.run(TF(gid, units++));
                ev("wait", gid);
                try { st = tg.wait(); } catch (Exc& e) { ev("rethrow", gid, e.id); throw; }
                ev("ret", gid, st);
            } else if (kind == "tg_tree") {
                tg.run(TF(gid, units++, &more));
                tg.run(TF(gid, units++, &more));
                ev("wait", gid);
                try { st = tg.wait(); } catch (Exc& e) { ev("rethrow", gid, e.id); throw; }
                ev("ret", gid, st);
            } else {    // tg_raw: run_and_wait
                for (int i = 0; i + 1 < n; ++i) tg.run(TF(gid, units++));
                TF last(gid, units++);
                ev("stack", gid, last.unit);
                try { st = tg.run_and_wait(last); } catch (Exc& e) { ev("rethrow", gid, e.id); throw; }
                ev("ret", gid, st);
            }
        });
        check_all_ran(hits, units, kind.c_str(), !cr.threw);
        if (!cr.threw && round == 1 && st != tbb::complete)
            M->fail("VIOLATION group not reusable: the non-throwing round after an exception ended with status " + S(st) + " instead of complete");
        if (!cr.threw && round == 0 && st != tbb::complete) M->fail("VIOLATION " + kind + " returned status " + S(st) + " although nothing threw and nobody cancelled");
        if (tg.context().is_group_execution_cancelled()) M->fail("VIOLATION " + kind + ": the context is still cancelled after the waiting call exited");
        if (tg.context().my_exception.load(std::memory_order_relaxed) != nullptr) M->fail("VIOLATION " + kind + ": the context still holds an exception after the waiting call exited");
    }
}

// nested groups: each outer task runs an inner task_group (own context, bound to the outer one) and waits for it;
// both levels have fault points.
static void prog_tg_nested() {
    int n = g_size;
    tbb::task_group tg;
    for (int round = 0; round < 2; ++round) {
        M->faults_on = (round == 0);
        std::vector<int> hits(4 * n + 4, 0); g_hits = &hits;
        int gid = M->new_group();
        tbb::task_group_status st = tbb::not_complete;
        std::vector<std::function<void()>> inner(n);
        std::vector<int> inner_gid(n, -1);
        for (int i = 0; i < n; ++i) inner[i] = [&, i] {
            tbb::task_group in;
            int g2 = M->new_group();
            inner_gid[i] = g2;
            CallResult c2 = guarded(g2, "inner task_group::wait", [&] {
                in.run(TF(g2, n + 2 * i));
                in.run(TF(g2, n + 2 * i + 1));
                in.wait();
            });
            // user code of the OUTER task: the inner exception, if any, goes on to the outer group
            if (c2.threw) throw Exc{c2.caught, g2};
        };
        CallResult cr = guarded(gid, "outer task_group::wait", [&] {
            for (int i = 0; i < n; ++i) tg.run(TF(gid, i, &inner[i]));
            st = tg.wait();
        });
        check_all_ran(hits, 3 * n, "nested task_group", false);
        if (!cr.threw && round == 1) {
            for (int i = 0; i < 3 * n; ++i) if (hits[i] != 1) M->fail("VIOLATION nested task_group (non-throwing round) did not run unit " + S(i));
            if (st != tbb::complete) M->fail("VIOLATION group not reusable after an exception (status " + S(st) + ")");
        }
    }
}

// the body first uses ANOTHER blocking construct of the library to completion (no faults inside it) and then reaches its fault point:
// a nested task_arena::execute into the arena it already runs in, this_task_arena::isolate, a nested parallel_for, an inner flow
// graph run to wait_for_all, an inner task_group.  The exception thrown afterwards still belongs to the OUTER group: whatever the
// inner construct did to the thread's execution state (context, isolation) must have been undone when it returned.
static void inner_construct(int which) {
    switch (which % 5) {
    case 0: { tbb::task_arena a(tbb::task_arena::attach{}); int x = 0; a.execute([&] { x = 1; }); (void)x; break; }
    case 1: { int x = 0; tbb::this_task_arena::isolate([&] { tbb::parallel_for(0, 3, [&](int) { }); x = 1; }); (void)x; break; }
    case 2: { tbb::parallel_for(0, 4, [](int) { }); break; }
    case 3: { tbb::flow::graph g; std::atomic<int> c{0}; tbb::flow::function_node<int, int> f(g, tbb::flow::unlimited, [&](int v) { c++; return v; });
              f.try_put(1); f.try_put(2); g.wait_for_all(); break; }
    default: { tbb::task_group in; std::atomic<int> c{0}; in.run([&] { c++; }); in.run([&] { c++; }); in.wait(); break; }
    }
}
static void prog_tg_inner() {
    int n = g_size;
    tbb::task_group tg;
    for (int round = 0; round < 2; ++round) {
        M->faults_on = (round == 0);
        std::vector<int> hits(n + 1, 0); g_hits = &hits;
        int gid = M->new_group();
        name_ctx(tg.context(), gid);
        tbb::task_group_status st = tbb::not_complete;
        std::vector<std::function<void()>> pre(n);
        for (int i = 0; i < n; ++i) pre[i] = [i] { inner_construct(i); };
        CallResult cr = guarded(gid, "task_group::run_and_wait (bodies use an inner construct first)", [&] {
            for (int i = 0; i + 1 < n; ++i) tg.run(TF(gid, i, &pre[i]));
            TF last(gid, n - 1, &pre[n - 1]);
            st = tg.run_and_wait(last);
        });
        check_all_ran(hits, n, "task_group", !cr.threw);
        if (!cr.threw && round == 1 && st != tbb::complete) M->fail("VIOLATION group not reusable after an exception (status " + S(st) + ")");
        if (tg.context().is_group_execution_cancelled()) M->fail("VIOLATION task_group: the context is still cancelled after the waiting call exited");
    }
}
static void prog_pfor_inner() {
    int n = g_size;
    for (int round = 0; round < 2; ++round) {
        M->faults_on = (round == 0);
        std::vector<int> hits(n, 0); g_hits = &hits;
        int gid = M->new_group();
        CallResult cr = guarded(gid, "parallel_for (bodies use an inner construct first)", [&] {
            tbb::parallel_for(tbb::blocked_range<int>(0, n, 1), [gid](const tbb::blocked_range<int>& r) {
                for (int i = r.begin(); i < r.end(); ++i) body_scope(gid, [&] {
                    (*g_hits)[i]++;
                    inner_construct(i);
                    fault_point(K_BODY, gid);
                });
            }, tbb::simple_partitioner{});
        });
        check_all_ran(hits, n, "parallel_for", !cr.threw);
    }
}

// a group that is cancelled by its own work while another task throws: the waiter may report either outcome
static void prog_tg_cancel() {
    int n = g_size;
    tbb::task_group tg;
    for (int round = 0; round < 2; ++round) {
        M->faults_on = (round == 0);
        std::vector<int> hits(n + 1, 0); g_hits = &hits;
        int gid = M->new_group();
        tbb::task_group_status st = tbb::not_complete;
        std::function<void()> canc = [&] { if (M->faults_on) { M->groups[gid].ext_cancel = true; tg.cancel(); } };
        CallResult cr = guarded(gid, "task_group::wait (self-cancelling group)", [&] {
            for (int i = 0; i < n; ++i) tg.run(TF(gid, i, i == 1 ? &canc : nullptr));
            st = tg.wait();
        });
        check_all_ran(hits, n, "task_group", !cr.threw && round == 1);
        if (!cr.threw && round == 1 && st != tbb::complete) M->fail("VIOLATION group not reusable after cancellation + exception (status " + S(st) + ")");
    }
}

// task_handle / defer: handles created up front (each holds a wait reference), some submitted with run(handle), one with
// run_and_wait(handle), one DROPPED without ever being submitted (its task object must still be destroyed exactly once and its reference
// released, or wait() would never return), one created and submitted by a running task
static void prog_tg_handle() {
    int n = g_size < 4 ? 4 : g_size;
    tbb::task_group tg;
    for (int round = 0; round < 2; ++round) {
        M->faults_on = (round == 0);
        std::vector<int> hits(n + 2, 0); g_hits = &hits;
        int gid = M->new_group();
        tbb::task_group_status st = tbb::not_complete;
        std::function<void()> more = [&] { tbb::task_handle h = tg.defer(TF(gid, n)); tg.run(std::move(h)); };
        CallResult cr = guarded(gid, "task_group::run_and_wait(task_handle)", [&] {
            std::vector<tbb::task_handle> hs;
            for (int i = 0; i < n; ++i) hs.push_back(tg.defer(TF(gid, i, i == 1 ? &more : nullptr)));
            for (int i = 0; i + 2 < n; ++i) tg.run(std::move(hs[i]));
            hs[n - 2] = tbb::task_handle{};                       // dropped: never submitted
            st = tg.run_and_wait(std::move(hs[n - 1]));
        });
        if (hits[n - 2] != 0) M->fail("VIOLATION a task_handle that was dropped without being submitted was executed");
        hits[n - 2] = 1;
        check_all_ran(hits, n + 1, "task_group (task_handle)", !cr.threw);
        if (!cr.threw && st != tbb::complete) M->fail("VIOLATION task_group::run_and_wait(task_handle) returned status " + S(st) + " although nothing threw and nobody cancelled" + (round ? " (group not reusable)" : ""));
        if (tg.context().is_group_execution_cancelled()) M->fail("VIOLATION task_group: the context is still cancelled after the waiting call exited");
    }
}

// isolated_task_group: run / run_and_wait / wait go through this_task_arena::isolate delegates
static void prog_itg() {
    int n = g_size;
    tbb::isolated_task_group tg;
    for (int round = 0; round < 2; ++round) {
        M->faults_on = (round == 0);
        std::vector<int> hits(n + 1, 0); g_hits = &hits;
        int gid = M->new_group();
        tbb::task_group_status st = tbb::not_complete;
        CallResult cr = guarded(gid, "isolated_task_group::run_and_wait / wait", [&] {
            for (int i = 0; i + 1 < n; ++i) tg.run(TF(gid, i));
            TF last(gid, n - 1);
            if (n % 2) st = tg.run_and_wait(last);
            else { tg.run(last); st = tg.wait(); }
        });
        check_all_ran(hits, n, "isolated_task_group", !cr.threw);
        if (!cr.threw && st != tbb::complete) M->fail("VIOLATION isolated_task_group returned status " + S(st) + " although nothing threw and nobody cancelled" + (round ? " (group not reusable)" : ""));
    }
}

// parallel_for_each over value items (the library copies each item into a task); bodies of the later items wait until the group is being
// cancelled (or a budget runs out) and THEN add feeder items: the copies made for them must be destroyed exactly once, their bodies must
// not start after the call exited
static void prog_pforeach_cancel() {
    int n = g_size;
    for (int round = 0; round < 2; ++round) {
        M->faults_on = (round == 0);
        std::vector<int> hits(2 * n + 2, 0); g_hits = &hits;
        int gid = M->new_group();
        std::vector<Item> items;
        items.reserve(n);
        bool fon = M->faults_on;
        for (int i = 0; i < n; ++i) { M->faults_on = false; items.emplace_back(i, gid); M->faults_on = fon; }
        CallResult cr = guarded(gid, "parallel_for_each (feeder items added while cancelling)", [&] {
            tbb::parallel_for_each(items.begin(), items.end(), [gid, n](const Item& it, tbb::feeder<Item>& feeder) {
                body_scope(gid, [&] {
                    (*g_hits)[it.v]++;
                    if (it.v >= 1 && it.v < n) {
                        for (int k = 0; k < 40 && !ctx_cancelled_now(); ++k) tick();
                        feeder.add(Item(n + it.v, gid));
                    }
                    fault_point(K_BODY, gid);
                });
            });
        }, /*check_objects=*/false);
        check_all_ran(hits, n, "parallel_for_each", !cr.threw);
        if (!cr.threw) for (int i = n + 1; i < 2 * n; ++i) if (hits[i] != 1) M->fail("VIOLATION parallel_for_each (non-throwing round) did not process feeder item " + S(i));
        // (feeder_item_task::finalize releases the wait reference before delete_object: the copy of the last item may be destroyed just
        // after the call returned — checked at the end of the run: every copy destroyed exactly once)
        items.clear();
    }
}

// task_arena::execute: the functor throws directly, or a parallel_for inside it throws; a second external thread makes
// the arena full so that one of the two calls is delegated to a worker (exception transported back by delegated_task)
static tbb::task_arena* g_arena;
static int g_delegated = 0;      // functors of task_arena::execute that ran on a thread other than the caller
static int g_deleg_thrown = 0;   // ... and threw there (exception transported back by delegated_task)
static std::atomic<int> g_inside{0};
static void arena_user(int who, bool direct) {
    int n = g_size;
    for (int round = 0; round < 2; ++round) {
        bool fon = (round == 0);
        std::vector<int> hits(n, 0);
        int gid = M->new_group();
        int caller = verif::self();
        char marker = 0;
        CallResult cr = guarded(gid, "task_arena::execute", [&] {
          ev("xbegin", gid, (long)(std::uintptr_t)&marker);
          try {
            g_arena->execute([&] {
                body_scope(gid, [&] {
                    ev("fbegin", gid, who);
                    if (verif::self() != caller) g_delegated++;
                    // stay inside the arena for a while so that the other callers find it full and have to delegate
                    g_inside.fetch_add(1);
                    for (int k = 0; k < (who == 0 && fon ? 600 : 6) && !(who == 0 && g_delegated > 0); ++k) tick();
                    if (direct) {
                        for (int i = 0; i < n; ++i) hits[i]++;
                        g_inside.fetch_sub(1);
                        if (fon) { try { fault_point(K_BODY, gid); } catch (...) { if (verif::self() != caller) g_deleg_thrown++; throw; } }
                        ev("fend", gid, who);
                    }
                    else {
                        int g2 = M->new_group();
                        CallResult c2 = guarded(g2, "parallel_for inside task_arena::execute", [&] {
                            tbb::parallel_for(0, n, [&, g2](int i) { body_scope(g2, [&] { hits[i]++; if (fon) fault_point(K_BODY, g2); }); });
                        });
                        g_inside.fetch_sub(1);
                        if (c2.threw) { if (verif::self() != caller) g_deleg_thrown++; throw Exc{c2.caught, g2}; }
                    }
                });
            });
          } catch (Exc& e) { ev("xrethrow", gid, e.id); throw; }
          ev("xret", gid);
        });
        if (!cr.threw) for (int i = 0; i < n; ++i) if (hits[i] != 1) M->fail("VIOLATION task_arena::execute returned normally but element " + S(i) + " ran " + S(hits[i]) + " times");
    }
    (void)who;
}

// flow graph: source try_put -> function_node (unlimited) -> function_node (serial, queueing)
static void prog_flow(bool prio) {
    using namespace tbb::flow;
    int n = g_size;
    graph g;
    int gid = 0;
    std::vector<int>* h1 = nullptr; std::vector<int>* h2 = nullptr;
    name_ctx(*g.my_context, 0);
    function_node<Item, Item> a(g, unlimited, [&](const Item& it) -> Item {
        Item res(it.v, gid);
        body_scope(gid, [&] { (*h1)[it.v]++; fault_point(K_BODY, gid); });
        return res;
    }, prio ? node_priority_t(2) : no_priority);
    function_node<Item, continue_msg> b(g, serial, [&](const Item& it) -> continue_msg {
        body_scope(gid, [&] { (*h2)[it.v]++; fault_point(K_BODY, gid); });
        return continue_msg();
    }, prio ? node_priority_t(1) : no_priority);
    make_edge(a, b);
    for (int round = 0; round < 2; ++round) {
        M->faults_on = (round == 0);
        std::vector<int> hits1(n, 0), hits2(n, 0); h1 = &hits1; h2 = &hits2;
        gid = M->new_group();
        // an exception thrown while try_put copies the message on the calling thread goes straight to the caller of
        // try_put: it is reported there and is not part of what wait_for_all has to deliver
        int direct = 0;
        for (int i = 0; i < n; ++i) {
            try { Item m(i, gid); a.try_put(m); }
            catch (Exc& e) {
                direct++;
                auto& th = M->groups[gid].thrown;
                for (size_t j = 0; j < th.size(); ++j) if (th[j] == e.id) { th.erase(th.begin() + j); break; }
            }
        }
        CallResult cr = guarded(gid, "graph::wait_for_all", [&] {
            ev("gbegin", gid);
            try { g.wait_for_all(); } catch (Exc& e) { ev("gthrow", gid, e.id * 4 + (g.is_cancelled() ? 1 : 0) + (g.exception_thrown() ? 2 : 0)); throw; }
            ev("gret", gid, (g.is_cancelled() ? 1 : 0) + (g.exception_thrown() ? 2 : 0));
        }, /*check_objects=*/false);     // cancelled graphs keep buffered messages until reset()
        if (cr.threw && !direct && !g.is_cancelled()) M->fail("VIOLATION graph::wait_for_all threw but is_cancelled() is false");
        if (!cr.threw && g.exception_thrown()) M->fail("VIOLATION graph::wait_for_all returned normally but exception_thrown() is true");
        if (!cr.threw && M->groups[gid].thrown.empty() && g.is_cancelled()) M->fail("VIOLATION graph::wait_for_all returned normally, nothing threw, but is_cancelled() is true");
        if (direct) cr.threw = true;     // (round incomplete: do not demand that every message was processed)
        for (int i = 0; i < n; ++i) {
            if (hits1[i] > 1 || hits2[i] > 1) M->fail("VIOLATION flow graph ran a body twice for message " + S(i));
            if (!cr.threw && (hits1[i] != 1 || hits2[i] != 1)) M->fail("VIOLATION graph::wait_for_all returned normally but message " + S(i) + " was not processed by both nodes");
        }
        // the waiting call itself leaves the graph's context reset (reusable), whether it returned or threw
        if (g.my_context->is_group_execution_cancelled()) M->fail("VIOLATION graph::wait_for_all: the context is still cancelled after the waiting call exited");
        if (g.my_context->my_exception.load(std::memory_order_relaxed) != nullptr) M->fail("VIOLATION graph::wait_for_all: the context still holds an exception after the waiting call exited");
        if (cr.threw) {
            if (!direct && !g.exception_thrown()) M->fail("VIOLATION graph::wait_for_all threw but exception_thrown() is false");
            g.reset();
            ev("greset", gid, (g.is_cancelled() ? 1 : 0) + (g.exception_thrown() ? 2 : 0));
            if (g.is_cancelled() || g.exception_thrown()) M->fail("VIOLATION graph::reset() left is_cancelled() / exception_thrown() set");
        }
    }
}

// raw dispatcher program: harness-defined task type with scripted behaviour, written in the idiom of the library's
// task types (execute: children, body, finalize; cancel: finalize; finalize: destroy, fold/join step unless cancelled,
// release).  Only the task type is ours: dispatch loop, catch/cancel/store, rethrow and reset are the real code.
struct ScriptSpec { std::vector<int> kids; int body_fault; int join_fault; };
static std::vector<ScriptSpec> g_script;
static tbb::detail::d1::wait_context* g_raw_wait;
static tbb::task_group_context* g_raw_ctx;
static int g_raw_gid, g_raw_units;

struct ScriptTask : tbb::detail::d1::task {
    int spec, unit;
    tbb::detail::d1::small_object_allocator alloc;
    ScriptTask(int s, int u, tbb::detail::d1::small_object_allocator& a) : spec(s), unit(u), alloc(a) {
        g_raw_wait->reserve();
        ev("spawn", g_raw_gid, unit);
    }
    void finalize(tbb::detail::d1::execution_data& ed) {
        ev("fin", g_raw_gid, unit);                            // "destroy the task object" (logical: see the note above)
        const ScriptSpec& sp = g_script[spec];
        if (sp.join_fault >= 0 && !g_raw_ctx->is_group_execution_cancelled()) {     // reduction_tree_node::join
            int id = 5000 + sp.join_fault;
            body_scope(g_raw_gid, [&] { verif::note("throw", (uint64_t)g_raw_gid, (uint64_t)id); M->groups[g_raw_gid].thrown.push_back(id); throw Exc{id, g_raw_gid}; });
        }
        ev("rel", g_raw_gid, unit);
        alloc.delete_object(this, ed);                         // ~ScriptTask releases the wait reference (cf. task_handle_task)
    }
    ~ScriptTask() override { g_raw_wait->release(); }
    tbb::detail::d1::task* execute(tbb::detail::d1::execution_data& ed) override {
        const ScriptSpec& sp = g_script[spec];
        body_scope(g_raw_gid, [&] {
            ev("exec", g_raw_gid, unit);
            for (int k : sp.kids) {
                tbb::detail::d1::small_object_allocator a{};
                ScriptTask* c = a.new_object<ScriptTask>(ed, k, g_raw_units++, a);
                tbb::detail::d1::spawn(*c, *g_raw_ctx);
            }
            if (sp.body_fault >= 0) { int id = 4000 + sp.body_fault; verif::note("throw", (uint64_t)g_raw_gid, (uint64_t)id); M->groups[g_raw_gid].thrown.push_back(id); throw Exc{id, g_raw_gid}; }
            ev("bodyok", g_raw_gid, unit);
        });
        finalize(ed);
        return nullptr;
    }
    tbb::detail::d1::task* cancel(tbb::detail::d1::execution_data& ed) override { finalize(ed); return nullptr; }
};

static void prog_raw() {
    // g_script[0] is the root
    for (int round = 0; round < 2; ++round) {
        tbb::task_group_context ctx;
        tbb::detail::d1::wait_context wc(0);
        g_raw_wait = &wc; g_raw_ctx = &ctx;
        int gid = M->new_group(); g_raw_gid = gid; g_raw_units = 0;
        name_ctx(ctx, gid);
        std::vector<ScriptSpec> saved = g_script;
        if (round == 1) for (auto& s : g_script) { s.body_fault = -1; s.join_fault = -1; }
        std::vector<int> hits(1, 0); g_hits = &hits;
        guarded(gid, "execute_and_wait (scripted tasks)", [&] {
            ev("begin", gid);
            tbb::detail::d1::small_object_allocator a{};
            ScriptTask* root = a.new_object<ScriptTask>(0, g_raw_units++, a);
            ev("wait", gid);
            try { tbb::detail::d1::execute_and_wait(*root, ctx, wc, ctx); } catch (Exc& e) { ev("rethrow", gid, e.id); throw; }
            ev("ret", gid, ctx.is_group_execution_cancelled() ? 2 : 1);
        });
        g_script = saved;
    }
}

// ---------------------------------------------------------------------------------------------------------------
// one controlled run
// ---------------------------------------------------------------------------------------------------------------
static std::atomic<int> g_ext_done{0};
static std::vector<int>* g_cur_sched = nullptr;

static void on_terminate() {
    printf("terminate tid=%d\n", verif::self());     // followed by the CRASH report (SIGABRT) with the schedule
    fflush(stdout);
    abort();
}

static void run_program() {
    const std::string& p = g_prog;
    if (p == "pfor_simple") { tbb::simple_partitioner q; prog_pfor(q); }
    else if (p == "pfor_auto") { tbb::auto_partitioner q; prog_pfor(q); }
    else if (p == "pfor_static") { tbb::static_partitioner q; prog_pfor(q); }
    else if (p == "pfor_affinity") { tbb::affinity_partitioner q; prog_pfor(q); }
    else if (p == "preduce_simple") { tbb::simple_partitioner q; prog_preduce<false>(q); }
    else if (p == "preduce_auto") { tbb::auto_partitioner q; prog_preduce<false>(q); }
    else if (p == "preduce_affinity") { tbb::affinity_partitioner q; prog_preduce<false>(q); }
    else if (p == "pdreduce_simple") { tbb::simple_partitioner q; prog_preduce<true>(q); }
    else if (p == "pdreduce_static") { tbb::static_partitioner q; prog_preduce<true>(q); }
    else if (p == "pforeach") prog_pforeach();
    else if (p == "pinvoke2") prog_pinvoke(2);
    else if (p == "pinvoke3") prog_pinvoke(3);
    else if (p == "pinvoke5") prog_pinvoke(5);
    else if (p == "pinvoke7") prog_pinvoke(7);
    else if (p == "pipeline") prog_pipeline(0);
    else if (p == "pipeline1") prog_pipeline(1);
    else if (p == "pipeline2") prog_pipeline(2);
    else if (p == "tg_wait" || p == "tg_tree" || p == "tg_raw") prog_tg(p);
    else if (p == "tg_nested") prog_tg_nested();
    else if (p == "tg_cancel") prog_tg_cancel();
    else if (p == "tg_inner") prog_tg_inner();
    else if (p == "tg_handle") prog_tg_handle();
    else if (p == "itg") prog_itg();
    else if (p == "pforeach_cancel") prog_pforeach_cancel();
    else if (p == "pfor_inner") prog_pfor_inner();
    else if (p == "flow") prog_flow(false);
    else if (p == "flow_prio") prog_flow(true);
    else if (p == "raw") prog_raw();
    else M->fail("unknown program " + p);
}

// task_arena::execute, delegated path: `wo`, `exec_context` and `dt` are locals of r1::execute on the CALLER's stack.  They are found in
// the access log structurally: inside the stack window below the caller's `xbegin` marker, (1) an exchange X (0 -> 1) followed on the same
// thread by a release store at X + (offsetof my_exception - offsetof my_cancellation_requested) = the catch block on exec_context;
// (2) per call window and per thread that ran the functor: the first read-modify-write inside the stack window after the functor ended is
// `m_wait_ctx.release()`, the last release store of `true` inside the window is `m_completed`.
static void name_execute_words(const std::vector<verif::Event>& log) {
    const long doff = (long)offsetof(tbb::task_group_context, my_exception) - (long)offsetof(tbb::task_group_context, my_cancellation_requested);
    struct Call { std::uintptr_t sp; int caller; size_t from, to; };
    std::vector<Call> calls;
    std::map<int, size_t> open;
    for (size_t i = 0; i < log.size(); ++i) {
        const verif::Event& e = log[i];
        if (e.kind != verif::K_NOTE || !e.tag) continue;
        std::string t = e.tag;
        if (t == "xbegin") { open[e.tid] = calls.size(); calls.push_back(Call{(std::uintptr_t)e.b, e.tid, i, log.size()}); }
        else if ((t == "xret" || t == "xrethrow") && open.count(e.tid)) calls[open[e.tid]].to = i;
    }
    for (auto& c : calls) {
        auto inwin = [&](const void* a) { std::uintptr_t x = (std::uintptr_t)a; return x < c.sp && x + 4096 > c.sp; };
        std::map<int, const void*> lastx;
        std::map<int, bool> ended;
        std::map<int, const void*> done;
        for (size_t i = c.from; i < c.to; ++i) {
            const verif::Event& e = log[i];
            if (e.kind == verif::K_NOTE) {
                std::string t = e.tag ? e.tag : "";
                if (t == "fend" || t == "throw") ended[e.tid] = true;
                continue;
            }
            if (!e.addr || !inwin(e.addr)) continue;
            if (e.kind == verif::K_XCHG && e.a == 0 && e.b == 1) lastx[e.tid] = e.addr;
            else if (e.kind == verif::K_STORE && lastx.count(e.tid) && (const char*)e.addr == (const char*)lastx[e.tid] + doff) {
                verif::name_addr(lastx[e.tid], "cancel"); verif::name_addr(e.addr, "exc");
            }
            if (ended[e.tid] && (e.kind == verif::K_FADD || e.kind == verif::K_FSUB) && !done.count(e.tid)) { verif::name_addr(e.addr, "wo"); done[e.tid] = e.addr; }
            if (ended[e.tid] && e.kind == verif::K_STORE && e.a == 1 && done.count(e.tid)) done[e.tid] = e.addr;       // keeps the last one
        }
        for (auto& kv : done) if (verif::addr_name(kv.second) != "wo") verif::name_addr(kv.second, "done");
    }
}

static std::string fmt_faults(Mon& m) {
    std::string s;
    for (int k = 0; k < NK; ++k) for (int v : m.at[k]) { if (!s.empty()) s += ","; s += std::string(fk_name[k]) + ":" + S(v); }
    return s.empty() ? "-" : s;
}

static bool run_once(verif::Schedule& sch, const std::string& faults, int flags, long idx) {
    Mon mon; M = &mon;
    mon.events = (flags & 1) != 0;
    // parse faults
    if (faults != "-") {
        std::stringstream ss(faults); std::string tok;
        while (std::getline(ss, tok, ',')) {
            size_t c = tok.find(':');
            std::string kn = tok.substr(0, c); int k = atoi(tok.substr(c + 1).c_str());
            for (int i = 0; i < NK; ++i) if (kn == fk_name[i]) mon.at[i].insert(k);
        }
    }
    g_ext_done.store(0);
    verif::clear_names();
    g_pipe_clears = (flags & 4) != 0;
    g_parked_leaked = 0;
    c03spy::parked.clear(); c03spy::token_mem.clear(); c03spy::small_live.clear();
    c03spy::small_allocs = c03spy::small_frees = c03spy::small_double = 0;
    bool arena_prog = (g_prog == "arena_direct" || g_prog == "arena_nested");
    int nextra = arena_prog ? 2 : 0;
    g_delegated = 0; g_deleg_thrown = 0; g_inside.store(0);
    std::vector<std::function<void()>> bodies;
    bodies.push_back([&] {
        tbb::global_control gc(tbb::global_control::max_allowed_parallelism, (size_t)g_P);
        tbb::task_scheduler_handle h{tbb::attach{}};
        if (arena_prog) {
            tbb::task_arena ar(2, 1);       // one slot for an external thread, one for a worker: further callers must delegate
            g_arena = &ar;
            ar.initialize();
            g_ext_done.store(100);
            c03spy::on = true;
            arena_user(0, g_prog == "arena_direct");
            while (g_ext_done.load() < 100 + nextra) _mm_pause();
            c03spy::on = false;
            g_arena = nullptr;
        } else { c03spy::on = true; run_program(); c03spy::on = false; }
        tbb::finalize(h);       // (blocking: every worker has left)
        // every small object (task, selector, tree node ...) allocated while the program ran has been deallocated, once (checked after the
        // workers have left: several task types release their wait reference before their storage is returned)
        if (c03spy::small_double) mon.fail("VIOLATION " + S(c03spy::small_double) + " small object(s) (task objects) were deallocated twice");
        bool leak_check = g_prog != "raw";
        if (leak_check && !c03spy::small_live.empty() && mon.err.empty())
            mon.fail("VIOLATION " + S((long)c03spy::small_live.size()) + " small object(s) (task objects) allocated for the work were never deallocated (first: " + S((long)c03spy::small_live.begin()->second) + " bytes)");
    });
    for (int k = 0; k < nextra; ++k) bodies.push_back([&, k] {
        while (g_ext_done.load() < 100) _mm_pause();
        arena_user(1 + k, g_prog == "arena_direct");
        tbb::detail::r1::governor::terminate_external_thread();
        g_ext_done.fetch_add(1);
    });
    printf("run %ld %s P=%d size=%d faults=%s\n", idx, g_prog.c_str(), g_P, g_size, fmt_faults(mon).c_str());
    fflush(stdout);
    verif::Result r = verif::run(bodies, sch, 6000000);
    std::string err = mon.err;
    if (!r.deadlock && err.empty()) {
        verif::HbStats hst;
        auto races = verif::hb_check(r.log, bodies.size(), &hst);
        if (!races.empty())
            err = std::string("VIOLATION not ordered by happens-before (memory orders as the code passes them): ") +
                  (races[0].cell >= 0x40000000ull ? "what a body of the group wrote and the thread that left the waiting call: " : "the exception object written by the thrower and the thread that rethrew it: ") +
                  verif::hb_describe(r.log, races[0]);
    }
    if (r.deadlock) err = "VIOLATION HANG: every live thread is parked (the waiting call never returns)" + (err.empty() ? std::string() : " | earlier: " + err);
    if (!r.deadlock && err.empty() && !mon.live.empty()) {
        auto& o = mon.live.begin()->second;
        err = "VIOLATION " + S((long)mon.live.size()) + " object(s) created for the work were never destroyed (first: " + ot_name[o.type] + " of group " + S(o.gid) + ")";
    }
    bool ok = err.empty();
    printf("cnt");
    for (int k = 0; k < NK; ++k) printf(" %s=%d", fk_name[k], mon.cnt[k]);
    printf("\n");
    printf("obj");
    for (int t = 0; t < NT; ++t) printf(" %s=%d/%d", ot_name[t], mon.created[t], mon.destroyed[t]);
    printf("\n");
    {
        int thrown = 0, bodies_n = 0, maxthrown = 0;
        for (auto& g : mon.groups) { thrown += (int)g.thrown.size(); bodies_n += g.bodies; if ((int)g.thrown.size() > maxthrown) maxthrown = (int)g.thrown.size(); }
        printf("stat groups=%zu bodies=%d thrown=%d maxthrown=%d steps=%zu delegated=%d delegthrown=%d parkedleak=%d smallobj=%ld smallfree=%ld\n", mon.groups.size(), bodies_n, thrown, maxthrown, r.steps,
               g_delegated, g_deleg_thrown, g_parked_leaked, c03spy::small_allocs, c03spy::small_frees);
    }
    if (mon.events && g_prog == "arena_direct") name_execute_words(r.log);
    if (mon.events) {
        for (auto& e : r.log) {
            if (e.kind == verif::K_NOTE) { printf("ev %s\n", verif::format_event(e).c_str()); continue; }
            if (!e.addr) continue;
            std::string nm = verif::addr_name(e.addr);
            if (nm == "cancel" || nm == "exc" || nm == "wo" || nm == "done") printf("ev %s\n", verif::format_event(e).c_str());
        }
    }
    printf("mon %s\n", ok ? "ok" : err.c_str());
    if (!ok || (flags & 2)) { printf("sched"); for (int s : r.schedule) printf(" %d", s); printf("\n"); }
    printf("end\n");
    fflush(stdout);
    if (r.deadlock) { fflush(stdout); _exit(3); }
    return ok;
}

int main(int argc, char** argv) {
    verif::report_crashes();                 // before init_determinism: that one takes SIGSEGV over for the RDTSC trap
    verif::init_determinism(argc, argv);
    std::set_terminate(on_terminate);
    std::string line;
    long idx = 0, bad = 0;
    while (std::getline(std::cin, line)) {
        std::stringstream ss(line);
        std::string cmd; ss >> cmd;
        if (cmd == "script") {      // script <nspecs> then per spec: <body_fault> <join_fault> <nkids> kids...
            int n; ss >> n; g_script.clear();
            for (int i = 0; i < n; ++i) { ScriptSpec sp; int nk; ss >> sp.body_fault >> sp.join_fault >> nk; for (int j = 0; j < nk; ++j) { int k; ss >> k; sp.kids.push_back(k); } g_script.push_back(sp); }
            continue;
        }
        if (cmd == "run") {
            unsigned long long seed; int stay, flags; std::string faults;
            ss >> g_prog >> g_P >> g_size >> seed >> stay >> faults >> flags;
            verif::RandomSchedule s(seed, stay);
            if (!run_once(s, faults, flags, idx)) bad++;
            idx++;
        } else if (cmd == "replay") {
            std::string faults, file; int flags;
            ss >> g_prog >> g_P >> g_size >> faults >> flags >> file;
            verif::ReplaySchedule s; std::ifstream f(file); int t; while (f >> t) s.tids.push_back(t);
            if (!run_once(s, faults, flags, idx)) bad++;
            idx++;
        }
    }
    printf("summary runs=%ld bad=%ld\n", idx, bad);
    fflush(stdout);
    _exit(bad ? 1 : 0);
}
