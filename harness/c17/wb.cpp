// C17/C18 white-box harness: #includes the tbbmalloc sources of the CURRENT tree (as test_malloc_whitebox.cpp
// does) and exposes the pure front-end arithmetic and the guarded entry points through a line protocol.
//   wb consts                      -> JSON with every constant the Lean model is stated over
//   wb            (stdin lines)    -> one result line per input line
// The OS mapping calls made by the included sources are redirected (macro) to wrappers that count the
// requests and refuse anything above LIMIT, so that "rejected by an overflow/argument guard" (no request
// reaches the back end) can be told apart from "the OS refused".
#define __TBB_SOURCE_DIRECTLY_INCLUDED 1
#define __TBB_MALLOC_WHITEBOX_TEST 1
#define __STDC_LIMIT_MACROS 1
#include <sys/mman.h>
#include <cstddef>
#include <cstdint>
#include <cerrno>
#include <climits>

static unsigned long long g_mmapCalls = 0, g_mmapMax = 0, g_mmapRefused = 0;
static size_t MMAP_LIMIT = (size_t)1 << 30;  // 1 GiB: larger requests are refused
static void *verif_mmap(void *hint, size_t len, int prot, int flags, int fd, off_t off) {
    g_mmapCalls++;
    if (len > g_mmapMax) g_mmapMax = len;
    if (len > MMAP_LIMIT) { g_mmapRefused++; errno = ENOMEM; return MAP_FAILED; }
    return mmap(hint, len, prot, flags, fd, off);
}
static int verif_munmap(void *p, size_t len) { return munmap(p, len); }
#define mmap verif_mmap
#define munmap verif_munmap

#include "oneapi/tbb/detail/_machine.h"
#include "tbbmalloc/frontend.cpp"
#include "tbbmalloc/backend.cpp"
#include "tbbmalloc/backref.cpp"
namespace tbbmalloc_whitebox { std::atomic<size_t> locGetProcessed{}; std::atomic<size_t> locPutProcessed{}; }
#include "tbbmalloc/large_objects.cpp"
#include "tbbmalloc/tbbmalloc.cpp"
#undef mmap
#undef munmap

#include <cstdio>
#include <cstdlib>
#include <cstring>
#include <string>
#include <vector>

using namespace rml::internal;

static void consts() {
    printf("{");
#define C(name, val) printf("\"%s\": %llu, ", name, (unsigned long long)(val))
    C("maxSmallObjectSize", maxSmallObjectSize);
    C("maxSegregatedObjectSize", maxSegregatedObjectSize);
    C("minSmallObjectIndex", minSmallObjectIndex);
    C("numSmallObjectBins", numSmallObjectBins);
    C("minSegregatedObjectIndex", minSegregatedObjectIndex);
    C("numSegregatedObjectBins", numSegregatedObjectBins);
    C("minFittingIndex", minFittingIndex);
    C("numFittingBins", numFittingBins);
    C("numBlockBins", numBlockBins);
    C("fittingAlignment", fittingAlignment);
    C("fittingSize1", fittingSize1);
    C("fittingSize2", fittingSize2);
    C("fittingSize3", fittingSize3);
    C("fittingSize4", fittingSize4);
    C("fittingSize5", fittingSize5);
    C("minLargeObjectSize", minLargeObjectSize);
    C("slabSize", slabSize);
    C("sizeofBlock", sizeof(Block));
    C("blockHeaderAlignment", blockHeaderAlignment);
    C("estimatedCacheLineSize", estimatedCacheLineSize);
    C("largeObjectAlignment", largeObjectAlignment);
    C("sizeofLargeMemoryBlock", sizeof(LargeMemoryBlock));
    C("sizeofLargeObjectHdr", sizeof(LargeObjectHdr));
    C("sizeofFreeObject", sizeof(FreeObject));
    C("sizeofVoidP", sizeof(void *));
    C("sizeofSizeT", sizeof(size_t));
    C("sizeofUnsigned", sizeof(unsigned));
    C("charBit", CHAR_BIT);
    C("locMinLargeSize", LargeObjectCache::minLargeSize);
    C("locMaxLargeSize", LargeObjectCache::maxLargeSize);
    C("locMaxHugeSize", LargeObjectCache::maxHugeSize);
    C("largeCacheStep", LargeObjectCache::LargeBSProps::CacheStep);
    C("largeNumBins", LargeObjectCache::LargeBSProps::NumBins);
    C("hugeStepFactor", LargeObjectCache::HugeBSProps::StepFactor);
    C("hugeStepFactorExp", LargeObjectCache::HugeBSProps::StepFactorExp);
    C("hugeNumBins", LargeObjectCache::HugeBSProps::NumBins);
    C("defaultMaxHugeSize", LargeObjectCache::defaultMaxHugeSize);
    C("sizeofMemRegion", sizeof(MemRegion));
    C("freeBlockMinSize", FreeBlock::minBlockSize);
    C("sizeofLastFreeBlock", sizeof(LastFreeBlock));
    C("startupAllocObjSizeMark", startupAllocObjSizeMark);
    C("einval", EINVAL);
    C("enomem", ENOMEM);
#undef C
    printf("\"is64bit\": %d}\n", (int)(sizeof(void *) == 8));
}

// ---- a fake slab for the pure Block member functions (no allocator state involved) ------------------
static Block *fakeBlock() {
    static void *mem = nullptr;
    if (!mem) {
        if (posix_memalign(&mem, slabSize, slabSize)) abort();
        memset(mem, 0, slabSize);
    }
    return (Block *)mem;
}

struct Probe {
    unsigned long long calls0, refused0;
    mutable char buf[64];
    Probe() : calls0(g_mmapCalls), refused0(g_mmapRefused) { g_mmapMax = 0; }
    // null result: did any request reach the OS layer since the probe started (and how big was the biggest)?
    const char *nullKind() const {
        if (g_mmapCalls == calls0) return "reject";
        snprintf(buf, sizeof buf, "fail max=%llu", g_mmapMax);
        return buf;
    }
};

// canonical description of a successful allocation
static std::string describe(void *p, size_t size, size_t align) {
    char buf[256];
    uintptr_t a = (uintptr_t)p;
    int al = align ? (a & (align - 1)) == 0 : 1;
    if (isLargeObject<ourMem>(p)) {
        LargeObjectHdr *hdr = (LargeObjectHdr *)p - 1;
        LargeMemoryBlock *lmb = hdr->memoryBlock;
        uintptr_t l = (uintptr_t)lmb;
        int inside = (uintptr_t)hdr >= l + sizeof(LargeMemoryBlock) && a + size <= l + lmb->unalignedSize && a + size >= a;
        TLSData *tls = defaultMemPool->getTLS(/*create=*/false);
        snprintf(buf, sizeof buf, "L %zu %zu al=%d in=%d msize=%zu lmb=%llu p=%llu idx=%u", lmb->unalignedSize, lmb->objectSize, al, inside,
                 internalMsize(p), (unsigned long long)l, (unsigned long long)a, tls ? tls->currCacheIdx : 0u);
    } else {
        Block *b = (Block *)alignDown(p, slabSize);
        size_t O = b->objectSize;
        uintptr_t end = (uintptr_t)b + slabSize;
        size_t dist = end - a;                        // distance of the pointer from the slab end
        size_t k = (dist + O - 1) / O;                // independent arithmetic: the k-th object from the end holds p
        uintptr_t start = end - k * O;
        int fo = (uintptr_t)b->findObjectToFree(p) == start;
        int hdrClear = start >= (uintptr_t)b + sizeof(Block);
        snprintf(buf, sizeof buf, "S %zu k=%zu off=%zu msize=%zu al=%d fo=%d hc=%d", O, k, (size_t)(a - start), internalMsize(p), al, fo, hdrClear);
    }
    return buf;
}

int main(int argc, char **argv) {
    if (argc > 1 && !strcmp(argv[1], "consts")) { consts(); return 0; }
    setvbuf(stdout, nullptr, _IOLBF, 0);      // a crash must not swallow the results printed so far
    scalable_allocation_mode(TBBMALLOC_INTERNAL_SOURCE_INCLUDED, 1);
    { void *w = scalable_malloc(1); scalable_free(w); }   // initialise
    char line[256];
    while (fgets(line, sizeof line, stdin)) {
        char op[32] = {0};
        unsigned long long x = 0, y = 0, z = 0;
        int n = sscanf(line, "%31s %llu %llu %llu", op, &x, &y, &z);
        if (n < 1) continue;
        std::string o(op);
        if (o == "idx" && n == 2 && x <= 0xffffffffULL) {
            // getIndex / getObjectSize take `unsigned int`
            if (x == 0 || x > fittingSize5) { printf("none\n"); continue; }   // outside the functions' domain (callers normalise)
            printf("%u %u\n", getIndex((unsigned)x), getObjectSize((unsigned)x));
        } else if (o == "find" && n == 3 && x >= 8 && x <= 0xffff && y >= 1 && y <= slabSize - sizeof(Block)) {
            Block *b = fakeBlock();
            b->objectSize = (uint16_t)x;
            uintptr_t end = (uintptr_t)b + slabSize;
            void *addr = (void *)(end - y);
            printf("%zu %zu %zu\n", (size_t)(end - (uintptr_t)b->findAllocatedObject(addr)),
                   (size_t)(end - (uintptr_t)b->findObjectToFree(addr)), b->findObjectSize(addr));
        } else if (o == "al" && n == 3 && y < 64) {
            size_t S = x, A = (size_t)1 << y;
            Probe pr;
            void *p = allocateAligned(defaultMemPool, S, A);
            if (!p) { printf("%s\n", pr.nullKind()); continue; }
            printf("%s\n", describe(p, S, A).c_str());
            internalFree(p);
        } else if (o == "m" && n == 2) {          // plain malloc path
            Probe pr;
            void *p = internalMalloc(x);
            if (!p) { printf("%s\n", pr.nullKind()); continue; }
            printf("%s\n", describe(p, x, 0).c_str());
            internalFree(p);
        } else if (o == "llo" && n == 3 && y < 64) {   // the large-object path itself, any alignment
            size_t S = x, A = (size_t)1 << y;
            TLSData *tls = defaultMemPool->getTLS(/*create=*/true);
            Probe pr;
            void *p = defaultMemPool->getFromLLOCache(tls, S, A);
            if (!p) { printf("%s\n", pr.nullKind()); continue; }
            printf("%s\n", describe(p, S, A).c_str());
            internalFree(p);
        } else if (o == "atb" && n == 2) {
            printf("%zu\n", LargeObjectCache::alignToBin(x));
        } else if (o == "calloc" && n == 3) {
            Probe pr;
            errno = 0;
            void *p = scalable_calloc(x, y);
            if (!p) { printf("%s errno=%d\n", pr.nullKind(), errno); continue; }
            size_t total = x * y;
            int zero = 1;
            for (size_t i = 0; i < total; i++) if (((unsigned char *)p)[i]) { zero = 0; break; }
            printf("ok msize_ge=%d zero=%d\n", (int)(scalable_msize(p) >= total), zero);
            scalable_free(p);
        } else if (o == "pm" && n == 3) {         // posix_memalign(alignment, size)
            Probe pr;
            void *p = (void *)(uintptr_t)0x5a5a;
            int rc = scalable_posix_memalign(&p, x, y);
            if (rc) { printf("rc=%d %s untouched=%d\n", rc, rc == EINVAL ? "einval" : pr.nullKind(), (int)(p == (void *)(uintptr_t)0x5a5a)); continue; }
            printf("ok al=%d msize_ge=%d\n", (int)(((uintptr_t)p & (x - 1)) == 0), (int)(scalable_msize(p) >= y));
            scalable_free(p);
        } else if (o == "am" && n == 3) {         // aligned_malloc(size, alignment)
            Probe pr;
            errno = 0;
            void *p = scalable_aligned_malloc(x, y);
            if (!p) { printf("null errno=%d %s\n", errno, errno == EINVAL ? "einval" : pr.nullKind()); continue; }
            printf("ok al=%d msize_ge=%d\n", (int)(((uintptr_t)p & (y - 1)) == 0), (int)(scalable_msize(p) >= x));
            scalable_aligned_free(p);
        } else if (o == "ar" && n == 3) {         // aligned_realloc(nullptr, size, alignment)
            Probe pr;
            errno = 0;
            void *p = scalable_aligned_realloc(nullptr, x, y);
            if (!p) { printf("null errno=%d %s\n", errno, errno == EINVAL ? "einval" : pr.nullKind()); continue; }
            printf("ok al=%d msize_ge=%d\n", (int)(((uintptr_t)p & (y - 1)) == 0), (int)(scalable_msize(p) >= x));
            scalable_aligned_free(p);
        } else {
            printf("bad-op\n");
        }
    }
    return 0;
}
