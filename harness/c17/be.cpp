// C17 white-box harness for the tbbmalloc BACK END and the BACK-REFERENCE table.
//
// The tbbmalloc sources of the CURRENT tree are compiled in (as in wb.cpp); the OS layer (mmap / munmap / mremap)
// is replaced by a deterministic emulation over one reserved arena: every mapping gets its own 256 MiB window
// (base = arena + window*WIN + skew), windows are recycled most-recently-freed first, an unmapped window is
// PROT_NONE (a use after release faults).  All addresses printed are offsets from the arena base, which is
// 2^30-aligned, so every alignment decision of the code can be recomputed from the printed numbers.
//
//   be consts                       JSON of the back-end / backref constants the Lean model is stated over
//   be bk   < script                direct drive of one user pool's Backend (genericGetBlock / genericPutBlock /
//                                   scanCoalescQ / clean / reset, bin-lock and neighbour contention injected white-box);
//                                   after every op: result line, canonical snapshot, implementation-side monitors
//   be br   < script                direct drive of the global back-reference table (newBackRef/set/get/remove)
//   be mm   < script                scalable_* operations on the default pool; after every op the real regions / blocks /
//                                   bins / coalescing queue / backref table are walked: monitors, optional snapshots
//   be mt   < script                T real threads run their scripts concurrently; monitors at quiescence
//
// Output protocol: for every input line a record
//      > <echo of the line>
//      = <result>
//      [snapshot lines R / B / M / Q / S / T / L]
//      [MON <kind> <detail>]          implementation-side monitor violations (property-level, model independent)
//      .
#define __TBB_SOURCE_DIRECTLY_INCLUDED 1
#define __TBB_MALLOC_WHITEBOX_TEST 1
#define __STDC_LIMIT_MACROS 1
#include <sys/mman.h>
#include <cstddef>
#include <cstdint>
#include <cerrno>
#include <climits>
#include <cstdarg>
#include <cstdio>
#include <cstdlib>
#include <cstring>
#include <algorithm>
#include <map>
#include <mutex>
#include <set>
#include <string>
#include <thread>
#include <vector>

// ------------------------------------------------------------------------------------------------------------
// OS layer emulation
// ------------------------------------------------------------------------------------------------------------
static const size_t WIN = (size_t)1 << 28;
static const int NWIN = 1000;
static char *g_arena;
static std::vector<int> g_freeWins;
static int g_nextWin = 0;
static size_t g_skew = 0;            // added to the base of the next mappings (multiple of 4096, < 16384)
static long g_failIn = 0;            // > 0: that many more OS allocation calls succeed... the g_failIn-th fails
static long g_failCount = 0;         // number of consecutive failing calls once g_failIn hits
struct OsMap { size_t len; int win; };
static std::map<uintptr_t, OsMap> g_maps;
static std::mutex g_osmu;
static std::vector<std::string> g_osLog;
static bool g_osLogOn = true;
static std::vector<std::string> g_mon;     // monitor violations of the current record
static unsigned long long g_osCalls = 0;

static void mon(const char *kind, const char *fmt, ...) __attribute__((format(printf, 2, 3)));
static void mon(const char *kind, const char *fmt, ...) {
    char buf[600];
    va_list ap;
    va_start(ap, fmt);
    vsnprintf(buf, sizeof buf, fmt, ap);
    va_end(ap);
    static std::mutex m;
    std::lock_guard<std::mutex> l(m);
    if (g_mon.size() < 50) g_mon.push_back(std::string("MON ") + kind + " " + buf);
}
static inline unsigned long long canon(const void *p) { return p ? (unsigned long long)((const char *)p - g_arena) : 0ULL; }
static inline unsigned long long canon(uintptr_t p) { return p ? (unsigned long long)(p - (uintptr_t)g_arena) : 0ULL; }

static void os_init() {
    size_t total = WIN * (size_t)NWIN + ((size_t)1 << 30);
    char *raw = (char *)mmap(nullptr, total, PROT_NONE, MAP_PRIVATE | MAP_ANONYMOUS | MAP_NORESERVE, -1, 0);
    if (raw == (char *)MAP_FAILED) { perror("arena"); exit(97); }
    // window 0 is never used: canonical address 0 is "null"
    g_arena = (char *)(((uintptr_t)raw + (((size_t)1 << 30) - 1)) & ~(((uintptr_t)1 << 30) - 1));
    g_nextWin = 1;
}
static void oslog(const char *fmt, ...) __attribute__((format(printf, 1, 2)));
static void oslog(const char *fmt, ...) {
    if (!g_osLogOn) return;
    char buf[200];
    va_list ap;
    va_start(ap, fmt);
    vsnprintf(buf, sizeof buf, fmt, ap);
    va_end(ap);
    g_osLog.push_back(buf);
}
static void *os_alloc(size_t len) {
    std::lock_guard<std::mutex> l(g_osmu);
    g_osCalls++;
    size_t plen = (len + 4095) & ~(size_t)4095;
    if (g_failIn > 0 && --g_failIn == 0) {
        if (g_failCount > 1) { g_failCount--; g_failIn = 1; }
        oslog("A %zu fail", len);
        return nullptr;
    }
    if (plen == 0 || plen + g_skew > WIN || (g_freeWins.empty() && g_nextWin >= NWIN)) { oslog("A %zu fail", len); return nullptr; }
    int w;
    if (!g_freeWins.empty()) { w = g_freeWins.back(); g_freeWins.pop_back(); } else w = g_nextWin++;
    char *base = g_arena + (size_t)w * WIN + g_skew;
    if (mprotect(base, plen, PROT_READ | PROT_WRITE)) { perror("mprotect"); exit(97); }
    g_maps[(uintptr_t)base] = OsMap{plen, w};
    oslog("A %zu %llu", len, canon(base));
    return base;
}
static int os_free(void *p, size_t len) {
    std::lock_guard<std::mutex> l(g_osmu);
    size_t plen = (len + 4095) & ~(size_t)4095;
    auto it = g_maps.find((uintptr_t)p);
    if (it == g_maps.end() || it->second.len != plen) {
        mon("os", "munmap of %llu len %zu does not match a live mapping", canon(p), len);
        oslog("F %llu %zu bad", canon(p), len);
        errno = EINVAL;
        return -1;
    }
    madvise(p, plen, MADV_DONTNEED);
    mprotect(p, plen, PROT_NONE);
    g_freeWins.push_back(it->second.win);
    g_maps.erase(it);
    oslog("F %llu %zu", canon(p), len);
    return 0;
}
static void *os_remap(void *old, size_t oldLen, size_t newLen) {
    void *n = os_alloc(newLen);
    if (!n) return nullptr;
    memcpy(n, old, oldLen < newLen ? oldLen : newLen);
    os_free(old, oldLen);
    return n;
}
static void *verif_mmap(void *, size_t len, int, int, int, off_t) {
    void *p = os_alloc(len);
    if (!p) { errno = ENOMEM; return MAP_FAILED; }
    return p;
}
static int verif_munmap(void *p, size_t len) { return os_free(p, len); }
static void *verif_mremap(void *old, size_t oldLen, size_t newLen, int, ...) {
    void *p = os_remap(old, oldLen, newLen);
    if (!p) { errno = ENOMEM; return MAP_FAILED; }
    return p;
}
#define mmap verif_mmap
#define munmap verif_munmap
#define mremap verif_mremap

#include "oneapi/tbb/detail/_machine.h"
#include "tbbmalloc/frontend.cpp"
#include "tbbmalloc/backend.cpp"
#include "tbbmalloc/backref.cpp"
namespace tbbmalloc_whitebox { std::atomic<size_t> locGetProcessed{}; std::atomic<size_t> locPutProcessed{}; }
#include "tbbmalloc/large_objects.cpp"
#include "tbbmalloc/tbbmalloc.cpp"
#undef mmap
#undef munmap
#undef mremap

using namespace rml::internal;

// ------------------------------------------------------------------------------------------------------------
// constants
// ------------------------------------------------------------------------------------------------------------
static void consts() {
    printf("{");
#define C(name, val) printf("\"%s\": %lld, ", name, (long long)(val))
    C("beMinBinnedSize", Backend::minBinnedSize);
    C("beMaxBinnedSmallPage", Backend::maxBinned_SmallPage);
    C("beMaxBinnedHugePage", Backend::maxBinned_HugePage);
    C("beFreeBinsStep", Backend::freeBinsStep);
    C("beFreeBinsNum", Backend::freeBinsNum);
    C("beHugeBin", Backend::HUGE_BIN);
    C("beNoBin", Backend::NO_BIN);
    C("beNumOfSlabAllocOnMiss", Backend::numOfSlabAllocOnMiss);
    C("gsLocked", GuardedSize::LOCKED);
    C("gsCoalBlock", GuardedSize::COAL_BLOCK);
    C("gsMaxLockedVal", GuardedSize::MAX_LOCKED_VAL);
    C("gsLastRegionBlock", GuardedSize::LAST_REGION_BLOCK);
    C("gsMaxSpecVal", GuardedSize::MAX_SPEC_VAL);
    C("beMinBlockSize", FreeBlock::minBlockSize);
    C("beSizeofFreeBlock", sizeof(FreeBlock));
    C("beSizeofLastFreeBlock", sizeof(LastFreeBlock));
    C("beSizeofMemRegion", sizeof(MemRegion));
    C("beSizeofBlockI", sizeof(BlockI));
    C("beSizeofBlockMutexes", sizeof(BlockMutexes));
    C("beSlabSize", slabSize);
    C("beLargeObjectAlignment", largeObjectAlignment);
    C("beRegSlab", MEMREG_SLAB_BLOCKS);
    C("beRegLarge", MEMREG_LARGE_BLOCKS);
    C("beRegOne", MEMREG_ONE_BLOCK);
    C("beBootstrapRegionSize", 2 * 1024 * 1024);
    C("brMaxCnt", BR_MAX_CNT);
    C("brSizeofBackRefBlock", sizeof(BackRefBlock));
    C("brBlockBytes", BackRefBlock::bytes);
    C("brMainBytes", BackRefMain::bytes);
    C("brDataSz", BackRefMain::dataSz);
    C("brLeaves", BackRefMain::leaves);
    C("brMainSize", BackRefMain::mainSize);
    C("brBlockSpaceSize", BackRefMain::blockSpaceSize);
    C("brSizeofMain", sizeof(BackRefMain));
    C("brSizeofIdx", sizeof(BackRefIdx));
    C("brMainBits", CHAR_BIT * sizeof(BackRefIdx::main_t));
    C("brInvalidMain", (BackRefIdx::main_t)~BackRefIdx::main_t(0));
    C("brOffsetofIdxInBlock", offsetof(Block, backRefIdx));
    C("brOffsetofIdxInHdr", offsetof(LargeObjectHdr, backRefIdx));
    C("brOffsetofIdxInLmb", offsetof(LargeMemoryBlock, backRefIdx));
    C("beOffsetofUnalignedSize", offsetof(LargeMemoryBlock, unalignedSize));
    C("beSizeofLargeMemoryBlock", sizeof(LargeMemoryBlock));
    C("beSizeofLargeObjectHdr", sizeof(LargeObjectHdr));
    C("beSizeofBlock", sizeof(Block));
#undef C
    printf("\"be64\": %d}\n", (int)(sizeof(void *) == 8));
}

// ------------------------------------------------------------------------------------------------------------
// walking the real back end
// ------------------------------------------------------------------------------------------------------------
static inline uintptr_t MYL(const FreeBlock *f) { return f->myL.value.load(std::memory_order_relaxed); }
static inline uintptr_t LEFTL(const FreeBlock *f) { return f->leftL.value.load(std::memory_order_relaxed); }

struct BlkInfo {
    uintptr_t addr;
    size_t size;
    char kind;        // F free, U used, C used with COAL tags, Q queued for delayed coalescing, L last block of the region
    uintptr_t myL, leftL;
    int myBin;
    bool aligned;
};
struct RegInfo {
    MemRegion *r;
    uintptr_t base, first, last;
    size_t allocSz, blockSz;
    int type;
    bool ok;
    std::vector<BlkInfo> blocks;
};
struct BinInfo { bool al; int bin; std::vector<uintptr_t> blocks; };
struct Snap {
    std::vector<RegInfo> regs;
    std::vector<BinInfo> bins;
    std::vector<int> mask[2];
    std::vector<std::pair<uintptr_t, size_t>> queue;
    bool ok = true;
};

// how big is the non-free block that starts at p?  0 = unknown
typedef size_t (*UsedSize)(const RegInfo &, uintptr_t p, void *ctx);

static uintptr_t regionFirst(MemRegion *r) {
    uintptr_t b = (uintptr_t)r + sizeof(MemRegion);
    return r->type == MEMREG_SLAB_BLOCKS ? alignUp(b, sizeof(uintptr_t)) : alignUp(b, largeObjectAlignment);
}

static Snap walk(Backend &be, UsedSize usedSize, void *ctx) {
    Snap s;
    std::map<uintptr_t, size_t> queued;
    {
        std::set<FreeBlock *> seen;
        for (FreeBlock *q = be.coalescQ.blocksToFree.load(); q; q = q->nextToFree) {
            if (!seen.insert(q).second || seen.size() > 1000000) { mon("queue", "delayed-coalescing queue is cyclic at %llu", canon(q)); s.ok = false; break; }
            if (queued.count((uintptr_t)q)) mon("queue", "block %llu is queued twice", canon(q));
            queued[(uintptr_t)q] = q->sizeTmp;
            s.queue.push_back({(uintptr_t)q, q->sizeTmp});
        }
    }
    if ((intptr_t)s.queue.size() != be.coalescQ.inFlyBlocks.load())
        mon("queue", "coalescQ holds %zu blocks but its inFlyBlocks counter is %ld", s.queue.size(), (long)be.coalescQ.inFlyBlocks.load());
    size_t total = 0;
    std::set<MemRegion *> seenR;
    for (MemRegion *r = be.regionList.head; r; r = r->next) {
        if (!seenR.insert(r).second) { mon("regions", "region list is cyclic"); s.ok = false; break; }
        RegInfo ri;
        ri.r = r; ri.base = (uintptr_t)r; ri.allocSz = r->allocSz; ri.blockSz = r->blockSz; ri.type = (int)r->type; ri.ok = true;
        ri.first = regionFirst(r);
        ri.last = ri.first + ri.blockSz;
        total += r->allocSz;
        {
            std::lock_guard<std::mutex> l(g_osmu);
            auto it = g_maps.find(ri.base);
            if (it == g_maps.end() || it->second.len < ((ri.allocSz + 4095) & ~(size_t)4095) || it->second.len < ri.allocSz) {
                mon("regions", "region %llu (allocSz %zu) is not a live OS mapping of that size", canon(ri.base), ri.allocSz);
                ri.ok = false; s.ok = false;
            }
        }
        if (ri.ok && (ri.last + sizeof(LastFreeBlock) > ri.base + ri.allocSz || ri.first < ri.base + sizeof(MemRegion) || ri.blockSz == 0)) {
            mon("tiling", "region %llu: block area [%llu,+%zu) + LastFreeBlock does not fit allocSz %zu", canon(ri.base), canon(ri.first), ri.blockSz, ri.allocSz);
            ri.ok = false; s.ok = false;
        }
        if (ri.ok) {
            uintptr_t p = ri.first;
            uintptr_t expectLeft = GuardedSize::LOCKED;
            int guard = 0;
            while (p < ri.last) {
                FreeBlock *f = (FreeBlock *)p;
                BlkInfo b;
                b.addr = p; b.myL = MYL(f); b.leftL = LEFTL(f); b.myBin = Backend::NO_BIN; b.aligned = false;
                if (b.myL > GuardedSize::MAX_SPEC_VAL) {
                    b.kind = 'F'; b.size = b.myL; b.myBin = f->myBin; b.aligned = f->slabAligned;
                } else if (queued.count(p)) {
                    b.kind = 'Q'; b.size = queued[p]; b.aligned = f->slabAligned;
                } else {
                    b.size = usedSize(ri, p, ctx);
                    b.kind = b.myL == GuardedSize::COAL_BLOCK ? 'C' : 'U';
                    if (b.myL == GuardedSize::LAST_REGION_BLOCK) { mon("tiling", "region %llu: LAST_REGION_BLOCK tag inside the block area at %llu", canon(ri.base), canon(p)); b.size = 0; }
                }
                if (b.leftL != expectLeft)
                    mon("tags", "region %llu block %llu: leftL=%llu but the left neighbour's tag is %llu", canon(ri.base), canon(p),
                        (unsigned long long)b.leftL, (unsigned long long)expectLeft);
                if (b.size < FreeBlock::minBlockSize || b.size > ri.last - p || ++guard > 4000000) {
                    mon("tiling", "region %llu: block at %llu (myL=%llu) has no valid extent (size %zu, %llu bytes left)", canon(ri.base), canon(p),
                        (unsigned long long)b.myL, b.size, (unsigned long long)(ri.last - p));
                    ri.ok = false; s.ok = false;
                    break;
                }
                expectLeft = b.myL;
                ri.blocks.push_back(b);
                p += b.size;
            }
            if (ri.ok) {
                LastFreeBlock *lb = (LastFreeBlock *)ri.last;
                BlkInfo b;
                b.addr = ri.last; b.size = sizeof(LastFreeBlock); b.kind = 'L'; b.myL = MYL(lb); b.leftL = LEFTL(lb); b.myBin = lb->myBin; b.aligned = false;
                if (b.myL != GuardedSize::LAST_REGION_BLOCK) { mon("tiling", "region %llu: the block after the tiled area (%llu) is not tagged LAST_REGION_BLOCK (myL=%llu)", canon(ri.base), canon(ri.last), (unsigned long long)b.myL); ri.ok = false; s.ok = false; }
                if (lb->memRegion != r) { mon("tiling", "region %llu: LastFreeBlock::memRegion does not point back to the region", canon(ri.base)); s.ok = false; }
                if (b.leftL != expectLeft) mon("tags", "region %llu: LastFreeBlock leftL=%llu but the left neighbour's tag is %llu", canon(ri.base), (unsigned long long)b.leftL, (unsigned long long)expectLeft);
                ri.blocks.push_back(b);
            }
        }
        s.regs.push_back(ri);
    }
    if (total != be.totalMemSize.load()) mon("regions", "totalMemSize=%zu but the regions sum to %zu", (size_t)be.totalMemSize.load(), total);
    // regions must be pairwise disjoint
    {
        std::vector<std::pair<uintptr_t, uintptr_t>> iv;
        for (auto &r : s.regs) iv.push_back({r.base, r.base + r.allocSz});
        std::sort(iv.begin(), iv.end());
        for (size_t i = 1; i < iv.size(); i++)
            if (iv[i].first < iv[i - 1].second) { mon("regions", "regions %llu and %llu overlap", canon(iv[i - 1].first), canon(iv[i].first)); s.ok = false; }
    }
    // bins
    std::map<uintptr_t, const BlkInfo *> byAddr;
    for (auto &r : s.regs) for (auto &b : r.blocks) byAddr[b.addr] = &b;
    std::map<uintptr_t, int> inBins;
    for (int al = 0; al < 2; al++) {
        Backend::IndexedBins &ib = al ? be.freeSlabAlignedBins : be.freeLargeBlockBins;
        for (int i = 0; i < (int)Backend::freeBinsNum; i++) {
            bool bit = ib.bitMask.getMinTrue(i) == i;
            if (bit) s.mask[al].push_back(i);
            FreeBlock *h = ib.freeBins[i].head.load(std::memory_order_relaxed);
            if (!h) {
                if (ib.freeBins[i].tail) mon("bins", "bin %d/%d: empty head but tail=%llu", al, i, canon(ib.freeBins[i].tail));
                continue;
            }
            if (!bit) mon("bins", "bin %d/%d is not empty but its bitmask bit is clear (its blocks cannot be found)", al, i);
            BinInfo bi; bi.al = al; bi.bin = i;
            FreeBlock *prev = nullptr;
            int n = 0;
            for (FreeBlock *f = h; f; prev = f, f = f->next) {
                if (++n > 1000000) { mon("bins", "bin %d/%d list is cyclic", al, i); s.ok = false; break; }
                bi.blocks.push_back((uintptr_t)f);
                if (f->prev != prev) mon("bins", "bin %d/%d: block %llu has a wrong prev link", al, i, canon(f));
                if (inBins[(uintptr_t)f]++) mon("bins", "block %llu is held by two bins (or twice by one)", canon(f));
                auto it = byAddr.find((uintptr_t)f);
                if (it == byAddr.end()) { mon("bins", "bin %d/%d holds %llu which is not a block start of any region", al, i, canon(f)); s.ok = false; break; }
                const BlkInfo &b = *it->second;
                if (b.kind != 'F') mon("bins", "bin %d/%d holds block %llu which is not free (kind %c, myL=%llu)", al, i, canon(f), b.kind, (unsigned long long)b.myL);
                else {
                    if (Backend::sizeToBin(b.size) != i) mon("bins", "bin %d/%d holds block %llu of size %zu (belongs to bin %d)", al, i, canon(f), b.size, Backend::sizeToBin(b.size));
                    if (al && (b.addr + b.size) % slabSize) mon("bins", "slab-aligned bin %d holds block %llu whose right end is not slab-aligned", i, canon(f));
                }
                if (f->myBin != i || f->slabAligned != (bool)al) mon("bins", "bin %d/%d holds block %llu whose header says bin %d/%d", al, i, canon(f), (int)f->slabAligned, f->myBin);
            }
            if (ib.freeBins[i].tail != prev) mon("bins", "bin %d/%d: tail does not point to the last block", al, i);
            s.bins.push_back(bi);
        }
    }
    // a free block that is in no bin must say so (otherwise a later coalescing unlinks it from a list it is not in)
    for (auto &r : s.regs) for (auto &b : r.blocks)
        if (b.kind == 'F' && !inBins.count(b.addr) && b.myBin != Backend::NO_BIN && b.size >= Backend::minBinnedSize)
            mon("bins", "free block %llu (size %zu) is in no bin but its header says bin %d", canon(b.addr), b.size, b.myBin);
    if (be.bkndSync.inFlyBlocks.load() != 0) mon("sync", "inFlyBlocks=%ld at quiescence", (long)be.bkndSync.inFlyBlocks.load());
    return s;
}

static void printSnap(const Snap &s) {
    for (auto &r : s.regs) {
        printf("R %llu %zu %zu %d %llu |", canon(r.base), r.allocSz, r.blockSz, r.type, canon(r.first));
        for (auto &b : r.blocks) {
            if (b.kind == 'F') printf(" %llu:%zu:F:%d:%d", canon(b.addr), b.size, b.myBin, (int)b.aligned);
            else if (b.kind == 'Q') printf(" %llu:%zu:Q:%d", canon(b.addr), b.size, (int)b.aligned);
            else printf(" %llu:%zu:%c", canon(b.addr), b.size, b.kind);
            printf(":%llu:%llu", (unsigned long long)b.myL, (unsigned long long)b.leftL);
        }
        printf("%s\n", r.ok ? "" : " BROKEN");
    }
    for (auto &b : s.bins) {
        printf("B %d %d :", (int)b.al, b.bin);
        for (auto a : b.blocks) printf(" %llu", canon(a));
        printf("\n");
    }
    for (int al = 0; al < 2; al++) {
        printf("M %d :", al);
        for (int i : s.mask[al]) printf(" %d", i);
        printf("\n");
    }
    printf("Q :");
    for (auto &q : s.queue) printf(" %llu:%zu", canon(q.first), q.second);
    printf("\n");
}

static void flushRecord(const char *line, const std::string &res) {
    printf("> %s\n= %s\n", line, res.c_str());
}
static void endRecord() {
    for (auto &m : g_mon) printf("%s\n", m.c_str());
    g_mon.clear();
    printf(".\n");
    fflush(stdout);
}
static std::string osLogText() {
    std::string s;
    for (auto &l : g_osLog) { s += " ["; s += l; s += "]"; }
    g_osLog.clear();
    return s;
}

// ------------------------------------------------------------------------------------------------------------
// bk: direct drive of a user pool's back end
// ------------------------------------------------------------------------------------------------------------
static size_t g_fixedSize = 0;
static bool g_fixedGiven = false;
static void *poolRawAlloc(intptr_t, size_t &bytes) {
    // logged as `P <bytes asked> <address|fail>`; a fixed pool grants its whole buffer on the first call
    size_t asked = bytes;
    bool on = g_osLogOn;
    g_osLogOn = false;
    void *p = nullptr;
    if (g_fixedSize) {
        if (!g_fixedGiven) {
            p = os_alloc(g_fixedSize);
            if (p) { g_fixedGiven = true; bytes = g_fixedSize; }
        }
    } else p = os_alloc(bytes);
    g_osLogOn = on;
    if (p) oslog("P %zu %llu", asked, canon(p)); else oslog("P %zu fail", asked);
    return p;
}
static int poolRawFree(intptr_t, void *p, size_t bytes) { return os_free(p, bytes); }

struct Used { size_t size; bool aligned; };
static std::map<uintptr_t, Used> g_used;
static std::vector<uintptr_t> g_handed;      // every block ever handed out, in order (`putn k` / `markcoaln k` name them)
static size_t bkUsedSize(const RegInfo &, uintptr_t p, void *) {
    auto it = g_used.find(p);
    return it == g_used.end() ? 0 : it->second.size;
}
static inline unsigned char patByte(uintptr_t a, size_t i) { return (unsigned char)((a >> 4) * 31u + i * 7u + 3u); }
static void patFill(uintptr_t a, size_t size) {
    unsigned char *c = (unsigned char *)a;
    size_t lo = 64, n = size < 4096 ? size : 4096;
    for (size_t i = lo; i < n; i++) c[i] = patByte(a, i);
    for (size_t i = size > 64 ? size - 64 : 0; i < size; i++) if (i >= lo) c[i] = patByte(a, i);
}
static void patCheck(uintptr_t a, size_t size, const char *when) {
    const unsigned char *c = (const unsigned char *)a;
    size_t lo = 64, n = size < 4096 ? size : 4096;
    for (size_t i = lo; i < n; i++) if (c[i] != patByte(a, i)) { mon("write", "byte %zu of the in-use back-end block %llu (size %zu) was modified (%s)", i, canon(a), size, when); return; }
    for (size_t i = size > 64 ? size - 64 : 0; i < size; i++) if (i >= lo && c[i] != patByte(a, i)) { mon("write", "byte %zu of the in-use back-end block %llu (size %zu) was modified (%s)", i, canon(a), size, when); return; }
}

static int runBk() {
    char line[512];
    rml::MemoryPool *pool = nullptr;
    rml::internal::MemoryPool *mp = nullptr;
    bool fixed = false;
    g_osLogOn = false;
    { void *w = scalable_malloc(1); scalable_free(w); }   // initialise the library (default pool) before logging starts
    g_osLogOn = true;
    while (fgets(line, sizeof line, stdin)) {
        size_t L = strlen(line);
        while (L && (line[L - 1] == '\n' || line[L - 1] == '\r')) line[--L] = 0;
        if (!L) continue;
        char op[32] = {0};
        unsigned long long a = 0, b = 0, c = 0, d = 0;
        int n = sscanf(line, "%31s %llu %llu %llu %llu", op, &a, &b, &c, &d);
        std::string o(op), res;
        char buf[256];
        if (o == "cfg" && n == 5 && !pool) {
            // cfg <fixed> <keepAllMemory> <granularity> <fixedSize>
            rml::MemPoolPolicy pol(poolRawAlloc, poolRawFree, (size_t)c, /*fixedPool=*/a != 0, /*keepAllMemory=*/b != 0);
            fixed = a != 0;
            g_fixedSize = fixed ? (size_t)d : 0;
            g_fixedGiven = false;
            g_osLogOn = false;
            rml::MemPoolError e = rml::pool_create_v1(7, &pol, &pool);
            g_osLogOn = true;
            mp = (rml::internal::MemoryPool *)pool;
            snprintf(buf, sizeof buf, "cfg %s", e == rml::POOL_OK ? "ok" : "fail");
            flushRecord(line, buf);
            if (e != rml::POOL_OK) { endRecord(); return 0; }
            endRecord();
            continue;
        }
        if (!pool) { flushRecord(line, "bad-op"); endRecord(); continue; }
        Backend &be = mp->extMemPool.backend;
        g_osLog.clear();
        bool known = true;
        if (o == "get" && n == 4 && a >= 1 && a <= 64 && b >= FreeBlock::minBlockSize && b % 8 == 0 && b <= ((size_t)1 << 27) && (!c || b % slabSize == 0) && (a == 1 || a * b < Backend::maxBinned_SmallPage) && a * b >= Backend::minBinnedSize
                   && (!c || fixed || a * b < Backend::maxBinned_SmallPage / 8)) {
            FreeBlock *r = be.genericGetBlock((int)a, (size_t)b, c != 0);
            if (r) {
                if (c && ((uintptr_t)r % slabSize)) mon("get", "slab-aligned request returned %llu", canon(r));
                if ((uintptr_t)r % sizeof(uintptr_t)) mon("get", "block %llu is not word-aligned", canon(r));
                for (unsigned i = 0; i < a; i++) {
                    uintptr_t p = (uintptr_t)r + i * (size_t)b;
                    // disjoint from every block already in use
                    auto it = g_used.upper_bound(p);
                    if (it != g_used.end() && it->first < p + b) mon("get", "block %llu+%llu overlaps the in-use block %llu", canon(p), b, canon(it->first));
                    if (it != g_used.begin()) { --it; if (it->first + it->second.size > p) mon("get", "block %llu+%llu overlaps the in-use block %llu+%zu", canon(p), b, canon(it->first), it->second.size); }
                    g_used[p] = Used{(size_t)b, c != 0};
                    g_handed.push_back(p);
                    patFill(p, (size_t)b);
                }
            }
            snprintf(buf, sizeof buf, "%llu", canon(r));
            res = buf;
        } else if ((o == "put" && n == 2) || (o == "putn" && n == 2 && a < g_handed.size())) {
            uintptr_t p = o == "put" ? (uintptr_t)g_arena + a : g_handed[a];
            auto it = g_used.find(p);
            if (it == g_used.end()) res = "not-in-use";
            else {
                Used u = it->second;
                patCheck(p, u.size, "before put");
                g_used.erase(it);
                be.genericPutBlock((FreeBlock *)p, u.size, u.aligned);
                res = "ok";
            }
        } else if (o == "scan" && n == 2) {
            res = be.scanCoalescQ(a != 0) ? "1" : "0";
        } else if (o == "clean" && n == 1) {
            res = be.clean() ? "1" : "0";
        } else if (o == "hclean" && n == 1) {
            res = mp->extMemPool.hardCachesCleanup(false) ? "1" : "0";
        } else if (o == "reset" && n == 1) {
            bool was = mp->extMemPool.delayRegsReleasing;     // MemoryPool::reset() brackets Backend::reset() like this
            mp->extMemPool.delayRegionsReleasing(true);
            be.reset();
            mp->extMemPool.delayRegionsReleasing(was);
            g_used.clear();
            res = "ok";
        } else if (o == "delay" && n == 2) {
            mp->extMemPool.delayRegionsReleasing(a != 0);
            res = "ok";
        } else if ((o == "lockbin" || o == "unlockbin") && n == 3 && b < Backend::freeBinsNum) {
            Backend::IndexedBins &ib = a ? be.freeSlabAlignedBins : be.freeLargeBlockBins;
            if (o == "lockbin") res = ib.freeBins[b].tLock.m_flag.test_and_set() ? "already" : "ok";
            else { ib.freeBins[b].tLock.m_flag.clear(); res = "ok"; }
        } else if (o == "lockempty" && n == 1) {
            // another thread holds the mutex of every bin that is empty now (adding a block to such a bin is delayed)
            for (int al = 0; al < 2; al++) {
                Backend::IndexedBins &ib = al ? be.freeSlabAlignedBins : be.freeLargeBlockBins;
                for (unsigned i = 0; i < Backend::freeBinsNum; i++)
                    if (ib.freeBins[i].empty()) ib.freeBins[i].tLock.m_flag.test_and_set();
            }
            res = "ok";
        } else if (o == "unlockall" && n == 1) {
            for (int al = 0; al < 2; al++) {
                Backend::IndexedBins &ib = al ? be.freeSlabAlignedBins : be.freeLargeBlockBins;
                for (unsigned i = 0; i < Backend::freeBinsNum; i++) ib.freeBins[i].tLock.m_flag.clear();
            }
            res = "ok";
        } else if ((o == "markcoal" && n == 2) || (o == "markcoaln" && n == 2 && a < g_handed.size())) {
            // what another thread's doCoalesc does first to a block it is freeing: both tags become COAL_BLOCK
            uintptr_t p = o == "markcoal" ? (uintptr_t)g_arena + a : g_handed[a];
            auto it = g_used.find(p);
            if (it == g_used.end()) res = "not-in-use";
            else { ((FreeBlock *)p)->markCoalescing(it->second.size); res = "ok"; }
        } else if (o == "skew" && n == 2 && a < 4) {
            g_skew = (size_t)a * 4096; res = "ok";
        } else if (o == "osfail" && n == 3) {
            g_failIn = (long)a; g_failCount = (long)b; res = "ok";
        } else {
            known = false;
            res = "bad-op";
        }
        if (known) res += osLogText();
        flushRecord(line, res);
        if (known) {
            Snap s = walk(be, bkUsedSize, nullptr);
            // every block the harness holds must be a used block of the tiling, every used block of the tiling is held
            std::set<uintptr_t> usedSeen;
            for (auto &r : s.regs) for (auto &bk : r.blocks) if (bk.kind == 'U' || bk.kind == 'C') usedSeen.insert(bk.addr);
            for (auto &u : g_used) {
                if (!usedSeen.count(u.first)) mon("tiling", "in-use block %llu (size %zu) is not a block of any region's tiling", canon(u.first), u.second.size);
                patCheck(u.first, u.second.size, "while in use");
            }
            printSnap(s);
            printf("S maxReq=%zu boot=%ld\n", (size_t)be.maxRequestedSize.load(), (long)be.bootsrapMemStatus.load());
        }
        endRecord();
    }
    return 0;
}

// ------------------------------------------------------------------------------------------------------------
// the back-reference table
// ------------------------------------------------------------------------------------------------------------
struct LeafInfo {
    BackRefBlock *bl;
    int num, cnt, bump;          // bump: offset of the next never-used slot, -1 if exhausted
    bool bumpNull = false;
    bool added;
    std::vector<int> freeList;   // offsets, head first
    std::vector<std::pair<int, uintptr_t>> slots;   // allocated slots: offset -> value
};
struct TableInfo {
    bool present = false;
    long lastUsed = -1;
    int active = -1;
    std::vector<int> forUse;
    std::vector<LeafInfo> leaves;
};

static TableInfo walkTable() {
    TableInfo t;
    BackRefMain *m = backRefMain.load();
    if (!m) return t;
    t.present = true;
    t.lastUsed = (long)m->lastUsed.load();
    if (t.lastUsed >= BackRefMain::dataSz) mon("backref", "lastUsed=%ld exceeds the main table size %d", t.lastUsed, BackRefMain::dataSz);
    std::map<BackRefBlock *, int> numOf;
    for (long i = 0; i <= t.lastUsed && i < BackRefMain::dataSz; i++) {
        BackRefBlock *bl = m->backRefBl[i];
        LeafInfo li;
        li.bl = bl; li.num = (int)i;
        if (!bl) { mon("backref", "leaf %ld <= lastUsed is null", i); t.leaves.push_back(li); continue; }
        numOf[bl] = (int)i;
        if ((long)bl->myNum != i) mon("backref", "leaf %ld has myNum %ld", i, (long)bl->myNum);
        li.cnt = bl->allocatedCount.load();
        li.added = bl->addedToForUse.load();
        uintptr_t slots0 = (uintptr_t)bl + sizeof(BackRefBlock);
        if (!bl->bumpPtr) { li.bump = -1; li.bumpNull = true; }
        else {
            long off = ((long)((uintptr_t)bl->bumpPtr - slots0)) / (long)sizeof(void *);
            if ((uintptr_t)bl->bumpPtr < slots0 - sizeof(void *) || off >= BR_MAX_CNT) mon("backref", "leaf %ld: bump pointer outside the leaf (offset %ld)", i, off);
            li.bump = (uintptr_t)bl->bumpPtr < slots0 ? -1 : (int)off;
        }
        std::set<int> fr;
        for (FreeObject *f = bl->freeList; f; f = f->next) {
            long off = ((long)((uintptr_t)f - slots0)) / (long)sizeof(void *);
            if ((uintptr_t)f < slots0 || off >= BR_MAX_CNT || ((uintptr_t)f - slots0) % sizeof(void *)) { mon("backref", "leaf %ld: free-list entry outside the slot area (offset %ld)", i, off); break; }
            if (!fr.insert((int)off).second) { mon("backref", "leaf %ld: free list is cyclic / holds slot %ld twice", i, off); break; }
            li.freeList.push_back((int)off);
            if (li.bump >= 0 && off <= li.bump) mon("backref", "leaf %ld: slot %ld is on the free list but was never handed out (bump %d)", i, off, li.bump);
        }
        int handedOut = BR_MAX_CNT - 1 - li.bump;     // slots above the bump pointer
        if (handedOut - (int)li.freeList.size() != li.cnt)
            mon("backref", "leaf %ld: allocatedCount=%d but %d slots were handed out and %zu are on the free list", i, li.cnt, handedOut, li.freeList.size());
        for (int off = li.bump + 1; off < BR_MAX_CNT; off++)
            if (!fr.count(off)) li.slots.push_back({off, (uintptr_t)((std::atomic<void *> *)(slots0 + off * sizeof(void *)))->load()});
        t.leaves.push_back(li);
    }
    BackRefBlock *act = m->active.load();
    t.active = numOf.count(act) ? numOf[act] : -1;
    if (t.active < 0) mon("backref", "the active leaf is not a registered leaf");
    std::set<BackRefBlock *> seen;
    for (BackRefBlock *b = m->listForUse.load(); b; b = b->nextForUse) {
        if (!seen.insert(b).second) { mon("backref", "listForUse is cyclic"); break; }
        if (!numOf.count(b)) { mon("backref", "listForUse holds an unregistered leaf"); break; }
        t.forUse.push_back(numOf[b]);
        if (!b->addedToForUse.load()) mon("backref", "leaf %d is on listForUse but addedToForUse is false", numOf[b]);
    }
    for (auto &l : t.leaves) if (l.bl && l.added && !seen.count(l.bl)) mon("backref", "leaf %d says addedToForUse but is not on the list", l.num);
    return t;
}
static void printTable(const TableInfo &t, bool values) {
    // L <num> <allocatedCount> <bump offset | n> <addedToForUse> <base> : <free offsets, head first> | <slots>
    // slots: `off=value ...` (values) or `n=<count> h=<hash of the (offset, value) pairs>`
    if (!t.present) { printf("T absent\n"); return; }
    printf("T %ld %d :", t.lastUsed, t.active);
    for (int f : t.forUse) printf(" %d", f);
    printf("\n");
    for (auto &l : t.leaves) {
        if (l.bumpNull) printf("L %d %d n %d %llu :", l.num, l.cnt, (int)l.added, canon(l.bl));
        else printf("L %d %d %d %d %llu :", l.num, l.cnt, l.bump, (int)l.added, canon(l.bl));
        for (int f : l.freeList) printf(" %d", f);
        printf(" |");
        if (values) for (auto &s : l.slots) printf(" %d=%llu", s.first, canon(s.second));
        else {
            unsigned long long h = 0;
            for (auto &s : l.slots) h = (h + (((unsigned long long)s.first + 1) * 1000003ULL + canon(s.second)) % 2305843009213693951ULL * ((unsigned long long)s.first + 7)) % 2305843009213693951ULL;
            printf(" n=%zu h=%llu", l.slots.size(), h);
        }
        printf("\n");
    }
}

static BackRefIdx mkIdx(unsigned long long main, unsigned long long off, unsigned long long large) {
    BackRefIdx i;
    i.main = (BackRefIdx::main_t)main;
    i.offset = (uint16_t)(off & 0x7fff);
    i.largeObj = large ? 1 : 0;
    return i;
}

static int runBr() {
    char line[512];
    g_osLogOn = false;
    { void *w = scalable_malloc(1); scalable_free(w); }
    g_osLogOn = true;
    std::map<unsigned long long, BackRefIdx> held;       // slot id of the script -> index
    bool quiet = false;
    {
        flushRecord("init", "ok");
        printTable(walkTable(), true);
        endRecord();
    }
    while (fgets(line, sizeof line, stdin)) {
        size_t L = strlen(line);
        while (L && (line[L - 1] == '\n' || line[L - 1] == '\r')) line[--L] = 0;
        if (!L) continue;
        char op[32] = {0};
        unsigned long long a = 0, b = 0, c = 0;
        int n = sscanf(line, "%31s %llu %llu %llu", op, &a, &b, &c);
        std::string o(op), res;
        char buf[256];
        g_osLog.clear();
        bool known = true;
        if (o == "quiet" && n == 2) {                            // quiet <0|1>: leave the table out of the records
            quiet = a != 0; res = "ok";
        } else if (o == "new" && n == 3 && !held.count(a)) {            // new <id> <largeObj>
            BackRefIdx i = BackRefIdx::newBackRef(b != 0);
            if (i.isInvalid()) res = "invalid";
            else {
                for (auto &h : held)
                    if (h.second.getMain() == i.getMain() && h.second.getOffset() == i.getOffset())
                        mon("backref", "newBackRef returned index %u/%u which is still live (id %llu)", (unsigned)i.getMain(), (unsigned)i.getOffset(), h.first);
                held[a] = i;
                snprintf(buf, sizeof buf, "%u %u %d", (unsigned)i.getMain(), (unsigned)i.getOffset(), (int)i.isLargeObject());
                res = buf;
            }
        } else if (o == "set" && n == 3 && held.count(a)) {      // set <id> <value>
            setBackRef(held[a], (void *)(uintptr_t)(b ? (uintptr_t)g_arena + b : 0));
            res = "ok";
        } else if (o == "getid" && n == 2 && held.count(a)) {
            snprintf(buf, sizeof buf, "%llu", canon(getBackRef(held[a])));
            res = buf;
        } else if (o == "get" && n == 4) {                       // get <main> <offset> <large>: any bit pattern
            BackRefIdx gi = mkIdx(a, b, c);
            // decided independently of the code under test: is this index inside the table at all?
            BackRefMain *bm = backRefMain.load();
            bool inTable = bm && (long)gi.getMain() <= (long)bm->lastUsed.load() && (int)gi.getOffset() < BR_MAX_CNT;
            fflush(stdout);                                      // a fault below must not swallow the records so far
            void *v = getBackRef(gi);
            if (!inTable && v) mon("backref", "getBackRef(%u/%u) of an index outside the table returned %llu instead of null", (unsigned)gi.getMain(), (unsigned)gi.getOffset(), canon(v));
            snprintf(buf, sizeof buf, "%llu", canon(v));
            res = buf;
        } else if (o == "rm" && n == 2 && held.count(a)) {
            removeBackRef(held[a]);
            held.erase(a);
            res = "ok";
        } else if (o == "osfail" && n == 3) {
            g_failIn = (long)a; g_failCount = (long)b; res = "ok";
        } else {
            known = false;
            res = "bad-op";
        }
        if (known) res += osLogText();
        flushRecord(line, res);
        static unsigned long nrec = 0;
        if (known && (!quiet || ++nrec % 512 == 0)) {
            TableInfo t = walkTable();
            // every live index maps to its own slot and the slots are pairwise distinct
            std::set<std::pair<unsigned, unsigned>> ids, alloc;
            for (auto &l : t.leaves) for (auto &s : l.slots) alloc.insert({(unsigned)l.num, (unsigned)s.first});
            for (auto &h : held) {
                std::pair<unsigned, unsigned> k{(unsigned)h.second.getMain(), (unsigned)h.second.getOffset()};
                if (!ids.insert(k).second) mon("backref", "two live ids share index %u/%u", k.first, k.second);
                if (!alloc.count(k)) mon("backref", "live index %u/%u is not an allocated slot of the table", k.first, k.second);
            }
            if (!quiet) printTable(t, false);
        }
        endRecord();
    }
    return 0;
}

// ------------------------------------------------------------------------------------------------------------
// mm / mt: scalable_* operations on the default pool
// ------------------------------------------------------------------------------------------------------------
static size_t mmUsedSize(const RegInfo &r, uintptr_t p, void *) {
    if (r.type == MEMREG_SLAB_BLOCKS) return slabSize;
    if (r.type == MEMREG_ONE_BLOCK) return r.blockSz;
    return ((LargeMemoryBlock *)p)->unalignedSize;
}
struct Live { void *p; size_t req; size_t usable; unsigned tag; size_t align; };
static std::map<unsigned long long, Live> g_live;      // script slot -> block
static std::mutex g_liveMu;

static inline unsigned char upat(unsigned tag, size_t i) { return (unsigned char)(tag * 131u + i * 7u + (i >> 8) * 13u + 1u); }
static void ufill(const Live &l, size_t from) { unsigned char *c = (unsigned char *)l.p; for (size_t i = from; i < l.usable; i++) c[i] = upat(l.tag, i); }
static size_t ubad(const void *p, unsigned tag, size_t n) {
    const unsigned char *c = (const unsigned char *)p;
    for (size_t i = 0; i < n; i++) if (c[i] != upat(tag, i)) return i;
    return (size_t)-1;
}

// full implementation-side check of the default pool at quiescence; returns the snapshot
static Snap mmMonitors(bool checkPatterns) {
    Backend &be = defaultMemPool->extMemPool.backend;
    Snap s = walk(be, mmUsedSize, nullptr);
    TableInfo t = walkTable();
    if (!s.ok) return s;
    // --- metadata intervals and used blocks
    struct UB { uintptr_t a; size_t size; int type; };
    std::vector<UB> used;
    std::vector<std::pair<uintptr_t, uintptr_t>> meta;
    for (auto &r : s.regs) {
        meta.push_back({r.base, r.first});
        meta.push_back({r.last, r.last + sizeof(LastFreeBlock)});
        for (auto &b : r.blocks) {
            if (b.kind == 'U' || b.kind == 'C') {
                used.push_back(UB{b.addr, b.size, r.type});
                if (r.type == MEMREG_SLAB_BLOCKS) {
                    if (b.addr % slabSize) mon("tiling", "in-use block %llu of a slab region is not slab-aligned", canon(b.addr));
                    meta.push_back({b.addr, b.addr + sizeof(Block)});
                } else meta.push_back({b.addr, b.addr + sizeof(LargeMemoryBlock)});
            } else if (b.kind == 'F' || b.kind == 'Q') meta.push_back({b.addr, b.addr + b.size});   // free memory belongs to the allocator
        }
    }
    {
        std::lock_guard<std::mutex> l(g_osmu);
        // every OS mapping that is not a region is allocator metadata (back-reference table space)
        std::set<uintptr_t> regBases;
        for (auto &r : s.regs) regBases.insert(r.base);
        for (auto &m : g_maps) if (!regBases.count(m.first)) meta.push_back({m.first, m.first + m.second.len});
    }
    std::sort(meta.begin(), meta.end());
    std::sort(used.begin(), used.end(), [](const UB &x, const UB &y) { return x.a < y.a; });
    // --- live user blocks: inside one used back-end block, past its header, pairwise disjoint, disjoint from metadata
    std::vector<std::pair<uintptr_t, uintptr_t>> lv;
    std::lock_guard<std::mutex> ll(g_liveMu);
    for (auto &e : g_live) {
        const Live &l = e.second;
        uintptr_t a = (uintptr_t)l.p, z = a + (l.usable ? l.usable : 1);
        lv.push_back({a, z});
        auto it = std::upper_bound(used.begin(), used.end(), a, [](uintptr_t v, const UB &u) { return v < u.a; });
        if (it == used.begin()) { mon("live", "live block %llu (slot %llu) is in no in-use back-end block", canon(a), e.first); continue; }
        --it;
        if (z > it->a + it->size) { mon("live", "live block %llu+%zu (slot %llu) is not inside the in-use back-end block %llu+%zu", canon(a), l.usable, e.first, canon(it->a), it->size); continue; }
        bool small = it->type == MEMREG_SLAB_BLOCKS;
        bool recL = isLargeObject<ourMem>(l.p), recS = !recL && isSmallObject(l.p);
        if (small ? !(recS && !recL) : !recL)
            mon("recognize", "live %s object %llu (slot %llu): isLargeObject=%d isSmallObject=%d", small ? "slab" : "large", canon(a), e.first, (int)recL, (int)recS);
        if (!small) {
            LargeObjectHdr *h = (LargeObjectHdr *)l.p - 1;
            if ((uintptr_t)h->memoryBlock != it->a) mon("live", "large object %llu: header points to block %llu, tiling says %llu", canon(a), canon(h->memoryBlock), canon(it->a));
            if ((uintptr_t)h < it->a + sizeof(LargeMemoryBlock)) mon("live", "large object %llu: its header overlaps the LargeMemoryBlock header", canon(a));
            meta.push_back({(uintptr_t)h, a});
        }
        if (checkPatterns) {
            // (the whole block is checked when it is freed / reallocated; here the parts next to allocator metadata)
            size_t bad = (size_t)-1;
            if (l.usable <= 20480) bad = ubad(l.p, l.tag, l.usable);
            else {
                bad = ubad(l.p, l.tag, 1024);
                if (bad == (size_t)-1) {
                    const unsigned char *c = (const unsigned char *)l.p;
                    for (size_t i = l.usable - 16384; i < l.usable; i++) if (c[i] != upat(l.tag, i)) { bad = i; break; }
                }
            }
            if (bad != (size_t)-1) mon("pattern", "byte %zu of live block %llu (slot %llu, %zu bytes) changed behind the user's back", bad, canon(a), e.first, l.usable);
        }
    }
    std::sort(lv.begin(), lv.end());
    for (size_t i = 1; i < lv.size(); i++)
        if (lv[i].first < lv[i - 1].second) mon("live", "live blocks %llu and %llu overlap", canon(lv[i - 1].first), canon(lv[i].first));
    std::sort(meta.begin(), meta.end());
    for (auto &v : lv) {
        auto it = std::upper_bound(meta.begin(), meta.end(), std::make_pair(v.first, (uintptr_t)-1));
        if (it != meta.end() && it->first < v.second) mon("live", "live block [%llu,%llu) overlaps allocator metadata / free memory [%llu,%llu)", canon(v.first), canon(v.second), canon(it->first), canon(it->second));
        if (it != meta.begin()) { --it; if (it->second > v.first) mon("live", "live block [%llu,%llu) overlaps allocator metadata / free memory [%llu,%llu)", canon(v.first), canon(v.second), canon(it->first), canon(it->second)); }
    }
    // --- back-reference bijection: allocated slots <-> in-use slabs and large blocks
    if (t.present) {
        std::map<std::pair<unsigned, unsigned>, uintptr_t> slots;
        for (auto &l : t.leaves) for (auto &sl : l.slots) slots[{(unsigned)l.num, (unsigned)sl.first}] = sl.second;
        std::set<std::pair<unsigned, unsigned>> owned;
        for (auto &u : used) {
            BackRefIdx idx = u.type == MEMREG_SLAB_BLOCKS ? ((Block *)u.a)->backRefIdx : ((LargeMemoryBlock *)u.a)->backRefIdx;
            std::pair<unsigned, unsigned> k{(unsigned)idx.getMain(), (unsigned)idx.getOffset()};
            if (idx.isInvalid() || !slots.count(k)) { mon("backref", "in-use %s block %llu carries index %u/%u which is not an allocated slot", u.type == MEMREG_SLAB_BLOCKS ? "slab" : "large", canon(u.a), k.first, k.second); continue; }
            if (!owned.insert(k).second) mon("backref", "index %u/%u is carried by two in-use blocks (second: %llu)", k.first, k.second, canon(u.a));
            if (idx.isLargeObject() != (u.type != MEMREG_SLAB_BLOCKS)) mon("backref", "block %llu: largeObj bit %d does not match its kind", canon(u.a), (int)idx.isLargeObject());
            if (u.type == MEMREG_SLAB_BLOCKS && slots[k] != u.a) mon("backref", "slab %llu: its slot %u/%u holds %llu", canon(u.a), k.first, k.second, canon(slots[k]));
        }
        if (owned.size() != slots.size())
            mon("backref", "%zu allocated slots but %zu in-use back-end blocks carry an index", slots.size(), owned.size());
        for (auto &e : g_live) {
            const Live &l = e.second;
            if (isLargeObject<ourMem>(l.p)) {
                LargeObjectHdr *h = (LargeObjectHdr *)l.p - 1;
                std::pair<unsigned, unsigned> k{(unsigned)h->backRefIdx.getMain(), (unsigned)h->backRefIdx.getOffset()};
                if (!slots.count(k) || slots[k] != (uintptr_t)h) mon("backref", "live large object %llu: slot %u/%u does not point to its header", canon(l.p), k.first, k.second);
            }
        }
    }
    return s;
}

struct MmOp { std::string op; unsigned long long slot, a, b; };

static std::string mmExec(const MmOp &q, unsigned tid) {
    char buf[200];
    auto take = [&](unsigned long long slot, Live &out) -> bool {
        std::lock_guard<std::mutex> l(g_liveMu);
        auto it = g_live.find(slot);
        if (it == g_live.end()) return false;
        out = it->second;
        g_live.erase(it);
        return true;
    };
    auto give = [&](unsigned long long slot, void *p, size_t req, size_t align, bool zero, const Live *old) -> std::string {
        if (!p) return "null";
        Live l;
        l.p = p; l.req = req; l.align = align; l.tag = (unsigned)(slot * 2654435761u + tid);
        l.usable = scalable_msize(p);
        if (l.usable < req) mon("msize", "msize %zu < request %zu (block %llu)", l.usable, req, canon(p));
        size_t need = align ? align : ((req ? req : 8) <= 8 ? 8 : 16);
        if ((uintptr_t)p % need) mon("align", "block %llu is not %zu-aligned (request %zu)", canon(p), need, req);
        if (zero) for (size_t i = 0; i < req; i++) if (((unsigned char *)p)[i]) { mon("zero", "calloc block %llu not zero at byte %zu", canon(p), i); break; }
        if (old) {
            size_t keep = old->req < req ? old->req : req;
            size_t bad = ubad(p, old->tag, keep);
            if (bad != (size_t)-1) mon("prefix", "realloc lost byte %zu of the first %zu bytes (old block %llu, new %llu)", bad, keep, canon(old->p), canon(p));
            l.tag = old->tag;
            ufill(l, keep);
        } else ufill(l, 0);
        {
            std::lock_guard<std::mutex> g(g_liveMu);
            g_live[slot] = l;
        }
        snprintf(buf, sizeof buf, "%llu %zu", canon(p), l.usable);
        return buf;
    };
    const std::string &o = q.op;
    if (o == "m") return give(q.slot, scalable_malloc(q.a), q.a, 0, false, nullptr);
    if (o == "c") return give(q.slot, scalable_calloc(q.a, q.b), q.a * q.b, 0, true, nullptr);
    if (o == "am") return give(q.slot, scalable_aligned_malloc(q.a, (size_t)1 << q.b), q.a, (size_t)1 << q.b, false, nullptr);
    if (o == "pm") { void *p = nullptr; int rc = scalable_posix_memalign(&p, (size_t)1 << q.b, q.a); return give(q.slot, rc ? nullptr : p, q.a, (size_t)1 << q.b, false, nullptr); }
    if (o == "r" || o == "ar") {
        Live old; bool had = take(q.slot, old);
        if (had) { size_t bad = ubad(old.p, old.tag, old.usable); if (bad != (size_t)-1) mon("pattern", "byte %zu of live block %llu changed before realloc", bad, canon(old.p)); }
        void *p = o == "r" ? scalable_realloc(had ? old.p : nullptr, q.a) : scalable_aligned_realloc(had ? old.p : nullptr, q.a, (size_t)1 << q.b);
        if (!p && had && q.a) { std::lock_guard<std::mutex> g(g_liveMu); g_live[q.slot] = old; return "null"; }
        if (!q.a) return "freed";
        return give(q.slot, p, q.a, o == "ar" ? (size_t)1 << q.b : 0, false, had ? &old : nullptr);
    }
    if (o == "f") {
        Live old;
        if (!take(q.slot, old)) return "empty";
        size_t bad = ubad(old.p, old.tag, old.usable);
        if (bad != (size_t)-1) mon("pattern", "byte %zu of live block %llu (%zu bytes) changed behind the user's back", bad, canon(old.p), old.usable);
        if (old.align) scalable_aligned_free(old.p); else scalable_free(old.p);
        return "ok";
    }
    if (o == "cmd") { int rc = scalable_allocation_command(q.slot ? TBBMALLOC_CLEAN_THREAD_BUFFERS : TBBMALLOC_CLEAN_ALL_BUFFERS, nullptr); snprintf(buf, sizeof buf, "%d", rc); return buf; }
    return "bad-op";
}

// recognition of pointers that are NOT objects: interior addresses, forged headers inside the user's own bytes
static void mmProbe(unsigned long long slot) {
    Live l;
    {
        std::lock_guard<std::mutex> g(g_liveMu);
        auto it = g_live.find(slot);
        if (it == g_live.end()) return;
        l = it->second;
    }
    if (l.usable < 256) return;
    // find a live large object whose valid header we can copy
    LargeObjectHdr forged{};
    bool haveForged = false;
    {
        std::lock_guard<std::mutex> g(g_liveMu);
        for (auto &e : g_live) if (e.first != slot && isLargeObject<ourMem>(e.second.p)) { forged = *((LargeObjectHdr *)e.second.p - 1); haveForged = true; break; }
    }
    unsigned char *c = (unsigned char *)l.p;
    uintptr_t q = alignUp((uintptr_t)c + 64, largeObjectAlignment);      // a 64-aligned address well inside the user's bytes
    if (q + 16 > (uintptr_t)c + l.usable) return;
    unsigned char save[sizeof(LargeObjectHdr)];
    memcpy(save, (void *)(q - sizeof(LargeObjectHdr)), sizeof save);
    if (haveForged) {
        memcpy((void *)(q - sizeof(LargeObjectHdr)), &forged, sizeof forged);
        if (isLargeObject<ourMem>((void *)q)) mon("recognize", "interior address %llu of block %llu with a copied large-object header in front of it is taken for a large object", canon(q), canon(l.p));
    }
    // every possible index with the largeObj bit and a plausible memoryBlock
    LargeObjectHdr h2{};
    h2.memoryBlock = (LargeMemoryBlock *)(q - 4096);
    TableInfo t = walkTable();
    for (auto &lf : t.leaves) for (auto &sl : lf.slots) {
        h2.backRefIdx = mkIdx(lf.num, sl.first, 1);
        memcpy((void *)(q - sizeof(LargeObjectHdr)), &h2, sizeof h2);
        if (isLargeObject<ourMem>((void *)q)) { mon("recognize", "interior address %llu with forged index %d/%d is taken for a large object", canon(q), lf.num, sl.first); break; }
    }
    memcpy((void *)(q - sizeof(LargeObjectHdr)), save, sizeof save);
}

static bool parseMm(const char *line, MmOp &q, unsigned &tid, bool withTid) {
    char op[32] = {0};
    unsigned long long t = 0, a = 0, b = 0, c = 0;
    int n;
    if (withTid) n = sscanf(line, "%llu %31s %llu %llu %llu", &t, op, &a, &b, &c) - 1;
    else n = sscanf(line, "%31s %llu %llu %llu", op, &a, &b, &c);
    if (n < 2) return false;
    tid = (unsigned)t;
    q.op = op; q.slot = a; q.a = b; q.b = c;
    std::string o(op);
    if ((o == "am" || o == "ar" || o == "pm") && (n < 4 || c >= 40)) return false;
    if ((o == "m" || o == "r") && n < 3) return false;
    if (o == "c" && n < 4) return false;
    return true;
}

static int runMm(int snapEvery) {
    char line[512];
    g_osLogOn = false;
    { void *w = scalable_malloc(1); scalable_free(w); }
    g_osLogOn = true;
    unsigned long nops = 0;
    while (fgets(line, sizeof line, stdin)) {
        size_t L = strlen(line);
        while (L && (line[L - 1] == '\n' || line[L - 1] == '\r')) line[--L] = 0;
        if (!L) continue;
        MmOp q; unsigned tid;
        g_osLog.clear();
        std::string res;
        bool known = true;
        unsigned long long ps = 0;
        if (sscanf(line, "probe %llu", &ps) == 1) { mmProbe(ps); res = "ok"; }
        else if (!strncmp(line, "mode ", 5)) {
            // mode huge <bytes> | soft <bytes> | hp <0|1> : scalable_allocation_mode
            char what[16] = {0}; long long v = 0;
            if (sscanf(line + 5, "%15s %lld", what, &v) == 2) {
                int param = !strcmp(what, "huge") ? TBBMALLOC_SET_HUGE_SIZE_THRESHOLD : !strcmp(what, "soft") ? TBBMALLOC_SET_SOFT_HEAP_LIMIT :
                            !strcmp(what, "hp") ? TBBMALLOC_USE_HUGE_PAGES : -1;
                if (param < 0) { known = false; res = "bad-op"; }
                else { char b2[32]; snprintf(b2, sizeof b2, "%d", scalable_allocation_mode(param, (intptr_t)v)); res = b2; }
            } else { known = false; res = "bad-op"; }
        }
        else if (!strncmp(line, "skew ", 5)) { g_skew = (size_t)(atoi(line + 5) & 3) * 4096; res = "ok"; }
        else if (!strncmp(line, "osfail ", 7)) { long x = 0, y = 1; sscanf(line + 7, "%ld %ld", &x, &y); g_failIn = x; g_failCount = y; res = "ok"; }
        else if (!parseMm(line, q, tid, false)) { known = false; res = "bad-op"; }
        else res = mmExec(q, 0);
        if (known) res += osLogText();
        flushRecord(line, res);
        if (known) {
            nops++;
            Snap s = mmMonitors(true);
            if (snapEvery && nops % snapEvery == 0) { printSnap(s); printTable(walkTable(), false); }
        }
        endRecord();
    }
    return 0;
}

static int runMt() {
    // script: lines `<tid> <op> ...`; a line `J` = barrier: all threads finish what they were given, monitors run
    char line[512];
    g_osLogOn = false;
    { void *w = scalable_malloc(1); scalable_free(w); }
    std::vector<std::vector<MmOp>> per;
    unsigned long phase = 0;
    auto runPhase = [&]() {
        std::vector<std::thread> th;
        for (size_t t = 0; t < per.size(); t++)
            th.emplace_back([&, t]() { for (auto &q : per[t]) mmExec(q, (unsigned)t + 1); });
        for (auto &t : th) t.join();
        size_t nops = 0;
        for (auto &p : per) nops += p.size();
        per.clear();
        char buf[64];
        snprintf(buf, sizeof buf, "phase %lu", phase++);
        char res[64];
        snprintf(res, sizeof res, "ops=%zu", nops);
        flushRecord(buf, res);
        mmMonitors(true);
        endRecord();
    };
    while (fgets(line, sizeof line, stdin)) {
        size_t L = strlen(line);
        while (L && (line[L - 1] == '\n' || line[L - 1] == '\r')) line[--L] = 0;
        if (!L) continue;
        if (line[0] == 'J') { runPhase(); continue; }
        MmOp q; unsigned tid;
        if (!parseMm(line, q, tid, true) || tid > 15) { flushRecord(line, "bad-op"); endRecord(); continue; }
        if (per.size() <= tid) per.resize(tid + 1);
        per[tid].push_back(q);
    }
    if (!per.empty()) runPhase();
    return 0;
}

int main(int argc, char **argv) {
    if (argc > 1 && !strcmp(argv[1], "consts")) { consts(); return 0; }
    setvbuf(stdout, nullptr, _IOFBF, 1 << 20);
    os_init();
    scalable_allocation_mode(TBBMALLOC_INTERNAL_SOURCE_INCLUDED, 1);
    if (argc > 1 && !strcmp(argv[1], "bk")) return runBk();
    if (argc > 1 && !strcmp(argv[1], "br")) return runBr();
    if (argc > 1 && !strcmp(argv[1], "mm")) return runMm(argc > 2 ? atoi(argv[2]) : 0);
    if (argc > 1 && !strcmp(argv[1], "mt")) return runMt();
    fprintf(stderr, "usage: be consts|bk|br|mm [snapEvery]|mt\n");
    return 2;
}
