// C17 E-REAL: script-driven allocation histories on the real libtbbmalloc with an independent shadow-heap monitor.
//
// stdin:   P <n>                          start a phase with n fresh threads (previous threads are joined first:
//                                         thread exit with live blocks -> orphaned slabs)
//          <t> malloc <slot> <size>
//          <t> calloc <slot> <nobj> <size>
//          <t> realloc <slot> <size>      (slot empty: realloc(nullptr,size))
//          <t> amalloc <slot> <size> <log2 align>
//          <t> arealloc <slot> <size> <log2 align>
//          <t> pmemalign <slot> <size> <log2 align>
//          <t> free <slot> | afree <slot> | msize <slot> | verify <slot>
//          <t> cmd <0|1>                  scalable_allocation_command(CLEAN_ALL_BUFFERS | CLEAN_THREAD_BUFFERS)
// Operations on one slot are executed in script order whichever threads issue them (per-slot version
// counters); otherwise threads run freely.  The monitor keeps an interval map of live blocks
// [p, p+msize(p)) and a per-block byte pattern:
//   overlap      a returned block intersects a live one (covers "reuse before free")
//   align        returned address not aligned as requested / promised (16, or 8 for size<=8)
//   msize        scalable_msize(p) < request
//   zero         calloc block not zero-filled
//   prefix       realloc lost part of the first min(old,new) bytes
//   pattern      a live block's contents changed behind the user's back
//   null         allocation of a modest size failed
// stdout: one line per violation, then `done ops=<n> violations=<m>`.
//
// With -DVERIF_OOM (C18 E-REAL fault enumeration for the default pool) the executable also DEFINES mmap / munmap /
// mremap, so that libtbbmalloc's OS requests resolve to them, and understands
//          M fail <k> <count>             OS mapping calls number k .. k+count-1 (counted from program start) fail with ENOMEM
//          <t> !malloc ...                `!` prefix: the operation must succeed (recovery after the failure window)
// A null result is then legal only if a mapping call failed during the operation; errno must be ENOMEM; in
// single-threaded phases every live block is re-verified right after each failed operation (kind `after-fail`).
// Extra output: `MMAPCALLS <n> <failed>`.
#include "oneapi/tbb/scalable_allocator.h"
#include <atomic>
#include <cerrno>
#include <cstdarg>
#include <cstdint>
#include <cstdio>
#include <cstdlib>
#include <cstring>
#include <map>
#include <mutex>
#include <string>
#include <thread>
#include <vector>

#ifdef VERIF_OOM
#include <sys/mman.h>
#include <sys/syscall.h>
#include <unistd.h>
static std::atomic<int> g_mapCalls{0}, g_mapFailed{0}, g_failFrom{0}, g_failCount{0};
static bool inject() {
    int n = ++g_mapCalls;
    int f = g_failFrom.load(), c = g_failCount.load();
    if (f && n >= f && n < f + c) { g_mapFailed++; errno = ENOMEM; return true; }
    return false;
}
extern "C" void *mmap(void *addr, size_t len, int prot, int flags, int fd, off_t off) __THROW {
    if (inject()) return MAP_FAILED;
    long r = syscall(SYS_mmap, addr, len, prot, flags, fd, off);
    return (void *)r;
}
extern "C" int munmap(void *addr, size_t len) __THROW { return (int)syscall(SYS_munmap, addr, len); }
extern "C" void *mremap(void *old, size_t oldsz, size_t newsz, int flags, ...) __THROW {
    if (inject()) return MAP_FAILED;
    void *na = nullptr;
    if (flags & MREMAP_FIXED) { va_list ap; va_start(ap, flags); na = va_arg(ap, void *); va_end(ap); }
    return (void *)syscall(SYS_mremap, old, oldsz, newsz, flags, na);
}
#endif

struct Op {
    int line, thread, kind, slot;
    size_t a, b;
    unsigned need;
    bool must;
};
static int g_phaseThreads = 1;
enum { MALLOC, CALLOC, REALLOC, AMALLOC, AREALLOC, PMEMALIGN, FREE, AFREE, MSIZE, VERIFY, CMD };

struct Slot {
    std::atomic<unsigned> ver{0};
    void *p = nullptr;
    size_t req = 0, usable = 0;
    unsigned tag = 0;
};

static std::vector<Slot> *g_slots;
static std::mutex g_mu;
static std::map<uintptr_t, std::pair<uintptr_t, int>> g_live;   // start -> (end, slot)
static std::atomic<int> g_viol{0}, g_nulls{0};
static std::mutex g_out;

static void violation(const char *kind, const Op &op, const char *fmt, ...) __attribute__((format(printf, 3, 4)));
static void violation(const char *kind, const Op &op, const char *fmt, ...) {
    char buf[512];
    va_list ap;
    va_start(ap, fmt);
    vsnprintf(buf, sizeof buf, fmt, ap);
    va_end(ap);
    std::lock_guard<std::mutex> l(g_out);
    printf("VIOLATION %s line=%d thread=%d slot=%d %s\n", kind, op.line, op.thread, op.slot, buf);
    fflush(stdout);
    g_viol++;
}

static inline unsigned char pat(unsigned tag, size_t i) { return (unsigned char)(tag * 131u + i * 7u + (i >> 8) * 13u + 1u); }

static void fill(Slot &s) {
    unsigned char *c = (unsigned char *)s.p;
    for (size_t i = 0; i < s.usable; i++) c[i] = pat(s.tag, i);
}
static size_t first_bad(const void *p, unsigned tag, size_t n) {
    const unsigned char *c = (const unsigned char *)p;
    for (size_t i = 0; i < n; i++)
        if (c[i] != pat(tag, i)) return i;
    return (size_t)-1;
}

static void shadow_insert(const Op &op, Slot &s) {
    uintptr_t a = (uintptr_t)s.p, e = a + (s.usable ? s.usable : 1);
    std::lock_guard<std::mutex> l(g_mu);
    auto it = g_live.lower_bound(a);
    if (it != g_live.end() && it->first < e)
        violation("overlap", op, "block [%#zx,%#zx) overlaps live block of slot %d [%#zx,%#zx)", (size_t)a, (size_t)e, it->second.second, (size_t)it->first, (size_t)it->second.first);
    if (it != g_live.begin()) {
        auto pr = std::prev(it);
        if (pr->second.first > a)
            violation("overlap", op, "block [%#zx,%#zx) overlaps live block of slot %d [%#zx,%#zx)", (size_t)a, (size_t)e, pr->second.second, (size_t)pr->first, (size_t)pr->second.first);
    }
    g_live[a] = {e, op.slot};
}
static void shadow_erase(Slot &s) {
    std::lock_guard<std::mutex> l(g_mu);
    g_live.erase((uintptr_t)s.p);
}

static void adopt(const Op &op, Slot &s, void *p, size_t req, size_t align, bool zeroed, unsigned oldtag, size_t keep) {
    // p is a fresh successful allocation result for slot s
    s.p = p;
    s.req = req;
    s.usable = scalable_msize(p);
    if (s.usable < req) { violation("msize", op, "msize=%zu < request=%zu", s.usable, req); s.usable = req; }
    size_t need = align ? align : ((req ? req : 8) <= 8 ? 8 : 16);
    if ((uintptr_t)p % need) violation("align", op, "address %#zx not aligned to %zu (request %zu)", (size_t)p, need, req);
    if (zeroed) {
        const unsigned char *c = (const unsigned char *)p;
        for (size_t i = 0; i < req; i++)
            if (c[i]) { violation("zero", op, "calloc byte %zu of %zu is %u", i, req, c[i]); break; }
    }
    if (keep) {
        size_t b = first_bad(p, oldtag, keep);
        if (b != (size_t)-1) violation("prefix", op, "realloc lost byte %zu of the first %zu", b, keep);
    }
    shadow_insert(op, s);
    s.tag = s.tag * 2654435761u + op.line + 17;
    fill(s);
}

static void check_pattern(const Op &op, Slot &s, const char *kind = "pattern") {
    size_t b = first_bad(s.p, s.tag, s.usable);
    if (b != (size_t)-1) violation(kind, op, "live block %#zx (request %zu, usable %zu) changed at byte %zu", (size_t)s.p, s.req, s.usable, b);
}

// an allocation entry point returned null (failed0 = number of injected mapping failures before the call)
static void null_result(const Op &op, size_t req, int failed0, int err) {
    g_nulls++;
#ifdef VERIF_OOM
    // the refusal is explained if a mapping call failed during this call, or if the failure window is open
    // right now (any attempt to map would be refused: another thread may have found that out for us)
    int nx = g_mapCalls.load() + 1, ff = g_failFrom.load(), fc = g_failCount.load();
    bool injected = g_mapFailed.load() != failed0 || (ff && nx >= ff && nx < ff + fc);
    if (op.must) violation("null", op, "allocation of %zu bytes had to succeed (no failure pending)", req);
    else if (!injected && req < ((size_t)1 << 30)) violation("null", op, "allocation of %zu bytes failed although no mapping call failed", req);
    if (err != ENOMEM) violation("errno", op, "failure reported with errno/rc=%d instead of ENOMEM", err);
    if (g_phaseThreads == 1)
        for (size_t i = 0; i < g_slots->size(); i++) {
            Slot &s = (*g_slots)[i];
            if (s.p && &s != &(*g_slots)[op.slot]) check_pattern(op, s, "after-fail");
        }
#else
    (void)failed0; (void)err;
    if (req < ((size_t)1 << 30)) violation("null", op, "allocation of %zu bytes failed", req);
#endif
}
static int failedNow() {
#ifdef VERIF_OOM
    return g_mapFailed.load();
#else
    return 0;
#endif
}

static void run_op(const Op &op) {
    Slot &s = (*g_slots)[op.slot];
    while (s.ver.load(std::memory_order_acquire) != op.need) std::this_thread::yield();
    switch (op.kind) {
    case MALLOC: case CALLOC: case AMALLOC: case PMEMALIGN: {
        if (s.p) break;   // script error: ignore
        void *p = nullptr;
        size_t req = op.a, align = 0;
        int f0 = failedNow(), err;
        errno = 0;
        if (op.kind == MALLOC) p = scalable_malloc(op.a);
        else if (op.kind == CALLOC) { req = op.a * op.b; p = scalable_calloc(op.a, op.b); }
        else if (op.kind == AMALLOC) { align = (size_t)1 << op.b; p = scalable_aligned_malloc(op.a, align); }
        err = errno;
        if (op.kind == PMEMALIGN) { align = (size_t)1 << op.b; err = scalable_posix_memalign(&p, align, op.a); if (err) p = nullptr; }
        if (!p) { null_result(op, req, f0, err); break; }
        adopt(op, s, p, req, align, op.kind == CALLOC, 0, 0);
        break;
    }
    case REALLOC: case AREALLOC: {
        size_t align = op.kind == AREALLOC ? (size_t)1 << op.b : 0;
        int f0 = failedNow();
        errno = 0;
        if (!s.p) {
            void *p = op.kind == REALLOC ? scalable_realloc(nullptr, op.a) : scalable_aligned_realloc(nullptr, op.a, align);
            if (!p) { null_result(op, op.a, f0, errno); break; }
            adopt(op, s, p, op.a, align, false, 0, 0);
            break;
        }
        check_pattern(op, s);
        size_t oldreq = s.req;
        unsigned oldtag = s.tag;
        void *old = s.p;
        shadow_erase(s);
        void *p = op.kind == REALLOC ? scalable_realloc(old, op.a) : scalable_aligned_realloc(old, op.a, align);
        if (!p) {
            int err = errno;
            if (op.a == 0) { s.p = nullptr; break; }     // realloc(p,0) frees
            shadow_insert(op, s);                         // the old block must still be intact
            check_pattern(op, s, "after-fail");
            null_result(op, op.a, f0, err);
            break;
        }
        adopt(op, s, p, op.a, align, false, oldtag, oldreq < op.a ? oldreq : op.a);
        break;
    }
    case FREE: case AFREE:
        if (!s.p) break;
        check_pattern(op, s);
        shadow_erase(s);
        if (op.kind == FREE) scalable_free(s.p); else scalable_aligned_free(s.p);
        s.p = nullptr;
        break;
    case MSIZE:
        if (s.p) {
            size_t m = scalable_msize(s.p);
            if (m < s.req || m != s.usable) violation("msize", op, "msize=%zu request=%zu first msize=%zu", m, s.req, s.usable);
        }
        break;
    case VERIFY:
        if (s.p) check_pattern(op, s);
        break;
    case CMD:
        scalable_allocation_command(op.a ? TBBMALLOC_CLEAN_THREAD_BUFFERS : TBBMALLOC_CLEAN_ALL_BUFFERS, nullptr);
        break;
    }
    s.ver.store(op.need + 1, std::memory_order_release);
}

int main() {
    std::vector<std::vector<Op>> phases;        // phases[i] = ops in script order
    std::vector<int> nthreads;
    std::vector<std::pair<int, int>> fails;        // per phase: (k, count) of `M fail`, k = -1: unchanged
    std::vector<unsigned> cnt;
    char line[256];
    int ln = 0, maxslot = -1;
    static const char *names[] = {"malloc", "calloc", "realloc", "amalloc", "arealloc", "pmemalign", "free", "afree", "msize", "verify", "cmd"};
    while (fgets(line, sizeof line, stdin)) {
        ln++;
        char w0[32] = {0}, w1[32] = {0};
        long long x = 0, y = 0, z = 0;
        // sizes up to 2^64-1 are legal script arguments (unrepresentable-size probes): parse unsigned, keep the bit pattern
        int n = sscanf(line, "%31s %31s %llu %llu %llu", w0, w1, (unsigned long long *)&x, (unsigned long long *)&y, (unsigned long long *)&z);
        if (n < 1) continue;
        if (!strcmp(w0, "P")) { nthreads.push_back(atoi(w1)); phases.emplace_back(); fails.push_back({-1, 0}); continue; }
        if (phases.empty()) { nthreads.push_back(1); phases.emplace_back(); fails.push_back({-1, 0}); }
        if (!strcmp(w0, "M")) { if (!strcmp(w1, "fail")) fails.back() = {(int)x, (int)y}; continue; }
        bool must = w1[0] == '!';
        const char *nm = must ? w1 + 1 : w1;
        int kind = -1;
        for (int i = 0; i < 11; i++) if (!strcmp(nm, names[i])) kind = i;
        if (kind < 0 || n < 3) { printf("bad-op line=%d\n", ln); return 2; }
        Op op{ln, atoi(w0), kind, kind == CMD ? 0 : (int)x, 0, 0, 0, must};
        if (kind == CMD) { op.a = x; op.slot = 0; }
        else { op.a = y; op.b = z; }
        if (op.thread < 0 || op.thread >= nthreads.back() || op.slot < 0 || op.slot > 1000000) { printf("bad-op line=%d\n", ln); return 2; }
        if (op.slot > maxslot) { maxslot = op.slot; cnt.resize(maxslot + 1, 0); }
        if (kind != CMD) op.need = cnt[op.slot]++;
        phases.back().push_back(op);
    }
    std::vector<Slot> slots(maxslot + 2);
    g_slots = &slots;
    // CMD ops use a private dummy slot so that they never order anything
    int nops = 0;
    for (size_t ph = 0; ph < phases.size(); ph++) {
        int T = nthreads[ph];
        g_phaseThreads = T;
#ifdef VERIF_OOM
        if (fails[ph].first >= 0) { g_failFrom = fails[ph].first; g_failCount = fails[ph].second; }
#endif
        std::vector<std::vector<Op>> per(T);
        for (Op &op : phases[ph]) {
            if (op.kind == CMD) { op.slot = maxslot + 1; }
            per[op.thread].push_back(op);
            nops++;
        }
        std::vector<std::thread> th;
        for (int t = 0; t < T; t++)
            th.emplace_back([&per, t, &slots, maxslot] {
                for (const Op &op : per[t]) {
                    if (op.kind == CMD) { scalable_allocation_command(op.a ? TBBMALLOC_CLEAN_THREAD_BUFFERS : TBBMALLOC_CLEAN_ALL_BUFFERS, nullptr); continue; }
                    run_op(op);
                }
            });
        for (auto &t : th) t.join();
        // after the threads have exited: every live block must still hold its pattern
        Op endop{-(int)ph - 1, -1, VERIFY, 0, 0, 0, 0, false};
        for (int i = 0; i <= maxslot; i++)
            if (slots[i].p) { endop.slot = i; check_pattern(endop, slots[i]); }
    }
    Op fin{0, -1, FREE, 0, 0, 0, 0, false};
    for (int i = 0; i <= maxslot; i++)
        if (slots[i].p) { fin.slot = i; check_pattern(fin, slots[i]); shadow_erase(slots[i]); scalable_free(slots[i].p); slots[i].p = nullptr; }
#ifdef VERIF_OOM
    g_failFrom = 0;
    printf("MMAPCALLS %d %d\n", g_mapCalls.load(), g_mapFailed.load());
#endif
    printf("done ops=%d violations=%d nulls=%d\n", nops, g_viol.load(), g_nulls.load());
    return g_viol.load() ? 3 : 0;
}
