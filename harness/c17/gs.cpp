// C17 E-SHIM harness: the guarded-size locking protocol of the back end under the controlled scheduler.
//
// The tbbmalloc sources of the CURRENT tree are compiled in with the shim prelude, so every access to a
// GuardedSize word (std::atomic<uintptr_t>) is a scheduling point.  A region of three blocks is laid out by hand:
//      L (in use)   B (FREE, size s)   R (in use)   T (terminator)
// with the boundary tags the back end would have written (B.myL = R.leftL = s, everything else LOCKED).  Contenders:
//   g  getter     : the real FreeBlock::tryLockBlock() on B
//   r  coalRight  : the thread freeing R -- the left half of Backend::doCoalesc (trySetLeftUsed(COAL_BLOCK) on R, then
//                   trySetMeUsed(COAL_BLOCK) on the left neighbour, setLeftFree roll-back), real GuardedSize primitives
//   l  coalLeft   : the thread freeing L -- the right half of doCoalesc (trySetMeUsed(COAL_BLOCK) on B, then
//                   trySetLeftUsed(COAL_BLOCK) on B's right neighbour, setMeFree roll-back)
// usage: gs <kinds e.g. grl> <mode> <arg>
//     mode rand <seed>      one run under RandomSchedule(seed)
//     mode dfs <bound>      every schedule with at most <bound> preemptions (re-executing the scenario)
//     mode replay <t,t,..>  one run under the given schedule
// output per run:  RUN <schedule> / E <tid> <kind> <var> <order> <a> <b> <ok> ... / OUT <per thread w|l> my=<v> lf=<v> winners=<n>
//                  MON <text> for an implementation-side violation (two winners; tags not restored when nobody won)
#define __TBB_SOURCE_DIRECTLY_INCLUDED 1
#define __TBB_MALLOC_WHITEBOX_TEST 1
#include "oneapi/tbb/detail/_machine.h"
#include "tbbmalloc/frontend.cpp"
#include "tbbmalloc/backend.cpp"
#include "tbbmalloc/backref.cpp"
namespace tbbmalloc_whitebox { std::atomic<size_t> locGetProcessed{}; std::atomic<size_t> locPutProcessed{}; }
#include "tbbmalloc/large_objects.cpp"
#include "tbbmalloc/tbbmalloc.cpp"
#include "verif_sched.h"

using namespace rml::internal;

static const size_t SL = 4096, SB = 16384, SR = 8192;
alignas(64) static unsigned char g_mem[SL + SB + SR + 256];
static FreeBlock *L, *B, *R, *T;

static void layout() {
    memset(g_mem, 0, sizeof g_mem);
    L = (FreeBlock *)g_mem;
    B = (FreeBlock *)(g_mem + SL);
    R = (FreeBlock *)(g_mem + SL + SB);
    T = (FreeBlock *)(g_mem + SL + SB + SR);
    L->initHeader(); B->initHeader(); R->initHeader(); T->initHeader();    // all tags LOCKED
    B->setMeFree(SB);                                                       // ... B is free
    R->setLeftFree(SB);
}

static bool getter() { return B->tryLockBlock() != 0; }

// left half of Backend::doCoalesc for fBlock = R (statement for statement; the queue of the loser is not part of this scenario)
static bool coalRight() {
    FreeBlock *fBlock = R;
    size_t leftSz = fBlock->trySetLeftUsed(GuardedSize::COAL_BLOCK);
    if (leftSz != GuardedSize::LOCKED) {
        if (leftSz == GuardedSize::COAL_BLOCK) return false;
        FreeBlock *left = fBlock->leftNeig(leftSz);
        size_t lSz = left->trySetMeUsed(GuardedSize::COAL_BLOCK);
        if (lSz <= GuardedSize::MAX_LOCKED_VAL) {
            fBlock->setLeftFree(leftSz);   // rollback
            return false;
        }
        return true;
    }
    return false;
}

// right half of Backend::doCoalesc for fBlock = L (right neighbour B)
static bool coalLeft() {
    FreeBlock *right = B;
    size_t rightSz = right->trySetMeUsed(GuardedSize::COAL_BLOCK);
    if (rightSz != GuardedSize::LOCKED) {
        if (GuardedSize::LAST_REGION_BLOCK == rightSz) { right->setMeFree(GuardedSize::LAST_REGION_BLOCK); return false; }
        if (GuardedSize::COAL_BLOCK == rightSz) return false;
        size_t rSz = right->rightNeig(rightSz)->trySetLeftUsed(GuardedSize::COAL_BLOCK);
        if (rSz <= GuardedSize::MAX_LOCKED_VAL) {
            right->setMeFree(rightSz);     // rollback
            return false;
        }
        return true;
    }
    return false;
}

static int g_violations = 0;

static void one_run(const std::string &kinds, verif::Schedule &sch) {
    layout();
    verif::clear_names();
    verif::name_addr(&B->myL.value, "my");
    verif::name_addr(&R->leftL.value, "lf");
    std::vector<int> won(kinds.size(), 0);
    std::vector<std::function<void()>> bodies;
    for (size_t i = 0; i < kinds.size(); i++) {
        char k = kinds[i];
        bodies.push_back([k, i, &won]() { won[i] = k == 'g' ? getter() : k == 'r' ? coalRight() : coalLeft(); });
    }
    verif::Result res = verif::run(bodies, sch);
    printf("RUN");
    for (int t : res.schedule) printf(" %d", t);
    printf("\n");
    for (auto &e : res.log) {
        std::string v = verif::addr_name(e.addr);
        if (v != "my" && v != "lf") continue;      // only the two words of B are part of the protocol
        printf("E %s\n", verif::format_event(e).c_str());
    }
    unsigned long long my = B->myL.value.load(), lf = R->leftL.value.load();
    int winners = 0;
    printf("OUT ");
    for (size_t i = 0; i < kinds.size(); i++) { printf("%c", won[i] ? 'w' : 'l'); winners += won[i]; }
    printf(" my=%llu lf=%llu winners=%d%s\n", my, lf, winners, res.deadlock ? " DEADLOCK" : "");
    if (winners > 1) { printf("MON two contenders hold the same block (winners=%d)\n", winners); g_violations++; }
    if (winners == 0 && (my != SB || lf != SB)) { printf("MON nobody won but the tags are not restored (my=%llu lf=%llu)\n", my, lf); g_violations++; }
    if (winners == 1 && (my > GuardedSize::MAX_LOCKED_VAL || lf > GuardedSize::MAX_LOCKED_VAL)) { printf("MON a winner but a tag still shows a size (my=%llu lf=%llu)\n", my, lf); g_violations++; }
    if (res.deadlock) { printf("MON deadlock\n"); g_violations++; }
}

int main(int argc, char **argv) {
    if (argc < 4) { fprintf(stderr, "usage: gs <kinds> rand <seed> | dfs <bound> | replay <t,t,...>\n"); return 2; }
    std::string kinds = argv[1], mode = argv[2];
    for (char k : kinds) if (k != 'g' && k != 'r' && k != 'l') return 2;
    setvbuf(stdout, nullptr, _IOFBF, 1 << 20);
    if (mode == "rand") {
        verif::RandomSchedule sch(strtoull(argv[3], nullptr, 10) * 2654435761ULL + 1, 64);
        one_run(kinds, sch);
    } else if (mode == "dfs") {
        verif::DfsSchedule sch(atoi(argv[3]));
        long n = 0;
        do { one_run(kinds, sch); n++; } while (sch.next() && n < 200000);
        printf("DFS schedules=%ld%s\n", n, sch.diverged ? " DIVERGED" : "");
    } else if (mode == "replay") {
        verif::ReplaySchedule sch;
        for (char *p = strtok(argv[3], ","); p; p = strtok(nullptr, ",")) sch.tids.push_back(atoi(p));
        one_run(kinds, sch);
    } else return 2;
    fflush(stdout);
    return g_violations ? 3 : 0;
}
