// E-GEN constant dumper for C20: numeric values of suspend_point_type::stack_state and the size of the state word, the
// values of task_dispatcher::post_resume_action, compiled with -fno-access-control against /repo's current sources.
#include "tbb/scheduler_common.h"
#include <cstdio>
int main() {
    using SP = tbb::detail::r1::suspend_point_type;
    using S = SP::stack_state;
    using A = tbb::detail::r1::task_dispatcher::post_resume_action;
    printf("{\"ssActive\": %d, \"ssSuspended\": %d, \"ssNotified\": %d, \"ssSize\": %d, "
           "\"actInvalid\": %d, \"actRegisterWaiter\": %d, \"actCleanup\": %d, \"actNotify\": %d, \"actNone\": %d}\n",
           (int)S::active, (int)S::suspended, (int)S::notified, (int)sizeof(std::atomic<S>),
           (int)A::invalid, (int)A::register_waiter, (int)A::cleanup, (int)A::notify, (int)A::none);
}
