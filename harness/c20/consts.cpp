// E-GEN constant dumper for C20: numeric values of suspend_point_type::stack_state and the size of the state word,
// compiled with -fno-access-control against /repo's current sources.
#include "tbb/scheduler_common.h"
#include <cstdio>
int main() {
    using SP = tbb::detail::r1::suspend_point_type;
    using S = SP::stack_state;
    printf("{\"ssActive\": %d, \"ssSuspended\": %d, \"ssNotified\": %d, \"ssSize\": %d}\n",
           (int)S::active, (int)S::suspended, (int)S::notified, (int)sizeof(std::atomic<S>));
}
