// C20 harness: tbb::task::suspend / tbb::task::resume on the WHOLE instrumented runtime under E-SHIM, with real
// coroutine switches (ucontext).  One run per process (runs are bit-for-bit reproducible from the schedule).
//
//   sr <container> <P> <modes> <nwork> <nest> rand   <seed>
//   sr <container> <P> <modes> <nwork> <nest> target <k> <seed>     gate the foreign resumer of suspension 0: it runs its whole
//                                                            resume() after the suspending thread made k scheduling
//                                                            points since its callback published the suspend point
//   sr <container> <P> <modes> <nwork> <nest> replay <rle-schedule>  (tid*count,tid*count,...)
//
//   container  tg      task_group::run + wait on the main thread
//              pfor    parallel_for over iterations (simple_partitioner, grain 1); iteration i < NS suspends
//              arena1  task_arena(1).execute( the tg scenario )            (an arena with a single slot)
//              outer   the main thread calls tbb::task::suspend outside of any task (its own stack is suspended at the
//                      outermost level; if a worker resumes it the owner is recalled), then the tg scenario
//   P          max_allowed_parallelism (1: no workers at all)
//   modes      one letter per suspension:  f = resume(sp) from a foreign controlled thread, t = from a task spawned by the
//              callback (task_group containers only), s = from inside the suspend callback itself
//   nwork      number of additional plain tasks ("other work")
//   nest       1: the callback of suspension i spawns the task of suspension i+1 (nested suspensions on coroutine stacks)
//
// Output: the events on the named variables (m_stack_state / m_is_owner_recalled of every suspend point, the resume and
// critical stream population words, the arena slots' occupancy flags) and the harness notes, in execution order; then
//   sp <name> <co|slot i>, mon <ok|text>, stat ..., sched <rle>
// exit code: 0 ok, 1 a property monitor failed, 3 deadlock.
#include "oneapi/tbb/task_group.h"
#include "oneapi/tbb/task.h"
#include "oneapi/tbb/task_arena.h"
#include "oneapi/tbb/global_control.h"
#include "oneapi/tbb/parallel_for.h"
#include "tbb/governor.h"
#include "tbb/arena.h"
#include "tbb/thread_data.h"
#include "tbb/task_dispatcher.h"
#include <cstdio>
#include <cstring>
#include <map>
#include <set>
#include <sstream>
#include <string>
#include <vector>

using namespace tbb::detail::r1;

static const int MAXS = 8;
static const size_t MAX_STEPS = 300000;   // a normal run takes 2 000 - 8 000 scheduling points, a detected deadlock < 40 000
struct Susp {
    std::atomic<suspend_point_type*> sp{nullptr};   // published to the foreign resumer
    // ghost / monitor state (plain: only the baton holder runs)
    int cb_tid = -1, cont_tid = -1, task_tid = -1;
    int cb_runs = 0, resume_calls = 0, conts = 0, in_cont = 0, cont_done = 0;
    int work_by_suspender = 0;       // other tasks the suspending thread executed between the callback and the continuation
    bool cont_before_call = false, concurrent_cont = false;
};
static Susp S[MAXS];
static int g_P = 2, g_NS = 1, g_NW = 0, g_nest = 0;
static std::string g_container = "tg", g_modes = "f";
static std::vector<std::string> g_viol;
static int g_work_runs = 0;
static std::set<const void*> g_sps;          // every suspend_point_type seen
static std::map<const void*, std::string> g_spkind;
static tbb::task_group* g_tg = nullptr;
static bool g_outer_ok = true;

// gating for targeted schedules
static volatile bool g_published0 = false, g_resumed0 = false;
static volatile int g_leaver0 = -1;

static void viol(const std::string& s) { g_viol.push_back(s); }

static void see_sp(suspend_point_type* sp) { if (sp) g_sps.insert(sp); }
static std::set<arena*> g_seen_arenas;
static void see_current() {
    thread_data* td = governor::get_thread_data_if_initialized();
    if (td && td->my_task_dispatcher) see_sp(td->my_task_dispatcher->m_suspend_point);
    if (td && td->my_arena) g_seen_arenas.insert(td->my_arena);
}

static void do_resume(int i, suspend_point_type* sp) {
    S[i].resume_calls++;
    verif::note("resume_call", (uint64_t)sp, (uint64_t)i);
    tbb::task::resume(sp);
    verif::note("resume_ret", (uint64_t)sp, (uint64_t)i);
}

static void other_work(int j) {
    see_current();
    g_work_runs++;
    int me = verif::self();
    for (int i = 0; i < g_NS; ++i)
        if (S[i].cb_runs && !S[i].conts && S[i].cb_tid == me) S[i].work_by_suspender++;
    verif::note("work", (uint64_t)j, 0);
}

static void suspending_task(int i);

static void do_suspend(int i) {
    see_current();
    S[i].task_tid = verif::self();
    char mode = g_modes[i];
    tbb::task::suspend([i, mode](tbb::task::suspend_point sp) {
        see_sp(sp);
        S[i].cb_runs++;
        S[i].cb_tid = verif::self();
        verif::note("cb", (uint64_t)sp, (uint64_t)i);
        if (g_nest && i + 1 < g_NS && g_tg) g_tg->run([i] { suspending_task(i + 1); });
        if (mode == 's') {
            do_resume(i, sp);
        } else if (mode == 't') {
            g_tg->run([i, sp] { see_current(); do_resume(i, sp); });
        } else {
            if (i == 0) { g_leaver0 = verif::self(); g_published0 = true; }
            S[i].sp.store(sp);
            (void)S[i].sp.load();     // a scheduling point inside the callback after the suspend point became visible
        }
        verif::note("cb_end", (uint64_t)sp, (uint64_t)i);
    });
    // ---- the continuation ----
    if (!S[i].resume_calls) S[i].cont_before_call = true;
    if (++S[i].in_cont > 1) S[i].concurrent_cont = true;
    S[i].conts++;
    S[i].cont_tid = verif::self();
    see_current();
    verif::note("cont", (uint64_t)i, 0);
    --S[i].in_cont;
    S[i].cont_done = 1;
}

static void suspending_task(int i) {
    verif::note("task_begin", (uint64_t)i, 0);
    do_suspend(i);
    verif::note("task_end", (uint64_t)i, 0);
}

static void check_after_wait(const char* what) {
    for (int i = 0; i < g_NS; ++i) {
        if (g_container == "outer" && i == 0) continue;
        if (!S[i].cont_done) viol(std::string(what) + " returned while suspension " + std::to_string(i) + " had not continued (wait completed over a suspended task)");
    }
    verif::note("wait_done", 0, 0);
}

static void tg_scenario(int first) {
    tbb::task_group tg;
    g_tg = &tg;
    if (g_nest) {
        if (first < g_NS) tg.run([first] { suspending_task(first); });
    } else {
        for (int i = first; i < g_NS; ++i) tg.run([i] { suspending_task(i); });
    }
    for (int j = 0; j < g_NW; ++j) tg.run([j] { other_work(j); });
    tg.wait();
    check_after_wait("task_group::wait");
    g_tg = nullptr;
}

static void pfor_scenario() {
    int n = g_NS + g_NW;
    tbb::parallel_for(tbb::blocked_range<int>(0, n, 1), [](const tbb::blocked_range<int>& r) {
        for (int k = r.begin(); k < r.end(); ++k) {
            if (k < g_NS) suspending_task(k); else other_work(k - g_NS);
        }
    }, tbb::simple_partitioner{});
    check_after_wait("parallel_for");
}

static std::vector<arena*> g_arenas;

static void collect(arena* a) {
    if (!a) return;
    for (unsigned i = 0; i < a->my_num_slots; ++i) {
        task_dispatcher* d = a->my_slots[i].my_default_task_dispatcher;
        if (d && d->m_suspend_point) { g_sps.insert(d->m_suspend_point); g_spkind[d->m_suspend_point] = "slot " + std::to_string(g_arenas.size()) + "." + std::to_string(i); }
        verif::name_addr(&a->my_slots[i].my_is_occupied, "occ" + std::to_string(g_arenas.size()) + "." + std::to_string(i));
    }
    for (unsigned i = 0; i <= a->my_co_cache.my_max_index; ++i) {
        task_dispatcher* d = a->my_co_cache.my_co_scheduler_cache[i];
        if (d && d->m_suspend_point) g_sps.insert(d->m_suspend_point);
    }
    verif::name_addr(&a->my_resume_task_stream.population, "rts" + std::to_string(g_arenas.size()));
#if __TBB_PREVIEW_CRITICAL_TASKS
    verif::name_addr(&a->my_critical_task_stream.population, "cts" + std::to_string(g_arenas.size()));
#endif
    g_arenas.push_back(a);
}

static void main_body() {
    tbb::global_control gc(tbb::global_control::max_allowed_parallelism, g_P);
    tbb::task_scheduler_handle h{tbb::attach{}};
    if (g_container == "tg") {
        tg_scenario(0);
        collect(governor::get_thread_data()->my_arena);
    } else if (g_container == "pfor") {
        pfor_scenario();
        collect(governor::get_thread_data()->my_arena);
    } else if (g_container == "arena1") {
        tbb::task_arena ta(1);
        ta.execute([] { tg_scenario(0); });
        collect(ta.my_arena.load());
        thread_data* td = governor::get_thread_data_if_initialized();
        if (td) collect(td->my_arena);
    } else if (g_container == "outer") {
        int me = verif::self();
        do_suspend(0);
        if (verif::self() != me) { g_outer_ok = false; viol("code after an outermost suspend continued on a different thread than the one that called suspend"); }
        tg_scenario(1);
        collect(governor::get_thread_data()->my_arena);
    }
    tbb::finalize(h);
}

static void foreign_body(int k, int nf) {
    std::vector<int> mine;
    for (int i = 0; i < g_NS; ++i) if (g_modes[i] == 'f' && (i % nf) == k) mine.push_back(i);
    size_t left = mine.size();
    std::vector<bool> done(mine.size(), false);
    while (left) {
        bool progress = false;
        for (size_t j = 0; j < mine.size(); ++j) {
            if (done[j]) continue;
            suspend_point_type* sp = S[mine[j]].sp.load();
            if (sp) {
                do_resume(mine[j], sp);
                if (mine[j] == 0) g_resumed0 = true;
                done[j] = true; --left; progress = true;
            }
        }
        if (!progress) verif::pause_point();
    }
    governor::terminate_external_thread();
}

// random schedule, except that the foreign thread `F` is held back until the leaver of suspension 0 made `k` scheduling
// points after publishing the suspend point (the leaver runs alone during that time), then F runs alone until its
// resume() returned.
struct TargetedSchedule : verif::Schedule {
    verif::RandomSchedule rnd; int F; int k; int since = 0;
    TargetedSchedule(uint64_t seed, int F_, int k_) : rnd(seed), F(F_), k(k_) {}
    static bool has(const std::vector<int>& en, int t) { for (int x : en) if (x == t) return true; return false; }
    int pick(int cur, const std::vector<int>& en, size_t step) override {
        if (g_published0 && !g_resumed0) {
            if (since < k) {
                if (has(en, g_leaver0)) { ++since; return g_leaver0; }
            } else if (has(en, F)) return F;
        }
        if (!g_resumed0 && en.size() > 1) {
            std::vector<int> e2; for (int x : en) if (x != F) e2.push_back(x);
            return rnd.pick(cur == F ? -1 : cur, e2, step);
        }
        return rnd.pick(cur, en, step);
    }
};

static std::string rle(const std::vector<int>& s) {
    std::ostringstream o;
    for (size_t i = 0; i < s.size();) {
        size_t j = i; while (j < s.size() && s[j] == s[i]) ++j;
        if (i) o << ",";
        o << s[i] << "*" << (j - i);
        i = j;
    }
    return o.str();
}
static std::vector<int> unrle(const char* p) {
    std::vector<int> out;
    while (*p) {
        int t = (int)strtol(p, (char**)&p, 10);
        long n = 1;
        if (*p == '*') n = strtol(p + 1, (char**)&p, 10);
        for (long i = 0; i < n; ++i) out.push_back(t);
        if (*p == ',') ++p;
    }
    return out;
}

// a genuine fault (not the RDTSC trap of the virtual time-stamp counter): print where, then die with the signal
#include <execinfo.h>
static struct sigaction g_prev_segv;
static void crash_report(int sig, siginfo_t* si, void* uc_) {
    ucontext_t* uc = static_cast<ucontext_t*>(uc_);
    const unsigned char* ip = reinterpret_cast<const unsigned char*>(uc->uc_mcontext.gregs[REG_RIP]);
    if (sig == SIGSEGV && si->si_code != SEGV_MAPERR && si->si_code != SEGV_ACCERR && ip && ip[0] == 0x0F && (ip[1] == 0x31 || ip[1] == 0x01)) {
        g_prev_segv.sa_sigaction(sig, si, uc_);
        return;
    }
    static volatile int in_crash = 0;
    if (in_crash++) _exit(128 + sig);      // a fault while reporting (corrupted stack): just die
    char buf[160];
    int n = snprintf(buf, sizeof buf, "crash: signal %d code %d addr %p rip %p controlled-thread %d\n", sig, si->si_code, si->si_addr, (void*)ip, verif::self());
    if (write(2, buf, n) < 0) {}
    void* bt[40];
    int k = backtrace(bt, 40);
    backtrace_symbols_fd(bt, k, 2);
    signal(sig, SIG_DFL);
    raise(sig);
}

int main(int argc, char** argv) {
    verif::init_determinism(argc, argv);
    {
        struct sigaction sa; memset(&sa, 0, sizeof sa);
        sa.sa_sigaction = crash_report; sa.sa_flags = SA_SIGINFO | SA_NODEFER;
        sigaction(SIGSEGV, &sa, &g_prev_segv);
        sigaction(SIGBUS, &sa, nullptr);
    }
    if (argc < 7) { fprintf(stderr, "usage: sr <container> <P> <modes> <nwork> <nest> rand <seed> | target <k> <seed> | replay <rle>\n"); return 2; }
    g_container = argv[1]; g_P = atoi(argv[2]); g_modes = argv[3]; g_NW = atoi(argv[4]); g_nest = atoi(argv[5]);
    g_NS = (int)g_modes.size();
    if (g_NS < 1 || g_NS > MAXS || g_P < 1) return 2;
    std::string mode = argv[6];
    int nforeign = 0;
    for (char c : g_modes) if (c == 'f') nforeign = nforeign < 2 ? nforeign + 1 : 2;
    std::vector<std::function<void()>> bodies;
    bodies.push_back(main_body);
    for (int k = 0; k < nforeign; ++k) bodies.push_back([k, nforeign] { foreign_body(k, nforeign); });

    verif::Result r;
    if (mode == "rand" && argc >= 8) {
        verif::RandomSchedule rs(strtoull(argv[7], nullptr, 10));
        r = verif::run(bodies, rs, MAX_STEPS);
    } else if (mode == "target" && argc >= 9) {
        TargetedSchedule ts(strtoull(argv[8], nullptr, 10), 1, atoi(argv[7]));
        r = verif::run(bodies, ts, MAX_STEPS);
    } else if (mode == "replay" && argc >= 8) {
        verif::ReplaySchedule rp; rp.tids = unrle(argv[7]);
        r = verif::run(bodies, rp, MAX_STEPS);
    } else return 2;

    // after a deadlock the main body never reached collect(); the arenas are still alive (their threads are stuck)
    if (r.deadlock && g_arenas.empty()) for (arena* a : g_seen_arenas) collect(a);
    // names (the symbol table is only used for printing, so naming after the run covers the whole log)
    int k = 0;
    std::map<const void*, std::string> spname;
    for (const void* p : g_sps) {
        const suspend_point_type* sp = static_cast<const suspend_point_type*>(p);
        std::string n = "sp" + std::to_string(k++);
        spname[p] = n;
        verif::name_addr(&sp->m_stack_state, n + ".ss");
        verif::name_addr(&sp->m_is_owner_recalled, n + ".rc");
        verif::name_value((uint64_t)p, n);
    }
    for (auto& kv : spname) printf("sp %s %s\n", kv.second.c_str(), g_spkind.count(kv.first) ? g_spkind[kv.first].c_str() : "co");
    for (auto& e : r.log) {
        if (e.kind == verif::K_NOTE) { printf("e %s\n", verif::format_event(e).c_str()); continue; }
        if (!e.addr) continue;
        std::string n = verif::addr_name(e.addr);
        if (n.compare(0, 4, "anon") != 0) printf("e %s\n", verif::format_event(e).c_str());
    }
    // property monitors (implementation side, independent of the model)
    if (r.deadlock && r.steps >= MAX_STEPS) {
        viol("livelock: the run did not finish within " + std::to_string(MAX_STEPS) + " scheduling points");
    } else if (r.deadlock) {
        std::ostringstream o; o << "deadlock: every live thread is parked (a suspended task was never resumed / lost hand-off); parked:";
        for (int t : r.parked) o << " " << t;
        viol(o.str());
    }
    for (int i = 0; i < g_NS; ++i) {
        std::string si = std::to_string(i);
        if (r.deadlock && !S[i].cb_runs) continue;
        if (S[i].cb_runs != 1) viol("suspension " + si + ": suspend callback ran " + std::to_string(S[i].cb_runs) + " times");
        if (S[i].conts != 1) viol("suspension " + si + ": continuation ran " + std::to_string(S[i].conts) + " times (resume calls: " + std::to_string(S[i].resume_calls) + ")");
        if (S[i].cont_before_call) viol("suspension " + si + ": continued before resume() was called");
        if (S[i].concurrent_cont) viol("suspension " + si + ": continuation ran on two threads at once");
        if (S[i].resume_calls != 1 && !r.deadlock) viol("harness: resume called " + std::to_string(S[i].resume_calls) + " times for suspension " + si);
    }
    printf("mon %s\n", g_viol.empty() ? "ok" : g_viol[0].c_str());
    for (size_t i = 1; i < g_viol.size(); ++i) printf("mon+ %s\n", g_viol[i].c_str());
    for (int i = 0; i < g_NS; ++i)
        printf("stat susp %d cb_tid %d cont_tid %d work_by_suspender %d\n", i, S[i].cb_tid, S[i].cont_tid, S[i].work_by_suspender);
    printf("stat steps %zu work_runs %d nsps %zu deadlock %d\n", r.steps, g_work_runs, g_sps.size(), (int)r.deadlock);
    printf("sched %s\n", rle(r.schedule).c_str());
    fflush(stdout);
    if (r.deadlock) _exit(3);
    return g_viol.empty() ? 0 : 1;
}
