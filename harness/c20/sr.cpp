// C20 harness: tbb::task::suspend / tbb::task::resume on the WHOLE instrumented runtime under E-SHIM, with real
// coroutine switches (ucontext).  One run per process (runs are bit-for-bit reproducible from the schedule).
//
//   sr <container> <P> <modes> <nwork> <nest> rand   <seed>
//   sr <container> <P> <modes> <nwork> <nest> target <k> <seed>     gate the foreign resumer of suspension 0: it runs its whole
//                                                            resume() after the suspending thread made k scheduling
//                                                            points since its callback published the suspend point
//   sr <container> <P> <modes> <nwork> <nest> replay <rle-schedule>  (tid*count,tid*count,...)
//
//   container  tg      task_group::run + wait on the main thread
//              pfor    parallel_for over iterations (simple_partitioner, grain 1); iteration i < NS suspends
//              arena1  task_arena(1).execute( the tg scenario )            (an arena with a single slot)
//              outer   the main thread calls tbb::task::suspend outside of any task (its own stack is suspended at the
//                      outermost level; if a worker resumes it the owner is recalled), then the tg scenario
//              nwait   the suspending tasks are in an INNER task_group; a task of the outer group, spawned before them,
//                      waits for the inner group (nested dispatch loop: no enqueued tasks, and with nest bit 1 inside
//                      this_task_arena::isolate) — with P = 1 it runs on a coroutine while the tasks it waits for are
//                      suspended, so only that nested loop can pick up their resume tasks
//   P          max_allowed_parallelism (1: no workers at all)
//   modes      one letter per suspension:  f = resume(sp) from a foreign controlled thread, t = from a task spawned by the
//              callback (task_group containers only), s = from inside the suspend callback itself,
//              p = from a task spawned into the task_group BEFORE suspending (outside of any isolate region),
//              q = from a task enqueued into the arena before suspending,
//              i = from a task spawned INSIDE the isolate region before suspending (isolated work; implies isolate),
//              w = from a foreign thread that first waits until a task spawned before the suspension ("prework", not
//                  isolated) has been executed: the liveness clause "the thread that suspended keeps executing other work"
//              c = like f, but the foreign thread first CANCELS the task_group the suspended task belongs to (task_group containers): the
//                  continuation must still run exactly once and the wait must return (a suspended task is not skipped by cancellation)
//              UPPER CASE letter: the suspension is made inside this_task_arena::isolate
//   nwork      number of additional plain tasks ("other work")
//   nest       bit 2 (value 4): the main thread calls the blocking tbb::finalize without waiting for the foreign resumers
//              bit 0: the callback of suspension i spawns the task of suspension i+1 (nested suspensions on coroutine
//              stacks; with upper-case letters: nested isolate + nested suspend)
//   sr ... guide <seed> <spec>      state-guided schedule (see GuidedSchedule below), e.g. to drive the suspending thread
//              through its idle back-off into out_of_work() and the sleep, and to place the foreign resume() at a chosen
//              scheduling point of that path
//
// Output: the events on the named variables (m_stack_state / m_is_owner_recalled of every suspend point, the resume and
// critical stream population words, the arena slots' occupancy flags, the pool state of every arena, the epoch and
// wait-set size of the waiting-threads monitor; poolL / rtsL / ctsL = the arena of the thread that made suspension 0)
// and the harness notes, in execution order (environment C20_ALL_EVENTS=1: also the unnamed accesses, prefixed x); then
//   sp <name> <co|slot i>, mon <ok|text>, stat ..., sched <rle>
// exit code: 0 ok, 1 a property monitor failed, 3 deadlock.
#include "oneapi/tbb/task_group.h"
#include "oneapi/tbb/task.h"
#include "oneapi/tbb/task_arena.h"
#include "oneapi/tbb/global_control.h"
#include "oneapi/tbb/parallel_for.h"
#include "tbb/governor.h"
#include "tbb/arena.h"
#include "tbb/thread_data.h"
#include "tbb/task_dispatcher.h"
#include "tbb/thread_control_monitor.h"
#include <cstdio>
#include <cstring>
#include <map>
#include <set>
#include <sstream>
#include <string>
#include <vector>

using namespace tbb::detail::r1;

static const int MAXS = 8;
static const size_t MAX_STEPS = 300000;   // a normal run takes 2 000 - 8 000 scheduling points, a detected deadlock < 40 000
struct Susp {
    std::atomic<suspend_point_type*> sp{nullptr};   // published to the foreign resumer
    // ghost / monitor state (plain: only the baton holder runs)
    int cb_tid = -1, cont_tid = -1, task_tid = -1;
    int cb_runs = 0, resume_calls = 0, conts = 0, in_cont = 0, cont_done = 0;
    bool in_group = false, task_done = false;   // the suspension happens inside a task of the task_group g_tg; that task's body has returned
    int work_by_suspender = 0;       // other tasks the suspending thread executed between the callback and the continuation
    bool cont_before_call = false, concurrent_cont = false;
    // liveness / dispatch-context observations
    std::atomic<int> prework_done{0};
    int prework_tid = -1; bool prework_during = false;   // who ran the pre-spawned task, and was the task suspended then
    thread_data* td = nullptr;             // the suspending thread
    task_dispatcher* disp = nullptr;       // the dispatcher that was suspended
    long susp_iso = 0;                     // its isolation tag when suspend was called
    bool co_seen = false; long co_iso_first = 0, co_iso_max = 0;   // isolation of the dispatcher the thread moved onto
    const void* wscount = nullptr;         // my_waitset.count of the arena's waiting-threads monitor
    const void *pooladdr = nullptr, *rtsaddr = nullptr, *ctsaddr = nullptr;   // the suspending thread's arena: pool state, stream populations
};
static Susp S[MAXS];
static int g_P = 2, g_NS = 1, g_NW = 0;
static std::string g_container = "tg", g_modes = "f";
static std::vector<std::string> g_viol;
static int g_work_runs = 0;
static std::set<const void*> g_sps;          // every suspend_point_type seen
static std::map<const void*, std::string> g_spkind;
static tbb::task_group* g_tg = nullptr;
static bool g_outer_ok = true;
static int g_flags = 0;
static std::atomic<int> g_foreign_done{0};   // foreign resumer threads that returned from all their resume() calls
static int g_nforeign_bodies = 0;

static char lower(char c) { return (c >= 'A' && c <= 'Z') ? char(c - 'A' + 'a') : c; }
static bool isolated_mode(char c) { return (c >= 'A' && c <= 'Z') || c == 'i'; }
static bool foreign_mode(char c) { c = lower(c); return c == 'f' || c == 'w' || c == 'c'; }
static bool has_cancel_mode() { for (char c : g_modes) if (lower(c) == 'c') return true; return false; }

// gating for targeted schedules
static volatile bool g_published0 = false, g_resumed0 = false;
static volatile int g_leaver0 = -1;

static void viol(const std::string& s) { g_viol.push_back(s); }

// ---- white-box sampler (no source hooks): at every scheduling point the thread that just ran is inspected (plain reads
// under the baton) and the CHANGES since the previous scheduling point are written into the event log as notes, at the exact
// position: which dispatcher the thread is attached to (`att`), its my_post_resume_action / argument (`actset` / `actclr`),
// the ring of its arena's co-cache (`rpop` / `rpush` with the replaced = destroyed entry), newly seen dispatchers (`newd`),
// the `outermost` property of the current dispatcher (`lvl`).  Dispatchers get generation ids in order of first sight
// (a destroyed dispatcher's address may be reused by a later one: it then gets a new id); the state words of their suspend
// points are named `D<id>.ss` / `D<id>.rc` from the position of the `reg` note on.
struct Reg { const void* addr; uint64_t val; std::string name; bool is_val; };
static std::vector<Reg> g_regs;
struct DInfo { task_dispatcher* d; suspend_point_type* sp; std::string kind; bool had_sp; };
static std::vector<DInfo> g_dinfo;
static std::map<task_dispatcher*, int> g_did;                 // live dispatcher -> id
static std::map<const suspend_point_type*, int> g_spid;       // live suspend point -> dispatcher id
static std::vector<arena*> g_arena_ix;                        // arena index = position
struct RingSnap { std::vector<task_dispatcher*> buf; unsigned head = 0; bool init = false; };
static std::map<arena*, RingSnap> g_ring;
struct ThSnap { task_dispatcher* d = nullptr; int act = 4; void* arg = nullptr; int outer = -1; };
static std::map<int, ThSnap> g_thsnap;
static std::set<arena*> g_dead_arenas;
static std::vector<arena*> g_watch;          // arenas whose co-cache is followed: alive from watch_arena() until their free_arena
static void watch_arena(arena* a) { if (a) { for (arena* x : g_watch) if (x == a) return; g_watch.push_back(a); } }
static int g_evictions = 0, g_ring_pops = 0, g_ring_pushes = 0, g_creates = 0, g_switches = 0;

static void add_reg(const void* addr, uint64_t val, const std::string& name, bool is_val) {
    g_regs.push_back(Reg{addr, val, name, is_val});
    verif::note("reg", g_regs.size() - 1, 0);
}
static int arena_index(arena* a) {
    for (size_t i = 0; i < g_arena_ix.size(); ++i) if (g_arena_ix[i] == a) return (int)i;
    g_arena_ix.push_back(a);
    // the streams a resume task is published into (named from now on: a temporary arena is gone before the run ends)
    std::string ix = std::to_string(g_arena_ix.size() - 1);
    add_reg(&a->my_resume_task_stream.population, 0, "rts" + ix, false);
#if __TBB_PREVIEW_CRITICAL_TASKS
    add_reg(&a->my_critical_task_stream.population, 0, "cts" + ix, false);
#endif
    return (int)g_arena_ix.size() - 1;
}
static void forget_disp(task_dispatcher* d);
static int disp_id(task_dispatcher* d, arena* a) {
    auto it = g_did.find(d);
    // a dispatcher's suspend point never changes while it lives: a different one at the same address means that the old
    // dispatcher was destroyed (with an arena that is not followed) and the memory is reused by a new one
    if (it != g_did.end() && g_dinfo[it->second].sp && d->m_suspend_point != g_dinfo[it->second].sp) { forget_disp(d); it = g_did.end(); }
    int id;
    if (it == g_did.end()) {
        id = (int)g_dinfo.size();
        std::string kind = "co " + std::to_string(a ? arena_index(a) : -1);
        if (a) for (unsigned i = 0; i < a->my_num_slots; ++i)
            if (a->my_slots[i].my_default_task_dispatcher == d) kind = "slot " + std::to_string(arena_index(a)) + "." + std::to_string(i);
        g_dinfo.push_back(DInfo{d, nullptr, kind, false});
        g_did[d] = id;
        add_reg(nullptr, (uint64_t)d, "D" + std::to_string(id), true);
        verif::note("newd", (uint64_t)id, kind[0] == 'c' ? 1 : 0);
    } else id = it->second;
    DInfo& x = g_dinfo[id];
    if (d->m_suspend_point && x.sp != d->m_suspend_point) {
        x.sp = d->m_suspend_point; x.had_sp = true;
        g_spid[x.sp] = id;
        std::string n = "D" + std::to_string(id);
        add_reg(&x.sp->m_stack_state, 0, n + ".ss", false);
        add_reg(&x.sp->m_is_owner_recalled, 0, n + ".rc", false);
        add_reg(nullptr, (uint64_t)x.sp, n, true);
    }
    return id;
}
static void forget_disp(task_dispatcher* d) {
    auto it = g_did.find(d);
    if (it == g_did.end()) return;
    if (g_dinfo[it->second].sp) g_spid.erase(g_dinfo[it->second].sp);
    g_did.erase(it);
}
// the co-cache ring of a watched arena: at most one operation happened since the previous scheduling point (every operation
// is bracketed by the lock and the unlock of my_co_cache_mutex, both scheduling points).  Every thread looks at every watched
// arena, so the operations of a thread that is not attached to the arena (free_arena by the last leaver) are seen too.
static void sample_ring(arena* a) {
    // -- the co-cache ring of the thread's arena: at most one operation happened since the previous scheduling point
    {
        arena_co_cache& cc = a->my_co_cache;
        RingSnap& rs = g_ring[a];
        unsigned cap = cc.my_max_index + 1;
        if (!rs.init) { rs.buf.assign(cc.my_co_scheduler_cache, cc.my_co_scheduler_cache + cap); rs.head = cc.my_head; rs.init = true;
                        verif::note("rcap", (uint64_t)arena_index(a), cap); }
        else {
            std::vector<task_dispatcher*> now(cc.my_co_scheduler_cache, cc.my_co_scheduler_cache + cap);
            if (now != rs.buf || cc.my_head != rs.head) {
                unsigned oh = rs.head, prev = oh == 0 ? cap - 1 : oh - 1, next = oh + 1 == cap ? 0 : oh + 1;
                std::vector<task_dispatcher*> exp = rs.buf;
                if (cc.my_head == prev && rs.buf[prev]) {
                    task_dispatcher* got = rs.buf[prev];
                    verif::note("rpop", (uint64_t)disp_id(got, a), now[prev] == nullptr ? 1 : 0);   // b: was the slot cleared
                    exp[prev] = now[prev];
                    ++g_ring_pops;
                } else if (cc.my_head == next && now[oh]) {
                    int nid = disp_id(now[oh], a);
                    long ev = -1;
                    if (rs.buf[oh]) { ev = disp_id(rs.buf[oh], a); ++g_evictions; }
                    verif::note("rpush", (uint64_t)nid, (uint64_t)ev);
                    if (rs.buf[oh]) forget_disp(rs.buf[oh]);
                    exp[oh] = now[oh];
                    ++g_ring_pushes;
                }
                if (exp != now) { verif::note("ringerr", (uint64_t)arena_index(a), 0); viol("co-cache ring changed in a way that is neither one push nor one pop"); }
                rs.buf = now; rs.head = cc.my_head;
            }
            // free_arena: my_references is 0 and cleanup() pops until the ring is empty; the sample taken inside the last
            // (empty) pop — lock held, nothing to return — is the last look at this arena: its memory is freed next
            {
                unsigned prev = cc.my_head == 0 ? cap - 1 : cc.my_head - 1;
                bool locked = false; memcpy(&locked, (const void*)&cc.my_co_cache_mutex, sizeof(bool));
                unsigned refs_now = 1; memcpy(&refs_now, (const void*)&a->my_references, sizeof refs_now);      // raw read: no scheduling point inside pick()
                if (refs_now == 0 && locked && cc.my_co_scheduler_cache[prev] == nullptr) {
                    verif::note("arena_dead", (uint64_t)arena_index(a), 0);
                    g_dead_arenas.insert(a);
                    g_ring.erase(a);
                    return;
                }
            }
            // monitor: no dispatcher twice in the ring
            for (size_t i = 0; i < now.size(); ++i) for (size_t j = i + 1; j < now.size(); ++j)
                if (now[i] && now[i] == now[j]) viol("the same dispatcher sits in two slots of the co-cache");
        }
    }
}
static void sample_whitebox(int tid) {
    if (tid < 0) return;
    // (also for threads that are unknown to the library: a foreign thread that drops the last reference runs free_arena)
    for (arena* w : g_watch) if (!g_dead_arenas.count(w)) sample_ring(w);
    thread_data* td = governor::get_thread_data_if_initialized();
    if (!td) return;
    arena* a = td->my_arena_slot ? td->my_arena : nullptr;      // attached to a slot: the arena is alive ...
    if (a && g_dead_arenas.count(a)) a = nullptr;               // ... unless it has just been destroyed (free_arena)
    ThSnap& ts = g_thsnap[tid];
    // -- the post-resume action
    int act = (int)td->my_post_resume_action;
    void* arg = td->my_post_resume_arg;
    if (act != ts.act || arg != ts.arg) {
        if (act == (int)task_dispatcher::post_resume_action::none) verif::note("actclr", (uint64_t)ts.act, 0);
        else {
            long argid = -1;
            if (act == (int)task_dispatcher::post_resume_action::cleanup) argid = disp_id(static_cast<task_dispatcher*>(arg), a);
            else if (act == (int)task_dispatcher::post_resume_action::notify)
                argid = disp_id(&static_cast<suspend_point_type*>(arg)->m_resume_task.m_target, a); else if (act == (int)task_dispatcher::post_resume_action::register_waiter) {
                auto* node = static_cast<thread_control_monitor::resume_context*>(arg);
                argid = disp_id(node->my_curr_dispatcher, a);
                add_reg(&node->my_notify_calls, 0, "wn" + std::to_string(argid), false);
            }
            verif::note("actset", (uint64_t)act, (uint64_t)argid);
        }
        ts.act = act; ts.arg = arg;
    }
    // -- suspend points are created lazily (get_suspend_point) for the current dispatcher, the one that is being left and the
    // slot's default dispatcher: look at all three at every scheduling point, so that a suspend point is registered before
    // the first access to its words
    if (a && td->my_arena_slot && td->my_arena_slot->my_default_task_dispatcher) disp_id(td->my_arena_slot->my_default_task_dispatcher, a);
    if (ts.d && g_did.count(ts.d)) disp_id(ts.d, a);
    // -- which dispatcher is the thread attached to
    task_dispatcher* d = td->my_task_dispatcher;
    if (d && d != ts.d) {
        int id = disp_id(d, a);
        int outer = d->m_properties.outermost ? 1 : 0;
        verif::note("att", (uint64_t)id, (uint64_t)outer);
        ++g_switches;
        ts.d = d; ts.outer = outer;
        // monitor: a dispatcher a thread runs on is not in a co-cache
        for (auto& kv : g_ring) for (task_dispatcher* x : kv.second.buf)
            if (x == d) viol("a thread is attached to a dispatcher that sits in the co-cache (dispatcher used while cached)");
    } else if (d) {
        disp_id(d, a);      // a suspend point may have been created meanwhile
        int outer = d->m_properties.outermost ? 1 : 0;
        if (outer != ts.outer) { verif::note("lvl", (uint64_t)g_did[d], (uint64_t)outer); ts.outer = outer; }
    }
}
static void see_sp(suspend_point_type* sp) { if (sp) { g_sps.insert(sp); disp_id(&sp->m_resume_task.m_target, sp->m_arena); } }
static void see_current() {
    thread_data* td = governor::get_thread_data_if_initialized();
    if (td && td->my_task_dispatcher && td->my_arena_slot) disp_id(td->my_task_dispatcher, td->my_arena);
}
// monitor, called where the harness's own code starts to run on a thread (a task body, a suspend callback): an action set
// before the last switch must have been executed and cleared by now
static void check_no_pending_action(const char* where) {
    thread_data* td = governor::get_thread_data_if_initialized();
    if (td && td->my_post_resume_action != task_dispatcher::post_resume_action::none)
        viol(std::string("a post-resume action is still pending when the thread runs ") + where + " (action skipped)");
}

static void see_sp(suspend_point_type* sp);
static void see_current();

static void do_resume(int i, suspend_point_type* sp) {
    S[i].resume_calls++;
    verif::note("resume_call", (uint64_t)sp, (uint64_t)i);
    tbb::task::resume(sp);
    verif::note("resume_ret", (uint64_t)sp, (uint64_t)i);
}

static void other_work(int j) {
    see_current();
    check_no_pending_action("a task");
    g_work_runs++;
    int me = verif::self();
    for (int i = 0; i < g_NS; ++i)
        if (S[i].cb_runs && !S[i].conts && S[i].cb_tid == me) S[i].work_by_suspender++;
    verif::note("work", (uint64_t)j, 0);
}

static void suspending_task(int i);

// a task spawned / enqueued BEFORE suspension i starts; `resumer`: it is the one that calls resume
static void prework(int i, bool resumer) {
    see_current();
    check_no_pending_action("a task");
    int me = verif::self();
    S[i].prework_tid = me;
    S[i].prework_during = S[i].cb_runs && !S[i].conts;
    for (int k = 0; k < g_NS; ++k)
        if (S[k].cb_runs && !S[k].conts && S[k].cb_tid == me) S[k].work_by_suspender++;
    verif::note("prework", (uint64_t)i, (uint64_t)resumer);
    if (resumer) {
        suspend_point_type* sp;
        while (!(sp = S[i].sp.load())) verif::pause_point();     // P > 1: a thief may run this before the callback
        do_resume(i, sp);
    }
    S[i].prework_done.store(1);
}

static void do_suspend(int i) {
    see_current();
    check_no_pending_action("the code that calls suspend");
    S[i].task_tid = verif::self();
    char mode = lower(g_modes[i]);
    bool iso = isolated_mode(g_modes[i]);
    // work that exists before the suspension starts (not isolated: spawned before the isolate region is entered)
    if (mode == 'p' && g_tg) g_tg->run([i] { prework(i, true); });
    if (mode == 'w') { if (g_tg) g_tg->run([i] { prework(i, false); }); else S[i].prework_done.store(1); }
    if (mode == 'q') { tbb::task_arena a{tbb::task_arena::attach{}}; a.enqueue([i] { prework(i, true); }); }
    auto body = [i, mode] {
        if (mode == 'i' && g_tg) g_tg->run([i] { prework(i, true); });      // isolated work (carries the region's tag)
        tbb::task::suspend([i, mode](tbb::task::suspend_point sp) {
            see_sp(sp);
            check_no_pending_action("a suspend callback");
            S[i].cb_runs++;
            S[i].cb_tid = verif::self();
            S[i].td = governor::get_thread_data();
            S[i].disp = S[i].td->my_task_dispatcher;
            S[i].susp_iso = (long)S[i].disp->m_execute_data_ext.isolation;
            S[i].wscount = (const void*)&S[i].td->my_arena->get_waiting_threads_monitor().my_waitset.count;
            S[i].pooladdr = (const void*)&S[i].td->my_arena->my_pool_state.my_state;
            S[i].rtsaddr = (const void*)&S[i].td->my_arena->my_resume_task_stream.population;
#if __TBB_PREVIEW_CRITICAL_TASKS
            S[i].ctsaddr = (const void*)&S[i].td->my_arena->my_critical_task_stream.population;
#endif
            verif::note("cb", (uint64_t)sp, (uint64_t)i);
            if ((g_flags & 1) && i + 1 < g_NS && g_tg) g_tg->run([i] { suspending_task(i + 1); });
            if (mode == 's') {
                do_resume(i, sp);
            } else if (mode == 't') {
                g_tg->run([i, sp] { see_current(); do_resume(i, sp); });
            } else {
                // (modes f, w, c, p, q, i, x: somebody else calls resume later)
                if (i == 0) { g_leaver0 = verif::self(); g_published0 = true; }
                S[i].sp.store(sp);
                (void)S[i].sp.load();     // a scheduling point inside the callback after the suspend point became visible
            }
            verif::note("cb_end", (uint64_t)sp, (uint64_t)i);
        });
    };
    if (iso) tbb::this_task_arena::isolate(body); else body();
    // ---- the continuation ----
    if (!S[i].resume_calls) S[i].cont_before_call = true;
    if (++S[i].in_cont > 1) S[i].concurrent_cont = true;
    S[i].conts++;
    S[i].cont_tid = verif::self();
    see_current();
    check_no_pending_action("the continuation of a suspended task");
    verif::note("cont", (uint64_t)i, 0);
    --S[i].in_cont;
    S[i].cont_done = 1;
    // mode x of the next suspension: it is resumed by THIS task, which itself was suspended and resumed
    if (i + 1 < g_NS && lower(g_modes[i + 1]) == 'x') {
        suspend_point_type* sp;
        while (!(sp = S[i + 1].sp.load())) verif::pause_point();
        do_resume(i + 1, sp);
    }
}

static void suspending_task(int i) {
    S[i].in_group = g_tg != nullptr && g_container != "pfor" && g_container != "npfor";
    verif::note("task_begin", (uint64_t)i, 0);
    if (g_flags & 16) {
        // the suspension happens inside task_arena::execute of ANOTHER arena (nested through a different arena)
        tbb::task_arena inner(2);
        inner.execute([i] { do_suspend(i); });
    } else do_suspend(i);
    S[i].task_done = true;
    verif::note("task_end", (uint64_t)i, 0);
}
// nest bit 3: ONE task performs all the suspensions, one after the other (repeated suspension of one task)
static void chain_task(int first) {
    for (int i = first; i < g_NS; ++i) suspending_task(i);
}

static void check_after_wait(const char* what) {
    for (int i = 0; i < g_NS; ++i) {
        if ((g_container == "outer" || g_container == "exec") && i == 0) continue;
        if (has_cancel_mode() && !S[i].cb_runs) continue;     // the group was cancelled before this task started: legitimately skipped
        if (!S[i].cont_done) viol(std::string(what) + " returned while suspension " + std::to_string(i) + " had not continued (wait completed over a suspended task)");
    }
    verif::note("wait_done", 0, 0);
}

static void tg_scenario(int first, bool outer0 = false) {
    tbb::task_group tg;
    g_tg = &tg;
    if (outer0) {
        // the calling thread suspends outside of any task (its own stack is suspended at the outermost level)
        int me = verif::self();
        do_suspend(0);
        if (verif::self() != me) { g_outer_ok = false; viol("code after an outermost suspend continued on a different thread than the one that called suspend"); }
    }
    if (g_flags & 8) {
        if (first < g_NS) tg.run([first] { chain_task(first); });
    } else if (g_flags & 1) {
        // nested: the callback of suspension i spawns the task of suspension i+1 (the outermost suspension did that already)
        if (first < g_NS && !outer0) tg.run([first] { suspending_task(first); });
    } else {
        for (int i = first; i < g_NS; ++i) tg.run([i] { suspending_task(i); });
    }
    for (int j = 0; j < g_NW; ++j) tg.run([j] { other_work(j); });
    int waiter = verif::self();
    tg.wait();
    if (verif::self() != waiter) viol("task_group::wait returned on a different thread than the one that called it (wait completed on the wrong stack)");
    check_after_wait("task_group::wait");
    g_tg = nullptr;
}

static void nwait_scenario() {
    tbb::task_group tg, inner;
    g_tg = &inner;
    tg.run([&inner] {
        see_current();
        verif::note("nested_wait_begin", 0, 0);
        int waiter = verif::self();
        if (g_flags & 2) tbb::this_task_arena::isolate([&inner] { inner.wait(); }); else inner.wait();
        (void)waiter;     // (a nested wait lives in a task: the stack it is on may legitimately be continued by another thread)
        for (int i = 0; i < g_NS; ++i)
            if (!S[i].cont_done) viol("nested task_group::wait returned while suspension " + std::to_string(i) + " had not continued (wait completed over a suspended task)");
        verif::note("nested_wait_end", 0, 0);
    });
    for (int i = 0; i < g_NS; ++i) inner.run([i] { suspending_task(i); });
    for (int j = 0; j < g_NW; ++j) tg.run([j] { other_work(j); });
    tg.wait();
    inner.wait();
    check_after_wait("task_group::wait");
    g_tg = nullptr;
}

static void pfor_inner() {
    int n = g_NS + g_NW;
    tbb::parallel_for(tbb::blocked_range<int>(0, n, 1), [](const tbb::blocked_range<int>& r) {
        for (int k = r.begin(); k < r.end(); ++k) {
            if (g_flags & 8) { if (k == 0) chain_task(0); else if (k >= g_NS) other_work(k - g_NS); }
            else if (k < g_NS) suspending_task(k); else other_work(k - g_NS);
        }
    }, tbb::simple_partitioner{});
}
static void pfor_scenario() {
    int waiter = verif::self();
    pfor_inner();
    if (verif::self() != waiter) viol("parallel_for returned on a different thread than the one that called it (wait completed on the wrong stack)");
    check_after_wait("parallel_for");
}
// a parallel_for whose iteration 0 runs the inner parallel_for with the suspensions (nested parallel algorithms)
static void npfor_scenario() {
    tbb::parallel_for(tbb::blocked_range<int>(0, 2, 1), [](const tbb::blocked_range<int>& r) {
        for (int k = r.begin(); k < r.end(); ++k) {
            if (k == 0) {
                pfor_inner();
                for (int i = 0; i < g_NS; ++i)
                    if (!S[i].cont_done) viol("inner parallel_for returned while suspension " + std::to_string(i) + " had not continued (wait completed over a suspended task)");
            } else other_work(100);
        }
    }, tbb::simple_partitioner{});
    check_after_wait("parallel_for");
}

// ---- a CRITICAL task that suspends (container crit): submitted white-box with r1::submit(..., as_critical = 1); while it runs
// its stack has m_properties.critical_task_allowed == false; the resume task of such a stack must be published into the
// critical stream, and the state must be the same when the task continues
struct CritTask : tbb::detail::d1::task {
    int i = 0; std::atomic<int> done{0};
    tbb::detail::d1::task* execute(tbb::detail::d1::execution_data&) override {
        see_current();
        thread_data* td = governor::get_thread_data();
        task_dispatcher* d = td->my_task_dispatcher;
        bool before = d->m_properties.critical_task_allowed;
        if (before) viol("a critical task runs on a stack whose critical_task_allowed is true");
        verif::note("crit_begin", (uint64_t)i, before ? 0 : 1);
        suspending_task(i);
        bool after = d->m_properties.critical_task_allowed;
        if (after != before) viol("the critical-task state of the stack changed across the suspension of its task (critical state not kept)");
        if (governor::get_thread_data()->my_task_dispatcher != d) viol("the task continued on another dispatcher than the one it was suspended on");
        verif::note("crit_end", (uint64_t)i, after ? 0 : 1);
        done.store(1);
        return nullptr;
    }
    tbb::detail::d1::task* cancel(tbb::detail::d1::execution_data&) override { done.store(1); return nullptr; }
};
static CritTask g_crit[MAXS];
static void crit_scenario() {
    tbb::task_group tg;
    tbb::task_group_context cctx;
    arena* a = governor::get_thread_data()->my_arena;
    verif::note("submit_begin", 0, 0);
    for (int i = 0; i < g_NS; ++i) { g_crit[i].i = i; tbb::detail::r1::submit(g_crit[i], cctx, a, /*as_critical*/ 1); }
    verif::note("submit_end", 0, 0);
    for (int j = 0; j < g_NW; ++j) tg.run([j] { other_work(j); });
    // every dispatch loop looks at the critical stream first
    for (;;) {
        bool all = true;
        for (int i = 0; i < g_NS; ++i) if (!g_crit[i].done.load()) all = false;
        if (all) break;
        tg.run([] {});
        tg.wait();
        verif::pause_point();
    }
    tg.wait();
    check_after_wait("the wait for the critical tasks");
}

static std::vector<arena*> g_arenas;

static void collect(arena* a) {
    if (!a) return;
    for (arena* x : g_arenas) if (x == a) return;
    std::string ix = std::to_string(arena_index(a));
    for (unsigned i = 0; i < a->my_num_slots; ++i)
        verif::name_addr(&a->my_slots[i].my_is_occupied, "occ" + ix + "." + std::to_string(i));
    verif::name_addr(&a->my_co_cache.my_co_cache_mutex, "cmx" + ix);
    verif::name_addr(&a->my_references, "refs" + ix);
    verif::name_addr(&a->my_resume_task_stream.population, "rts" + ix);
    // the words of the resume-versus-sleep hand-shake (Model/C20Sleep.lean): the arena's pool state, and the epoch and
    // wait-set size of the waiting-threads monitor (one monitor per threading_control, shared by all arenas)
    verif::name_addr(&a->my_pool_state.my_state, "pool" + ix);
    verif::name_addr(&a->get_waiting_threads_monitor().my_epoch, "mep");
    verif::name_addr(&a->get_waiting_threads_monitor().my_waitset.count, "wsz");
#if __TBB_PREVIEW_CRITICAL_TASKS
    verif::name_addr(&a->my_critical_task_stream.population, "cts" + ix);
#endif
    g_arenas.push_back(a);
}

static void main_body() {
    tbb::global_control gc(tbb::global_control::max_allowed_parallelism, g_P);
    tbb::task_scheduler_handle h{tbb::attach{}};
    watch_arena(governor::get_thread_data()->my_arena);
    if (g_container == "tg") {
        tg_scenario(0);
        collect(governor::get_thread_data()->my_arena);
    } else if (g_container == "pfor") {
        pfor_scenario();
        collect(governor::get_thread_data()->my_arena);
    } else if (g_container == "nwait") {
        nwait_scenario();
        collect(governor::get_thread_data()->my_arena);
    } else if (g_container == "arena1") {
        tbb::task_arena ta(1);
        ta.initialize();
        watch_arena(ta.my_arena.load());
        ta.execute([] { tg_scenario(0); });
        collect(ta.my_arena.load());
        thread_data* td = governor::get_thread_data_if_initialized();
        if (td) collect(td->my_arena);
    } else if (g_container == "outer") {
        tg_scenario(1, true);
        collect(governor::get_thread_data()->my_arena);
    } else if (g_container == "crit") {
        crit_scenario();
        collect(governor::get_thread_data()->my_arena);
    } else if (g_container == "npfor") {
        npfor_scenario();
        collect(governor::get_thread_data()->my_arena);
    } else if (g_container == "exec") {
        // task_arena::execute into an arena of its own; the functor itself suspends (the outermost level of the nested
        // arena's dispatcher), then runs the task_group scenario there
        tbb::task_arena ta(g_P > 1 ? g_P : 2);
        ta.initialize();
        watch_arena(ta.my_arena.load());
        ta.execute([] { tg_scenario(1, true); });
        collect(ta.my_arena.load());
        thread_data* td = governor::get_thread_data_if_initialized();
        if (td) collect(td->my_arena);
    }
    // A program joins the threads that call tbb::task::resume before it shuts the library down.  (nest bit 2 skips this:
    // with max_allowed_parallelism 1, a resumer that is still between its push and advertise_new_work when the resumed
    // task has finished and the main thread has left the arena re-marks the abandoned arena as non-empty; no worker
    // exists to clear it, the arena is never destroyed, and the blocking tbb::finalize below spins forever in
    // threading_control::wait_last_reference — a defect of the library outside this property; see the check's report.)
    if (!(g_flags & 4)) while (g_foreign_done.load() < g_nforeign_bodies) verif::pause_point();
    try { tbb::finalize(h); } catch (const std::exception& e) { viol(std::string("tbb::finalize threw: ") + e.what()); }
}

static void foreign_body(int k, int nf) {
    std::vector<int> mine;
    { int n = 0; for (int i = 0; i < g_NS; ++i) if (foreign_mode(g_modes[i])) { if ((n % nf) == k) mine.push_back(i); ++n; } }
    size_t left = mine.size();
    std::vector<bool> done(mine.size(), false);
    while (left) {
        bool progress = false;
        for (size_t j = 0; j < mine.size(); ++j) {
            if (done[j]) continue;
            suspend_point_type* sp = S[mine[j]].sp.load();
            // mode w: resume only after the work that was spawned before the suspension has been executed
            if (sp && lower(g_modes[mine[j]]) == 'w' && !S[mine[j]].prework_done.load()) sp = nullptr;
            // the next suspension is resumed by this one's continuation (mode x): it must have started before
            if (sp && mine[j] + 1 < g_NS && lower(g_modes[mine[j] + 1]) == 'x' && !S[mine[j] + 1].sp.load()) sp = nullptr;
            if (sp) {
                if (lower(g_modes[mine[j]]) == 'c' && g_tg) { verif::note("cancel_group", (uint64_t)mine[j], 0); g_tg->cancel(); }
                do_resume(mine[j], sp);
                if (mine[j] == 0) g_resumed0 = true;
                done[j] = true; --left; progress = true;
            }
        }
        if (!progress) verif::pause_point();
    }
    // (mode c: task_group::cancel auto-initialises this thread as an external thread of the library; a blocking tbb::finalize
    // by the main thread must come after this thread detached, so the thread counts as done only then)
    governor::terminate_external_thread();
    g_foreign_done.fetch_add(1);
}

// random schedule, except that the foreign thread `F` is held back until the leaver of suspension 0 made `k` scheduling
// points after publishing the suspend point (the leaver runs alone during that time), then F runs alone until its
// resume() returned.
struct TargetedSchedule : verif::Schedule {
    verif::RandomSchedule rnd; int F; int k; int since = 0;
    TargetedSchedule(uint64_t seed, int F_, int k_) : rnd(seed), F(F_), k(k_) {}
    static bool has(const std::vector<int>& en, int t) { for (int x : en) if (x == t) return true; return false; }
    int pick(int cur, const std::vector<int>& en, size_t step) override {
        if (g_published0 && !g_resumed0) {
            if (since < k) {
                if (has(en, g_leaver0)) { ++since; return g_leaver0; }
            } else if (has(en, F)) return F;
        }
        if (!g_resumed0 && en.size() > 1) {
            std::vector<int> e2; for (int x : en) if (x != F) e2.push_back(x);
            return rnd.pick(cur == F ? -1 : cur, e2, step);
        }
        return rnd.pick(cur, en, step);
    }
};

// ---- observation of the dispatch context (white box, made at every scheduling point; plain reads under the baton) ----
// For every suspension in progress: once the suspending thread is attached to another dispatcher than the one it
// suspended, record that dispatcher's m_execute_data_ext.isolation (first value, and the maximum seen until the thread
// runs a harness task or the suspension continues).
static bool g_count_viol = false;
static long g_count_samples = 0;
static void sample_dispatch_context() {
    // counter-level monitor of the covering wait: while a task of the task_group is suspended (or, generally, has started
    // and its body has not returned) the reference count of the group's wait_context is not zero
    if (g_tg && !g_count_viol) {
        std::uint64_t rc = 1;
        memcpy(&rc, (const void*)&g_tg->m_wait_vertex.m_wait.m_ref_count, sizeof rc);      // raw read: no scheduling point inside pick()
        for (int i = 0; i < g_NS; ++i)
            if (S[i].in_group && S[i].cb_runs && !S[i].task_done) {
                ++g_count_samples;
                if (rc == 0) { g_count_viol = true; viol("the wait_context of the task_group has count zero while suspension " + std::to_string(i) + " of a task of the group is in progress (wait completed over a suspended task)"); }
            }
    }
    for (int i = 0; i < g_NS; ++i) {
        Susp& x = S[i];
        if (!x.cb_runs || x.conts || !x.td || x.work_by_suspender) continue;
        task_dispatcher* d = x.td->my_task_dispatcher;
        if (!d || d == x.disp) continue;
        long v = (long)d->m_execute_data_ext.isolation;
        if (!x.co_seen) { x.co_seen = true; x.co_iso_first = v; x.co_iso_max = v; }
        else if (v != 0 && x.co_iso_max == 0) x.co_iso_max = v;
    }
}
struct Sampling : verif::Schedule {
    verif::Schedule& in;
    explicit Sampling(verif::Schedule& s) : in(s) {}
    int pick(int cur, const std::vector<int>& en, size_t step) override {
        sample_dispatch_context();
        if (cur >= 0 && cur == verif::self()) sample_whitebox(cur);
        return in.pick(cur, en, step);
    }
};

// ---- state-guided schedule -------------------------------------------------------------------------------------------
// spec = guide;guide;...   guide = <who>:<cond>[|<cond>...]
//   who   L the thread that made suspension 0 | F the foreign resumer (tid 1) | M the main thread (tid 0)
//         W any other runtime thread (workers) | R any thread except F | A any thread
//   cond  pub   suspension 0's callback published its suspend point        res   the foreign resume() of it returned
//         busy  the leaver's arena my_pool_state holds a `busy` value (out_of_work's clear transaction is open)
//         ss=<v> / rc=<v>   m_stack_state / m_is_owner_recalled of suspension 0's suspend point equals v
//         cnt=<n>  the preferred thread(s) were picked n times under this guide
//         blk   the preferred thread is blocked (not runnable although the ticker thread wrote shared state 3 times)
// Under a guide only its preferred threads run; when none is runnable the ticker thread runs (its write makes spinning
// threads runnable again), so everybody else is held where it is — wherever that is inside the library.  After the last
// guide the schedule is seeded-random and the ticker ends.  Conditions are evaluated on the live memory of the runtime at
// every scheduling point, so a guide pins down a window independently of instruction counts; the schedule actually taken
// is recorded as a plain tid list and is what replays use.
static volatile bool g_tick_stop = false;
static std::atomic<long> g_tick{0};
static int g_ticker_tid = -1, g_nforeign = 0;
struct Cond { std::string k; long v; };
struct Guide { char who; std::vector<Cond> conds; long picks = 0; int blk = 0; long starve = 0; };
static std::vector<Guide> g_guides;
struct GuideEnd { long picks; int pool, ws, blk; };
static std::vector<GuideEnd> g_guide_picks;

static bool parse_guides(const std::string& spec) {
    std::istringstream is(spec); std::string g;
    while (std::getline(is, g, ';')) {
        if (g.size() < 3 || g[1] != ':') return false;
        Guide gd; gd.who = g[0];
        std::istringstream cs(g.substr(2)); std::string c;
        while (std::getline(cs, c, '|')) {
            size_t e = c.find('=');
            gd.conds.push_back(e == std::string::npos ? Cond{c, 0} : Cond{c.substr(0, e), atol(c.c_str() + e + 1)});
        }
        g_guides.push_back(gd);
    }
    return !g_guides.empty();
}

struct GuidedSchedule : verif::Schedule {
    verif::RandomSchedule rnd; size_t pos = 0;
    explicit GuidedSchedule(uint64_t seed) : rnd(seed) {}
    static bool has(const std::vector<int>& en, int t) { for (int x : en) if (x == t) return true; return false; }
    static long rd(const void* p, size_t n) { long v = 0; memcpy(&v, p, n); return v; }
    bool holds(const Guide& g) {
        suspend_point_type* sp = (suspend_point_type*)rd((const void*)&S[0].sp, sizeof(void*));   // raw read: no scheduling point inside pick()
        for (const Cond& c : g.conds) {
            if (c.k == "pub") { if (g_published0) return true; }
            else if (c.k == "res") { if (g_resumed0) return true; }
            else if (c.k == "busy") { if (S[0].td && S[0].td->my_arena && rd(&S[0].td->my_arena->my_pool_state.my_state, sizeof(std::uintptr_t)) > 1) return true; }
            else if (c.k == "ss") { if (sp && rd(&sp->m_stack_state, sizeof sp->m_stack_state) == c.v) return true; }
            else if (c.k == "rc") { if (sp && rd(&sp->m_is_owner_recalled, sizeof sp->m_is_owner_recalled) == c.v) return true; }
            else if (c.k == "cnt") { if (g.picks >= c.v) return true; }
            else if (c.k == "blk") { if (g.blk >= 3) return true; }
        }
        return false;
    }
    // the state of the sleep hand-shake when a guide ends: pool state (0 UNSET, 1 SET, 2 busy), wait-set size, was the
    // preferred thread blocked
    static GuideEnd snapshot(const Guide& g) {
        GuideEnd e{g.picks, -1, -1, g.blk >= 3 ? 1 : 0};
        if (S[0].td && S[0].td->my_arena) { long v = rd(&S[0].td->my_arena->my_pool_state.my_state, sizeof(std::uintptr_t)); e.pool = v > 1 ? 2 : (int)v; }
        if (S[0].wscount) e.ws = (int)rd(S[0].wscount, sizeof(std::size_t));
        return e;
    }
    bool in_class(char who, int t) {
        bool foreign = t >= 1 && t <= g_nforeign;
        if (t == g_ticker_tid) return false;
        switch (who) {
        case 'L': return t == g_leaver0;
        case 'F': return t == 1;
        case 'M': return t == 0;
        case 'W': return t != 0 && !foreign;
        case 'R': return t != 1;
        default: return true;
        }
    }
    int pick(int cur, const std::vector<int>& en, size_t step) override {
        while (pos < g_guides.size() && holds(g_guides[pos])) { g_guide_picks.push_back(snapshot(g_guides[pos])); ++pos; }
        if (pos >= g_guides.size()) {
            g_tick_stop = true;
            return rnd.pick(cur, en, step);
        }
        Guide& g = g_guides[pos];
        std::vector<int> c;
        for (int t : en) if (in_class(g.who, t)) c.push_back(t);
        if (!c.empty()) {
            g.picks++; g.blk = 0; g.starve = 0;
            return c.size() == 1 ? c[0] : rnd.pick(has(c, cur) ? cur : -1, c, step);
        }
        // nobody of the preferred class is runnable: hold everybody else and let the ticker make spinners runnable again.
        // If the class stays empty through 3 ticker writes it is BLOCKED (futex wait, e.g. on a lock that a held thread
        // owns): unless the guide ends on `blk`, the other threads run until the class is runnable again.
        if (g.blk < 3 && has(en, g_ticker_tid)) { g.blk++; return g_ticker_tid; }
        if (++g.starve > 20000) { GuideEnd ge = snapshot(g); ge.picks = -1; g_guide_picks.push_back(ge); ++pos; return pick(cur, en, step); }
        std::vector<int> o;
        for (int t : en) if (t != g_ticker_tid) o.push_back(t);
        if (o.empty()) return en[0];
        return rnd.pick(has(o, cur) ? cur : -1, o, step);
    }
};

static void ticker_body() {
    while (!g_tick_stop) { g_tick.fetch_add(1); verif::pause_point(); }
}

static std::string rle(const std::vector<int>& s) {
    std::ostringstream o;
    for (size_t i = 0; i < s.size();) {
        size_t j = i; while (j < s.size() && s[j] == s[i]) ++j;
        if (i) o << ",";
        o << s[i] << "*" << (j - i);
        i = j;
    }
    return o.str();
}
static std::vector<int> unrle(const char* p) {
    std::vector<int> out;
    while (*p) {
        int t = (int)strtol(p, (char**)&p, 10);
        long n = 1;
        if (*p == '*') n = strtol(p + 1, (char**)&p, 10);
        for (long i = 0; i < n; ++i) out.push_back(t);
        if (*p == ',') ++p;
    }
    return out;
}

// a genuine fault (not the RDTSC trap of the virtual time-stamp counter): print where, then die with the signal
#include <execinfo.h>
static struct sigaction g_prev_segv;
static void crash_report(int sig, siginfo_t* si, void* uc_) {
    ucontext_t* uc = static_cast<ucontext_t*>(uc_);
    const unsigned char* ip = reinterpret_cast<const unsigned char*>(uc->uc_mcontext.gregs[REG_RIP]);
    if (sig == SIGSEGV && si->si_code != SEGV_MAPERR && si->si_code != SEGV_ACCERR && ip && ip[0] == 0x0F && (ip[1] == 0x31 || ip[1] == 0x01)) {
        g_prev_segv.sa_sigaction(sig, si, uc_);
        return;
    }
    static volatile int in_crash = 0;
    if (in_crash++) _exit(128 + sig);      // a fault while reporting (corrupted stack): just die
    char buf[160];
    int n = snprintf(buf, sizeof buf, "crash: signal %d code %d addr %p rip %p controlled-thread %d\n", sig, si->si_code, si->si_addr, (void*)ip, verif::self());
    if (write(2, buf, n) < 0) {}
    void* bt[40];
    int k = backtrace(bt, 40);
    backtrace_symbols_fd(bt, k, 2);
    signal(sig, SIG_DFL);
    raise(sig);
}

int main(int argc, char** argv) {
    verif::init_determinism(argc, argv);
    {
        struct sigaction sa; memset(&sa, 0, sizeof sa);
        sa.sa_sigaction = crash_report; sa.sa_flags = SA_SIGINFO | SA_NODEFER;
        sigaction(SIGSEGV, &sa, &g_prev_segv);
        sigaction(SIGBUS, &sa, nullptr);
    }
    if (argc < 7) { fprintf(stderr, "usage: sr <container> <P> <modes> <nwork> <nest> rand <seed> | target <k> <seed> | guide <seed> <spec> | replay <rle> [ticker]\n"); return 2; }
    g_container = argv[1]; g_P = atoi(argv[2]); g_modes = argv[3]; g_NW = atoi(argv[4]); g_flags = atoi(argv[5]);
    g_NS = (int)g_modes.size();
    if (g_NS < 1 || g_NS > MAXS || g_P < 1) return 2;
    std::string mode = argv[6];
    int nforeign = 0;
    for (char c : g_modes) if (foreign_mode(c)) nforeign = nforeign < 2 ? nforeign + 1 : 2;
    std::vector<std::function<void()>> bodies;
    bodies.push_back(main_body);
    for (int k = 0; k < nforeign; ++k) bodies.push_back([k, nforeign] { foreign_body(k, nforeign); });

    g_nforeign = nforeign; g_nforeign_bodies = nforeign;
    verif::Result r;
    if (mode == "rand" && argc >= 8) {
        verif::RandomSchedule rs(strtoull(argv[7], nullptr, 10));
        Sampling sm(rs);
        r = verif::run(bodies, sm, MAX_STEPS);
    } else if (mode == "target" && argc >= 9) {
        TargetedSchedule ts(strtoull(argv[8], nullptr, 10), 1, atoi(argv[7]));
        Sampling sm(ts);
        r = verif::run(bodies, sm, MAX_STEPS);
    } else if (mode == "guide" && argc >= 9) {
        if (!parse_guides(argv[8])) return 2;
        g_ticker_tid = (int)bodies.size();
        bodies.push_back(ticker_body);
        GuidedSchedule gs(strtoull(argv[7], nullptr, 10));
        Sampling sm(gs);
        r = verif::run(bodies, sm, MAX_STEPS);
    } else if (mode == "replay" && argc >= 8) {
        // a replayed guided run has the ticker thread too (argv[8] = "ticker"); it stops when the recorded schedule ends
        if (argc >= 9 && std::string(argv[8]) == "ticker") { g_ticker_tid = (int)bodies.size(); bodies.push_back(ticker_body); }
        struct Rp : verif::ReplaySchedule {
            int pick(int cur, const std::vector<int>& en, size_t step) override {
                if (step >= tids.size()) g_tick_stop = true;
                return verif::ReplaySchedule::pick(cur, en, step);
            }
        } rp;
        rp.tids = unrle(argv[7]);
        Sampling sm(rp);
        r = verif::run(bodies, sm, MAX_STEPS);
    } else return 2;

    // after a deadlock the main body never reached collect(); the arenas are still alive (their threads are stuck)
    // arenas that were seen by the sampler but not collected by the main body (deadlock, or an arena the main thread never
    // looked at): name their words too (only arenas that are certainly alive: after a deadlock every seen arena is)
    if (r.deadlock) for (arena* a : g_arena_ix) collect(a);
    // the arena of the thread that made suspension 0 (by saved address: the arena may be gone by now)
    if (S[0].pooladdr) verif::name_addr(S[0].pooladdr, "poolL");
    if (S[0].rtsaddr) verif::name_addr(S[0].rtsaddr, "rtsL");
    if (S[0].ctsaddr) verif::name_addr(S[0].ctsaddr, "ctsL");
    for (size_t i = 0; i < g_dinfo.size(); ++i)
        if (g_dinfo[i].had_sp) printf("sp D%zu %s\n", i, g_dinfo[i].kind.c_str());
    for (size_t i = 0; i < g_dinfo.size(); ++i) printf("disp D%zu %s\n", i, g_dinfo[i].kind.c_str());
    // the log, in order; `reg` notes switch the names of addresses / pointer values on from their position
    for (auto& e : r.log) {
        if (e.kind == verif::K_NOTE) {
            if (e.tag && !strcmp(e.tag, "reg")) {
                const Reg& g = g_regs[e.a];
                if (!g.is_val && (g.addr == S[0].rtsaddr || g.addr == S[0].ctsaddr)) continue;   // these keep their names rtsL / ctsL
                if (g.is_val) verif::name_value(g.val, g.name); else verif::name_addr(g.addr, g.name);
                continue;
            }
            printf("e %s\n", verif::format_event(e).c_str());
            continue;
        }
        if (!e.addr) continue;
        std::string n = verif::addr_name(e.addr);
        if (n.compare(0, 4, "anon") != 0) printf("e %s\n", verif::format_event(e).c_str());
        else if (getenv("C20_ALL_EVENTS")) printf("x %s\n", verif::format_event(e).c_str());
    }
    // property monitors (implementation side, independent of the model)
    if (r.deadlock && r.steps >= MAX_STEPS) {
        viol("livelock: the run did not finish within " + std::to_string(MAX_STEPS) + " scheduling points");
    } else if (r.deadlock) {
        std::ostringstream o; o << "deadlock: every live thread is parked (a suspended task was never resumed / lost hand-off); parked:";
        for (int t : r.parked) o << " " << t;
        viol(o.str());
    }
    for (int i = 0; i < g_NS; ++i) {
        std::string si = std::to_string(i);
        if (r.deadlock && !S[i].cb_runs) continue;
        if (S[i].cb_runs != 1) viol("suspension " + si + ": suspend callback ran " + std::to_string(S[i].cb_runs) + " times");
        if (S[i].conts != 1) viol("suspension " + si + ": continuation ran " + std::to_string(S[i].conts) + " times (resume calls: " + std::to_string(S[i].resume_calls) + ")");
        if (S[i].cont_before_call) viol("suspension " + si + ": continued before resume() was called");
        if (S[i].concurrent_cont) viol("suspension " + si + ": continuation ran on two threads at once");
        if (S[i].resume_calls != 1 && !r.deadlock) viol("harness: resume called " + std::to_string(S[i].resume_calls) + " times for suspension " + si);
    }
    printf("stat count_samples %ld\n", g_count_samples);
    printf("mon %s\n", g_viol.empty() ? "ok" : g_viol[0].c_str());
    for (size_t i = 1; i < g_viol.size(); ++i) printf("mon+ %s\n", g_viol[i].c_str());
    for (int i = 0; i < g_NS; ++i)
        printf("stat susp %d cb_tid %d cont_tid %d work_by_suspender %d prework_tid %d prework_during %d isolated %d co_seen %d co_inherit_first %d co_inherit_any %d co_zero %d\n",
               i, S[i].cb_tid, S[i].cont_tid, S[i].work_by_suspender, S[i].prework_tid, (int)S[i].prework_during, (int)(S[i].susp_iso != 0), (int)S[i].co_seen,
               (int)(S[i].co_seen && S[i].susp_iso != 0 && S[i].co_iso_first == S[i].susp_iso), (int)(S[i].co_seen && S[i].susp_iso != 0 && S[i].co_iso_max == S[i].susp_iso),
               (int)(S[i].co_seen && S[i].co_iso_first == 0 && S[i].co_iso_max == 0));
    for (size_t i = 0; i < g_guide_picks.size(); ++i)
        printf("stat guide %zu picks %ld pool %d ws %d blk %d\n", i, g_guide_picks[i].picks, g_guide_picks[i].pool, g_guide_picks[i].ws, g_guide_picks[i].blk);
    printf("stat steps %zu work_runs %d nsps %zu deadlock %d evictions %d ring_pops %d ring_pushes %d switches %d ndisp %zu\n", r.steps, g_work_runs, g_sps.size(), (int)r.deadlock,
           g_evictions, g_ring_pops, g_ring_pushes, g_switches, g_dinfo.size());
    printf("sched %s\n", rle(r.schedule).c_str());
    fflush(stdout);
    if (r.deadlock) _exit(3);
    return g_viol.empty() ? 0 : 1;
}
