// C20 harness: differential test of the REAL arena_co_cache (src/tbb/arena.h) against the Lean ring model (driver c20ring).
// Reads one operation per line, prints one canonical result line per operation:
//   init <cap>  -> ok            push <k> -> evict <k'|-> head <h>       pop -> pop <k|-> head <h>      cleanup -> cleanup <k...>
// Dispatchers are real task_dispatcher objects (no suspend point), identified by the small id given at push; the replaced /
// cleaned-up ones are really destroyed by the cache (internal_task_dispatcher_cleanup).  White box (-fno-access-control).
#include "tbb/arena.h"
#include "tbb/task_dispatcher.h"
#include <cstdio>
#include <cstring>
#include <map>
#include <string>
#include <vector>
using namespace tbb::detail::r1;

int main() {
    // task_dispatcher's constructor only reads a->my_default_ctx: a zeroed block stands in for the arena
    void* fake = cache_aligned_allocate(sizeof(arena));
    memset(fake, 0, sizeof(arena));
    arena* a = static_cast<arena*>(fake);
    arena_co_cache cc;
    bool live = false;
    std::map<task_dispatcher*, long> id;
    char line[256];
    while (fgets(line, sizeof line, stdin)) {
        char op[32]; long k = 0;
        int n = sscanf(line, "%31s %ld", op, &k);
        if (n < 1) continue;
        std::string o = op;
        if (o == "init" && n == 2 && k > 0) {
            if (live) { printf("bad-op\n"); continue; }
            cc.init((unsigned)k); live = true; id.clear();
            printf("ok\n");
        } else if (o == "push" && n == 2 && live) {
            task_dispatcher* d = new (cache_aligned_allocate(sizeof(task_dispatcher))) task_dispatcher(a);
            // who sits in the slot that push will overwrite (it is destroyed inside push)
            task_dispatcher* victim = cc.my_co_scheduler_cache[cc.my_head];
            long vid = victim ? id[victim] : -1;
            if (victim) id.erase(victim);
            cc.push(d);
            id[d] = k;
            if (vid >= 0) printf("evict %ld head %u\n", vid, cc.my_head); else printf("evict - head %u\n", cc.my_head);
        } else if (o == "pop" && live) {
            task_dispatcher* d = cc.pop();
            if (d) { printf("pop %ld head %u\n", id.count(d) ? id[d] : -2, cc.my_head); }
            else printf("pop - head %u\n", cc.my_head);
            // the harness keeps the popped dispatcher alive (it is "in use"); it is never pushed back under the same id
        } else if (o == "cleanup" && live) {
            // record the order in which cleanup() pops (LIFO from the head) before it destroys them
            std::vector<long> order;
            {
                unsigned cap = cc.my_max_index + 1, h = cc.my_head;
                for (unsigned i = 0; i < cap; ++i) {
                    unsigned p = h == 0 ? cap - 1 : h - 1;
                    task_dispatcher* d = cc.my_co_scheduler_cache[p];
                    if (!d) break;
                    order.push_back(id.count(d) ? id[d] : -2);
                    h = p;
                    if (order.size() > cap) break;
                }
            }
            cc.cleanup(); live = false;
            printf("cleanup");
            for (long x : order) printf(" %ld", x);
            printf("\n");
        } else printf("bad-op\n");
        fflush(stdout);
    }
    return 0;
}
