// C15 whole-node harness: REAL flow-graph node classes of /repo driven single-threadedly and
// deterministically (max_allowed_parallelism = 1, g.wait_for_all() after every script operation),
// with scripted successors (test receivers that accept/reject by mode) and scripted senders.
// usage: nodes <model>      model in {c15buf, c15prio, c15lim, c15jq, c15jk, c15jr, c15ow, c15misc}
// stdin: the same line protocol that goes to `drv_c15 <model>`; one output line per input line.
// Built with -fno-access-control: internal state (head/tail/slots, mark, counters, tables) is dumped
// after every operation so that the comparison with the Lean model is white-box.
// Env C15_NOGUARD=1: do not stop at operations whose __TBB_ASSERT precondition is violated (replays).
#include <oneapi/tbb/flow_graph.h>
#include <oneapi/tbb/global_control.h>
#include <cstdio>
#include <cstdlib>
#include <cstring>
#include <deque>
#include <functional>
#include <memory>
#include <sstream>
#include <string>
#include <tuple>
#include <vector>
#include <thread>
#include <algorithm>

using namespace tbb::flow;
namespace d2 = tbb::detail::d2;
namespace d1 = tbb::detail::d1;

static std::vector<std::string> g_dl;   // deliveries (accepted offers) since the last script operation
static std::vector<std::string> g_ev;   // sender-side events (reserving join)
static bool g_noguard = false;

static std::string join_strs(const std::vector<std::string>& v, const char* sep) {
    if (v.empty()) return "-";
    std::string s;
    for (size_t i = 0; i < v.size(); ++i) { if (i) s += sep; s += v[i]; }
    return s;
}
static std::string S(long long x) { return std::to_string(x); }

static std::string fmt(int v) { return S(v); }
static long valof(int v) { return v; }
static std::string fmt(const std::tuple<int,int>& t) { return "(" + S(std::get<0>(t)) + "," + S(std::get<1>(t)) + ")"; }
static long valof(const std::tuple<int,int>& t) { return (long)std::get<0>(t) + std::get<1>(t); }
static std::string fmt(const std::tuple<int,int,int>& t) { return "(" + S(std::get<0>(t)) + "," + S(std::get<1>(t)) + "," + S(std::get<2>(t)) + ")"; }
static long valof(const std::tuple<int,int,int>& t) { return (long)std::get<0>(t) + std::get<1>(t) + std::get<2>(t); }
typedef tagged_msg<size_t, int, int, int> tagged_t;
static std::string fmt(const tagged_t& m) { return "(" + S(m.tag()) + "," + S(cast_to<int>(m)) + ")"; }
static long valof(const tagged_t& m) { return cast_to<int>(m); }

// scripted successor: mode 0 accepts everything; mode m >= 1 rejects the values divisible by m
template <class T>
struct Recv : receiver<T> {
    graph& g; std::string name; unsigned mode; bool pred_ok; sender<T>* pred = nullptr;
    std::function<void()> on_offer;
    Recv(graph& g_, std::string n, unsigned m, bool pok = false) : g(g_), name(n), mode(m), pred_ok(pok) {}
    d2::graph_task* try_put_task(const T& t) override {
        if (on_offer) on_offer();
        long v = valof(t);
        bool acc = mode == 0 || v % (long)mode != 0;
        if (!acc) return nullptr;
        g_dl.push_back(name + ":" + fmt(t));
        return d2::SUCCESSFULLY_ENQUEUED;
    }
#if __TBB_PREVIEW_FLOW_GRAPH_TRY_PUT_AND_WAIT
    d2::graph_task* try_put_task(const T& t, const d2::message_metainfo&) override { return try_put_task(t); }
#endif
    graph& graph_reference() const override { return g; }
    bool register_predecessor(sender<T>& s) override { if (pred_ok) { pred = &s; return true; } return false; }
    bool remove_predecessor(sender<T>&) override { pred = nullptr; return true; }
};

template <class IB>
static std::string dump_ib(IB& b) {
    std::string s = S(b.my_head) + " " + S(b.my_tail) + " " + S(b.my_array_size) + " | ";
    bool first = true;
    for (size_t i = b.my_head; i < b.my_tail; ++i) {
        if (!first) s += ",";
        first = false;
        auto& e = b.element(i);
        if (e.state == IB::no_item) s += "_";
        else { s += S(e.item); if (e.state == IB::reserved_item) s += "*"; }
    }
    if (first) s += "-";
    s += " | ";
    for (size_t p = 0; p < b.my_array_size; ++p) {
        auto st = b.my_array[p].begin()->state;
        s += st == IB::no_item ? '.' : st == IB::has_item ? 'h' : 'r';
    }
    return s;
}

template <class Q> static std::string dump_fifo(Q& q) {
    std::vector<std::string> v;
    for (size_t i = q.my_head; i < q.my_tail; ++i) v.push_back(q.my_item_valid(i) ? S(q.element(i).item) : "_");
    return join_strs(v, ",");
}

struct Scenario {
    virtual ~Scenario() {}
    virtual std::string op(const std::vector<std::string>& w) = 0;
};

static bool to_ll(const std::string& s, long long& out, bool allow_neg = false) {
    if (s.empty()) return false;
    size_t i = 0;
    if (s[0] == '-') { if (!allow_neg || s.size() == 1) return false; i = 1; }
    for (size_t j = i; j < s.size(); ++j) if (s[j] < '0' || s[j] > '9') return false;
    if (s.size() - i > 15) return false;
    out = atoll(s.c_str());
    return true;
}
static bool nats(const std::vector<std::string>& w, size_t from, std::vector<unsigned>& out) {
    for (size_t i = from; i < w.size(); ++i) { long long x; if (!to_ll(w[i], x)) return false; out.push_back((unsigned)x); }
    return true;
}

// ---------------------------------------------------------------------------------------------
// buffer_node / queue_node / sequencer_node
// ---------------------------------------------------------------------------------------------
struct BufScenario : Scenario {
    graph g;
    std::unique_ptr<buffer_node<int>> node;
    std::vector<std::unique_ptr<Recv<int>>> rs;
    bool dead = false;
    BufScenario(const std::string& kind, const std::vector<unsigned>& modes) {
        if (kind == "buffer") node.reset(new buffer_node<int>(g));
        else if (kind == "queue") node.reset(new queue_node<int>(g));
        else node.reset(new sequencer_node<int>(g, [](const int& v) -> size_t { return (size_t)(v / 8); }));
        for (size_t i = 0; i < modes.size(); ++i) {
            rs.emplace_back(new Recv<int>(g, "r" + S(i), modes[i]));
            make_edge(*node, *rs.back());
        }
        g.wait_for_all();
        g_dl.clear();
    }
    std::string tail() {
        return " ; " + join_strs(g_dl, " ") + " ; " + S(node->my_reserved) + " " + S(node->forwarder_busy) + " | " + dump_ib(*node);
    }
    std::string op(const std::vector<std::string>& w) override {
        g_dl.clear();
        long long a, b;
        if (w[0] == "mode" && w.size() == 3 && to_ll(w[1], a) && to_ll(w[2], b)) {
            if ((size_t)a >= rs.size()) return "bad-op";
            rs[a]->mode = (unsigned)b; return "ok";
        }
        if (dead) return "ub";
        std::string res;
        if (w[0] == "put" && w.size() == 2 && to_ll(w[1], a)) { res = node->try_put((int)a) ? "ok" : "rej"; }
        else if (w[0] == "get" && w.size() == 1) { int v; res = node->try_get(v) ? S(v) : "-"; }
        else if (w[0] == "reserve" && w.size() == 1) { int v; res = node->try_reserve(v) ? S(v) : "-"; }
        else if ((w[0] == "release" || w[0] == "consume") && w.size() == 1) {
            if (!node->my_reserved) return "bad-op";
            bool ok_pre = node->my_item_valid(node->my_head) &&
                          (w[0] == "consume" || node->element(node->my_head).state == buffer_node<int>::reserved_item);
            if (!ok_pre && !g_noguard) { dead = true; return "ub"; }
            if (w[0] == "release") node->try_release(); else node->try_consume();
            res = ok_pre ? "ok" : "ok!ub";
        }
        else return "bad-op";
        g.wait_for_all();
        return res + tail();
    }
};

// ---------------------------------------------------------------------------------------------
// priority_queue_node, white-box aggregator batches
// ---------------------------------------------------------------------------------------------
struct PrioScenario : Scenario {
    typedef priority_queue_node<int> node_t;
    typedef node_t::prio_operation op_t;
    graph g;
    node_t node;
    std::vector<std::unique_ptr<Recv<int>>> rs;
    PrioScenario(const std::vector<unsigned>& modes) : node(g) {
        for (size_t i = 0; i < modes.size(); ++i) {
            rs.emplace_back(new Recv<int>(g, "r" + S(i), modes[i]));
            make_edge(node, *rs.back());
        }
        g.wait_for_all();
        g_dl.clear();
    }
    std::string op(const std::vector<std::string>& w) override {
        g_dl.clear();
        long long a, b;
        if (w[0] == "mode" && w.size() == 3 && to_ll(w[1], a) && to_ll(w[2], b)) {
            if ((size_t)a >= rs.size()) return "bad-op";
            rs[a]->mode = (unsigned)b; return "ok";
        }
        if (w[0] != "batch" || w.size() < 2) return "bad-op";
        size_t n = w.size() - 1;
        std::deque<op_t> ops;
        std::vector<int> vals(n, 0);
        std::vector<char> kinds(n);
        bool sim_resv = node.my_reserved;
        for (size_t i = 0; i < n; ++i) {
            const std::string& t = w[i + 1];
            long long v;
            if (t == "g") { ops.emplace_back(node_t::req_item); ops.back().elem = &vals[i]; kinds[i] = 'g'; }
            else if (t == "r") { ops.emplace_back(node_t::res_item); ops.back().elem = &vals[i]; kinds[i] = 'r'; }
            else if (t == "l") { ops.emplace_back(node_t::rel_res); kinds[i] = 'l'; }
            else if (t == "c") { ops.emplace_back(node_t::con_res); kinds[i] = 'c'; }
            else if (t.size() > 1 && t[0] == 'p' && to_ll(t.substr(1), v)) { vals[i] = (int)v; ops.emplace_back(vals[i], node_t::put_item); kinds[i] = 'p'; }
            else return "bad-op";
        }
        // release / consume need a reservation at their place in the batch (asserted by the code):
        // simulate the reservation flag over the batch to reject such scripts like the model does
        {
            bool r = sim_resv; size_t cnt = node.my_tail;
            for (size_t i = 0; i < n; ++i) {
                if (kinds[i] == 'p') ++cnt;
                else if (kinds[i] == 'g') { if (!r && cnt > 0) --cnt; }
                else if (kinds[i] == 'r') { if (!r && cnt > 0) { --cnt; r = true; } }
                else if (kinds[i] == 'l') { if (!r) return "bad-op"; r = false; ++cnt; }
                else if (kinds[i] == 'c') { if (!r) return "bad-op"; r = false; }
            }
        }
        for (size_t i = 0; i + 1 < n; ++i) ops[i].next.store(&ops[i + 1], std::memory_order_relaxed);
        ops[n - 1].next.store(nullptr, std::memory_order_relaxed);
        node.handle_operations(&ops[0]);
        std::vector<std::string> rsv;
        for (size_t i = 0; i < n; ++i) {
            bool ok = ops[i].status.load() == d2::SUCCEEDED;
            if (kinds[i] == 'p') rsv.push_back(ok ? "ok" : "rej");
            else if (kinds[i] == 'g' || kinds[i] == 'r') rsv.push_back(ok ? S(vals[i]) : "-");
            else rsv.push_back("ok");
        }
        for (size_t i = 0; i < n; ++i)
            if (ops[i].ltask) d2::spawn_in_graph_arena(g, *ops[i].ltask);
        g.wait_for_all();
        std::vector<std::string> data;
        for (size_t i = 0; i < node.my_tail; ++i) data.push_back(node.my_item_valid(i) ? S(node.element(i).item) : "_");
        return join_strs(rsv, ",") + " ; " + join_strs(g_dl, " ") + " ; " + S(node.my_reserved) + " " + S(node.forwarder_busy) +
               " | " + S(node.mark) + " | " + join_strs(data, ",");
    }
};

// ---------------------------------------------------------------------------------------------
// limiter_node<int,int>: nested decrements are sent by the first successor while it is being offered
// ---------------------------------------------------------------------------------------------
struct LimScenario : Scenario {
    typedef limiter_node<int, int> node_t;
    graph g;
    node_t node;
    std::vector<std::unique_ptr<Recv<int>>> rs;
    std::vector<long long> nested;
    LimScenario(size_t th, const std::vector<unsigned>& modes) : node(g, th) {
        for (size_t i = 0; i < modes.size(); ++i) {
            rs.emplace_back(new Recv<int>(g, "r" + S(i), modes[i]));
            make_edge(node, *rs.back());
        }
        if (!rs.empty()) rs[0]->on_offer = [this]() {
            std::vector<long long> ds; ds.swap(nested);
            for (long long d : ds) node.decrementer().try_put((int)d);
        };
        g.wait_for_all();
        g_dl.clear();
    }
    std::string st() { return S(node.my_count) + " " + S(node.my_tries) + " " + S(node.my_future_decrement); }
    std::string op(const std::vector<std::string>& w) override {
        g_dl.clear();
        long long a, b;
        if (w[0] == "mode" && w.size() == 3 && to_ll(w[1], a) && to_ll(w[2], b)) {
            if ((size_t)a >= rs.size()) return "bad-op";
            rs[a]->mode = (unsigned)b; return "ok";
        }
        if (w[0] == "dec" && w.size() == 2 && to_ll(w[1], a, true)) {
            node.decrementer().try_put((int)a);
            g.wait_for_all();
            return "- ; - ; " + st();
        }
        if (w[0] == "put" && w.size() >= 2 && to_ll(w[1], a)) {
            nested.clear();
            for (size_t i = 2; i < w.size(); ++i) { long long d; if (!to_ll(w[i], d, true)) return "bad-op"; nested.push_back(d); }
            bool r = node.try_put((int)a);
            nested.clear();
            g.wait_for_all();
            return S(r) + " ; " + join_strs(g_dl, " ") + " ; " + st();
        }
        // put2 v1 v2 d...: while v1 is being offered to the first successor (put 1 is between its admission and its
        // completion region), a second thread puts v2 (it is admitted or refused, then waits for the successor
        // cache), then the nested decrements are sent, then put 1 completes, then put 2 proceeds.
        if (w[0] == "put2" && w.size() >= 3 && to_ll(w[1], a) && to_ll(w[2], b)) {
            if (rs.empty()) return "bad-op";
            nested.clear();
            for (size_t i = 3; i < w.size(); ++i) { long long d; if (!to_ll(w[i], d, true)) return "bad-op"; nested.push_back(d); }
            bool r2 = false; std::atomic<bool> done2{false};
            std::thread t2;
            auto saved = rs[0]->on_offer;
            bool fired = false;
            rs[0]->on_offer = [&]() {
                if (fired) return;                       // only the first offer (of v1) triggers the second put
                fired = true;
                size_t tries0 = *(volatile size_t*)&node.my_tries;
                t2 = std::thread([&]() { r2 = node.try_put((int)b); done2 = true; });
                while (!done2.load() && *(volatile size_t*)&node.my_tries == tries0) std::this_thread::yield();
                std::vector<long long> ds; ds.swap(nested);
                for (long long d : ds) node.decrementer().try_put((int)d);
            };
            bool r1 = node.try_put((int)a);
            if (t2.joinable()) t2.join();
            rs[0]->on_offer = saved;
            nested.clear();
            g.wait_for_all();
            return S(r1) + "," + S(r2) + " ; " + join_strs(g_dl, " ") + " ; " + st();
        }
        return "bad-op";
    }
};

// ---------------------------------------------------------------------------------------------
// queue_node -> limiter_node -> always-accepting sink: the push/pull edge protocol with decrements
// ---------------------------------------------------------------------------------------------
struct LqScenario : Scenario {
    typedef limiter_node<int, int> lim_t;
    graph g;
    queue_node<int> q;
    lim_t lim;
    Recv<int> sink;
    LqScenario(size_t th) : q(g), lim(g, th), sink(g, "r0", 0) {
        make_edge(q, lim);
        make_edge(lim, sink);
        g.wait_for_all();
        g_dl.clear();
    }
    std::string st() {
        return S(lim.my_count) + " " + S(lim.my_tries) + " " + S(lim.my_future_decrement) + " | " + dump_fifo(q) + " | " +
               S(lim.my_predecessors.internal_size() ? 1 : 0);
    }
    std::string op(const std::vector<std::string>& w) override {
        g_dl.clear();
        long long a;
        if (w[0] == "put" && w.size() == 2 && to_ll(w[1], a)) {
            bool r = q.try_put((int)a); g.wait_for_all();
            return S(r) + " ; " + join_strs(g_dl, " ") + " ; " + st();
        }
        if (w[0] == "dec" && w.size() == 2 && to_ll(w[1], a, true)) {
            lim.decrementer().try_put((int)a); g.wait_for_all();
            return "- ; " + join_strs(g_dl, " ") + " ; " + st();
        }
        return "bad-op";
    }
};

// ---------------------------------------------------------------------------------------------
// join_node queueing
// ---------------------------------------------------------------------------------------------

template <int N> struct TupleOf;
template <> struct TupleOf<2> { typedef std::tuple<int,int> type; };
template <> struct TupleOf<3> { typedef std::tuple<int,int,int> type; };

template <int N>
struct JqScenario : Scenario {
    typedef typename TupleOf<N>::type T;
    typedef join_node<T, queueing> node_t;
    graph g;
    node_t node;
    std::vector<std::unique_ptr<Recv<T>>> rs;
    JqScenario(const std::vector<unsigned>& modes) : node(g) {
        for (size_t i = 0; i < modes.size(); ++i) {
            rs.emplace_back(new Recv<T>(g, "r" + S(i), modes[i]));
            make_edge(node, *rs.back());
        }
        g.wait_for_all();
        g_dl.clear();
    }
    std::string dump2(std::integral_constant<int,2>) {
        return dump_fifo(std::get<0>(node.input_ports())) + " / " + dump_fifo(std::get<1>(node.input_ports()));
    }
    std::string dump2(std::integral_constant<int,3>) {
        return dump_fifo(std::get<0>(node.input_ports())) + " / " + dump_fifo(std::get<1>(node.input_ports())) + " / " + dump_fifo(std::get<2>(node.input_ports()));
    }
    std::string st() { return S((long long)node.ports_with_no_items.load()) + " | " + dump2(std::integral_constant<int,N>()); }
    bool put(int p, int v, std::integral_constant<int,2>) {
        return p == 0 ? std::get<0>(node.input_ports()).try_put(v) : std::get<1>(node.input_ports()).try_put(v);
    }
    bool put(int p, int v, std::integral_constant<int,3>) {
        return p == 0 ? std::get<0>(node.input_ports()).try_put(v) : p == 1 ? std::get<1>(node.input_ports()).try_put(v) : std::get<2>(node.input_ports()).try_put(v);
    }
    std::string op(const std::vector<std::string>& w) override {
        g_dl.clear();
        long long a, b;
        if (w[0] == "mode" && w.size() == 3 && to_ll(w[1], a) && to_ll(w[2], b)) {
            if ((size_t)a >= rs.size()) return "bad-op";
            rs[a]->mode = (unsigned)b; return "ok";
        }
        if (w[0] == "put" && w.size() == 3 && to_ll(w[1], a) && to_ll(w[2], b)) {
            if (a >= N) return "bad-op";
            bool r = put((int)a, (int)b, std::integral_constant<int,N>());
            g.wait_for_all();
            return S(r) + " ; " + join_strs(g_dl, " ") + " ; " + st();
        }
        if (w[0] == "get" && w.size() == 1) {
            T t; bool r = node.try_get(t);
            g.wait_for_all();
            return (r ? fmt(t) : std::string("-")) + " ; " + join_strs(g_dl, " ") + " ; " + st();
        }
        return "bad-op";
    }
};

// ---------------------------------------------------------------------------------------------
// join_node key_matching (key = v / 8)
// ---------------------------------------------------------------------------------------------
template <class HB, class F> static void walk_hash(HB& hb, F f) {
    for (size_t i = 0; i < hb.my_size; ++i)
        for (auto* p = hb.pointer_array[i]; p; p = p->get_next()) f(*p->get_value_ptr());
}
struct KeyFn { int operator()(const int& v) const { return v / 8; } };

template <int N> struct JkMake;
template <> struct JkMake<2> {
    typedef join_node<std::tuple<int,int>, key_matching<int>> node_t;
    static node_t* make(graph& g) { return new node_t(g, KeyFn(), KeyFn()); }
};
template <> struct JkMake<3> {
    typedef join_node<std::tuple<int,int,int>, key_matching<int>> node_t;
    static node_t* make(graph& g) { return new node_t(g, KeyFn(), KeyFn(), KeyFn()); }
};

template <int N>
struct JkScenario : Scenario {
    typedef typename TupleOf<N>::type T;
    typedef typename JkMake<N>::node_t node_t;
    graph g;
    std::unique_ptr<node_t> node;
    std::vector<std::unique_ptr<Recv<T>>> rs;
    JkScenario(const std::vector<unsigned>& modes) : node(JkMake<N>::make(g)) {
        for (size_t i = 0; i < modes.size(); ++i) {
            rs.emplace_back(new Recv<T>(g, "r" + S(i), modes[i]));
            make_edge(*node, *rs.back());
        }
        g.wait_for_all();
        g_dl.clear();
    }
    template <class Port> std::string dump_port(Port& p) {
        std::vector<std::pair<int,int>> kv;
        walk_hash(p, [&](const int& v) { kv.push_back({v / 8, v}); });
        std::sort(kv.begin(), kv.end());
        std::vector<std::string> s;
        for (auto& x : kv) s.push_back(S(x.first) + "=" + S(x.second));
        return join_strs(s, ",");
    }
    std::string st() {
        typedef typename node_t::output_buffer_type OB;
        typedef typename node_t::key_to_count_buffer_type CB;
        OB& ob = static_cast<OB&>(*node);
        std::vector<std::string> outs;
        for (size_t i = ob.my_head; i < ob.my_tail; ++i) outs.push_back(fmt(ob.element(i).item));
        std::vector<std::pair<int,size_t>> cs;
        walk_hash(static_cast<CB&>(*node), [&](const d2::count_element<int>& c) { cs.push_back({c.my_key, c.my_value}); });
        std::sort(cs.begin(), cs.end());
        std::vector<std::string> cstr;
        for (auto& c : cs) cstr.push_back(S(c.first) + "=" + S(c.second));
        std::string s = join_strs(outs, ",") + " | " + join_strs(cstr, ",") + " | ";
        s += dump_port(std::get<0>(node->input_ports())) + " / " + dump_port(std::get<1>(node->input_ports()));
        s += third(std::integral_constant<int,N>());
        return s;
    }
    std::string third(std::integral_constant<int,2>) { return ""; }
    std::string third(std::integral_constant<int,3>) { return " / " + dump_port(std::get<2>(node->input_ports())); }
    bool put(int p, int v, std::integral_constant<int,2>) {
        return p == 0 ? std::get<0>(node->input_ports()).try_put(v) : std::get<1>(node->input_ports()).try_put(v);
    }
    bool put(int p, int v, std::integral_constant<int,3>) {
        return p == 0 ? std::get<0>(node->input_ports()).try_put(v) : p == 1 ? std::get<1>(node->input_ports()).try_put(v) : std::get<2>(node->input_ports()).try_put(v);
    }
    std::string op(const std::vector<std::string>& w) override {
        g_dl.clear();
        long long a, b;
        if (w[0] == "mode" && w.size() == 3 && to_ll(w[1], a) && to_ll(w[2], b)) {
            if ((size_t)a >= rs.size()) return "bad-op";
            rs[a]->mode = (unsigned)b; return "ok";
        }
        if (w[0] == "put" && w.size() == 3 && to_ll(w[1], a) && to_ll(w[2], b)) {
            if (a >= N) return "bad-op";
            bool r = put((int)a, (int)b, std::integral_constant<int,N>());
            g.wait_for_all();
            return S(r) + " ; " + join_strs(g_dl, " ") + " ; " + st();
        }
        if (w[0] == "get" && w.size() == 1) {
            T t; bool r = node->try_get(t);
            g.wait_for_all();
            return (r ? fmt(t) : std::string("-")) + " ; " + join_strs(g_dl, " ") + " ; " + st();
        }
        return "bad-op";
    }
};

// ---------------------------------------------------------------------------------------------
// join_node reserving, fed by scripted senders
// ---------------------------------------------------------------------------------------------
struct Snd : sender<int> {
    int id; bool has = false; int item = 0; bool regd = false; receiver<int>* port = nullptr;
    bool try_reserve(int& v) override { if (!has) return false; v = item; g_ev.push_back("res" + S(id) + ":" + S(item)); return true; }
    bool try_release() override { g_ev.push_back("rel" + S(id)); return true; }
    bool try_consume() override { g_ev.push_back("con" + S(id)); has = false; return true; }
    bool try_get(int& v) override { if (!has) return false; v = item; has = false; g_ev.push_back("get" + S(id)); return true; }
    bool register_successor(receiver<int>& r) override { port = &r; regd = false; return true; }   // edge back to push mode
    bool remove_successor(receiver<int>&) override { return true; }
};

template <int N>
struct JrScenario : Scenario {
    typedef typename TupleOf<N>::type T;
    typedef join_node<T, reserving> node_t;
    graph g;
    node_t node;
    Snd snd[3];
    std::vector<std::unique_ptr<Recv<T>>> rs;
    JrScenario(const std::vector<unsigned>& modes) : node(g) {
        for (int i = 0; i < 3; ++i) snd[i].id = i;
        for (size_t i = 0; i < modes.size(); ++i) {
            rs.emplace_back(new Recv<T>(g, "r" + S(i), modes[i]));
            make_edge(node, *rs.back());
        }
        g.wait_for_all();
        g_dl.clear(); g_ev.clear();
    }
    receiver<int>& port(int p, std::integral_constant<int,2>) {
        return p == 0 ? (receiver<int>&)std::get<0>(node.input_ports()) : (receiver<int>&)std::get<1>(node.input_ports());
    }
    receiver<int>& port(int p, std::integral_constant<int,3>) {
        return p == 0 ? (receiver<int>&)std::get<0>(node.input_ports()) : p == 1 ? (receiver<int>&)std::get<1>(node.input_ports()) : (receiver<int>&)std::get<2>(node.input_ports());
    }
    bool resv(int p, std::integral_constant<int,2>) { return p == 0 ? std::get<0>(node.input_ports()).reserved : std::get<1>(node.input_ports()).reserved; }
    bool resv(int p, std::integral_constant<int,3>) { return p == 0 ? std::get<0>(node.input_ports()).reserved : p == 1 ? std::get<1>(node.input_ports()).reserved : std::get<2>(node.input_ports()).reserved; }
    std::string st() {
        std::vector<std::string> av; std::string rg, rv;
        for (int i = 0; i < N; ++i) {
            av.push_back(snd[i].has ? S(snd[i].item) : "_");
            rg += snd[i].regd ? '1' : '0';
            rv += resv(i, std::integral_constant<int,N>()) ? '1' : '0';
        }
        return S((long long)node.ports_with_no_inputs.load()) + " | " + join_strs(av, ",") + " | " + rg + " | " + rv;
    }
    std::string op(const std::vector<std::string>& w) override {
        g_dl.clear(); g_ev.clear();
        long long a, b;
        if (w[0] == "mode" && w.size() == 3 && to_ll(w[1], a) && to_ll(w[2], b)) {
            if ((size_t)a >= rs.size()) return "bad-op";
            rs[a]->mode = (unsigned)b; return "ok";
        }
        if (w[0] == "offer" && w.size() == 3 && to_ll(w[1], a) && to_ll(w[2], b)) {
            if (a >= N || snd[a].has) return "bad-op";
            snd[a].has = true; snd[a].item = (int)b;
            if (!snd[a].regd) {
                snd[a].regd = true;
                d2::register_predecessor(port((int)a, std::integral_constant<int,N>()), snd[a]);
            }
            g.wait_for_all();
            return "ok ; " + join_strs(g_ev, " ") + " ; " + join_strs(g_dl, " ") + " ; " + st();
        }
        if (w[0] == "get" && w.size() == 1) {
            T t; bool r = node.try_get(t);
            g.wait_for_all();
            return (r ? fmt(t) : std::string("-")) + " ; " + join_strs(g_ev, " ") + " ; - ; " + st();
        }
        return "bad-op";
    }
};

// ---------------------------------------------------------------------------------------------
// overwrite_node / write_once_node
// ---------------------------------------------------------------------------------------------
struct OwScenario : Scenario {
    graph g;
    std::unique_ptr<overwrite_node<int>> node;
    std::vector<std::unique_ptr<Recv<int>>> rs;
    OwScenario(bool once) { if (once) node.reset(new write_once_node<int>(g)); else node.reset(new overwrite_node<int>(g)); }
    std::string st() {
        std::vector<std::string> ids;
        for (auto* p : node->my_successors.my_successors)
            for (size_t i = 0; i < rs.size(); ++i) if (static_cast<receiver<int>*>(rs[i].get()) == p) ids.push_back(S(i));
        return (node->my_buffer_is_valid ? S(node->my_buffer) : std::string("_")) + " | " + join_strs(ids, ",");
    }
    std::string op(const std::vector<std::string>& w) override {
        g_dl.clear();
        long long a, b;
        if (w[0] == "mode" && w.size() == 3 && to_ll(w[1], a) && to_ll(w[2], b)) {
            if ((size_t)a >= rs.size()) return "bad-op";
            rs[a]->mode = (unsigned)b; return "ok";
        }
        if (w[0] == "reg" && w.size() == 2 && to_ll(w[1], a)) {
            rs.emplace_back(new Recv<int>(g, "r" + S(rs.size()), (unsigned)a, /*pred_ok=*/true));
            make_edge(*node, *rs.back());
            g.wait_for_all();
            return "ok ; " + join_strs(g_dl, " ") + " ; " + st();
        }
        if (w[0] == "put" && w.size() == 2 && to_ll(w[1], a)) {
            bool r = node->try_put((int)a);
            g.wait_for_all();
            return S(r) + " ; " + join_strs(g_dl, " ") + " ; " + st();
        }
        if (w[0] == "get" && w.size() == 1) {
            int v; bool r = node->try_get(v);
            return (r ? S(v) : std::string("-")) + " ; - ; " + st();
        }
        if (w[0] == "clear" && w.size() == 1) { node->clear(); return "ok ; - ; " + st(); }
        return "bad-op";
    }
};

// ---------------------------------------------------------------------------------------------
// broadcast_node / split_node / indexer_node
// ---------------------------------------------------------------------------------------------
struct MiscScenario : Scenario {
    graph g;
    broadcast_node<int> bc;
    split_node<std::tuple<int,int,int>> sp;
    indexer_node<int,int,int> ix;
    std::vector<std::unique_ptr<Recv<int>>> brs, prs;
    std::vector<std::unique_ptr<Recv<tagged_t>>> irs;
    MiscScenario(const std::vector<unsigned>& modes) : bc(g), sp(g), ix(g) {
        for (size_t i = 0; i < modes.size(); ++i) {
            brs.emplace_back(new Recv<int>(g, "r" + S(i), modes[i]));
            make_edge(bc, *brs.back());
            irs.emplace_back(new Recv<tagged_t>(g, "r" + S(i), modes[i]));
            make_edge(ix, *irs.back());
        }
        for (int i = 0; i < 3; ++i) prs.emplace_back(new Recv<int>(g, "p" + S(i), 0));
        make_edge(output_port<0>(sp), *prs[0]);
        make_edge(output_port<1>(sp), *prs[1]);
        make_edge(output_port<2>(sp), *prs[2]);
        g.wait_for_all();
        g_dl.clear();
    }
    std::string op(const std::vector<std::string>& w) override {
        g_dl.clear();
        long long a, b, c;
        if (w[0] == "bput" && w.size() == 2 && to_ll(w[1], a)) {
            bool r = bc.try_put((int)a); g.wait_for_all();
            return S(r) + " ; " + join_strs(g_dl, " ");
        }
        if (w[0] == "sput" && w.size() == 4 && to_ll(w[1], a) && to_ll(w[2], b) && to_ll(w[3], c)) {
            bool r = sp.try_put(std::make_tuple((int)a, (int)b, (int)c)); g.wait_for_all();
            std::sort(g_dl.begin(), g_dl.end());      // emission order of the ports is not part of the contract
            return S(r) + " ; " + join_strs(g_dl, " ");
        }
        if (w[0] == "iput" && w.size() == 3 && to_ll(w[1], a) && to_ll(w[2], b)) {
            if (a >= 3) return "bad-op";
            bool r = a == 0 ? input_port<0>(ix).try_put((int)b) : a == 1 ? input_port<1>(ix).try_put((int)b) : input_port<2>(ix).try_put((int)b);
            g.wait_for_all();
            return S(r) + " ; " + join_strs(g_dl, " ");
        }
        return "bad-op";
    }
};

int main(int argc, char** argv) {
    if (argc != 2) { fprintf(stderr, "usage: nodes <model>\n"); return 2; }
    std::string model = argv[1];
    g_noguard = getenv("C15_NOGUARD") != nullptr;
    tbb::global_control gc(tbb::global_control::max_allowed_parallelism, 1);
    std::unique_ptr<Scenario> sc;
    char line[4096];
    while (fgets(line, sizeof line, stdin)) {
        std::istringstream is(line);
        std::vector<std::string> w; std::string t;
        while (is >> t) w.push_back(t);
        if (w.empty()) continue;
        std::string out;
        if (w[0] == "reset") {
            std::vector<unsigned> ms; long long a, b;
            sc.reset();
            if (model == "c15buf" && w.size() >= 3 && (w[1] == "buffer" || w[1] == "queue" || w[1] == "seq") && to_ll(w[2], a) && nats(w, 3, ms)) sc.reset(new BufScenario(w[1], ms));
            else if (model == "c15prio" && nats(w, 1, ms)) sc.reset(new PrioScenario(ms));
            else if (model == "c15lim" && w.size() >= 2 && to_ll(w[1], a) && nats(w, 2, ms)) sc.reset(new LimScenario((size_t)a, ms));
            else if (model == "c15lq" && w.size() == 2 && to_ll(w[1], a)) sc.reset(new LqScenario((size_t)a));
            else if (model == "c15jq" && w.size() >= 2 && to_ll(w[1], a) && (a == 2 || a == 3) && nats(w, 2, ms)) { if (a == 2) sc.reset(new JqScenario<2>(ms)); else sc.reset(new JqScenario<3>(ms)); }
            else if (model == "c15jk" && w.size() >= 2 && to_ll(w[1], a) && (a == 2 || a == 3) && nats(w, 2, ms)) { if (a == 2) sc.reset(new JkScenario<2>(ms)); else sc.reset(new JkScenario<3>(ms)); }
            else if (model == "c15jr" && w.size() >= 2 && to_ll(w[1], a) && (a == 2 || a == 3) && nats(w, 2, ms)) { if (a == 2) sc.reset(new JrScenario<2>(ms)); else sc.reset(new JrScenario<3>(ms)); }
            else if (model == "c15ow" && w.size() == 2 && to_ll(w[1], b)) sc.reset(new OwScenario(b != 0));
            else if (model == "c15misc" && nats(w, 1, ms)) sc.reset(new MiscScenario(ms));
            out = sc ? "ok" : "bad-op";
        } else if (!sc) out = "bad-op";
        else out = sc->op(w);
        puts(out.c_str());
        fflush(stdout);
    }
    return 0;
}
