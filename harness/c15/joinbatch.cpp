// C15 extension (b): REAL join_node (queueing / key_matching / reserving, 2 or 3 ports) with its REAL join_node_base
// aggregator driven in forced multi-operation batches (the technique of batch.cpp: hold `handler_busy`, let the
// operations arrive in the scripted order on separate threads, release).  Successors answer every try_put_task by the
// script line `verdicts` (a = accept, r = refuse and stay, p = refuse and switch the edge to pull mode).
// Line protocol = `drv_c15 c15jb` (Lean model Join.handleOps over the three front ends).
#include <oneapi/tbb/flow_graph.h>
#include <oneapi/tbb/global_control.h>
#include <algorithm>
#include <atomic>
#include <chrono>
#include <condition_variable>
#include <cstdio>
#include <cstdlib>
#include <deque>
#include <functional>
#include <memory>
#include <mutex>
#include <sstream>
#include <string>
#include <thread>
#include <tuple>
#include <unistd.h>
#include <vector>

using namespace tbb::flow;
namespace d2 = tbb::detail::d2;
namespace d1 = tbb::detail::d1;

static std::vector<std::string> g_off;   // offers since the last line
static std::vector<std::string> g_ev;    // reserving: port events since the last line
static std::deque<char> g_verd;
static char g_dflt = 'a';

static std::string S(long long x) { return std::to_string(x); }
static std::string join_strs(const std::vector<std::string>& v, const char* sep) {
    if (v.empty()) return "-";
    std::string s;
    for (size_t i = 0; i < v.size(); ++i) { if (i) s += sep; s += v[i]; }
    return s;
}
static std::string fmt(const std::tuple<int,int>& t) { return "(" + S(std::get<0>(t)) + "," + S(std::get<1>(t)) + ")"; }
static std::string fmt(const std::tuple<int,int,int>& t) { return "(" + S(std::get<0>(t)) + "," + S(std::get<1>(t)) + "," + S(std::get<2>(t)) + ")"; }

template <class T>
struct Recv : receiver<T> {
    graph& g; int id; char last = 'a';
    Recv(graph& g_, int i) : g(g_), id(i) {}
    d2::graph_task* try_put_task(const T& t) override {
        char v = g_dflt;
        if (!g_verd.empty()) { v = g_verd.front(); g_verd.pop_front(); }
        last = v;
        g_off.push_back("r" + S(id) + ":" + fmt(t) + ":" + v);
        return v == 'a' ? d2::SUCCESSFULLY_ENQUEUED : nullptr;
    }
#if __TBB_PREVIEW_FLOW_GRAPH_TRY_PUT_AND_WAIT
    d2::graph_task* try_put_task(const T& t, const d2::message_metainfo&) override { return try_put_task(t); }
#endif
    graph& graph_reference() const override { return g; }
    bool register_predecessor(sender<T>&) override { return last == 'p'; }
    bool remove_predecessor(sender<T>&) override { return true; }
};

struct Worker {
    std::thread th; std::mutex m; std::condition_variable cv;
    std::function<void()> job; bool has = false, done = true, quit = false;
    Worker() { th = std::thread([this] { loop(); }); }
    void loop() {
        for (;;) {
            std::function<void()> j;
            { std::unique_lock<std::mutex> l(m); cv.wait(l, [this] { return has || quit; }); if (quit) return; j.swap(job); has = false; }
            j();
            { std::lock_guard<std::mutex> l(m); done = true; }
            cv.notify_all();
        }
    }
    void run(std::function<void()> j) { { std::lock_guard<std::mutex> l(m); job = std::move(j); has = true; done = false; } cv.notify_all(); }
    void wait() { std::unique_lock<std::mutex> l(m); cv.wait(l, [this] { return done; }); }
    ~Worker() { { std::lock_guard<std::mutex> l(m); quit = true; } cv.notify_all(); th.join(); }
};
static const int MAXB = 8;
static Worker* g_workers[MAXB];

template <int N> struct TupleOf;
template <> struct TupleOf<2> { typedef std::tuple<int,int> type; };
template <> struct TupleOf<3> { typedef std::tuple<int,int,int> type; };

struct Scenario {
    virtual ~Scenario() {}
    virtual std::string put(int p, int v) = 0;
    virtual std::string batch(const std::vector<std::string>& ops) = 0;
};

template <class Q> static std::string dump_fifo(Q& q) {
    std::vector<std::string> v;
    for (size_t i = q.my_head; i < q.my_tail; ++i) v.push_back(q.my_item_valid(i) ? S(q.element(i).item) : "_");
    return join_strs(v, ",");
}
template <class HB, class F> static void walk_hash(HB& hb, F f) {
    for (size_t i = 0; i < hb.my_size; ++i)
        for (auto* p = hb.pointer_array[i]; p; p = p->get_next()) f(*p->get_value_ptr());
}
struct KeyFn { int operator()(const int& v) const { return v / 8; } };

// the forced batch on join_node_base's aggregator, common to the three policies
template <class JP, class I, class T>
static std::string forced_batch(graph& g, d2::join_node_base<JP, I, T>& node, std::vector<std::unique_ptr<Recv<T>>>& rs, const std::vector<std::string>& w,
                                std::function<std::string()> tail) {
    typedef d2::join_node_base<JP, I, T> Node;
    typedef typename Node::join_node_base_operation op_t;
    size_t n = w.size();
    if (n == 0 || n > (size_t)MAXB) return "bad-op";
    std::deque<op_t> ops;
    std::vector<T> outs(n);
    std::vector<char> kinds(n);
    for (size_t i = 0; i < n; ++i) {
        const std::string& t = w[i];
        if (t == "g") { ops.emplace_back(outs[i], Node::try__get); kinds[i] = 'g'; }
        else if (t == "f") { ops.emplace_back(Node::do_fwrd_bypass); kinds[i] = 'f'; }
        else if (t.size() == 2 && (t[0] == 's' || t[0] == 'x') && t[1] >= '0' && t[1] <= '3') {
            ops.emplace_back(*static_cast<receiver<T>*>(rs[t[1] - '0'].get()), t[0] == 's' ? Node::reg_succ : Node::rem_succ);
            kinds[i] = t[0];
        } else return "bad-op";
    }
    auto& agg = node.my_aggregator;
    agg.handler_busy.store(1);
    for (size_t i = 0; i < n; ++i) {
        op_t* op = &ops[i];
        g_workers[i]->run([&agg, op] { agg.execute(op); });
        while (agg.pending_operations.load() != op) std::this_thread::yield();
    }
    agg.handler_busy.store(0, std::memory_order_release);
    for (size_t i = 0; i < n; ++i) g_workers[i]->wait();
    std::vector<std::string> res;
    for (size_t i = 0; i < n; ++i) {
        bool ok = ops[i].status.load() == d2::SUCCEEDED;
        res.push_back(kinds[i] == 'g' && ok ? fmt(outs[i]) : ok ? "S" : "F");
    }
    g.wait_for_all();
    return join_strs(res, ",") + tail();
}

template <class JP, class I, class T>
static std::string base_state(d2::join_node_base<JP, I, T>& node, std::vector<std::unique_ptr<Recv<T>>>& rs) {
    std::vector<std::string> ids;
    for (auto* p : node.my_successors.my_successors)
        for (size_t i = 0; i < rs.size(); ++i) if (static_cast<receiver<T>*>(rs[i].get()) == p) ids.push_back(S(i));
    return S(node.forwarder_busy) + " | " + join_strs(ids, ",");
}

template <int N>
struct JqScenario : Scenario {
    typedef typename TupleOf<N>::type T;
    typedef join_node<T, queueing> node_t;
    graph g; node_t node;
    std::vector<std::unique_ptr<Recv<T>>> rs;
    JqScenario() : node(g) { for (int i = 0; i < 4; ++i) rs.emplace_back(new Recv<T>(g, i)); }
    std::string ports(std::integral_constant<int,2>) { return dump_fifo(std::get<0>(node.input_ports())) + " / " + dump_fifo(std::get<1>(node.input_ports())); }
    std::string ports(std::integral_constant<int,3>) { return ports(std::integral_constant<int,2>()) + " / " + dump_fifo(std::get<2>(node.input_ports())); }
    std::string tail() {
        return " ; " + join_strs(g_off, " ") + " ; " + base_state(node, rs) + " | " + S((long long)node.ports_with_no_items.load()) + " | " + ports(std::integral_constant<int,N>());
    }
    bool put_(int p, int v, std::integral_constant<int,2>) { return p == 0 ? std::get<0>(node.input_ports()).try_put(v) : std::get<1>(node.input_ports()).try_put(v); }
    bool put_(int p, int v, std::integral_constant<int,3>) { return p == 2 ? std::get<2>(node.input_ports()).try_put(v) : put_(p, v, std::integral_constant<int,2>()); }
    std::string put(int p, int v) override { bool r = put_(p, v, std::integral_constant<int,N>()); g.wait_for_all(); return S(r) + tail(); }
    std::string batch(const std::vector<std::string>& w) override { return forced_batch(g, node, rs, w, [this] { return tail(); }); }
};

template <int N> struct JkMake;
template <> struct JkMake<2> {
    typedef join_node<std::tuple<int,int>, key_matching<int>> node_t;
    static node_t* make(graph& g) { return new node_t(g, KeyFn(), KeyFn()); }
};
template <> struct JkMake<3> {
    typedef join_node<std::tuple<int,int,int>, key_matching<int>> node_t;
    static node_t* make(graph& g) { return new node_t(g, KeyFn(), KeyFn(), KeyFn()); }
};

template <int N>
struct JkScenario : Scenario {
    typedef typename TupleOf<N>::type T;
    typedef typename JkMake<N>::node_t node_t;
    graph g; std::unique_ptr<node_t> node;
    std::vector<std::unique_ptr<Recv<T>>> rs;
    JkScenario() : node(JkMake<N>::make(g)) { for (int i = 0; i < 4; ++i) rs.emplace_back(new Recv<T>(g, i)); }
    template <class Port> std::string dump_port(Port& p) {
        std::vector<std::pair<int,int>> kv;
        walk_hash(p, [&](const int& v) { kv.push_back({v / 8, v}); });
        std::sort(kv.begin(), kv.end());
        std::vector<std::string> s;
        for (auto& x : kv) s.push_back(S(x.first) + "=" + S(x.second));
        return join_strs(s, ",");
    }
    std::string third(std::integral_constant<int,2>) { return ""; }
    std::string third(std::integral_constant<int,3>) { return " / " + dump_port(std::get<2>(node->input_ports())); }
    std::string tail() {
        typedef typename node_t::output_buffer_type OB;
        typedef typename node_t::key_to_count_buffer_type CB;
        OB& ob = static_cast<OB&>(*node);
        std::vector<std::string> outs;
        for (size_t i = ob.my_head; i < ob.my_tail; ++i) outs.push_back(fmt(ob.element(i).item));
        std::vector<std::pair<int,size_t>> cs;
        walk_hash(static_cast<CB&>(*node), [&](const d2::count_element<int>& c) { cs.push_back({c.my_key, c.my_value}); });
        std::sort(cs.begin(), cs.end());
        std::vector<std::string> cstr;
        for (auto& c : cs) cstr.push_back(S(c.first) + "=" + S((long long)c.second));
        return " ; " + join_strs(g_off, " ") + " ; " + base_state(*node, rs) + " | " + join_strs(outs, ",") + " | " + join_strs(cstr, ",") + " | " +
               dump_port(std::get<0>(node->input_ports())) + " / " + dump_port(std::get<1>(node->input_ports())) + third(std::integral_constant<int,N>());
    }
    bool put_(int p, int v, std::integral_constant<int,2>) { return p == 0 ? std::get<0>(node->input_ports()).try_put(v) : std::get<1>(node->input_ports()).try_put(v); }
    bool put_(int p, int v, std::integral_constant<int,3>) { return p == 2 ? std::get<2>(node->input_ports()).try_put(v) : put_(p, v, std::integral_constant<int,2>()); }
    std::string put(int p, int v) override { bool r = put_(p, v, std::integral_constant<int,N>()); g.wait_for_all(); return S(r) + tail(); }
    std::string batch(const std::vector<std::string>& w) override {
        return forced_batch(g, *node, rs, w, [this] { return tail(); });
    }
};

struct Snd : sender<int> {
    int id; bool has = false; int item = 0; bool regd = false;
    bool try_reserve(int& v) override { if (!has) return false; v = item; g_ev.push_back("res" + S(id) + ":" + S(item)); return true; }
    bool try_release() override { g_ev.push_back("rel" + S(id)); return true; }
    bool try_consume() override { g_ev.push_back("con" + S(id)); has = false; return true; }
    bool try_get(int& v) override { if (!has) return false; v = item; has = false; g_ev.push_back("get" + S(id)); return true; }
    bool register_successor(receiver<int>&) override { regd = false; return true; }   // the port hands the edge back (push mode)
    bool remove_successor(receiver<int>&) override { return true; }
};

template <int N>
struct JrScenario : Scenario {
    typedef typename TupleOf<N>::type T;
    typedef join_node<T, reserving> node_t;
    graph g; node_t node; Snd snd[3];
    std::vector<std::unique_ptr<Recv<T>>> rs;
    JrScenario() : node(g) { for (int i = 0; i < 3; ++i) snd[i].id = i; for (int i = 0; i < 4; ++i) rs.emplace_back(new Recv<T>(g, i)); }
    receiver<int>& port(int p, std::integral_constant<int,2>) { return p == 0 ? (receiver<int>&)std::get<0>(node.input_ports()) : (receiver<int>&)std::get<1>(node.input_ports()); }
    receiver<int>& port(int p, std::integral_constant<int,3>) { return p == 2 ? (receiver<int>&)std::get<2>(node.input_ports()) : port(p, std::integral_constant<int,2>()); }
    bool resv(int p, std::integral_constant<int,2>) { return p == 0 ? std::get<0>(node.input_ports()).reserved : std::get<1>(node.input_ports()).reserved; }
    bool resv(int p, std::integral_constant<int,3>) { return p == 2 ? std::get<2>(node.input_ports()).reserved : resv(p, std::integral_constant<int,2>()); }
    std::string tail() {
        std::vector<std::string> av; std::string rg, rv;
        for (int i = 0; i < N; ++i) {
            av.push_back(snd[i].has ? S(snd[i].item) : "_");
            rg += snd[i].regd ? '1' : '0';
            rv += resv(i, std::integral_constant<int,N>()) ? '1' : '0';
        }
        return " ; " + join_strs(g_off, " ") + " ; " + join_strs(g_ev, " ") + " ; " + base_state(node, rs) + " | " +
               S((long long)node.ports_with_no_inputs.load()) + " | " + join_strs(av, ",") + " | " + rg + " | " + rv;
    }
    std::string put(int p, int v) override {
        if (snd[p].has) return "bad-op";
        snd[p].has = true; snd[p].item = v;
        if (!snd[p].regd) { snd[p].regd = true; d2::register_predecessor(port(p, std::integral_constant<int,N>()), snd[p]); }
        g.wait_for_all();
        return "ok" + tail();
    }
    std::string batch(const std::vector<std::string>& w) override { return forced_batch(g, node, rs, w, [this] { return tail(); }); }
};

static std::atomic<long> g_line{0};
static std::atomic<bool> g_busy_line{false};
static void watchdog() {
    const char* e = getenv("C15_WATCHDOG");
    long limit = e ? atol(e) : 120, last = -1, since = 0;
    for (;;) {
        std::this_thread::sleep_for(std::chrono::milliseconds(250));
        long cur = g_line.load();
        if (!g_busy_line.load() || cur != last) { last = cur; since = 0; continue; }
        since += 250;
        if (since >= limit * 1000) { printf("HANG %ld\n", cur); fflush(stdout); _exit(3); }
    }
}

int main() {
    tbb::global_control gc(tbb::global_control::max_allowed_parallelism, 1);
    std::thread(watchdog).detach();
    for (int i = 0; i < MAXB; ++i) g_workers[i] = new Worker();
    std::unique_ptr<Scenario> sc;
    int np = 2;
    char line[1 << 16];
    while (fgets(line, sizeof line, stdin)) {
        std::istringstream is(line);
        std::vector<std::string> w; std::string t;
        while (is >> t) w.push_back(t);
        if (w.empty()) continue;
        g_line.fetch_add(1); g_busy_line = true;
        g_off.clear(); g_ev.clear();
        std::string out = "bad-op";
        auto num = [](const std::string& s, long& o) { if (s.empty() || s.size() > 9) return false; for (char c : s) if (c < '0' || c > '9') return false; o = atol(s.c_str()); return true; };
        long a, b;
        if (w[0] == "reset" && w.size() == 3 && num(w[2], a) && (a == 2 || a == 3) && (w[1] == "jq" || w[1] == "jk" || w[1] == "jr")) {
            sc.reset(); g_verd.clear(); g_dflt = 'a'; np = (int)a;
            if (w[1] == "jq") { if (a == 2) sc.reset(new JqScenario<2>()); else sc.reset(new JqScenario<3>()); }
            else if (w[1] == "jk") { if (a == 2) sc.reset(new JkScenario<2>()); else sc.reset(new JkScenario<3>()); }
            else { if (a == 2) sc.reset(new JrScenario<2>()); else sc.reset(new JrScenario<3>()); }
            out = "ok";
        } else if (w[0] == "verdicts" && w.size() >= 2) {
            bool ok = true;
            for (size_t i = 1; i < w.size(); ++i) if (w[i] != "a" && w[i] != "r" && w[i] != "p") ok = false;
            if (ok) { g_dflt = w[1][0]; g_verd.clear(); for (size_t i = 2; i < w.size(); ++i) g_verd.push_back(w[i][0]); out = "ok"; }
        } else if (sc && w[0] == "put" && w.size() == 3 && num(w[1], a) && num(w[2], b) && a < np) {
            out = sc->put((int)a, (int)b);
        } else if (sc && w[0] == "batch" && w.size() >= 2) {
            out = sc->batch(std::vector<std::string>(w.begin() + 1, w.end()));
        }
        puts(out.c_str());
        fflush(stdout);
        g_busy_line = false;
    }
    g_line.fetch_add(1); g_busy_line = true;
    sc.reset();
    g_busy_line = false;
    for (int i = 0; i < MAXB; ++i) delete g_workers[i];
    return 0;
}
