// C15 extension (a): REAL buffer_node / queue_node / sequencer_node / priority_queue_node driven through their REAL
// aggregator in forced multi-operation batches.
//
// How a batch is forced: the harness sets the aggregator's `handler_busy` flag by hand (white-box: "an earlier handler is
// still active"), then lets the operations arrive one by one, each on its own thread, in the scripted ARRIVAL order (it
// waits until `pending_operations` shows the operation before starting the next one); the first arrival becomes the
// waiting handler inside `start_handle_operations`, the others spin on their status.  Then `handler_busy` is cleared:
// the waiting handler grabs the whole pending stack (`exchange`) and runs `handle_operations` over it — the real
// aggregator code decides the order in which the batch is processed.
//
// `batch`  : operations are submitted white-box (`my_aggregator.execute(&op)`), forwarding tasks the handler creates are
//            HELD (not spawned); while one is held the script may submit `f` (= the held forwarder's next
//            `try_fwd_task`, what forward_task() would do) inside batches; a FAILED `f` ends (frees) the forwarder.
// `batchp` : operations go through the public API (try_put, try_get, try_reserve, try_release, try_consume,
//            register_successor, remove_successor); tasks are spawned by the node and run in wait_for_all().
// Successors are scripted: every try_put_task takes the next verdict of the script line `verdicts`:
//   a = accept, r = reject and stay in the cache (register_predecessor false), p = reject and switch the edge to pull mode.
// After every line the observable results, the offers made to successors, and the white-box state are printed and compared
// with `drv_c15 c15bat` (Lean model Batch.handleOps).
#include <oneapi/tbb/flow_graph.h>
#include <oneapi/tbb/global_control.h>
#include <atomic>
#include <cerrno>
#include <condition_variable>
#include <cstdio>
#include <cstdlib>
#include <chrono>
#include <unistd.h>
#include <deque>
#include <functional>
#include <memory>
#include <mutex>
#include <sstream>
#include <string>
#include <thread>
#include <vector>

using namespace tbb::flow;
namespace d2 = tbb::detail::d2;
namespace d1 = tbb::detail::d1;

typedef unsigned long long item_t;
typedef buffer_node<item_t> bn_t;
typedef bn_t::buffer_operation op_t;

struct Off { int r; item_t v; char vd; };
static std::vector<Off> g_off;
static std::deque<char> g_verd;
static char g_dflt = 'a';

static std::string S(unsigned long long x) { return std::to_string(x); }
static std::string join_strs(const std::vector<std::string>& v, const char* sep) {
    if (v.empty()) return "-";
    std::string s;
    for (size_t i = 0; i < v.size(); ++i) { if (i) s += sep; s += v[i]; }
    return s;
}

struct Recv : receiver<item_t> {
    graph& g; int id; char last = 'a';
    Recv(graph& g_, int i) : g(g_), id(i) {}
    d2::graph_task* try_put_task(const item_t& t) override {
        char v = g_dflt;
        if (!g_verd.empty()) { v = g_verd.front(); g_verd.pop_front(); }
        last = v;
        g_off.push_back({id, t, v});
        return v == 'a' ? d2::SUCCESSFULLY_ENQUEUED : nullptr;
    }
#if __TBB_PREVIEW_FLOW_GRAPH_TRY_PUT_AND_WAIT
    d2::graph_task* try_put_task(const item_t& t, const d2::message_metainfo&) override { return try_put_task(t); }
#endif
    graph& graph_reference() const override { return g; }
    bool register_predecessor(sender<item_t>&) override { return last == 'p'; }
    bool remove_predecessor(sender<item_t>&) override { return true; }
};

// persistent helper threads (one per operation of a batch)
struct Worker {
    std::thread th; std::mutex m; std::condition_variable cv;
    std::function<void()> job; bool has = false, done = true, quit = false;
    Worker() { th = std::thread([this] { loop(); }); }
    void loop() {
        for (;;) {
            std::function<void()> j;
            { std::unique_lock<std::mutex> l(m); cv.wait(l, [this] { return has || quit; }); if (quit) return; j.swap(job); has = false; }
            j();
            { std::lock_guard<std::mutex> l(m); done = true; }
            cv.notify_all();
        }
    }
    void run(std::function<void()> j) { { std::lock_guard<std::mutex> l(m); job = std::move(j); has = true; done = false; } cv.notify_all(); }
    void wait() { std::unique_lock<std::mutex> l(m); cv.wait(l, [this] { return done; }); }
    ~Worker() { { std::lock_guard<std::mutex> l(m); quit = true; } cv.notify_all(); th.join(); }
};
static const int MAXB = 8;
static Worker* g_workers[MAXB];

struct SeqDiv8 { size_t operator()(const item_t& v) const { return (size_t)(v / 8); } };
struct SeqId { size_t operator()(const item_t& v) const { return (size_t)v; } };

struct Scen {
    graph g;
    std::string kind;
    std::unique_ptr<bn_t> node;
    priority_queue_node<item_t>* prio = nullptr;
    std::vector<std::unique_ptr<Recv>> rs;
    std::vector<d2::graph_task*> held;
    Scen(const std::string& k) : kind(k) {
        if (k == "buffer") node.reset(new buffer_node<item_t>(g));
        else if (k == "queue") node.reset(new queue_node<item_t>(g));
        else if (k == "seq") node.reset(new sequencer_node<item_t>(g, SeqDiv8()));
        else if (k == "seqid") node.reset(new sequencer_node<item_t>(g, SeqId()));
        else { prio = new priority_queue_node<item_t>(g); node.reset(prio); }
        for (int i = 0; i < 4; ++i) rs.emplace_back(new Recv(g, i));
    }
    void free_task(d2::graph_task* t) {
        typedef d2::forward_task_bypass<bn_t> ft_t;
        d1::wait_tree_vertex_interface* v = t->my_reference_vertex;
        d1::small_object_allocator a = t->my_allocator;
        ft_t* f = static_cast<ft_t*>(t);
        f->~ft_t();
        a.deallocate(f);
        v->release();
    }
    ~Scen() {
        for (auto* t : held) free_task(t);
        held.clear();
        g.wait_for_all();
    }
    std::string dump() {
        if (prio) {
            std::vector<std::string> data;
            for (size_t i = 0; i < prio->my_tail; ++i) data.push_back(prio->my_item_valid(i) ? S(prio->element(i).item) : "_");
            return S(prio->mark) + " | " + join_strs(data, ",");
        }
        bn_t& b = *node;
        std::string s = S(b.my_head) + " " + S(b.my_tail) + " " + S(b.my_array_size) + " | ";
        bool first = true;
        for (size_t i = b.my_head; i != b.my_tail; ++i) {
            if (!first) s += ",";
            first = false;
            auto& e = b.element(i);
            if (e.state == bn_t::no_item) s += "_";
            else { s += S(e.item); if (e.state == bn_t::reserved_item) s += "*"; }
        }
        if (first) s += "-";
        s += " | ";
        for (size_t p = 0; p < b.my_array_size; ++p) {
            auto st = b.my_array[p].begin()->state;
            s += st == bn_t::no_item ? '.' : st == bn_t::has_item ? 'h' : 'r';
        }
        return s;
    }
    std::string state() {
        std::vector<std::string> ids;
        for (auto* p : node->my_successors.my_successors)
            for (size_t i = 0; i < rs.size(); ++i) if (static_cast<receiver<item_t>*>(rs[i].get()) == p) ids.push_back(S(i));
        return S(node->my_reserved) + " " + S(node->forwarder_busy) + " " + S(held.size()) + " | " + join_strs(ids, ",") + " | " + dump();
    }
    static std::string offers(size_t from) {
        std::vector<std::string> v;
        for (size_t i = from; i < g_off.size(); ++i) v.push_back("r" + S(g_off[i].r) + ":" + S(g_off[i].v) + ":" + g_off[i].vd);
        return join_strs(v, " ");
    }
};

struct POp { char k; int r; item_t v; };

static bool parse_u64(const std::string& s, item_t& out) {
    if (s.empty() || s.size() > 20) return false;
    for (char c : s) if (c < '0' || c > '9') return false;
    errno = 0;
    out = strtoull(s.c_str(), nullptr, 10);
    return errno == 0;
}
static bool parse_op(const std::string& w, POp& o) {
    o = {0, 0, 0};
    if (w == "g" || w == "r" || w == "l" || w == "c" || w == "f") { o.k = w[0]; return true; }
    item_t x;
    if (w.size() > 1 && w[0] == 'p' && parse_u64(w.substr(1), x)) { o.k = 'p'; o.v = x; return true; }
    if (w.size() > 1 && (w[0] == 's' || w[0] == 'x') && parse_u64(w.substr(1), x) && x < 4) { o.k = w[0]; o.r = (int)x; return true; }
    return false;
}

// release / consume: only for a reservation held when the batch starts, and only as the first reservation operation in LIST order
static bool rel_ok(bool reserved, const std::vector<POp>& list) {
    bool ok = reserved;
    for (auto& o : list) {
        if (o.k == 'r') ok = false;
        else if (o.k == 'l' || o.k == 'c') { if (!ok) return false; ok = false; }
    }
    return true;
}

static std::string run_batch(Scen& sc, const std::vector<POp>& arr, bool pub) {
    size_t n = arr.size();
    if (n == 0 || n > (size_t)MAXB) return "bad-op";
    std::vector<POp> list(arr.rbegin(), arr.rend());
    if (!rel_ok(sc.node->my_reserved, list)) return "bad-op";
    size_t nf = 0;
    for (auto& o : arr) if (o.k == 'f') ++nf;
    if (pub && (nf > 0 || !sc.held.empty())) return "bad-op";
    if (!pub && (nf > 1 || (nf == 1 && sc.held.empty()))) return "bad-op";
    bn_t& node = *sc.node;
    auto& agg = node.my_aggregator;
    size_t off0 = g_off.size();
    std::deque<op_t> ops;
    std::vector<item_t> vals(n, 0);
    std::vector<int> pubres(n, 0);
#if __TBB_PREVIEW_FLOW_GRAPH_TRY_PUT_AND_WAIT
    std::vector<d2::message_metainfo> metas(n);
#endif
    for (size_t i = 0; i < n; ++i) {
        const POp& o = arr[i];
        bn_t::op_type t = o.k == 's' ? bn_t::reg_succ : o.k == 'x' ? bn_t::rem_succ : o.k == 'g' ? bn_t::req_item : o.k == 'r' ? bn_t::res_item :
                          o.k == 'l' ? bn_t::rel_res : o.k == 'c' ? bn_t::con_res : o.k == 'p' ? bn_t::put_item : bn_t::try_fwd_task;
        ops.emplace_back(t);
        op_t& op = ops.back();
        if (o.k == 'p') { vals[i] = o.v; op.elem = &vals[i];
#if __TBB_PREVIEW_FLOW_GRAPH_TRY_PUT_AND_WAIT
            op.metainfo = &metas[i];
#endif
        }
        if (o.k == 'g' || o.k == 'r') op.elem = &vals[i];
        if (o.k == 's' || o.k == 'x') op.r = sc.rs[o.r].get();
    }
    agg.handler_busy.store(1);
    void* prev = agg.pending_operations.load();
    for (size_t i = 0; i < n; ++i) {
        const POp o = arr[i];
        op_t* op = &ops[i];
        if (!pub) g_workers[i]->run([&agg, op] { agg.execute(op); });
        else g_workers[i]->run([&sc, &node, &vals, &pubres, o, i] {
            switch (o.k) {
            case 'p': pubres[i] = node.try_put(o.v); break;
            case 'g': pubres[i] = node.try_get(vals[i]); break;
            case 'r': pubres[i] = node.try_reserve(vals[i]); break;
            case 'l': pubres[i] = node.try_release(); break;
            case 'c': pubres[i] = node.try_consume(); break;
            case 's': pubres[i] = node.register_successor(*sc.rs[o.r]); break;
            case 'x': pubres[i] = node.remove_successor(*sc.rs[o.r]); break;
            }
        });
        // wait for the arrival: the operation is on the pending stack
        for (;;) {
            void* cur = agg.pending_operations.load();
            if (cur != prev) { prev = cur; break; }
            std::this_thread::yield();
        }
    }
    agg.handler_busy.store(0, std::memory_order_release);
    for (size_t i = 0; i < n; ++i) g_workers[i]->wait();
    std::vector<std::string> res;
    bool created = false;
    if (!pub) {
        for (size_t i = 0; i < n; ++i) {
            bool ok = ops[i].status.load() == d2::SUCCEEDED;
            if ((arr[i].k == 'g' || arr[i].k == 'r') && ok) res.push_back(S(vals[i]));
            else res.push_back(ok ? "S" : "F");
            d2::graph_task* t = ops[i].ltask;
            if (t && t != d2::SUCCESSFULLY_ENQUEUED) { sc.held.push_back(t); created = true; }
        }
        for (size_t i = 0; i < n; ++i)
            if (arr[i].k == 'f' && ops[i].status.load() != d2::SUCCEEDED) {
                // the forwarder that submitted this operation leaves forward_task(): it is the oldest held one
                sc.free_task(sc.held.front());
                sc.held.erase(sc.held.begin());
            }
        return join_strs(res, ",") + " ; " + Scen::offers(off0) + " ; T" + S(created) + " ; " + sc.state();
    }
    sc.g.wait_for_all();
    for (size_t i = 0; i < n; ++i) {
        if ((arr[i].k == 'g' || arr[i].k == 'r') && pubres[i]) res.push_back(S(vals[i]));
        else res.push_back(pubres[i] ? "S" : "F");
    }
    return join_strs(res, ",") + " ; " + Scen::offers(off0) + " ; Tp ; " + sc.state();
}

static std::string drain(Scen& sc) {
    size_t off0 = g_off.size();
    std::string st;
    while (!sc.held.empty()) {
        op_t f(bn_t::try_fwd_task);
        sc.node->my_aggregator.execute(&f);
        bool ok = f.status.load() == d2::SUCCEEDED;
        st += ok ? "S" : "F";
        d2::graph_task* t = f.ltask;
        if (t && t != d2::SUCCESSFULLY_ENQUEUED) sc.held.push_back(t);
        if (!ok) { sc.free_task(sc.held.front()); sc.held.erase(sc.held.begin()); }
        if (st.size() > 100000) break;
    }
    return (st.empty() ? std::string("-") : st) + " ; " + Scen::offers(off0) + " ; T0 ; " + sc.state();
}

// watchdog: an operation of this harness takes microseconds; if one script line does not complete within C15_WATCHDOG seconds
// (default 120) the node is stuck (e.g. wait_for_all() never returns because a created task was never spawned)
static std::atomic<long> g_line{0};
static std::atomic<bool> g_busy_line{false};
static void watchdog() {
    const char* e = getenv("C15_WATCHDOG");
    long limit = e ? atol(e) : 120;
    long last = -1; long since = 0;
    for (;;) {
        std::this_thread::sleep_for(std::chrono::milliseconds(250));
        long cur = g_line.load();
        if (!g_busy_line.load() || cur != last) { last = cur; since = 0; continue; }
        since += 250;
        if (since >= limit * 1000) { printf("HANG %ld\n", cur); fflush(stdout); _exit(3); }
    }
}

int main() {
    tbb::global_control gc(tbb::global_control::max_allowed_parallelism, 1);
    std::thread(watchdog).detach();
    for (int i = 0; i < MAXB; ++i) g_workers[i] = new Worker();
    std::unique_ptr<Scen> sc;
    char line[1 << 16];
    while (fgets(line, sizeof line, stdin)) {
        std::istringstream is(line);
        std::vector<std::string> w; std::string t;
        while (is >> t) w.push_back(t);
        if (w.empty()) continue;
        g_line.fetch_add(1); g_busy_line = true;
        std::string out = "bad-op";
        item_t x;
        if (w[0] == "reset" && w.size() == 3 && parse_u64(w[2], x) &&
            (w[1] == "buffer" || w[1] == "queue" || w[1] == "seq" || w[1] == "seqid" || w[1] == "prio")) {
            sc.reset();
            g_off.clear(); g_verd.clear(); g_dflt = 'a';
            sc.reset(new Scen(w[1]));
            out = "ok";
        } else if (w[0] == "verdicts" && w.size() >= 2) {
            bool ok = true;
            for (size_t i = 1; i < w.size(); ++i) if (w[i] != "a" && w[i] != "r" && w[i] != "p") ok = false;
            if (ok) {
                g_dflt = w[1][0]; g_verd.clear();
                for (size_t i = 2; i < w.size(); ++i) g_verd.push_back(w[i][0]);
                out = "ok";
            }
        } else if (sc && (w[0] == "batch" || w[0] == "batchp") && w.size() >= 2) {
            std::vector<POp> arr; bool ok = true;
            for (size_t i = 1; i < w.size() && ok; ++i) { POp o; ok = parse_op(w[i], o); arr.push_back(o); }
            if (ok) out = run_batch(*sc, arr, w[0] == "batchp");
        } else if (sc && w[0] == "drain" && w.size() == 1) {
            out = drain(*sc);
        } else if (sc && w[0] == "shift" && w.size() == 2 && parse_u64(w[1], x)) {
            bn_t& b = *sc->node;
            if (!sc->prio && b.my_head == b.my_tail && !b.my_reserved) { b.my_head = b.my_tail = (size_t)x; out = "ok ; " + sc->state(); }
        }
        puts(out.c_str());
        fflush(stdout);
        g_busy_line = false;
    }
    g_line.fetch_add(1); g_busy_line = true;
    sc.reset();
    g_busy_line = false;
    for (int i = 0; i < MAXB; ++i) delete g_workers[i];
    return 0;
}
