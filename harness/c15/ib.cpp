// C15 E-PURE white-box harness: the real item_buffer / reservable_item_buffer of /repo (header only).
// Line protocol (same lines go to `drv_c15 c15ib`):
//   reset | push v | popf | popb | resf | relf | conf | grow m | ext t | place i v
// Output: "<result> | <head> <tail> <size> | <view of [head,tail)> | <raw slot states>"
// Built with -fno-access-control (protected members of item_buffer are called directly).
#include <oneapi/tbb/flow_graph.h>
#include <cstdio>
#include <cstring>
#include <string>
#include <memory>
using namespace tbb::detail::d2;
typedef reservable_item_buffer<int> RB;

static std::string dump(RB& b) {
    std::string s = std::to_string(b.my_head) + " " + std::to_string(b.my_tail) + " " + std::to_string(b.my_array_size) + " | ";
    bool first = true;
    for (size_t i = b.my_head; i < b.my_tail; ++i) {
        if (!first) s += ",";
        first = false;
        auto& e = b.element(i);
        if (e.state == RB::no_item) s += "_";
        else { s += std::to_string(e.item); if (e.state == RB::reserved_item) s += "*"; }
    }
    if (first) s += "-";
    s += " | ";
    for (size_t p = 0; p < b.my_array_size; ++p) {
        auto st = b.my_array[p].begin()->state;
        s += st == RB::no_item ? '.' : st == RB::has_item ? 'h' : 'r';
    }
    return s;
}

int main() {
    std::unique_ptr<RB> b(new RB());
    char line[256];
    while (fgets(line, sizeof line, stdin)) {
        char cmd[32] = ""; unsigned long long a = 0, c = 0;
        int n = sscanf(line, "%31s %llu %llu", cmd, &a, &c);
        if (n < 1) continue;
        std::string res;
        bool bad = false;
        if (!strcmp(cmd, "reset") && n == 1) { b.reset(new RB()); res = "ok"; }
        else if (!strcmp(cmd, "push") && n == 2) { int v = (int)a; b->push_back(v); res = "ok"; }
        else if (!strcmp(cmd, "popf") && n == 1) { int v; res = b->pop_front(v) ? std::to_string(v) : "-"; }
        else if (!strcmp(cmd, "popb") && n == 1) { int v; res = b->pop_back(v) ? std::to_string(v) : "-"; }
        else if (!strcmp(cmd, "resf") && n == 1) { int v; res = b->reserve_front(v) ? std::to_string(v) : "-"; }
        else if (!strcmp(cmd, "relf") && n == 1) {
            if (!b->my_reserved) bad = true;
            else if (!b->my_item_valid(b->my_head) || b->element(b->my_head).state != RB::reserved_item) { puts("ub"); fflush(stdout); continue; }
            else { b->release_front(); res = "ok"; }
        }
        else if (!strcmp(cmd, "conf") && n == 1) {
            if (!b->my_reserved) bad = true;
            else if (!b->my_item_valid(b->my_head)) { puts("ub"); fflush(stdout); continue; }
            else { b->consume_front(); res = "ok"; }
        }
        else if (!strcmp(cmd, "grow") && n == 2) { if (a > 4096) bad = true; else { b->grow_my_array((size_t)a); res = "ok"; } }
        else if (!strcmp(cmd, "ext") && n == 2) {
            if (b->my_tail <= a && a <= b->my_head + b->my_array_size) { b->my_tail = (size_t)a; res = "ok"; } else bad = true;
        }
        else if (!strcmp(cmd, "place") && n == 3) {
            if (b->my_head <= a && a < b->my_tail) { int v = (int)c; res = b->place_item((size_t)a, v) ? "1" : "0"; } else bad = true;
        }
        else bad = true;
        if (bad) puts("bad-op"); else printf("%s | %s\n", res.c_str(), dump(*b).c_str());
        fflush(stdout);
    }
    return 0;
}
