// C15 E-REAL harness: real nodes, real threads (several external putter / getter / decrementer threads),
// implementation-side property monitors only (no model).  One line of output per run:
//   "ok <stats>"   or   "VIOLATION <what>"
// usage: mt <scenario> <seed> <threads> <n> [<threshold>]
#include <oneapi/tbb/flow_graph.h>
#include <oneapi/tbb/concurrent_queue.h>
#include <atomic>
#include <chrono>
#include <cstdio>
#include <cstdlib>
#include <cstring>
#include <memory>
#include <mutex>
#include <random>
#include <string>
#include <thread>
#include <tuple>
#include <vector>
#include <algorithm>
#include <map>

using namespace tbb::flow;
namespace d2 = tbb::detail::d2;

static std::string g_viol;
static std::mutex g_mu;
static void viol(const std::string& s) { std::lock_guard<std::mutex> l(g_mu); if (g_viol.empty()) g_viol = s; }
static void start_skew(std::mt19937& rng) { int k = rng() % 200; for (volatile int i = 0; i < k * 50; ++i) {} }

template <class T> struct Sink {
    std::vector<T> log; std::mutex mu;
    void operator()(const T& t) { std::lock_guard<std::mutex> l(mu); log.push_back(t); }
};

// FIFO per producer / exactly once through queue_node (kind 0), buffer_node (kind 1: exactly once only)
static void sc_queue(int kind, unsigned seed, int P, int N) {
    graph g;
    std::unique_ptr<buffer_node<int>> node(kind == 0 ? (buffer_node<int>*)new queue_node<int>(g) : new buffer_node<int>(g));
    Sink<int> sink;
    function_node<int, int> fn(g, serial, [&](const int& v) { sink(v); return 0; });
    make_edge(*node, fn);
    std::vector<std::thread> th;
    for (int p = 0; p < P; ++p) th.emplace_back([&, p] {
        std::mt19937 rng(seed * 977 + p); start_skew(rng);
        for (int i = 0; i < N; ++i) { if (!node->try_put(p * 1000000 + i)) viol("put rejected"); if (rng() % 16 == 0) std::this_thread::yield(); }
    });
    for (auto& t : th) t.join();
    g.wait_for_all();
    std::vector<int> next(P, 0), cnt(P, 0);
    for (int v : sink.log) {
        int p = v / 1000000, i = v % 1000000;
        if (p < 0 || p >= P) { viol("alien item"); break; }
        ++cnt[p];
        if (kind == 0) { if (i != next[p]) { viol("queue_node: producer " + std::to_string(p) + " item " + std::to_string(i) + " arrived when " + std::to_string(next[p]) + " was due (overtaking / loss / duplicate)"); break; } next[p] = i + 1; }
    }
    if ((int)sink.log.size() != P * N) viol("item count " + std::to_string(sink.log.size()) + " != " + std::to_string(P * N));
    if (kind == 1) { std::vector<int> s = sink.log; std::sort(s.begin(), s.end()); if (std::adjacent_find(s.begin(), s.end()) != s.end()) viol("buffer_node: duplicate item"); }
}

// sequencer_node: exact order 0,1,2,...
static void sc_seq(unsigned seed, int P, int N) {
    graph g;
    sequencer_node<int> node(g, [](const int& v) -> size_t { return (size_t)v; });
    Sink<int> sink;
    function_node<int, int> fn(g, serial, [&](const int& v) { sink(v); return 0; });
    make_edge(node, fn);
    std::vector<int> perm(N); for (int i = 0; i < N; ++i) perm[i] = i;
    std::mt19937 rng(seed); std::shuffle(perm.begin(), perm.end(), rng);
    // bounded disorder so that the ring does not have to grow to N: shuffle inside windows
    std::vector<std::thread> th;
    for (int p = 0; p < P; ++p) th.emplace_back([&, p] {
        std::mt19937 r2(seed * 31 + p); start_skew(r2);
        for (int i = p; i < N; i += P) { node.try_put(perm[i]); if (r2() % 8 == 0) std::this_thread::yield(); }
        // stale duplicates must be refused / ignored
        for (int k = 0; k < 8; ++k) node.try_put(perm[(p + k * 7) % N]);
    });
    for (auto& t : th) t.join();
    g.wait_for_all();
    for (size_t i = 0; i < sink.log.size(); ++i)
        if (sink.log[i] != (int)i) { viol("sequencer_node: position " + std::to_string(i) + " got item " + std::to_string(sink.log[i])); break; }
    if ((int)sink.log.size() != N) viol("sequencer_node: emitted " + std::to_string(sink.log.size()) + " of " + std::to_string(N));
}

// priority_queue_node: concurrent putters and getters: exactly once; quiescent drain is sorted
static void sc_prio(unsigned seed, int P, int N) {
    graph g;
    priority_queue_node<int> node(g);
    std::atomic<int> done{0};
    std::vector<std::vector<int>> got(2);
    std::vector<std::thread> th;
    for (int p = 0; p < P; ++p) th.emplace_back([&, p] {
        std::mt19937 rng(seed * 131 + p); start_skew(rng);
        for (int i = 0; i < N; ++i) node.try_put((int)(rng() % 1000) * 64 + p * 8 + (i % 8) + ((i / 8) << 20));
        ++done;
    });
    for (int c = 0; c < 2; ++c) th.emplace_back([&, c] {
        int v;
        while (done.load() < P) { if (node.try_get(v)) got[c].push_back(v); else std::this_thread::yield(); }
    });
    for (auto& t : th) t.join();
    g.wait_for_all();
    std::vector<int> rest; int v, prev = 0x7fffffff;
    while (node.try_get(v)) { if (v > prev) viol("priority_queue_node: quiescent drain not in priority order"); prev = v; rest.push_back(v); }
    std::vector<int> all = rest; for (auto& gv : got) all.insert(all.end(), gv.begin(), gv.end());
    if ((int)all.size() != P * N) viol("priority_queue_node: " + std::to_string(all.size()) + " items out for " + std::to_string(P * N) + " in");
}

// limiter_node: ghost counter at an instrumented successor; decrements are sent by separate threads
struct AccRecv : receiver<int> {
    graph& g; std::atomic<long> outstanding{0}; long T; std::atomic<long> maxseen{0}; std::atomic<long> accepted{0};
    tbb::concurrent_queue<int> todo;
    AccRecv(graph& g_, long T_) : g(g_), T(T_) {}
    d2::graph_task* try_put_task(const int& v) override {
        long cur = ++outstanding;
        long m = maxseen.load(); while (cur > m && !maxseen.compare_exchange_weak(m, cur)) {}
        if (cur > T) viol("limiter_node: " + std::to_string(cur) + " forwarded and not yet decremented messages with threshold " + std::to_string(T));
        ++accepted;
        todo.push(v);
        return d2::SUCCESSFULLY_ENQUEUED;
    }
#if __TBB_PREVIEW_FLOW_GRAPH_TRY_PUT_AND_WAIT
    d2::graph_task* try_put_task(const int& v, const d2::message_metainfo&) override { return try_put_task(v); }
#endif
    graph& graph_reference() const override { return g; }
};

static void sc_limiter(int variant, unsigned seed, int P, int N, long T) {
    graph g;
    limiter_node<int, int> lim(g, (size_t)T);
    queue_node<int> q(g);
    AccRecv acc(g, T);
    make_edge(lim, acc);
    if (variant == 1) make_edge(q, lim);
    std::atomic<bool> stop{false};
    std::atomic<bool> starved{false};
    std::vector<std::thread> th;
    for (int p = 0; p < P; ++p) th.emplace_back([&, p] {
        std::mt19937 rng(seed * 53 + p); start_skew(rng);
        for (int i = 0; i < N; ++i) {
            int v = p * 1000000 + i;
            if (variant == 1) q.try_put(v);
            else {
                auto t0 = std::chrono::steady_clock::now();
                while (!lim.try_put(v)) {
                    std::this_thread::yield();
                    if (std::chrono::steady_clock::now() - t0 > std::chrono::seconds(15)) { starved = true; return; }
                }
            }
        }
    });
    for (int d = 0; d < 2; ++d) th.emplace_back([&, d] {
        std::mt19937 rng(seed * 7 + d);
        while (!stop.load()) {
            int v, k = 0;
            int want = 1 + (int)(rng() % 2);
            while (k < want && acc.todo.try_pop(v)) ++k;
            if (k == 0) { std::this_thread::yield(); continue; }
            acc.outstanding -= k;                       // the ghost is decremented BEFORE the node is told
            lim.decrementer().try_put(k);
        }
    });
    for (int p = 0; p < P; ++p) th[p].join();
    // wait until everything has gone through
    {
        auto t0 = std::chrono::steady_clock::now();
        while (!starved.load() && acc.accepted.load() < (long)P * N && std::chrono::steady_clock::now() - t0 < std::chrono::seconds(15))
            std::this_thread::yield();
    }
    stop = true;
    for (size_t i = P; i < th.size(); ++i) th[i].join();
    g.wait_for_all();
    if (acc.accepted.load() != (long)P * N && g_viol.empty()) {
        // not something the property forbids (the bound holds), but the run is not usable as evidence
        printf("STARVED only %ld of %d messages got through although every forwarded message was decremented (outstanding=%ld)\n",
               acc.accepted.load(), P * N, acc.outstanding.load());
        exit(0);
    }
    printf("max_outstanding=%ld ", acc.maxseen.load());
}

// join_node queueing / reserving: one producer per port: i-th tuple = i-th message of every port
template <class JP> static void sc_join2(unsigned seed, int N, bool via_queues) {
    typedef std::tuple<int,int> T;
    graph g;
    join_node<T, JP> j(g);
    queue_node<int> q0(g), q1(g);
    if (via_queues) { make_edge(q0, input_port<0>(j)); make_edge(q1, input_port<1>(j)); }
    Sink<T> sink;
    function_node<T, int> fn(g, serial, [&](const T& t) { sink(t); return 0; });
    make_edge(j, fn);
    std::vector<std::thread> th;
    for (int p = 0; p < 2; ++p) th.emplace_back([&, p] {
        std::mt19937 rng(seed * 17 + p); start_skew(rng);
        for (int i = 0; i < N; ++i) {
            int v = p * 1000000 + i;
            if (via_queues) (p == 0 ? q0 : q1).try_put(v);
            else if (p == 0) input_port<0>(j).try_put(v); else input_port<1>(j).try_put(v);
            if (rng() % 8 == 0) std::this_thread::yield();
        }
    });
    for (auto& t : th) t.join();
    g.wait_for_all();
    for (size_t i = 0; i < sink.log.size(); ++i)
        if (std::get<0>(sink.log[i]) != (int)i || std::get<1>(sink.log[i]) != 1000000 + (int)i) {
            viol("join_node: tuple " + std::to_string(i) + " is (" + std::to_string(std::get<0>(sink.log[i])) + "," + std::to_string(std::get<1>(sink.log[i])) + ")"); break; }
    if ((int)sink.log.size() != N) viol("join_node: " + std::to_string(sink.log.size()) + " tuples for " + std::to_string(N) + " messages per port");
}

// queueing join with several producers per port: complete tuples, every message used exactly once,
// per-producer order kept inside each component
static void sc_jq_multi(unsigned seed, int P, int N) {
    typedef std::tuple<int,int,int> T;
    graph g;
    join_node<T, queueing> j(g);
    Sink<T> sink;
    function_node<T, int> fn(g, serial, [&](const T& t) { sink(t); return 0; });
    make_edge(j, fn);
    std::vector<std::thread> th;
    for (int port = 0; port < 3; ++port) for (int p = 0; p < P; ++p) th.emplace_back([&, port, p] {
        std::mt19937 rng(seed * 29 + port * 5 + p); start_skew(rng);
        for (int i = 0; i < N; ++i) {
            int v = port * 100000000 + p * 1000000 + i;
            if (port == 0) input_port<0>(j).try_put(v); else if (port == 1) input_port<1>(j).try_put(v); else input_port<2>(j).try_put(v);
        }
    });
    for (auto& t : th) t.join();
    g.wait_for_all();
    if ((int)sink.log.size() != P * N) viol("join_node: " + std::to_string(sink.log.size()) + " tuples, expected " + std::to_string(P * N));
    std::vector<std::vector<int>> next(3, std::vector<int>(P, 0));
    for (auto& t : sink.log) {
        int c[3] = { std::get<0>(t), std::get<1>(t), std::get<2>(t) };
        for (int port = 0; port < 3; ++port) {
            if (c[port] / 100000000 != port) { viol("join_node: component of the wrong port"); return; }
            int p = (c[port] % 100000000) / 1000000, i = c[port] % 1000000;
            if (p >= P || i != next[port][p]) { viol("join_node: port " + std::to_string(port) + " producer " + std::to_string(p) + " message " + std::to_string(i) + " out of order / reused"); return; }
            next[port][p] = i + 1;
        }
    }
}

// key_matching join: same key in every component, every key exactly once
static void sc_jk(unsigned seed, int P, int N) {
    typedef std::tuple<int,int> T;
    graph g;
    join_node<T, key_matching<int>> j(g, [](const int& v) { return v / 8; }, [](const int& v) { return v / 8; });
    Sink<T> sink;
    function_node<T, int> fn(g, serial, [&](const T& t) { sink(t); return 0; });
    make_edge(j, fn);
    std::vector<std::thread> th;
    for (int port = 0; port < 2; ++port) for (int p = 0; p < P; ++p) th.emplace_back([&, port, p] {
        std::vector<int> keys; for (int k = p; k < N; k += P) keys.push_back(k);
        std::mt19937 rng(seed * 41 + port * 3 + p); std::shuffle(keys.begin(), keys.end(), rng); start_skew(rng);
        for (int k : keys) { int v = k * 8 + port; if (port == 0) input_port<0>(j).try_put(v); else input_port<1>(j).try_put(v); }
    });
    for (auto& t : th) t.join();
    g.wait_for_all();
    std::vector<int> seen(N, 0);
    for (auto& t : sink.log) {
        int a = std::get<0>(t), b = std::get<1>(t);
        if (a / 8 != b / 8) { viol("key_matching join: tuple with keys " + std::to_string(a / 8) + " and " + std::to_string(b / 8)); return; }
        if (a % 8 != 0 || b % 8 != 1) { viol("key_matching join: component from the wrong port"); return; }
        if (a / 8 >= N || seen[a / 8]++) { viol("key_matching join: key " + std::to_string(a / 8) + " used twice"); return; }
    }
    if ((int)sink.log.size() != N) viol("key_matching join: " + std::to_string(sink.log.size()) + " tuples for " + std::to_string(N) + " keys");
}

// write_once_node / overwrite_node with RACING writers and a forced window: the message's copy assignment (the store into the node's
// buffer, done while the node's lock is held) of the FIRST writer waits (bounded) until the other writers have entered try_put.
//   write_once_node: exactly one of the racing first writes is accepted, the node keeps THAT value, every present and every future
//                    successor gets exactly that value (once);
//   overwrite_node : every write is accepted; the value the node holds at the end is the last one every successor received.
// The verdict does not depend on timing on a correct node (the wait only widens the window).
static std::atomic<int> g_wo_entered{0}, g_wo_first{0};
static int g_wo_writers = 0;
struct WMsg {
    int v;
    WMsg(int x = -1) : v(x) {}
    WMsg(const WMsg& o) : v(o.v) {}
    WMsg& operator=(const WMsg& o) {
        if (o.v > 0 && g_wo_first.exchange(1) == 0) {
            // the first store into a node buffer: hold the node's lock until the other writers are inside try_put (or 60 ms passed)
            auto t0 = std::chrono::steady_clock::now();
            while (g_wo_entered.load() < g_wo_writers && std::chrono::steady_clock::now() - t0 < std::chrono::milliseconds(60)) std::this_thread::yield();
            std::this_thread::sleep_for(std::chrono::milliseconds(3));
        }
        v = o.v; return *this;
    }
};
static void sc_write_once(bool once, unsigned seed, int P, int rounds) {
    for (int r = 0; r < rounds && g_viol.empty(); ++r) {
        graph g;
        std::unique_ptr<overwrite_node<WMsg>> node(once ? (overwrite_node<WMsg>*)new write_once_node<WMsg>(g) : new overwrite_node<WMsg>(g));
        Sink<int> s1, s2;
        function_node<WMsg, int> f1(g, serial, [&](const WMsg& m) { s1(m.v); return 0; });
        function_node<WMsg, int> f2(g, serial, [&](const WMsg& m) { s2(m.v); return 0; });
        make_edge(*node, f1);
        g_wo_entered = 0; g_wo_first = 0; g_wo_writers = P;
        std::vector<int> acc(P, 0);
        std::vector<std::thread> th;
        for (int p = 0; p < P; ++p) th.emplace_back([&, p] {
            std::mt19937 rng(seed * 31 + r * 7 + p); start_skew(rng);
            g_wo_entered++;
            acc[p] = node->try_put(WMsg(p + 1)) ? 1 : 0;
        });
        for (auto& t : th) t.join();
        g.wait_for_all();
        WMsg cur; bool has = node->try_get(cur);
        make_edge(*node, f2);                 // a future successor
        g.wait_for_all();
        int nacc = 0, winner = -1;
        for (int p = 0; p < P; ++p) if (acc[p]) { nacc++; winner = p + 1; }
        if (!has) { viol(std::string(once ? "write_once_node" : "overwrite_node") + " holds no value after " + std::to_string(P) + " writes"); break; }
        if (once) {
            if (nacc != 1) { viol("write_once_node accepted " + std::to_string(nacc) + " of " + std::to_string(P) + " racing first writes"); break; }
            if (cur.v != winner) { viol("write_once_node holds " + std::to_string(cur.v) + " but the accepted write was " + std::to_string(winner)); break; }
            if (s1.log.size() != 1 || s1.log[0] != winner) { viol("write_once_node: the present successor received " + std::to_string(s1.log.size()) + " message(s), first " + std::to_string(s1.log.empty() ? -1 : s1.log[0]) + ", accepted write " + std::to_string(winner)); break; }
            if (s2.log.size() != 1 || s2.log[0] != winner) { viol("write_once_node: a successor attached later received " + std::to_string(s2.log.empty() ? -1 : s2.log[0]) + " instead of the first value " + std::to_string(winner)); break; }
        } else {
            if (nacc != P) { viol("overwrite_node rejected a write"); break; }
            if (s1.log.empty() || s1.log.back() != cur.v) { viol("overwrite_node holds " + std::to_string(cur.v) + " but the last value its successor received is " + std::to_string(s1.log.empty() ? -1 : s1.log.back())); break; }
            if (s2.log.size() != 1 || s2.log[0] != cur.v) { viol("overwrite_node: a successor attached later did not receive the held value"); break; }
        }
    }
}

// overwrite_node / write_once_node: a successor is being ATTACHED (make_edge -> register_successor hands it the held value) while another thread
// writes.  The new successor is a lightweight function_node (its body runs inside the try_put that register_successor makes) whose first call
// lingers (bounded) until the writer is about to call try_put: "always deliver the latest / first value to every present and FUTURE successor" --
//   overwrite_node : the last value the new successor received is the value the node holds at the end;
//   write_once_node: the new successor received exactly the first value.
static void sc_register_race(bool once, unsigned seed, int rounds) {
    for (int r = 0; r < rounds && g_viol.empty(); ++r) {
        graph g;
        std::unique_ptr<overwrite_node<WMsg>> node(once ? (overwrite_node<WMsg>*)new write_once_node<WMsg>(g) : new overwrite_node<WMsg>(g));
        g_wo_first = 1;                                   // (WMsg's assignment does not linger in this scenario)
        node->try_put(WMsg(1));
        g.wait_for_all();
        std::atomic<int> in_body{0}, writer_entered{0};
        std::mutex mu; std::vector<int> got;
        function_node<WMsg, int, lightweight> lw(g, serial, [&](const WMsg& m) noexcept {
            { std::lock_guard<std::mutex> l(mu); got.push_back(m.v); }
            if (in_body.exchange(1) == 0) {
                auto t0 = std::chrono::steady_clock::now();
                while (!writer_entered.load() && std::chrono::steady_clock::now() - t0 < std::chrono::milliseconds(80)) std::this_thread::yield();
                std::this_thread::sleep_for(std::chrono::milliseconds(4 + (seed + r) % 5));
            }
            return 0;
        });
        bool acc = false;
        std::thread a([&] { make_edge(*node, lw); });
        std::thread b([&] {
            auto t0 = std::chrono::steady_clock::now();
            while (!in_body.load() && std::chrono::steady_clock::now() - t0 < std::chrono::milliseconds(200)) std::this_thread::yield();
            writer_entered = 1;
            acc = node->try_put(WMsg(2));
        });
        a.join(); b.join();
        g.wait_for_all();
        WMsg cur; bool has = node->try_get(cur);
        std::lock_guard<std::mutex> l(mu);
        std::string name = once ? "write_once_node" : "overwrite_node";
        if (!has) { viol(name + " holds no value"); break; }
        if (got.empty()) { viol(name + ": a successor attached while the node held a value received nothing"); break; }
        if (once) {
            if (acc || cur.v != 1) { viol("write_once_node accepted a second write (holds " + std::to_string(cur.v) + ")"); break; }
            if (got.size() != 1 || got[0] != 1) { viol("write_once_node: a successor attached during a racing write received " + std::to_string(got.size()) + " message(s), last " + std::to_string(got.back()) + ", instead of the first value once"); break; }
        } else {
            if (!acc || cur.v != 2) { viol("overwrite_node did not take the racing write (holds " + std::to_string(cur.v) + ")"); break; }
            if (got.back() != cur.v) { viol("overwrite_node holds " + std::to_string(cur.v) + " but the successor attached during the write last received " + std::to_string(got.back()) + ": it never gets the latest value"); break; }
        }
    }
}

int main(int argc, char** argv) {
    if (argc < 5) { fprintf(stderr, "usage: mt <scenario> <seed> <threads> <n> [threshold]\n"); return 2; }
    std::string sc = argv[1]; unsigned seed = (unsigned)atoi(argv[2]); int P = atoi(argv[3]), N = atoi(argv[4]);
    long T = argc > 5 ? atol(argv[5]) : 3;
    if (sc == "queue") sc_queue(0, seed, P, N);
    else if (sc == "buffer") sc_queue(1, seed, P, N);
    else if (sc == "seq") sc_seq(seed, P, N);
    else if (sc == "prio") sc_prio(seed, P, N);
    else if (sc == "lim") sc_limiter(0, seed, P, N, T);
    else if (sc == "limq") sc_limiter(1, seed, P, N, T);
    else if (sc == "jq") sc_join2<queueing>(seed, N, false);
    else if (sc == "jr") sc_join2<reserving>(seed, N, true);
    else if (sc == "jqm") sc_jq_multi(seed, P, N);
    else if (sc == "jk") sc_jk(seed, P, N);
    else if (sc == "wonce") sc_write_once(true, seed, P, N);
    else if (sc == "owrite") sc_write_once(false, seed, P, N);
    else if (sc == "oreg") sc_register_race(false, seed, N);
    else if (sc == "wreg") sc_register_race(true, seed, N);
    else { fprintf(stderr, "unknown scenario\n"); return 2; }
    if (g_viol.empty()) printf("ok scenario=%s seed=%u threads=%d n=%d\n", sc.c_str(), seed, P, N);
    else printf("VIOLATION %s\n", g_viol.c_str());
    return 0;
}
