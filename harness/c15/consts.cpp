// E-GEN constant dumper for C15 (compiled against /repo's current headers on every run, -fno-access-control)
#include <oneapi/tbb/flow_graph.h>
#include <cstdio>
int main() {
    using namespace tbb::detail::d2;
    typedef hash_buffer<int, int, type_to_key_function_body<int,int>, tbb::detail::d1::tbb_hash_compare<int>> HB;
    printf("{\"initialBufferSize\": %zu, \"hashInitialSize\": %zu, \"sizeofSizeT\": %zu}\n",
           (size_t)item_buffer<int>::initial_buffer_size, (size_t)HB::INITIAL_SIZE, sizeof(item_buffer<int>::size_type));
}
