// C09 E-PURE harness (no scheduler): the real lane / slot arithmetic and the real per-lane page chains of
// concurrent_queue<Item<N>> observed white-box (-fno-access-control) after every sequential operation.
// usage: pure <elem size>     stdin lines:
//   tk <k>        -> "<lane> <k & -n_queue> <slot index> <page>"   (concurrent_queue_rep::index, modulo_power_of_two, real constants)
//   push <0|1>    -> push (1 = constructor succeeds, 0 = constructor throws); prints all lanes
//   pop           -> try_pop; prints "got <v>|empty" and all lanes
// lane print: "L<l> <head_counter/n> <tail_counter/n> <mask>,<mask>,...;" for the 8 lanes, then "allocs <a> frees <f> ninv <n>"
#include <oneapi/tbb/concurrent_queue.h>
#include <cstdio>
#include <cstring>
#include <string>

static long g_allocs = 0, g_frees = 0;
static bool g_throw = false;
struct Boom {};

template <std::size_t N> struct Item {
    int v; char pad[N - 4];
    Item() : v(-1) {}
    explicit Item(int x) : v(x) {}
    Item(const Item& o) : v(o.v) { if (g_throw) { g_throw = false; throw Boom(); } }
    Item& operator=(const Item& o) { v = o.v; return *this; }
};

template <class U> static auto is_page_f(int) -> decltype((void)std::declval<U&>().mask, (void)std::declval<U&>().next, std::true_type{});
template <class U> static std::false_type is_page_f(...);
template <class T> struct CA {
    using value_type = T;
    CA() = default;
    template <class U> CA(const CA<U>&) {}
    T* allocate(std::size_t n) { if (decltype(is_page_f<T>(0))::value) ++g_allocs; return static_cast<T*>(::operator new(n * sizeof(T))); }
    void deallocate(T* p, std::size_t) { if (decltype(is_page_f<T>(0))::value) ++g_frees; ::operator delete(p); }
    template <class U> bool operator==(const CA<U>&) const { return true; }
    template <class U> bool operator!=(const CA<U>&) const { return false; }
};

template <std::size_t N> static int run() {
    using T = Item<N>;
    using Q = tbb::concurrent_queue<T, CA<T>>;
    using Rep = tbb::detail::d2::concurrent_queue_rep<T, CA<T>>;
    Q q;
    auto dump = [&] {
        Rep* rep = q.my_queue_representation;
        for (std::size_t l = 0; l < Rep::n_queue; ++l) {
            auto& mq = rep->array[l];
            printf("L%zu %zu %zu ", l, (std::size_t)mq.head_counter.load() / Rep::n_queue, (std::size_t)mq.tail_counter.load() / Rep::n_queue);
            auto* p = mq.head_page.load();
            bool first = true;
            while (tbb::detail::d2::is_valid_page(p)) { printf("%s%llu", first ? "" : ",", (unsigned long long)p->mask.load()); first = false; p = p->next; }
            printf("; ");
        }
        printf("allocs %ld frees %ld ninv %zu\n", g_allocs, g_frees, (std::size_t)rep->n_invalid_entries.load());
    };
    char line[256]; int next = 100;
    while (fgets(line, sizeof line, stdin)) {
        char cmd[32]; unsigned long long a = 0;
        int n = sscanf(line, "%31s %llu", cmd, &a);
        if (n < 1) continue;
        if (!strcmp(cmd, "tk")) {
            std::size_t k = (std::size_t)a;
            std::size_t kk = k; kk &= -Rep::n_queue;
            printf("%zu %zu %zu %zu\n", Rep::index(k), kk, tbb::detail::modulo_power_of_two(k / Rep::n_queue, Rep::items_per_page),
                   (k / Rep::n_queue) / Rep::items_per_page);
        } else if (!strcmp(cmd, "push")) {
            g_throw = a == 0;
            try { q.push(T(next++)); } catch (Boom&) {}
            g_throw = false;
            dump();
        } else if (!strcmp(cmd, "pop")) {
            T d; bool ok = q.try_pop(d);
            if (ok) printf("got %d ", d.v); else printf("empty ");
            dump();
        } else printf("bad-op\n");
    }
    return 0;
}

int main(int argc, char** argv) {
    setvbuf(stdout, nullptr, _IOLBF, 0);      // a hanging operation must not swallow the output of the ones before it
    int sz = argc > 1 ? atoi(argv[1]) : 8;
    switch (sz) {
    case 8: return run<8>();
    case 16: return run<16>();
    case 32: return run<32>();
    case 64: return run<64>();
    case 128: return run<128>();
    case 200: return run<200>();
    default: return 2;
    }
}
