// C09 E-SHIM harness: concurrent_queue<Item> / concurrent_bounded_queue<Item> of /repo under the controlled scheduler.
// Built per element-size class with -DELEM_SIZE=<bytes> (8,16,32,64,128,200 -> items_per_page 32,16,8,4,2,1),
// -fno-access-control and the E-SHIM prelude; bounded runs also link /repo/src/tbb/concurrent_bounded_queue.cpp.
//
// usage: q <rand|dfs|replay> <arg> [maxruns] [start]       scenario on stdin:
//   cfg <u|b> <cap|inf> <drain 0|1>
//   prog <op> ...            one line per thread; ops: push:v:f trypop bpush:v:f btrypush:v:f bpop abort setcap:c
//                            (f = n | c (element constructor throws) | a (page allocation, if this push performs one, throws))
// rand <seed> <nruns> [start] | dfs <preemption bound> <maxruns> | replay <t,t,...> | script <t*,t:n,...>
// Per run prints: run <i> / eff <tid> <ops with the failure that really happened> / the ticket-level log in execution order
//   e <tid> <kind> <var> <a> <b> <ok>   accesses to tail/head/ninv/abort/lt<i>/lh<i>/mask, "move item v", futex waits/wakes
//   n <tid> b <opidx> 0 | n <tid> r <opidx> <rescode> (op begin / end)
// / res <tid> <results> / drain <values|STUCK|skipped> / fin tail head ninv abort live maxlive_excess / mon <verdict> /
// dead <parked tids> (only on deadlock) / sched <tids> / end
#include <oneapi/tbb/concurrent_queue.h>
#include "verif_hb.h"                  // happens-before monitor over the finished log (ghost accesses: item cells, pages)
#include "tbb/concurrent_monitor.h"      // white-box: the epoch words of the two monitors mark the abort_all() flushes
#include <cstdio>
#include <cstring>
#include <sstream>
#include <string>
#include <vector>
#include <set>
#include <map>
#include <sys/mman.h>

#ifndef ELEM_SIZE
#define ELEM_SIZE 8
#endif

struct CtorFail {};
// ghost cells of the happens-before monitor: an item's payload (written by its producer before the push call, read by the consumer after a
// successful pop) and a page (written by the allocating push and by the deallocation, read by every construction into / move-out of a slot)
static constexpr uint64_t GHOST_ITEM = 1ull << 32, GHOST_PAGE = 2ull << 32;
static long page_id_of(const void* a);
struct Ctl { bool throw_ctor = false, fail_alloc = false, alloc_failed = false; };
static thread_local Ctl tl;

// all of these are only touched by the thread holding the baton (or by main between runs)
static long g_live = 0, g_pops_inflight = 0, g_excess = 0;
static long long g_cap = -1;                 // < 0: unbounded
static std::string g_err;
static int g_move_probe;

struct Item {
    int v; unsigned short magic; unsigned char inq; unsigned char pad0;
#if ELEM_SIZE > 8
    char pad[ELEM_SIZE - 8];
#endif
    static constexpr unsigned short ALIVE = 0xA11E, DEAD = 0xDEAD;
    Item() : v(-1), magic(ALIVE), inq(0), pad0(0) {}
    explicit Item(int x) : v(x), magic(ALIVE), inq(0), pad0(0) {}
    void born(const Item& o) {
        if (tl.throw_ctor) { tl.throw_ctor = false; throw CtorFail(); }
        if (o.magic != ALIVE) g_err = "element constructed from a dead object";
        v = o.v; magic = ALIVE; inq = 1; pad0 = 0; ++g_live;
        verif::note("cons", (uint64_t)(unsigned)v, (uint64_t)(uintptr_t)this);
        { long pid = page_id_of(this); if (pid >= 0) verif::note("gr", GHOST_PAGE + (uint64_t)pid, 0); }
        if (g_cap >= 0 && g_live > g_cap + g_pops_inflight) { long x = g_live - (g_cap + g_pops_inflight); if (x > g_excess) g_excess = x; }
    }
    Item(const Item& o) { born(o); }
    Item(Item&& o) { born(o); }
    Item& operator=(Item&& o) {                      // micro_queue::assign_and_destroy_item: *dst = std::move(from)
        verif::pre(verif::K_LOAD, &g_move_probe, 0);   // the move-out is a scheduling point and a logged event
        if (o.magic != ALIVE) g_err = "pop moved out of a slot that holds no live element (magic " + std::to_string(o.magic) + ")";
        { long pid = page_id_of(&o); if (pid >= 0) verif::note("gr", GHOST_PAGE + (uint64_t)pid, 0); }
        v = o.v;
        verif::post(verif::K_LOAD, &g_move_probe, 0, (uint64_t)(unsigned)o.v, 0, 1);
        return *this;
    }
    Item& operator=(const Item& o) = delete;
    ~Item() {
        if (magic != ALIVE) g_err = "element destroyed twice or never constructed";
        if (inq) --g_live;
        magic = DEAD;
    }
};
static_assert(sizeof(Item) == ELEM_SIZE, "element size class");

template <class U> static auto is_page_f(int) -> decltype((void)std::declval<U&>().mask, (void)std::declval<U&>().next, std::true_type{});
template <class U> static std::false_type is_page_f(...);

// ---- page ledger: every padded_page lives in its own mmap'ed region; a freed page is poisoned, made inaccessible (PROT_NONE) and kept
// in quarantine until the run ends, so an access after the free faults deterministically (reported with the schedule by the crash handler)
struct PageReg { char* base; size_t bytes; size_t objsz; long id; bool live; };
static std::vector<PageReg> g_pages;          // this run's pages, in allocation order (id = index)
static long g_pages_live = 0, g_double_free = 0;
static bool g_alloc_failed_run = false;     // a page allocation failed in this run: the queue is in the known broken regime
static long page_id_of(const void* a) {
    const char* c = (const char*)a;
    for (auto& r : g_pages) if (c >= r.base && c < r.base + r.objsz) return r.id;
    return -1;
}
static unsigned long long ptr_code(const void* p) {       // 0 = nullptr, 1 = the invalid-page marker, id + 2 = a page
    if (!p) return 0;
    if ((uintptr_t)p == 1) return 1;
    long id = page_id_of(p);
    return id < 0 ? 999999 : (unsigned long long)id + 2;
}
static void release_quarantine() {
    for (auto& r : g_pages) munmap(r.base, r.bytes);
    g_pages.clear();
}
template <class T> struct FA {
    using value_type = T;
    FA() = default;
    template <class U> FA(const FA<U>&) {}
    T* allocate(std::size_t n) {
        if constexpr (decltype(is_page_f<T>(0))::value) {
            if (tl.fail_alloc) { tl.fail_alloc = false; tl.alloc_failed = true; g_alloc_failed_run = true; verif::note("allocfail", 0, 0); throw std::bad_alloc(); }
            size_t bytes = (n * sizeof(T) + 4095) & ~size_t(4095);
            void* m = mmap(nullptr, bytes, PROT_READ | PROT_WRITE, MAP_PRIVATE | MAP_ANONYMOUS, -1, 0);
            if (m == MAP_FAILED) throw std::bad_alloc();
            T* p = static_cast<T*>(m);
            std::memset((void*)p, 0xCD, n * sizeof(T));          // a slot that was never constructed holds no valid magic
            verif::name_addr(&p->mask, "mask");
            g_pages.push_back(PageReg{(char*)m, bytes, n * sizeof(T), (long)g_pages.size(), true});
            ++g_pages_live;
            verif::note("alloc", (uint64_t)g_pages.back().id, 0);
            verif::note("gw", GHOST_PAGE + (uint64_t)g_pages.back().id, 0);
            return p;
        } else return static_cast<T*>(::operator new(n * sizeof(T)));
    }
    void deallocate(T* p, std::size_t) {
        if constexpr (decltype(is_page_f<T>(0))::value) {
            long id = page_id_of(p);
            if (id < 0 || !g_pages[id].live) { ++g_double_free; g_err = "page freed twice or never allocated"; return; }
            verif::note("free", (uint64_t)id, 0);
            verif::note("gw", GHOST_PAGE + (uint64_t)id, 0);
            --g_pages_live; g_pages[id].live = false;
            std::memset((void*)p, 0xDD, sizeof(T));              // reads after free are recognisable ...
            mprotect(g_pages[id].base, g_pages[id].bytes, PROT_NONE);   // ... and fault
        } else ::operator delete(p);
    }
    template <class U> bool operator==(const FA<U>&) const { return true; }
    template <class U> bool operator!=(const FA<U>&) const { return false; }
};

using UQ = tbb::concurrent_queue<Item, FA<Item>>;
using BQ = tbb::concurrent_bounded_queue<Item, FA<Item>>;

struct OpS { std::string kind; long v = 0; char f = 'n'; };
static std::vector<std::vector<OpS>> g_progs;
static char g_kind = 'u';
static bool g_drain = true;
static long long g_cfg_cap = -1;

enum RC { Q_OK = 0, Q_THREW, Q_BADALLOC, Q_BADLAST, Q_VAL, Q_EMPTY, Q_FULL, Q_ABORTED };
struct ResS { int code; long v; };
static const char* rc_name(int c) { static const char* n[] = {"ok", "threw", "badalloc", "badlast", "val", "empty", "full", "aborted"}; return n[c]; }

template <class Rep> static void name_rep(Rep* rep) {
    verif::name_addr(&rep->tail_counter, "tail");
    verif::name_addr(&rep->head_counter, "head");
    verif::name_addr(&rep->n_invalid_entries, "ninv");
    for (std::size_t i = 0; i < Rep::n_queue; ++i) {
        verif::name_addr(&rep->array[i].tail_counter, "lt" + std::to_string(i));
        verif::name_addr(&rep->array[i].head_counter, "lh" + std::to_string(i));
        verif::name_addr(&rep->array[i].head_page, "hp" + std::to_string(i));
        verif::name_addr(&rep->array[i].tail_page, "tp" + std::to_string(i));
        verif::name_addr(&rep->array[i].page_mutex.m_flag, "pm" + std::to_string(i));
    }
}

static bool wanted(const std::string& n) { return n != "-" && n.compare(0, 4, "anon") != 0; }
static bool page_level_only(const std::string& n) { return n.size() > 2 && (n.compare(0, 2, "hp") == 0 || n.compare(0, 2, "tp") == 0 || n.compare(0, 2, "pm") == 0) && isdigit((unsigned char)n[2]); }

template <class F> static ResS guarded_push(F&& f, OpS& eff, const OpS& op) {
    tl.throw_ctor = op.f == 'c'; tl.fail_alloc = op.f == 'a'; tl.alloc_failed = false;
    ResS r{Q_OK, 0};
    try { if (!f()) r.code = Q_FULL; }
    catch (CtorFail&) { r.code = Q_THREW; }
    catch (tbb::user_abort&) { r.code = Q_ABORTED; }
    catch (tbb::bad_last_alloc&) { r.code = Q_BADLAST; }
    catch (std::bad_alloc&) { r.code = Q_BADALLOC; }
    eff.f = r.code == Q_THREW ? 'c' : (tl.alloc_failed ? 'a' : 'n');
    tl.throw_ctor = false; tl.fail_alloc = false;
    return r;
}

static bool run_once(verif::Schedule& sch, long run_idx, bool print) {
    UQ* uq = nullptr; BQ* bq = nullptr;
    g_live = 0; g_pops_inflight = 0; g_excess = 0; g_err.clear(); g_pages_live = 0; g_double_free = 0; g_alloc_failed_run = false;
    g_cap = g_kind == 'b' ? g_cfg_cap : -1;
    verif::clear_names();
    verif::name_addr(&g_move_probe, "item");
    if (g_kind == 'u') { uq = new UQ(); name_rep(uq->my_queue_representation); }
    else {
        bq = new BQ(); name_rep(bq->my_queue_representation);
        verif::name_addr(&bq->my_abort_counter, "abort");
        verif::name_addr(&bq->my_monitors[0].my_epoch, "ep0");     // cbq_slots_avail_tag: blocked pushes
        verif::name_addr(&bq->my_monitors[1].my_epoch, "ep1");     // cbq_items_avail_tag: blocked pops
        if (g_cfg_cap >= 0) bq->set_capacity((std::ptrdiff_t)g_cfg_cap);
    }
    size_t T = g_progs.size();
    std::vector<std::vector<OpS>> eff(T);
    std::vector<std::vector<ResS>> res(T);
    std::vector<std::function<void()>> bodies;
    for (size_t t = 0; t < T; ++t) bodies.push_back([&, t] {
        tl = Ctl();
        for (size_t i = 0; i < g_progs[t].size(); ++i) {
            const OpS& op = g_progs[t][i];
            OpS e = op;
            ResS r{Q_OK, 0};
            bool known = (op.kind == "push" && uq) || (op.kind == "trypop") || (bq && (op.kind == "bpush" || op.kind == "btrypush" || op.kind == "bpop" || op.kind == "abort" || op.kind == "setcap"));
            if (!known) continue;
            eff[t].push_back(e);                         // recorded at invocation: a pending operation is part of the history
            verif::note("b", eff[t].size() - 1, 0);
            // every public spelling of an insertion is exercised (value mod 3: const& / && / emplace): they must all behave like push
            const int var = (int)(((op.v % 3) + 3) % 3);
            if (op.kind == "push" || op.kind == "bpush" || op.kind == "btrypush") verif::note("gw", GHOST_ITEM + (uint64_t)(unsigned)op.v, 0);
            if (op.kind == "push" && uq) { Item x((int)op.v); r = guarded_push([&] { if (var == 0) uq->push(x); else if (var == 1) uq->push(std::move(x)); else uq->emplace(x); return true; }, e, op); }
            else if (op.kind == "bpush" && bq) { Item x((int)op.v); r = guarded_push([&] { if (var == 0) bq->push(x); else if (var == 1) bq->push(std::move(x)); else bq->emplace(x); return true; }, e, op); }
            else if (op.kind == "btrypush" && bq) { Item x((int)op.v); r = guarded_push([&] { return var == 0 ? bq->try_push(x) : var == 1 ? bq->try_push(std::move(x)) : bq->try_emplace(x); }, e, op); }
            else if (op.kind == "trypop") {
                Item d; ++g_pops_inflight;
                bool ok = uq ? uq->try_pop(d) : bq->try_pop(d);
                --g_pops_inflight;
                if (ok) verif::note("gr", GHOST_ITEM + (uint64_t)(unsigned)d.v, 0);
                r = ok ? ResS{Q_VAL, d.v} : ResS{Q_EMPTY, 0};
            }
            else if (op.kind == "bpop" && bq) {
                Item d; ++g_pops_inflight;
                try { bq->pop(d); verif::note("gr", GHOST_ITEM + (uint64_t)(unsigned)d.v, 0); r = ResS{Q_VAL, d.v}; } catch (tbb::user_abort&) { r.code = Q_ABORTED; }
                --g_pops_inflight;
            }
            else if (op.kind == "abort" && bq) { bq->abort(); }
            else if (op.kind == "setcap" && bq) {
                verif::pre(verif::K_NOTE, nullptr, 0);
                bq->set_capacity((std::ptrdiff_t)op.v); g_cap = op.v < 0 ? -1 : op.v;
                verif::note("setcap", op.v < 0 ? 0 : (uint64_t)op.v, 0);
            }
            verif::note("r", eff[t].size() - 1, (uint64_t)r.code);
            eff[t].back() = e; res[t].push_back(r);
        }
    });
    verif::Result r = verif::run(bodies, sch);
    {   // the visibility clauses: what a consumer reads of an item, and every access to a page, is ordered by happens-before as computed
        // from the memory orders the code passed (a weakened order is invisible by values on this hardware)
        verif::HbStats hst;
        auto races = verif::hb_check(r.log, T, &hst);
        if (!races.empty() && g_err.empty()) g_err = "hb-race " + verif::hb_describe(r.log, races[0]);
    }
    std::string snap;
    if (!r.deadlock) {
        auto walk = [&](auto* rep) {
            for (std::size_t i = 0; i < std::remove_pointer<decltype(rep)>::type::n_queue; ++i) {
                auto& mq = rep->array[i];
                std::ostringstream os;
                auto* h = mq.head_page.a.load(); auto* tp = mq.tail_page.a.load();
                os << "pgfin " << i << " " << ptr_code(h) << " " << ptr_code(tp) << " chain";
                int guard = 0;
                for (auto* q = h; (uintptr_t)q > 1 && guard < 10000; q = q->next, ++guard) os << " " << ptr_code(q);
                os << "\n";
                snap += os.str();
            }
        };
        if (uq) walk(uq->my_queue_representation); else walk(bq->my_queue_representation);
        std::ostringstream os; os << "pglive";
        for (auto& pr : g_pages) if (pr.live) os << " " << pr.id + 2;
        os << "\n"; snap += os.str();
        // the non-concurrent lane operations on this end state: copy construction (micro_queue::assign / make_copy) and clear() of the copy
        auto probe = [&](auto* q) {
            using Q = typename std::remove_pointer<decltype(q)>::type;
            long before = g_pages_live, items_before = g_live;
            long long saved_cap = g_cap; g_cap = -1;         // the copy's elements do not count against the original's capacity
            Q* cp = new Q(*q);
            auto* rep = cp->my_queue_representation;
            for (std::size_t i = 0; i < std::remove_pointer<decltype(rep)>::type::n_queue; ++i) {
                auto& mq = rep->array[i];
                long np = 0, nit = 0;
                std::size_t hidx = (mq.head_counter.a.load() / std::remove_pointer<decltype(rep)>::type::n_queue) % mq.items_per_page;
                for (auto* pg = mq.head_page.a.load(); (uintptr_t)pg > 1 && np < 10000; pg = pg->next, ++np)
                    for (std::size_t k = (np == 0 ? hidx : 0); k < mq.items_per_page; ++k)
                        if ((pg->mask.a.load() >> k) & 1) { ++nit; if ((*pg)[k].magic != Item::ALIVE) g_err = "copy: mask bit set over a slot that holds no live element"; }
                std::ostringstream o2; o2 << "pgcopy " << i << " " << np << " " << nit << "\n"; snap += o2.str();
            }
            long copied_pages = g_pages_live - before, copied_items = g_live - items_before;
            cp->clear();
            std::ostringstream o3; o3 << "pgclear " << copied_pages << " " << (g_pages_live - before) << " " << copied_items << " " << (g_live - items_before) << "\n"; snap += o3.str();
            delete cp;
            g_cap = saved_cap;
        };
        // (not after a failed page allocation: assign() walks through the invalid-page marker — the known alloc-failure regime)
        if (!g_alloc_failed_run) { if (uq) probe(uq); else probe(bq); }
    }
    // drain what is left (single controlled thread: a pop that can never finish shows up as a deadlock)
    std::vector<long> drained; bool drain_stuck = false, drained_ok = false;
    if (!r.deadlock && g_drain) {
        std::vector<std::function<void()>> db;
        db.push_back([&] { Item d; for (int i = 0; i < 10000; ++i) { bool ok = uq ? uq->try_pop(d) : bq->try_pop(d); if (!ok) break; drained.push_back(d.v); } });
        verif::ReplaySchedule rs;
        verif::Result dr = verif::run(db, rs, 200000);
        drain_stuck = dr.deadlock; drained_ok = !dr.deadlock;
    }
    auto* rep_u = uq ? uq->my_queue_representation : nullptr;
    auto* rep_b = bq ? bq->my_queue_representation : nullptr;
    unsigned long long ftail = uq ? rep_u->tail_counter.a.load() : rep_b->tail_counter.a.load();
    unsigned long long fhead = uq ? rep_u->head_counter.a.load() : rep_b->head_counter.a.load();
    unsigned long long fninv = uq ? rep_u->n_invalid_entries.a.load() : rep_b->n_invalid_entries.a.load();
    unsigned fabort = bq ? bq->my_abort_counter.a.load() : 0;
    long live_after = g_live;
    if (drained_ok) {
        // the queue is drained: clear() (non-concurrent) must give back every page, each exactly once
        if (uq) uq->clear(); else bq->clear();
        if (g_err.empty() && g_pages_live != 0) g_err = "page leak: " + std::to_string(g_pages_live) + " page(s) still allocated after draining and clear()";
    }
    long fsize = uq ? (long)uq->unsafe_size() : (long)bq->size();
    bool fempty = uq ? uq->empty() : bq->empty();
    bool ok = g_err.empty() && !r.deadlock && !drain_stuck && g_excess == 0;
    if (drained_ok && g_err.empty() && (fsize != 0 || !fempty)) { ok = false; g_err = "after draining, size() = " + std::to_string(fsize) + " and empty() = " + std::to_string((int)fempty) + " (n_invalid_entries accounting)"; }
    if (drained_ok && live_after != 0) { ok = false; g_err = "after draining, " + std::to_string(live_after) + " constructed element(s) are still inside the queue (lost)"; }
    if (print || !ok) {
        printf("run %ld\n", run_idx);
        for (size_t t = 0; t < T; ++t) {
            printf("eff %zu", t);
            for (auto& o : eff[t]) {
                if (o.kind == "push" || o.kind == "bpush" || o.kind == "btrypush") printf(" %s:%ld:%c", o.kind.c_str(), o.v, o.f);
                else if (o.kind == "setcap") printf(" setcap:%ld", o.v);
                else printf(" %s", o.kind.c_str());
            }
            printf("\n");
        }
        for (auto& e : r.log) {
            if (e.kind == verif::K_NOTE) {
                if (!strcmp(e.tag, "setcap")) printf("e %d note setcap %llu 0 1\n", e.tid, (unsigned long long)e.a);
                else if (!strcmp(e.tag, "alloc") || !strcmp(e.tag, "free")) printf("p %d %s page %llu 0\n", e.tid, e.tag, (unsigned long long)e.a + 2);
                else if (!strcmp(e.tag, "allocfail")) printf("p %d allocfail page 0 0\n", e.tid);
                else if (!strcmp(e.tag, "cons")) printf("p %d cons item %llu %llu\n", e.tid, (unsigned long long)e.a, ptr_code((const void*)(uintptr_t)e.b));
                else if (!strcmp(e.tag, "gw") || !strcmp(e.tag, "gr")) {}
                else printf("n %d %s %llu %llu\n", e.tid, e.tag, (unsigned long long)e.a, (unsigned long long)e.b);
                continue;
            }
            if (e.kind == verif::K_FWAIT || e.kind == verif::K_FWAKE) { printf("e %d %s futex %llu %llu %d\n", e.tid, verif::kind_name(e.kind), (unsigned long long)e.a, (unsigned long long)e.b, e.ok); continue; }
            if (e.kind > verif::K_FXOR) continue;
            std::string n = verif::addr_name(e.addr);
            if (!wanted(n)) continue;
            unsigned long long a = e.a, b = e.b;
            const char* k = verif::kind_name(e.kind);
            if (n == "item") { k = "move"; b = 0; }
            else if (e.kind == verif::K_LOAD || e.kind == verif::K_STORE) b = 0;
            if (n == "abort" || n == "ep0" || n == "ep1") { a &= 0xffffffffull; b &= 0xffffffffull; }
            if (!page_level_only(n)) printf("e %d %s %s %llu %llu %d\n", e.tid, k, n.c_str(), a, b, e.ok);
            // page-level view of the same access (lane turnstiles, head_page / tail_page, page_mutex, masks, the element move-out)
            if (n.compare(0, 2, "hp") == 0 || n.compare(0, 2, "tp") == 0) printf("p %d %s %s %llu 0\n", e.tid, k, n.c_str(), ptr_code((const void*)(uintptr_t)e.a));
            else if (n.compare(0, 2, "pm") == 0) printf("p %d %s %s %llu %llu\n", e.tid, k, n.c_str(), a & 1, (e.kind == verif::K_XCHG ? (unsigned long long)(e.b & 1) : 0ull));
            else if (n.compare(0, 2, "lt") == 0 || n.compare(0, 2, "lh") == 0) printf("p %d %s %s %llu 0\n", e.tid, k, n.c_str(), a);
            else if (n == "mask") printf("p %d %s mask %llu %llu\n", e.tid, k, a, ptr_code(e.addr));
            else if (n == "item") printf("p %d move item %llu 0\n", e.tid, a);
        }
        // page-level snapshot of every lane after the threads finished (white-box walk of the page chains), before the drain
        printf("%s", snap.c_str());
        for (size_t t = 0; t < T; ++t) {
            printf("res %zu", t);
            for (auto& x : res[t]) { if (x.code == Q_VAL) printf(" val:%ld", x.v); else printf(" %s", rc_name(x.code)); }
            printf("\n");
        }
        if (drain_stuck) printf("drain STUCK\n");
        else if (!drained_ok) printf("drain skipped\n");
        else { printf("drain"); for (long v : drained) printf(" %ld", v); printf("\n"); }
        printf("fin %llu %llu %llu %u %ld %ld\n", ftail, fhead, fninv, fabort, live_after, g_excess);
        printf("mon %s%s\n", !g_err.empty() ? "VIOLATION " : (r.deadlock ? "DEADLOCK" : drain_stuck ? "DRAIN-STUCK" : g_excess ? "VIOLATION capacity exceeded" : "ok"), g_err.c_str());
        if (r.deadlock) { printf("dead"); for (int p : r.parked) printf(" %d", p); printf("\n"); }
        printf("sched"); for (int s : r.schedule) printf(" %d", s); printf("\nend\n");
        fflush(stdout);
    }
    if (r.deadlock || drain_stuck) { fflush(stdout); _exit(3); }
    delete uq; delete bq;
    release_quarantine();
    return ok;
}

// phase script: "0*,1*,2:5,0*": run thread 0 until it is not enabled (parked or finished), then thread 1 likewise, then thread 2
// for 5 scheduling points, ...; afterwards lowest enabled thread, non-preemptively.  Robust against small changes in the number
// of accesses per operation (unlike an explicit replay list).
struct ScriptSchedule : verif::Schedule {
    std::vector<std::pair<int, long>> seg; size_t pos = 0; long used = 0;
    int pick(int cur, const std::vector<int>& en, size_t) override {
        while (pos < seg.size()) {
            bool here = false; for (int t : en) if (t == seg[pos].first) here = true;
            if (here && (seg[pos].second < 0 || used < seg[pos].second)) { used++; return seg[pos].first; }
            pos++; used = 0;
        }
        for (int t : en) if (t == cur) return t;
        return en[0];
    }
};

int main(int argc, char** argv) {
    if (argc < 3) return 2;
    verif::report_crashes();
    char line[4096];
    while (fgets(line, sizeof line, stdin)) {
        std::istringstream is(line); std::string w; is >> w;
        if (w == "cfg") {
            std::string k, c; int d = 1; is >> k >> c >> d;
            g_kind = k == "b" ? 'b' : 'u'; g_cfg_cap = c == "inf" ? -1 : atoll(c.c_str()); g_drain = d != 0;
        } else if (w == "prog") {
            std::vector<OpS> ops;
            while (is >> w) {
                OpS o; size_t p = w.find(':');
                o.kind = w.substr(0, p);
                if (p != std::string::npos) {
                    size_t q = w.find(':', p + 1);
                    o.v = atol(w.substr(p + 1, q == std::string::npos ? std::string::npos : q - p - 1).c_str());
                    if (q != std::string::npos && q + 1 < w.size()) o.f = w[q + 1];
                }
                ops.push_back(o);
            }
            g_progs.push_back(ops);
        }
    }
    std::string mode = argv[1];
    long maxruns = argc > 3 ? atol(argv[3]) : 1;
    long start = argc > 4 ? atol(argv[4]) : 0;
    long runs = 0, bad = 0;
    if (mode == "rand") {
        unsigned long long seed = strtoull(argv[2], 0, 10);
        for (long i = start; i < maxruns; ++i) { verif::RandomSchedule s(seed * 7919 + i, 32 + (int)(i % 4) * 56); if (!run_once(s, i, true)) bad++; runs++; }
    } else if (mode == "dfs") {
        verif::DfsSchedule d(atoi(argv[2]));
        do { if (!run_once(d, runs, false)) { bad++; break; } runs++; } while (runs < maxruns && d.next());
    } else if (mode == "script") {
        ScriptSchedule s; std::stringstream ss(argv[2]); std::string tok;
        while (std::getline(ss, tok, ',')) {
            if (tok.empty()) continue;
            size_t st = tok.find('*'), co = tok.find(':');
            if (st != std::string::npos) s.seg.push_back({atoi(tok.substr(0, st).c_str()), -1});
            else if (co != std::string::npos) s.seg.push_back({atoi(tok.substr(0, co).c_str()), atol(tok.substr(co + 1).c_str())});
        }
        if (!run_once(s, 0, true)) bad++;
        runs++;
    } else if (mode == "replay") {
        verif::ReplaySchedule s; std::stringstream ss(argv[2]); std::string tok;
        while (std::getline(ss, tok, ',')) if (!tok.empty()) s.tids.push_back(atoi(tok.c_str()));
        if (!run_once(s, 0, true)) bad++;
        runs++;
    }
    printf("summary runs=%ld bad=%ld\n", runs, bad);
    return bad ? 1 : 0;
}
