// r1:: entry points needed by the queue headers and by src/tbb/concurrent_bounded_queue.cpp (no libtbb linked).
#include <oneapi/tbb/detail/_exception.h>
#include <oneapi/tbb/detail/_utils.h>
#include <oneapi/tbb/cache_aligned_allocator.h>
#include <cstdlib>
#include <cstdio>
#include <new>
#include <stdexcept>
namespace tbb { namespace detail { namespace r1 {
void throw_exception(exception_id eid) {
    switch (eid) {
    case exception_id::bad_alloc: throw std::bad_alloc();
    case exception_id::bad_last_alloc: throw tbb::detail::r1::bad_last_alloc();
    case exception_id::user_abort: throw tbb::detail::r1::user_abort();
    default: throw std::runtime_error("tbb exception");
    }
}
void* cache_aligned_allocate(std::size_t size) { void* p = nullptr; if (posix_memalign(&p, 128, size ? size : 1)) throw std::bad_alloc(); return p; }
void cache_aligned_deallocate(void* p) { free(p); }
std::size_t cache_line_size() { return 128; }
void assertion_failure(const char* location, int line, const char* expression, const char* comment) {
    fprintf(stderr, "TBB assertion %s failed at %s:%d (%s)\n", expression, location, line, comment ? comment : ""); abort();
}
}}}
const char* tbb::detail::r1::user_abort::what() const noexcept { return "user_abort"; }
const char* tbb::detail::r1::bad_last_alloc::what() const noexcept { return "bad_last_alloc"; }
