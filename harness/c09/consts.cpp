// E-GEN constant dumper for C09: n_queue, phi, items_per_page per element size, mask width, compiled with
// -fno-access-control against /repo's headers.  Prints JSON.
#include <oneapi/tbb/concurrent_queue.h>
#include <cstdio>
#include <cstdint>
template <std::size_t N> struct Blob { char c[N]; };
template <std::size_t N> static void one(bool& first) {
    using Q = tbb::detail::d2::micro_queue<Blob<N>, tbb::cache_aligned_allocator<Blob<N>>>;
    using R = tbb::detail::d2::concurrent_queue_rep<Blob<N>, tbb::cache_aligned_allocator<Blob<N>>>;
    static_assert(Q::items_per_page == R::items_per_page, "rep and micro_queue disagree");
    printf("%s[%zu, %zu]", first ? "" : ", ", (std::size_t)Q::item_size, (std::size_t)Q::items_per_page);
    first = false;
}
template <std::size_t... I> static void all(std::index_sequence<I...>) { bool first = true; (one<I + 1>(first), ...); }
int main() {
    using R = tbb::detail::d2::concurrent_queue_rep<int, tbb::cache_aligned_allocator<int>>;
    using P = tbb::detail::d2::micro_queue<int, tbb::cache_aligned_allocator<int>>::padded_page;
    using BQ = tbb::concurrent_bounded_queue<int>;
    printf("{\"n_queue\": %zu, \"phi\": %zu, \"mask_bits\": %zu, \"infinite_capacity\": %lld, \"items_per_page\": [", (std::size_t)R::n_queue, (std::size_t)R::phi,
           sizeof(std::declval<P&>().mask) * 8, (long long)BQ::infinite_capacity);
    all(std::make_index_sequence<300>());
    printf("]}\n");
}
