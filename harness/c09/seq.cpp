// C09 differential harness for the non-concurrent / rarely used operations of the real containers (no scheduler, one thread):
// concurrent_queue<Item, TA<Item>> and concurrent_bounded_queue<Item, TA<Item>> of /repo, built per element-size class
// (-DELEM_SIZE=8,16,32,64,128,200 -> items_per_page 32,16,8,4,2,1) with ASan + UBSan and white-box access.
//
// stdin: one operation per line, stdout: one canonical result line per operation, "<result> | pages <live pages>"
//   new <id> <u|b> [alloc id]   del <id>
//   push <id> <v>   pushf <id> (constructor throws)   trypush <id> <v>   trypushf <id>   trypop <id>
//   size <id>   empty <id>   iter <id>   clear <id>   cap <id>   setcap <id> <c>
//   copy <new> <src>   copyassign <dst> <src>   swap <a> <b>   move <new> <src> <eq|ne>   moveassign <dst> <src> <eq|ne>
// Page ledger (allocator hooks): every padded_page lives in its own mmap'ed region; a freed page is poisoned, made inaccessible and
// kept in quarantine, so a late access faults deterministically; a page freed twice / never allocated, an element constructed from a
// dead object, destroyed twice or never destroyed are reported in the result line ("ERR ..."); the number of live pages is part of
// every result line and is compared with the model's page count; "final" prints the ledger after all objects were destroyed.
#include <oneapi/tbb/concurrent_queue.h>
#include <sys/mman.h>
#include <cstdio>
#include <cstring>
#include <map>
#include <memory>
#include <sstream>
#include <string>
#include <vector>

#ifndef ELEM_SIZE
#define ELEM_SIZE 8
#endif

static std::string g_err;
static long g_live_items = 0;
static bool g_throw = false;
struct CtorFail {};

struct Item {
    int v; unsigned short magic; unsigned char inq; unsigned char pad0;
#if ELEM_SIZE > 8
    char pad[ELEM_SIZE - 8];
#endif
    static constexpr unsigned short ALIVE = 0xA11E, DEAD = 0xDEAD;
    Item() : v(-1), magic(ALIVE), inq(0), pad0(0) {}
    explicit Item(int x) : v(x), magic(ALIVE), inq(0), pad0(0) {}
    void born(const Item& o) {
        if (g_throw) { g_throw = false; throw CtorFail(); }
        if (o.magic != ALIVE) g_err += " element constructed from a dead / raw object;";
        v = o.v; magic = ALIVE; inq = 1; pad0 = 0; ++g_live_items;
    }
    Item(const Item& o) { born(o); }
    Item(Item&& o) { born(o); }
    Item& operator=(Item&& o) { if (o.magic != ALIVE) g_err += " pop moved out of a slot that holds no live element;"; v = o.v; return *this; }
    Item& operator=(const Item& o) = delete;
    ~Item() { if (magic != ALIVE) g_err += " element destroyed twice or never constructed;"; if (inq) --g_live_items; magic = DEAD; }
};
static_assert(sizeof(Item) == ELEM_SIZE, "element size class");

template <class U> static auto is_page_f(int) -> decltype((void)std::declval<U&>().mask, (void)std::declval<U&>().next, std::true_type{});
template <class U> static std::false_type is_page_f(...);

struct PageReg { char* base; size_t bytes; bool live; };
static std::map<void*, PageReg> g_pages;
static long g_pages_live = 0;

template <class T> struct TA {
    using value_type = T;
    int id = 0;
    TA() = default;
    explicit TA(int i) : id(i) {}
    template <class U> TA(const TA<U>& o) : id(o.id) {}
    T* allocate(std::size_t n) {
        if constexpr (decltype(is_page_f<T>(0))::value) {
            size_t bytes = (n * sizeof(T) + 4095) & ~size_t(4095);
            void* m = mmap(nullptr, bytes, PROT_READ | PROT_WRITE, MAP_PRIVATE | MAP_ANONYMOUS, -1, 0);
            if (m == MAP_FAILED) throw std::bad_alloc();
            std::memset(m, 0xCD, n * sizeof(T));
            g_pages[m] = PageReg{(char*)m, bytes, true};
            ++g_pages_live;
            return static_cast<T*>(m);
        } else return static_cast<T*>(::operator new(n * sizeof(T)));
    }
    void deallocate(T* p, std::size_t) {
        if constexpr (decltype(is_page_f<T>(0))::value) {
            auto it = g_pages.find((void*)p);
            if (it == g_pages.end() || !it->second.live) { g_err += " page freed twice or never allocated;"; return; }
            it->second.live = false; --g_pages_live;
            std::memset((void*)p, 0xDD, sizeof(T));
            mprotect(it->second.base, it->second.bytes, PROT_NONE);
        } else ::operator delete(p);
    }
    template <class U> bool operator==(const TA<U>& o) const { return id == o.id; }
    template <class U> bool operator!=(const TA<U>& o) const { return id != o.id; }
};

using UQ = tbb::concurrent_queue<Item, TA<Item>>;
using BQ = tbb::concurrent_bounded_queue<Item, TA<Item>>;

struct Obj { std::unique_ptr<UQ> u; std::unique_ptr<BQ> b; };
static std::map<int, Obj> g_objs;
static int g_fresh_alloc = 1000;

template <class Q> static std::string iter_of(Q& q) {
    std::ostringstream os; os << "iter";
    const Q& cq = q;
    std::vector<int> a, b;
    for (auto it = q.unsafe_begin(); it != q.unsafe_end(); ++it) a.push_back(it->v);
    for (auto it = cq.unsafe_begin(); it != cq.unsafe_end(); it++) b.push_back((*it).v);
    if (a != b) g_err += " iterator and const_iterator disagree;";
    for (int x : a) os << " " << x;
    return os.str();
}

int main() {
    char line[512];
    while (fgets(line, sizeof line, stdin)) {
        std::istringstream is(line); std::string op; is >> op;
        if (op.empty()) continue;
        std::string out = "bad-op";
        g_err.clear();
        int id = -1; is >> id;
        auto has = [&](int i) { return g_objs.count(i) != 0; };
        try {
            if (op == "new") {
                std::string kind; int aid = 0; is >> kind >> aid;
                Obj o; if (kind == "b") o.b.reset(new BQ(TA<Item>(aid))); else o.u.reset(new UQ(TA<Item>(aid)));
                g_objs[id] = std::move(o); out = "ok";
            } else if (op == "del" && has(id)) { g_objs.erase(id); out = "ok"; }
            else if (op == "final") {
                g_objs.clear();
                std::ostringstream os; os << "final items " << g_live_items; out = os.str();
            }
            else if (has(id)) {
                Obj& o = g_objs[id];
                if (op == "push" || op == "trypush") {
                    long v; is >> v; Item x((int)v); const int var = (int)(v % 3);
                    if (o.u) { if (var == 0) o.u->push(x); else if (var == 1) o.u->push(std::move(x)); else o.u->emplace(x); out = "ok"; }
                    else { bool r = var == 0 ? o.b->try_push(x) : var == 1 ? o.b->try_push(std::move(x)) : o.b->try_emplace(x); out = r ? "ok" : "full"; }
                } else if (op == "pushf" || op == "trypushf") {
                    Item x(0); g_throw = true; out = "ok";
                    try { if (o.u) o.u->push(x); else if (!o.b->try_push(x)) out = "full"; } catch (CtorFail&) { out = "threw"; }
                    g_throw = false;
                } else if (op == "trypop") {
                    Item d; bool r = o.u ? o.u->try_pop(d) : o.b->try_pop(d);
                    out = r ? "val " + std::to_string(d.v) : "empty";
                } else if (op == "size") { out = "size " + std::to_string(o.u ? (long long)o.u->unsafe_size() : (long long)o.b->size()); }
                else if (op == "empty") { out = std::string("empty ") + ((o.u ? o.u->empty() : o.b->empty()) ? "1" : "0"); }
                else if (op == "iter") { out = o.u ? iter_of(*o.u) : iter_of(*o.b); }
                else if (op == "clear") { if (o.u) o.u->clear(); else o.b->clear(); out = "ok"; }
                else if (op == "cap") { out = "cap " + std::to_string(o.u ? 0ll : (long long)o.b->capacity()); }
                else if (op == "setcap") { long long c; is >> c; if (o.b) o.b->set_capacity((std::ptrdiff_t)c); out = "ok"; }
                else if (op == "copyassign" || op == "swap" || op == "moveassign") {
                    int j; is >> j;
                    if (has(j)) {
                        Obj& s = g_objs[j];
                        if (op == "copyassign") { if (o.u && s.u) *o.u = *s.u; else if (o.b && s.b) *o.b = *s.b; }
                        else if (op == "swap") { if (o.u && s.u) { if (id % 2) o.u->swap(*s.u); else swap(*o.u, *s.u); } else if (o.b && s.b) { if (id % 2) o.b->swap(*s.b); else swap(*o.b, *s.b); } }
                        else { if (o.u && s.u) *o.u = std::move(*s.u); else if (o.b && s.b) *o.b = std::move(*s.b); }
                        out = "ok";
                    }
                }
            }
            if ((op == "copy" || op == "move") && !has(id)) {
                int j; std::string eq; is >> j >> eq;
                if (has(j)) {
                    Obj& s = g_objs[j]; Obj o;
                    if (op == "copy") { if (s.u) o.u.reset(new UQ(*s.u)); else o.b.reset(new BQ(*s.b)); }
                    else if (eq == "eq") { if (s.u) { if (id % 2) o.u.reset(new UQ(std::move(*s.u))); else o.u.reset(new UQ(std::move(*s.u), s.u->get_allocator())); }
                                           else { if (id % 2) o.b.reset(new BQ(std::move(*s.b))); else o.b.reset(new BQ(std::move(*s.b), s.b->get_allocator())); } }
                    else { int a = ++g_fresh_alloc; if (s.u) o.u.reset(new UQ(std::move(*s.u), TA<Item>(a))); else o.b.reset(new BQ(std::move(*s.b), TA<Item>(a))); }
                    g_objs[id] = std::move(o); out = "ok";
                }
            }
        } catch (std::exception& e) { out = std::string("exception ") + e.what(); }
        if (!g_err.empty()) out += " ERR" + g_err;
        printf("%s | pages %ld\n", out.c_str(), g_pages_live);
        fflush(stdout);
    }
    return 0;
}
