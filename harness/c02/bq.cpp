// C02 E-SHIM component harness: the REAL tbb::concurrent_bounded_queue (include/oneapi/tbb/concurrent_queue.h:
// internal_push / internal_pop / internal_push_if_not_full / internal_pop_if_present / internal_abort) with the REAL
// src/tbb/concurrent_bounded_queue.cpp (wait_/notify_/abort_bounded_queue_monitor(s), predicate_leq) and the REAL
// concurrent_monitor.h + semaphore.h, all compiled under the shim, under the controlled scheduler.
// usage: bq <rand|dfs|replay|guided> <arg> [maxruns]     (scenario on stdin)
//   rand <seed> <nruns> | dfs <preemption bound> <maxruns> | replay <t,t,t,...> | guided <guide> [seed]
// scenario:  cap <n>                capacity (set_capacity before the threads start)
//            T <op> ...             one line per thread (thread id = line index); ops: push pop tpush tpop abort
// guide (state-guided schedule; phases separated by ','):  <tid>:<cond>[+<k>]
//   run thread <tid> (alone) until <cond> holds, then for k more scheduling points, then go to the next phase; after
//   the last phase: seeded random.  cond:  s<n> / i<n>  = the slots / items monitor's wait set holds >= n nodes,
//   h<n> / t<n> = head_counter / tail_counter >= n,  a<n> = my_abort_counter >= n,  * = until the thread cannot run
//   (finished or parked),  - = no condition (just the k points).  A phase whose thread cannot run ends at once.
// Per run prints: run <i> / e <tid> <kind> <var> <order> <a> <b> <ok> (accesses to named variables, fences, futex calls)
// / res <tid> <results: push 1|2(user_abort), pop 1|2, tpush/tpop 1|0, abort 1> / fin <head> <tail> <abortc> /
// mon <verdict> / sched <tids> / end.
// Named variables: head tail abortc ninv (queue rep), mqt<q> mqh<q> (micro-queue tail/head counters), S.epoch S.count
// S.mflag S.mwait (my_monitors[cbq_slots_avail_tag]), I.* (cbq_items_avail_tag), inl<t> sem<t> (the wait node of thread
// t: a temporary on its stack inside wait_bounded_queue_monitor, recognised by the stack window of the thread and the
// semaphore's constructor store).
// Implementation-side monitors (independent of the Lean model):
//   * every live thread parked (scheduler): for each thread sleeping in a semaphore: is the wake-up condition of its
//     wait true (push: head_counter > ticket - capacity; pop: tail_counter > target; either: abort counter changed)?
//     "LOST-WAKEUP-ABORT" (abort counter changed) / "LOST-WAKEUP" if so; otherwise "BLOCKED" (nobody sleeps on a satisfied
//     condition: legitimate, e.g. a pop with no push left);
//     a thread spinning for ever (micro-queue hand-over) with everybody else parked: "STUCK-SPIN";
//   * "DOUBLE-V": V() on an open semaphore; "UNLOCKED-WAITSET-WRITE": store to a monitor's count / epoch without its mutex;
//   * "WOKEN-BUT-FALSE": a blocking push returned normally from its wait although head_counter <= ticket - capacity
//     (the assertion after the wait, compiled out), likewise pop with tail_counter <= target.
#include "oneapi/tbb/concurrent_queue.h"
#include "tbb/concurrent_monitor.h"
#include <cstdio>
#include <sys/wait.h>
#include <unistd.h>
#include <cstring>
#include <sstream>
#include <string>
#include <vector>

using namespace tbb::detail::r1;
typedef tbb::concurrent_bounded_queue<int> Queue;

enum OpK { PUSH, POP, TPUSH, TPOP, ABORT };
static std::vector<std::vector<int>> g_progs;
static long g_cap = 1;

static bool parse(FILE* f) {
    char line[4096];
    while (fgets(line, sizeof line, f)) {
        std::istringstream is(line); std::string w; is >> w;
        if (w == "cap") { is >> g_cap; continue; }
        if (w != "T") continue;
        std::vector<int> p;
        while (is >> w) {
            if (w == "push") p.push_back(PUSH); else if (w == "pop") p.push_back(POP); else if (w == "tpush") p.push_back(TPUSH);
            else if (w == "tpop") p.push_back(TPOP); else if (w == "abort") p.push_back(ABORT); else return false;
        }
        g_progs.push_back(p);
    }
    return !g_progs.empty();
}

// ---- state-guided schedule -------------------------------------------------------------------------------------
struct Phase { int tid; char cond; long n; long extra; };
static Queue* g_q = nullptr;
static size_t waitset_count(int tag) { return g_q->my_monitors[tag].my_waitset.count.a.load(std::memory_order_relaxed); }
struct GuidedSchedule : verif::Schedule {
    std::vector<Phase> phases; size_t cur_phase = 0; long left = -1; verif::RandomSchedule rnd;
    explicit GuidedSchedule(uint64_t seed) : rnd(seed, 96) {}
    bool holds(const Phase& p) const {
        auto* rep = g_q->my_queue_representation;
        switch (p.cond) {
        case 's': return (long)waitset_count(tbb::detail::d2::cbq_slots_avail_tag) >= p.n;
        case 'i': return (long)waitset_count(tbb::detail::d2::cbq_items_avail_tag) >= p.n;
        case 'h': return (long)rep->head_counter.a.load() >= p.n;
        case 't': return (long)rep->tail_counter.a.load() >= p.n;
        case 'a': return (long)g_q->my_abort_counter.a.load() >= p.n;
        case '-': return true;
        default: return false;           // '*': never, the phase ends when the thread cannot run
        }
    }
    int pick(int cur, const std::vector<int>& en, size_t step) override {
        while (cur_phase < phases.size()) {
            const Phase& p = phases[cur_phase];
            bool can = false; for (int t : en) if (t == p.tid) can = true;
            if (!can) { cur_phase++; left = -1; continue; }
            if (left < 0 && holds(p)) left = p.extra;
            if (left == 0) { cur_phase++; left = -1; continue; }
            if (left > 0) left--;
            return p.tid;
        }
        return rnd.pick(cur, en, step);
    }
};
static bool parse_guide(const std::string& g, GuidedSchedule& s) {
    std::stringstream ss(g); std::string tok;
    while (std::getline(ss, tok, ',')) {
        if (tok.empty()) continue;
        size_t c = tok.find(':'); if (c == std::string::npos || c + 1 >= tok.size()) return false;
        Phase p{atoi(tok.substr(0, c).c_str()), tok[c + 1], 0, 0};
        std::string rest = tok.substr(c + 2);
        size_t plus = rest.find('+');
        if (plus != std::string::npos) { p.extra = atol(rest.substr(plus + 1).c_str()); rest = rest.substr(0, plus); }
        if (!rest.empty()) p.n = atol(rest.c_str());
        s.phases.push_back(p);
    }
    return true;
}

// ---- one run ----------------------------------------------------------------------------------------------------
static bool run_once(verif::Schedule& sch, long run_idx, bool print) {
    Queue* q = new Queue();          // leaked on deadlock (the process exits)
    q->set_capacity(g_cap);
    g_q = q;
    size_t T = g_progs.size();
    std::vector<std::vector<int>> res(T);
    std::vector<int> cur_op(T, -1);
    std::vector<const char*> stack_mark(T, nullptr);
    std::string woken_false;
    verif::clear_names();
    auto* rep = q->my_queue_representation;
    verif::name_addr(&rep->head_counter, "head");
    verif::name_addr(&rep->tail_counter, "tail");
    verif::name_addr(&rep->n_invalid_entries, "ninv");
    verif::name_addr(&q->my_abort_counter, "abortc");
    for (size_t k = 0; k < rep->n_queue; ++k) {
        verif::name_addr(&rep->array[k].tail_counter, "mqt" + std::to_string(k));
        verif::name_addr(&rep->array[k].head_counter, "mqh" + std::to_string(k));
    }
    const char* tags[2]; tags[tbb::detail::d2::cbq_slots_avail_tag] = "S."; tags[tbb::detail::d2::cbq_items_avail_tag] = "I.";
    for (int m = 0; m < 2; ++m) {
        concurrent_monitor& mon = q->my_monitors[m];
        verif::name_addr(&mon.my_epoch, std::string(tags[m]) + "epoch");
        verif::name_addr(&mon.my_waitset.count, std::string(tags[m]) + "count");
        verif::name_addr(&mon.my_mutex.my_flag, std::string(tags[m]) + "mflag");
        verif::name_addr(&mon.my_mutex.my_waiters, std::string(tags[m]) + "mwait");
    }
    std::vector<std::function<void()>> bodies;
    for (size_t t = 0; t < T; ++t) bodies.push_back([&, t] {
        char mark; stack_mark[t] = &mark;
        int item = (int)(1000 * (t + 1));
        for (int o : g_progs[t]) {
            cur_op[t] = o;
            verif::note("op_begin", (uint64_t)o, 0);
            int r = 1;
            try {
                switch (o) {
                case PUSH: q->push(++item); break;
                case POP: { int v = 0; q->pop(v); break; }
                case TPUSH: r = q->try_push(++item) ? 1 : 0; break;
                case TPOP: { int v = 0; r = q->try_pop(v) ? 1 : 0; break; }
                case ABORT: q->abort(); break;
                }
            } catch (tbb::user_abort&) { r = 2; }
            res[t].push_back(r);
            verif::note("op_end", (uint64_t)r, 0);
        }
        cur_op[t] = -1;
    });
    verif::Result r = verif::run(bodies, sch, 400000);
    // ---- name the wait nodes: a temporary sleep_node on the waiting thread's stack --------------------------------
    long D;
    { concurrent_monitor::thread_context tmp{0}; D = (const char*)tmp.sema.begin() - (const char*)&tmp.my_is_in_list; }
    auto owner_of = [&](const void* a) -> int {
        for (size_t t = 0; t < T; ++t) if (stack_mark[t]) {
            const char* p = (const char*)a;
            if (p <= stack_mark[t] + 256 && p > stack_mark[t] - (1 << 20)) return (int)t;
        }
        return -1;
    };
    std::string verdict = "ok";
    std::vector<std::string> lines;
    {
        int holder[2] = {-1, -1};
        std::vector<long> ticket(T, -1), old_abort(T, -1);
        std::vector<int> in_op(T, -1);
        std::vector<bool> waited(T, false), inval(T, false);
        long cur_head = 0, cur_tail = 0;
        for (auto& e : r.log) {
            if (e.kind == verif::K_PAUSE || e.kind == verif::K_YIELD || e.kind == verif::K_START || e.kind == verif::K_END) continue;
            if (e.kind == verif::K_NOTE) {
                if (e.tag && !strcmp(e.tag, "op_begin")) { in_op[e.tid] = (int)e.a; old_abort[e.tid] = -1; ticket[e.tid] = -1; waited[e.tid] = false; inval[e.tid] = false; }
                lines.push_back(verif::format_event(e)); continue;
            }
            if (e.kind == verif::K_FENCE) { lines.push_back(verif::format_event(e)); continue; }
            std::string nm = verif::addr_name(e.addr);
            if (nm.compare(0, 4, "anon") == 0) {
                int w = owner_of(e.addr);
                if (w >= 0 && e.kind == verif::K_STORE && e.a == 1 && e.order == 5 && e.tid == w) {
                    verif::name_addr(e.addr, "sem" + std::to_string(w));
                    verif::name_addr((const char*)e.addr - D, "inl" + std::to_string(w));
                    nm = verif::addr_name(e.addr);
                }
            }
            if (nm.compare(0, 4, "anon") == 0) continue;
            // monitors on the raw log
            if (nm.compare(0, 3, "sem") == 0 && e.kind == verif::K_XCHG && e.b == 0 && e.a == 0)
                verdict = "DOUBLE-V " + nm + " by thread " + std::to_string(e.tid);
            for (int m = 0; m < 2; ++m) {
                std::string tg = tags[m];
                if (nm == tg + "mflag" && e.kind == verif::K_XCHG) { if (e.a == 0 && e.b == 1) holder[m] = e.tid; else if (e.b == 0) holder[m] = -1; }
                else if ((nm == tg + "count" || nm == tg + "epoch") && e.kind != verif::K_LOAD && holder[m] != e.tid && verdict == "ok")
                    verdict = "UNLOCKED-WAITSET-WRITE " + nm + " by thread " + std::to_string(e.tid);
            }
            if (nm == "abortc" && e.kind == verif::K_LOAD && old_abort[e.tid] < 0) old_abort[e.tid] = (long)e.a;
            if ((nm == "tail" && in_op[e.tid] == PUSH && e.kind == verif::K_FADD) || (nm == "head" && in_op[e.tid] == POP && e.kind == verif::K_FADD))
                ticket[e.tid] = (long)e.a;
            // WOKEN-BUT-FALSE: the publication / the consumption that follows a completed wait of a blocking op
            if (nm == "head" && e.kind != verif::K_LOAD) cur_head = (e.kind == verif::K_CAS) ? (e.ok ? (long)e.b : cur_head) : (long)e.b;
            if (nm == "tail" && e.kind != verif::K_LOAD) cur_tail = (e.kind == verif::K_CAS) ? (e.ok ? (long)e.b : cur_tail) : (long)e.b;
            if (nm.compare(0, 3, "sem") == 0 && e.kind == verif::K_STORE && e.tid >= 0 && (size_t)e.tid < T) waited[e.tid] = true;
            if (nm == "ninv" && e.kind == verif::K_FADD) inval[e.tid] = true;
            if (nm.compare(0, 3, "mqt") == 0 && e.kind == verif::K_FADD) {
                if (in_op[e.tid] == PUSH && waited[e.tid] && !inval[e.tid] && ticket[e.tid] >= 0 && !(cur_head > ticket[e.tid] - g_cap) && verdict == "ok")
                    verdict = "WOKEN-BUT-FALSE push of thread " + std::to_string(e.tid) + " ticket " + std::to_string(ticket[e.tid]) + " proceeds with head_counter " + std::to_string(cur_head);
                waited[e.tid] = false; inval[e.tid] = false;
            }
            if (nm.compare(0, 3, "mqh") == 0 && e.kind == verif::K_STORE) {
                if (in_op[e.tid] == POP && waited[e.tid] && ticket[e.tid] >= 0 && !(cur_tail > ticket[e.tid]) && verdict == "ok")
                    verdict = "WOKEN-BUT-FALSE pop of thread " + std::to_string(e.tid) + " target " + std::to_string(ticket[e.tid]) + " proceeds with tail_counter " + std::to_string(cur_tail);
                waited[e.tid] = false;
            }
            lines.push_back(verif::format_event(e));
        }
        if (r.deadlock) {
            std::string lost, lostab, blocked, spin;
            long head = (long)rep->head_counter.a.load(), tail = (long)rep->tail_counter.a.load(), ac = (long)q->my_abort_counter.a.load();
            std::vector<int> last_kind(T, -1);
            for (auto& e : r.log) if (e.tid >= 0 && (size_t)e.tid < T && e.kind != verif::K_NOTE) last_kind[e.tid] = e.kind;
            for (int t : r.parked) {
                if ((size_t)t >= T) continue;
                bool asleep = last_kind[t] == verif::K_FWAIT;
                if (!asleep) { spin += " " + std::to_string(t); continue; }
                bool cond = false;
                if (in_op[t] == PUSH && ticket[t] >= 0) cond = head > ticket[t] - g_cap;
                if (in_op[t] == POP && ticket[t] >= 0) cond = tail > ticket[t];
                bool ab = old_abort[t] >= 0 && ac != old_abort[t];
                std::string d = " " + std::to_string(t) + ":" + (in_op[t] == PUSH ? "push" : in_op[t] == POP ? "pop" : "?") + "#" + std::to_string(ticket[t]);
                (ab ? lostab : cond ? lost : blocked) += d;
            }
            if (!lostab.empty()) verdict = "LOST-WAKEUP-ABORT parked-although-abort-counter-changed" + lostab + " (abortc=" + std::to_string(ac) + ")";
            else if (!lost.empty()) verdict = "LOST-WAKEUP parked-while-condition-true" + lost + " (head=" + std::to_string(head) + " tail=" + std::to_string(tail) + " abortc=" + std::to_string(ac) + ")";
            else if (!spin.empty() && blocked.empty()) verdict = "STUCK-SPIN" + spin;
            else verdict = "BLOCKED" + blocked + (spin.empty() ? "" : " spinning" + spin);
        }
    }
    bool ok = verdict == "ok";
    if (print || !ok) {
        printf("run %ld\n", run_idx);
        for (auto& l : lines) printf("e %s\n", l.c_str());
        for (size_t t = 0; t < T; ++t) { printf("res %zu", t); for (int v : res[t]) printf(" %d", v); printf("\n"); }
        printf("fin %ld %ld %ld\n", (long)rep->head_counter.a.load(), (long)rep->tail_counter.a.load(), (long)q->my_abort_counter.a.load());
        printf("mon %s\n", verdict.c_str());
        printf("sched"); for (int s : r.schedule) printf(" %d", s); printf("\nend\n");
        fflush(stdout);
    }
    if (r.deadlock) { fflush(stdout); _exit(3); }
    g_q = nullptr;
    delete q;
    return ok;
}

int main(int argc, char** argv) {
    if (argc < 3) return 2;
    if (!parse(stdin)) { printf("bad-scenario\n"); return 2; }
    std::string mode = argv[1];
    long maxruns = argc > 3 ? atol(argv[3]) : 1;
    long runs = 0, bad = 0;
    if (mode == "rand") {
        unsigned long long seed = strtoull(argv[2], 0, 10);
        // one child process per run: a run that ends with every thread parked cannot be unwound (the child _exits)
        for (long i = 0; i < maxruns; ++i) {
            fflush(stdout);
            pid_t pid = fork();
            if (pid == 0) { verif::RandomSchedule s(seed * 7919 + i, 32 + (int)(i % 4) * 56); bool ok = run_once(s, i, true); fflush(stdout); _exit(ok ? 0 : 1); }
            int st = 0; waitpid(pid, &st, 0);
            if (!WIFEXITED(st) || WEXITSTATUS(st) != 0) bad++;
            runs++;
        }
    } else if (mode == "dfs") {
        verif::DfsSchedule d(atoi(argv[2]));
        do { if (!run_once(d, runs, false)) { bad++; break; } runs++; } while (runs < maxruns && d.next());
    } else if (mode == "replay") {
        verif::ReplaySchedule s; std::stringstream ss(argv[2]); std::string tok;
        while (std::getline(ss, tok, ',')) if (!tok.empty()) s.tids.push_back(atoi(tok.c_str()));
        if (!run_once(s, 0, true)) bad++; runs++;
    } else if (mode == "guided") {
        GuidedSchedule s(argc > 3 ? strtoull(argv[3], 0, 10) : 1);
        if (!parse_guide(argv[2], s)) { printf("bad-guide\n"); return 2; }
        if (!run_once(s, 0, true)) bad++; runs++;
    }
    printf("summary runs=%ld bad=%ld\n", runs, bad);
    return bad ? 1 : 0;
}
