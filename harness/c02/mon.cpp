// C02 E-SHIM component harness: the REAL concurrent_monitor.h + semaphore.h (futex emulated by the shim) under the
// controlled scheduler.
// usage: mon <rand|dfs|replay> <arg> [maxruns]     (scenario on stdin)
//   rand <seed> <nruns> | dfs <preemption bound> <maxruns> | replay <t,t,t,...>
// scenario lines (sleeper lines first; thread id = line index):
//   S w,<ctx>,<cond> ...          a thread that performs monitor.wait(pred = cond[<cond>] != 0, node(ctx)) per token
//   N <op> ...                    a notifier thread; ops:
//        sig,<cond|->,<kind>,<f|r>   [cond[<cond>] = 1 (relaxed store);] then notify: kind = c<ctx> (notify(ctx==)),
//                                    all (notify_all), one (notify_one), abort (abort_all), p<ctx>
//                                    (notify_one_relaxed(ctx==): only the relaxed entry point exists, f = preceded
//                                    by atomic_fence_seq_cst() as its callers do with an RMW); f = fenced entry point,
//                                    r = the *_relaxed entry point
//        clr,<cond>                  cond[<cond>] = 0
//   g,<k> (both kinds of thread)     arrival-order gate: spin until k wait() calls have enqueued their node (ghost
//                                    counter bumped by the first predicate evaluation of each wait(), i.e. after
//                                    prepare_wait; unnamed, so not part of the printed trace) — gives wait sets with a
//                                    known arrival order ("older" / "newer" waiter)
// Per run prints: run <i> / e <tid> <kind> <var> <order> <a> <b> <ok> (all accesses to named variables, fences, futex
// calls, in execution order) / res <tid> <results oldest first: 1 woken, 0 predicate true (cancelled), 2 aborted> /
// mon <verdict> / sched <tids> / end.
// Implementation-side monitors (independent of the Lean model):
//   * deadlock = every live thread parked (scheduler) -> for every sleeper parked: is its predicate true?
//     "LOST-WAKEUP" if some parked sleeper's condition holds; "BLOCKED" otherwise (scenario never signalled it);
//   * "DOUBLE-V": a V() (exchange(0)) that found the semaphore word already 0 (the assertion in V(), compiled out);
//   * "UNLOCKED-WAITSET-WRITE": a store to my_waitset.count / my_epoch (both written only inside the monitor's critical
//     sections) by a thread that does not hold my_mutex — a notifier/sleeper that mutates the wait set without the lock;
//   * "WRONG-CONTEXT-WAKEUP": wait(ctx) returned true (woken by a V) although no notification whose predicate accepts
//     ctx (notify(pred)/notify_one_relaxed(pred) with pred(ctx), or notify_one / notify_all / abort_all) was in flight
//     between the begin of that wait() and its return (ghost counters of started / finished notifications per context):
//     a notification dequeued a node its predicate rejects;
//   * a wait that returns true although nobody dequeued the node cannot happen silently: it shows as a P() that
//     consumed a V nobody issued -> visible as DOUBLE-V/lost V; covered by the trace replay.
// Built with -fno-access-control -I/repo/src -I/repo/src/tbb and the E-SHIM prelude.
#include "tbb/concurrent_monitor.h"
#include <cstdio>
#include <cstring>
#include <sstream>
#include <string>
#include <vector>

using namespace tbb::detail::r1;

struct WOp { unsigned long ctx; int cond; int gate; };   // gate > 0: wait for <gate> enqueued nodes before this wait()
struct NOp { int type; int cond; int kind; unsigned long ctx; bool relaxed; int gate; };   // type 0 sig, 1 clr; kind 0 ctx 1 all 2 one 3 abort 4 one(pred)
struct Prog { bool sleeper; std::vector<WOp> w; std::vector<NOp> n; };
static std::vector<Prog> g_progs;
static int g_nconds = 0;

static std::vector<std::string> split(const std::string& s, char c) {
    std::vector<std::string> r; std::stringstream ss(s); std::string t;
    while (std::getline(ss, t, c)) r.push_back(t);
    return r;
}

static bool parse(FILE* f) {
    char line[4096];
    while (fgets(line, sizeof line, f)) {
        std::istringstream is(line); std::string w; is >> w;
        if (w != "S" && w != "N") continue;
        Prog p; p.sleeper = (w == "S");
        int gate = 0;
        while (is >> w) {
            auto t = split(w, ',');
            if (t[0] == "g" && t.size() == 2) { gate = atoi(t[1].c_str()); continue; }
            if (p.sleeper) {
                if (t.size() != 3 || t[0] != "w") return false;
                WOp o{strtoul(t[1].c_str(), 0, 10), atoi(t[2].c_str()), gate}; gate = 0;
                if (o.cond + 1 > g_nconds) g_nconds = o.cond + 1;
                p.w.push_back(o);
            } else if (t[0] == "clr" && t.size() == 2) {
                NOp o{1, atoi(t[1].c_str()), 0, 0, false, gate}; gate = 0;
                if (o.cond + 1 > g_nconds) g_nconds = o.cond + 1;
                p.n.push_back(o);
            } else if (t[0] == "sig" && t.size() == 4) {
                NOp o{0, t[1] == "-" ? -1 : atoi(t[1].c_str()), 0, 0, t[3] == "r", gate}; gate = 0;
                if (t[2] == "all") o.kind = 1; else if (t[2] == "one") o.kind = 2; else if (t[2] == "abort") o.kind = 3;
                else if (t[2][0] == 'c') { o.kind = 0; o.ctx = strtoul(t[2].c_str() + 1, 0, 10); }
                else if (t[2][0] == 'p') { o.kind = 4; o.ctx = strtoul(t[2].c_str() + 1, 0, 10); } else return false;
                if (o.cond + 1 > g_nconds) g_nconds = o.cond + 1;
                p.n.push_back(o);
            } else return false;
        }
        g_progs.push_back(p);
    }
    return true;
}

struct Shared {
    concurrent_monitor mon;
    std::atomic<int> cond[16];
    std::atomic<int> enq;           // ghost: number of wait() calls whose node has been enqueued (unnamed)
};
static void gate_wait(Shared* sh, int k) {
    while (sh->enq.load(std::memory_order_relaxed) < k) tbb::detail::machine_pause(1);
}

static bool run_once(verif::Schedule& sch, int run_idx, bool print) {
    Shared* sh = new Shared();      // leaked on deadlock (process exits); destroyed otherwise
    for (int i = 0; i < 16; ++i) sh->cond[i].a.store(0);
    sh->enq.a.store(0);
    size_t T = g_progs.size();
    std::vector<std::vector<int>> res(T);
    std::vector<int> cur_cond(T, -1);          // condition the sleeper is currently waiting for (ghost)
    // ghost (only the baton holder runs): notifications started / finished whose predicate accepts context c (index c, c < 32)
    std::vector<long> acc_started(32, 0), acc_finished(32, 0);
    std::string wrong_ctx;
    verif::clear_names();
    verif::name_addr(&sh->mon.my_epoch, "epoch");
    verif::name_addr(&sh->mon.my_waitset.count, "count");
    verif::name_addr(&sh->mon.my_mutex.my_flag, "mflag");
    verif::name_addr(&sh->mon.my_mutex.my_waiters, "mwait");
    for (int i = 0; i < g_nconds; ++i) verif::name_addr(&sh->cond[i], "cond" + std::to_string(i));
    std::vector<std::function<void()>> bodies;
    for (size_t t = 0; t < T; ++t) bodies.push_back([&, t] {
        const Prog& p = g_progs[t];
        if (p.sleeper) {
            for (auto& o : p.w) {
                concurrent_monitor::thread_context node{std::uintptr_t(o.ctx)};
                verif::name_addr(&node.my_is_in_list, "inl" + std::to_string(t));
                verif::name_addr(node.sema.begin(), "sem" + std::to_string(t));
                if (o.gate > 0) gate_wait(sh, o.gate);
                cur_cond[t] = o.cond;
                verif::note("wait_begin", o.ctx, (uint64_t)o.cond);
                int r; bool counted = false;
                const long fin0 = acc_finished[o.ctx % 32];
                try { r = sh->mon.wait([&] {
                        if (!counted) { counted = true; sh->enq.fetch_add(1, std::memory_order_relaxed); }
                        return sh->cond[o.cond].load(std::memory_order_relaxed) != 0; }, node) ? 1 : 0; }
                catch (tbb::detail::r1::user_abort&) { r = 2; }
                cur_cond[t] = -1;
                if (r == 1 && acc_started[o.ctx % 32] <= fin0 && wrong_ctx.empty())
                    wrong_ctx = "WRONG-CONTEXT-WAKEUP sleeper " + std::to_string(t) + " ctx " + std::to_string(o.ctx) +
                                " woken, no notification accepting its context in flight";
                res[t].push_back(r);
                verif::note("wait_end", (uint64_t)r, 0);
                // ~sleep_node pumps a skipped wake-up here
            }
        } else {
            for (auto& o : p.n) {
                if (o.gate > 0) gate_wait(sh, o.gate);
                if (o.type == 1) { sh->cond[o.cond].store(0, std::memory_order_relaxed); continue; }
                if (o.cond >= 0) sh->cond[o.cond].store(1, std::memory_order_relaxed);
                unsigned long c = o.ctx;
                auto pred = [c](std::uintptr_t ctx) { return ctx == c; };
                const bool any = !(o.kind == 0 || o.kind == 4);
                for (unsigned long x = 0; x < 32; ++x) if (any || x == c % 32) acc_started[x]++;
                switch (o.kind) {
                case 0: if (o.relaxed) sh->mon.notify_relaxed(pred); else sh->mon.notify(pred); break;
                case 1: if (o.relaxed) sh->mon.notify_all_relaxed(); else sh->mon.notify_all(); break;
                case 2: if (o.relaxed) sh->mon.notify_one_relaxed(); else sh->mon.notify_one(); break;
                case 3: if (o.relaxed) sh->mon.abort_all_relaxed(); else sh->mon.abort_all(); break;
                case 4: if (!o.relaxed) tbb::detail::d0::atomic_fence_seq_cst(); sh->mon.notify_one_relaxed(pred); break;
                }
                for (unsigned long x = 0; x < 32; ++x) if (any || x == c % 32) acc_finished[x]++;
            }
        }
    });
    verif::Result r = verif::run(bodies, sch);
    std::string verdict = wrong_ctx.empty() ? "ok" : wrong_ctx;
    // DOUBLE-V monitor on the raw log
    for (auto& e : r.log) {
        if (e.kind == verif::K_XCHG && e.b == 0 && e.a == 0 && verif::addr_name(e.addr).compare(0, 3, "sem") == 0) {
            verdict = "DOUBLE-V " + verif::addr_name(e.addr) + " by thread " + std::to_string(e.tid);
        }
    }
    {   // mutual exclusion of the wait set: count / epoch are written only by the holder of my_mutex
        int holder = -1;
        for (auto& e : r.log) {
            if (e.kind == verif::K_NOTE || e.kind == verif::K_FENCE) continue;
            const std::string nm = verif::addr_name(e.addr);
            if (nm == "mflag" && e.kind == verif::K_XCHG) {
                if (e.a == 0 && e.b == 1) holder = e.tid; else if (e.b == 0) holder = -1;
            } else if ((nm == "count" || nm == "epoch") && e.kind != verif::K_LOAD && holder != e.tid && verdict == "ok") {
                verdict = "UNLOCKED-WAITSET-WRITE " + nm + " by thread " + std::to_string(e.tid);
            }
        }
    }
    if (r.deadlock) {
        std::string lost, blocked;
        for (int t : r.parked) {
            if (t < (int)T && g_progs[t].sleeper && cur_cond[t] >= 0) {
                bool c = sh->cond[cur_cond[t]].a.load() != 0;
                (c ? lost : blocked) += " " + std::to_string(t) + ":cond" + std::to_string(cur_cond[t]);
            } else blocked += " " + std::to_string(t);
        }
        if (!lost.empty()) verdict = "LOST-WAKEUP parked-while-predicate-true" + lost;
        else verdict = "BLOCKED" + blocked;
    }
    bool ok = verdict == "ok";
    if (print || !ok) {
        printf("run %d\n", run_idx);
        for (auto& e : r.log) {
            if (e.kind == verif::K_PAUSE || e.kind == verif::K_YIELD || e.kind == verif::K_START || e.kind == verif::K_END) continue;
            if (e.kind != verif::K_FENCE && e.kind != verif::K_NOTE && verif::addr_name(e.addr).compare(0, 4, "anon") == 0) continue;
            printf("e %s\n", verif::format_event(e).c_str());
        }
        for (size_t t = 0; t < T; ++t) { printf("res %zu", t); for (int v : res[t]) printf(" %d", v); printf("\n"); }
        printf("mon %s\n", verdict.c_str());
        printf("sched"); for (int s : r.schedule) printf(" %d", s); printf("\nend\n");
        fflush(stdout);
    }
    if (r.deadlock) { fflush(stdout); _exit(3); }
    delete sh;
    return ok;
}

int main(int argc, char** argv) {
    if (argc < 3) return 2;
    if (!parse(stdin)) { printf("bad-scenario\n"); return 2; }
    std::string mode = argv[1];
    long maxruns = argc > 3 ? atol(argv[3]) : 1;
    long runs = 0, bad = 0;
    if (mode == "rand") {
        unsigned long long seed = strtoull(argv[2], 0, 10);
        for (long i = 0; i < maxruns; ++i) { verif::RandomSchedule s(seed * 7919 + i, 32 + (int)(i % 4) * 56); if (!run_once(s, (int)i, true)) bad++; runs++; }
    } else if (mode == "dfs") {
        verif::DfsSchedule d(atoi(argv[2]));
        do { if (!run_once(d, (int)runs, false)) { bad++; break; } runs++; } while (runs < maxruns && d.next());
    } else if (mode == "replay") {
        verif::ReplaySchedule s; std::stringstream ss(argv[2]); std::string tok;
        while (std::getline(ss, tok, ',')) if (!tok.empty()) s.tids.push_back(atoi(tok.c_str()));
        if (!run_once(s, 0, true)) bad++; runs++;
    }
    printf("summary runs=%ld bad=%ld\n", runs, bad);
    return bad ? 1 : 0;
}
