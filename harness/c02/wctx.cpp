// C02 E-SHIM component harness: the REAL d1::wait_context (oneapi/tbb/detail/_task.h: add_reference / release /
// continue_execution) sleeping through the REAL concurrent_monitor the way external_waiter::pause does:
//   waiter  : monitor.wait(pred = !wait_ctx.continue_execution(), node(ctx = address of the wait_context))
//   releaser: wait_ctx.release()  ->  add_reference(-1)  ->  r1::notify_waiters(this) when the counter reaches zero
// r1::notify_waiters is provided here exactly as src/tbb/task.cpp implements it (notify(ctx == wait_ctx_addr)) on the
// harness's monitor.  usage: wctx <rand|dfs|replay> <arg> [maxruns] <nwaiters> <nreleasers>
// Monitor: deadlock with a parked waiter whose predicate is true = LOST-WAKEUP (all releasers release exactly once,
// so every complete schedule must end with every waiter returned).
#include "tbb/concurrent_monitor.h"
#include "oneapi/tbb/detail/_task.h"
#include <cstdio>
#include <sstream>
#include <string>
#include <vector>

using namespace tbb::detail::r1;
static concurrent_monitor* g_mon = nullptr;

namespace tbb { namespace detail { namespace r1 {
void notify_waiters(std::uintptr_t wait_ctx_addr) {
    auto is_related_wait_ctx = [&](std::uintptr_t context) { return wait_ctx_addr == context; };
    g_mon->notify(is_related_wait_ctx);
}
}}}

static int g_w = 1, g_r = 2;

static bool run_once(verif::Schedule& sch, int run_idx, bool print) {
    struct Shared { concurrent_monitor mon; tbb::detail::d1::wait_context wc; Shared(int k) : wc((std::uint32_t)k) {} };
    Shared* sh = new Shared(g_r);
    g_mon = &sh->mon;
    size_t N = (size_t)g_w + (size_t)g_r;
    std::vector<int> res(N, -1), waiting(N, 0);
    verif::clear_names();
    verif::name_addr(&sh->mon.my_epoch, "epoch");
    verif::name_addr(&sh->mon.my_waitset.count, "count");
    verif::name_addr(&sh->mon.my_mutex.my_flag, "mflag");
    verif::name_addr(&sh->wc.m_ref_count, "ref");
    std::vector<std::function<void()>> bodies;
    for (size_t t = 0; t < N; ++t) bodies.push_back([&, t] {
        if (t < (size_t)g_w) {
            concurrent_monitor::thread_context node{std::uintptr_t(&sh->wc)};
            waiting[t] = 1;
            res[t] = sh->mon.wait([&] { return !sh->wc.continue_execution(); }, node) ? 1 : 0;
            waiting[t] = 0;
        } else {
            sh->wc.release();
        }
    });
    verif::Result r = verif::run(bodies, sch);
    std::string verdict = "ok";
    if (r.deadlock) {
        bool released = !sh->wc.continue_execution();
        std::string who;
        for (int t : r.parked) who += " " + std::to_string(t);
        verdict = std::string(released ? "LOST-WAKEUP parked-while-predicate-true" : "BLOCKED") + who;
    }
    bool ok = verdict == "ok";
    if (print || !ok) {
        printf("run %d\n", run_idx);
        for (auto& e : r.log) {
            if (e.kind == verif::K_PAUSE || e.kind == verif::K_YIELD || e.kind == verif::K_START || e.kind == verif::K_END) continue;
            if (e.kind != verif::K_FENCE && verif::addr_name(e.addr).compare(0, 4, "anon") == 0) continue;
            printf("e %s\n", verif::format_event(e).c_str());
        }
        printf("mon %s\n", verdict.c_str());
        printf("sched"); for (int s : r.schedule) printf(" %d", s); printf("\nend\n");
        fflush(stdout);
    }
    if (r.deadlock) { fflush(stdout); _exit(3); }
    g_mon = nullptr;
    delete sh;
    return ok;
}

int main(int argc, char** argv) {
    if (argc < 6) return 2;
    std::string mode = argv[1];
    long maxruns = atol(argv[3]);
    g_w = atoi(argv[4]); g_r = atoi(argv[5]);
    long runs = 0, bad = 0;
    if (mode == "rand") {
        unsigned long long seed = strtoull(argv[2], 0, 10);
        for (long i = 0; i < maxruns; ++i) { verif::RandomSchedule s(seed * 7919 + i, 32 + (int)(i % 4) * 56); if (!run_once(s, (int)i, false)) bad++; runs++; }
    } else if (mode == "dfs") {
        verif::DfsSchedule d(atoi(argv[2]));
        do { if (!run_once(d, (int)runs, false)) { bad++; break; } runs++; } while (runs < maxruns && d.next());
    } else if (mode == "replay") {
        verif::ReplaySchedule s; std::stringstream ss(argv[2]); std::string tok;
        while (std::getline(ss, tok, ',')) if (!tok.empty()) s.tids.push_back(atoi(tok.c_str()));
        if (!run_once(s, 0, true)) bad++; runs++;
    }
    printf("summary runs=%ld bad=%ld\n", runs, bad);
    return bad ? 1 : 0;
}
