// C02 E-SHIM harness for task_arena::execute waiting for a slot (whole instrumented runtime, white box):
// N application threads call `arena.execute(f)` on ONE task_arena(S, S) (S slots, all reserved for application threads, no
// worker slots: a delegated task is executed by a thread that is inside the arena).  Every access to the slots'
// my_is_occupied words, the arena's my_exit_monitors (epoch / wait-set count / mutex), the waiters' nodes (my_is_in_list,
// semaphore) and the wait_context of the delegated task is printed for the access-by-access replay on the Lean model EX.
// usage: ex <rand|replay|guided> <seed | t,t,... | guide> <nruns | seed>       scenario on stdin:
//     A <S> [<R>]        the arena: task_arena(S, S); with R < S: task_arena(S, R) — S-R slots are worker slots that application threads may
//                        take too; max_allowed_parallelism is 2 and the only worker is held inside a task of another arena for the whole run, so
//                        no worker can come and serve a delegated task (monitor-only runs: the Lean EX model is about task_arena(S, S))
//     T <ncalls>         one line per application thread (thread 0 = the main thread, creates the arena)
// guide (state-guided schedule; phases separated by ','):  <tid>:<cond>[+<k>]
//   run thread <tid> alone until <cond> holds, then k more scheduling points, then the next phase; afterwards seeded
//   random among all threads.  cond:  B = thread <tid> is inside a functor body;  q = the arena's fifo stream is
//   non-empty (a delegated task was enqueued);  w<n> = the exit monitor's wait set holds >= n nodes;  o<k> / f<k> = slot k
//   occupied / free;  e<n> = the exit monitor's epoch >= n;  * = until the thread cannot run (finished / parked);
//   - = no condition.  A phase whose thread cannot run ends at once.
// Per run: run <i> / e <tid> <kind> <var> <order> <a> <b> <ok> / mon <verdict> / sched ... / end
// Named: slot<k>, epoch count mflag mwait (my_exit_monitors), inl<t> sem<t> (the thread_context of thread t: on its stack,
// recognised by the semaphore's constructor store), wo<t> (the wait_context of t's delegated task: the stack word of t that
// a fetch_add takes from 1 to 0), fifo (the stream's population word).  Notes: call_begin / call_end (execute),
// fn_begin <caller> / fn_end <caller> (the functor, by whichever thread runs it).
// Implementation-side monitors (independent of the Lean model):
//   * SLEEPS-WHILE-SLOT-FREE, evaluated at every scheduling point: some slot is free, an application thread whose functor
//     has not started sleeps in its semaphore (not enabled), and every other application thread has returned, sleeps too,
//     or is inside a functor body (so nobody is on the way to my_exit_monitors.notify_one());
//   * every thread parked (scheduler): LOST-WAKEUP if a sleeping waiter's delegated task has completed or a slot is free,
//     DEADLOCK otherwise;  DOUBLE-V;  UNLOCKED-WAITSET-WRITE.
#include "oneapi/tbb/global_control.h"
#include "oneapi/tbb/task_arena.h"
#include "tbb/governor.h"
#include "tbb/arena.h"
#include "tbb/thread_data.h"
#include "tbb/concurrent_monitor.h"
#include <cstdio>
#include <memory>
#include <cstring>
#include <sstream>
#include <string>
#include <sys/wait.h>
#include <unistd.h>
#include <vector>

using namespace tbb::detail::r1;
static int g_S = 1, g_R = 1, g_A = 1, g_Rreq = 0;
static std::atomic<int> g_held{0}, g_release{0};
static std::vector<int> g_calls;
static size_t g_N = 0;

static bool parse(FILE* f) {
    char line[4096];
    while (fgets(line, sizeof line, f)) {
        std::istringstream is(line); std::string w; is >> w;
        if (w == "A") { is >> g_A; g_Rreq = g_A; is >> g_Rreq; if (g_Rreq < 1 || g_Rreq > g_A) g_Rreq = g_A; continue; }
        if (w != "T") continue;
        int n = 1; is >> n; g_calls.push_back(n);
    }
    return !g_calls.empty() && g_A >= 1;
}

// harness-level thread states (plain words: written and read without scheduling points)
enum { ST_IDLE = 0, ST_CALL = 1, ST_DONE = 2 };
static volatile int g_state[64];          // per application thread
static volatile int g_inbody[256];        // per controlled thread: inside a functor body
static volatile int g_started[64];        // the functor of application thread w's current call has started
static std::atomic<int> g_ready{0}, g_left{0}, g_gone{0}, g_dummy{0};
static arena* g_arena = nullptr;
static std::string g_sleeps;              // first SLEEPS-WHILE-SLOT-FREE observation
static size_t g_sleeps_step = 0;

static bool slot_free(int k) { return !g_arena->my_slots[k].my_is_occupied.a.load(std::memory_order_relaxed); }
static size_t ws_count() { return g_arena->my_exit_monitors.my_waitset.count.a.load(std::memory_order_relaxed); }

static void sleeps_monitor(const std::vector<int>& en, size_t step) {
    if (!g_arena || !g_sleeps.empty() || g_ready.a.load(std::memory_order_relaxed) == 0) return;
    int fs = -1;
    for (int k = 0; k < g_S; ++k) if (slot_free(k)) { fs = k; break; }
    if (fs < 0 || ws_count() == 0) return;
    std::vector<bool> enabled(g_N, false);
    for (int t : en) if ((size_t)t < g_N) enabled[t] = true;
    int sleeper = -1; std::string inside;
    for (size_t t = 0; t < g_N; ++t) {
        if (g_state[t] == ST_DONE) continue;
        if (g_state[t] == ST_IDLE) return;                                 // between calls: about to try the slots
        if (g_inbody[t]) { inside += " " + std::to_string(t); continue; }
        if (enabled[t]) return;                                            // active: may be on its way to the slots / to a notify
        if (!g_started[t] && sleeper < 0) sleeper = (int)t;                // asleep, its functor not started
    }
    if (sleeper < 0) return;
    g_sleeps = "SLEEPS-WHILE-SLOT-FREE thread " + std::to_string(sleeper) + " sleeps in the exit monitor, slot " + std::to_string(fs) +
               " is free, nobody is on the way to notify_one (inside functor bodies:" + inside + ")";
    g_sleeps_step = step;
}

struct Phase { int tid; char cond; long n; long extra; };
struct ExSchedule : verif::Schedule {
    std::vector<Phase> phases; size_t cur_phase = 0; long left = -1; verif::RandomSchedule rnd;
    std::vector<int> replay; bool use_replay = false;
    explicit ExSchedule(uint64_t seed, int stay) : rnd(seed, stay) {}
    bool holds(const Phase& p) const {
        if (!g_arena) return false;
        switch (p.cond) {
        case 'B': return g_inbody[p.tid] != 0;
        case 'q': return g_arena->my_fifo_task_stream.population.a.load(std::memory_order_relaxed) != 0;
        case 'w': return (long)ws_count() >= p.n;
        case 'o': return p.n < g_S && !slot_free((int)p.n);
        case 'f': return p.n < g_S && slot_free((int)p.n);
        case 'e': return (long)g_arena->my_exit_monitors.my_epoch.a.load(std::memory_order_relaxed) >= p.n;
        case '-': return true;
        default: return false;
        }
    }
    int pick(int cur, const std::vector<int>& en, size_t step) override {
        sleeps_monitor(en, step);
        if (use_replay && step < replay.size()) { for (int t : en) if (t == replay[step]) return t; }
        if (g_ready.a.load(std::memory_order_relaxed) != 0) {
            while (cur_phase < phases.size()) {
                const Phase& p = phases[cur_phase];
                bool can = false; for (int t : en) if (t == p.tid) can = true;
                if (!can) { cur_phase++; left = -1; continue; }
                if (left < 0 && holds(p)) left = p.extra;
                if (left == 0) { cur_phase++; left = -1; continue; }
                if (left > 0) left--;
                return p.tid;
            }
        }
        // application threads first (the runtime's workers have no slot in this arena)
        std::vector<int> pref;
        for (int t : en) if ((size_t)t < g_N) pref.push_back(t);
        if (!pref.empty() && (rnd.next() & 7) != 0) return rnd.pick(cur, pref, step);
        return rnd.pick(cur, en, step);
    }
};
static bool parse_guide(const std::string& g, ExSchedule& s) {
    std::stringstream ss(g); std::string tok;
    while (std::getline(ss, tok, ',')) {
        if (tok.empty()) continue;
        size_t c = tok.find(':'); if (c == std::string::npos || c + 1 >= tok.size()) return false;
        Phase p{atoi(tok.substr(0, c).c_str()), tok[c + 1], 0, 0};
        std::string rest = tok.substr(c + 2);
        size_t plus = rest.find('+');
        if (plus != std::string::npos) { p.extra = atol(rest.substr(plus + 1).c_str()); rest = rest.substr(0, plus); }
        if (!rest.empty()) p.n = atol(rest.c_str());
        s.phases.push_back(p);
    }
    return true;
}

static bool run_once(ExSchedule& sch, long run_idx) {
    g_N = g_calls.size();
    for (size_t t = 0; t < 64; ++t) { g_state[t] = ST_IDLE; g_started[t] = 0; }
    for (size_t t = 0; t < 256; ++t) g_inbody[t] = 0;
    g_ready.a.store(0); g_left.a.store((int)g_N); g_gone.a.store(0);
    g_arena = nullptr; g_sleeps.clear();
    verif::clear_names();
    std::vector<const char*> stack_mark(g_N, nullptr);
    tbb::task_arena* ta = nullptr;
    auto run_prog = [&](size_t t) {
        for (int c = 0; c < g_calls[t]; ++c) {
            g_started[t] = 0;
            g_state[t] = ST_CALL;
            verif::note("call_begin", (uint64_t)t, 0);
            ta->execute([t] {
                int p = verif::self();
                g_started[t] = 1;
                if (p >= 0 && p < 256) g_inbody[p] = 1;
                verif::note("fn_begin", (uint64_t)t, 0);
                g_dummy.load(std::memory_order_relaxed);                    // a scheduling point inside the body
                verif::note("fn_end", (uint64_t)t, 0);
                if (p >= 0 && p < 256) g_inbody[p] = 0;
            });
            verif::note("call_end", (uint64_t)t, 0);
            g_state[t] = ST_IDLE;
        }
        g_state[t] = ST_DONE;
    };
    std::vector<std::function<void()>> bodies;
    bodies.push_back([&] {
        char mark; stack_mark[0] = &mark;
        tbb::task_scheduler_handle h{tbb::attach{}};
        {
            const bool hold_worker = g_Rreq < g_A;
            std::unique_ptr<tbb::global_control> gc;
            tbb::task_arena hold(2, 1);
            if (hold_worker) {
                // one worker in the whole process, and it is busy elsewhere until the end of the run
                gc.reset(new tbb::global_control(tbb::global_control::max_allowed_parallelism, 2));
                g_held.store(0); g_release.store(0);
                hold.enqueue([] { g_held.store(1, std::memory_order_release); while (!g_release.load(std::memory_order_acquire)) tbb::detail::machine_pause(1); });
                while (!g_held.load(std::memory_order_acquire)) tbb::detail::machine_pause(1);
            }
            struct Release { bool on; ~Release() { if (on) g_release.store(1, std::memory_order_release); } } rel{hold_worker};
            tbb::task_arena a(g_A, (unsigned)g_Rreq);
            a.initialize();
            ta = &a;
            arena* ar = a.my_arena.load();
            g_S = (int)ar->my_num_slots;                                   // what the arena really has (>= 2)
            g_R = (int)ar->my_num_reserved_slots;
            for (int k = 0; k < g_S; ++k) verif::name_addr(&ar->my_slots[k].my_is_occupied, "slot" + std::to_string(k));
            verif::name_addr(&ar->my_exit_monitors.my_epoch, "epoch");
            verif::name_addr(&ar->my_exit_monitors.my_waitset.count, "count");
            verif::name_addr(&ar->my_exit_monitors.my_mutex.my_flag, "mflag");
            verif::name_addr(&ar->my_exit_monitors.my_mutex.my_waiters, "mwait");
            verif::name_addr(&ar->my_fifo_task_stream.population, "fifo");
            g_arena = ar;
            verif::note("begin");
            g_ready.store(1, std::memory_order_release);
            run_prog(0);
            g_left.fetch_sub(1);
            while (g_left.load(std::memory_order_acquire) > 0) tbb::detail::machine_pause(1);
            verif::note("finish");
            g_arena = nullptr;
        }
        while (g_gone.load(std::memory_order_acquire) < (int)g_N - 1) tbb::detail::machine_pause(1);
        tbb::finalize(h, std::nothrow);
    });
    for (size_t t = 1; t < g_N; ++t) bodies.push_back([&, t] {
        char mark; stack_mark[t] = &mark;
        governor::get_thread_data();
        while (g_ready.load(std::memory_order_acquire) == 0) tbb::detail::machine_pause(1);
        run_prog(t);
        g_left.fetch_sub(1);
        governor::terminate_external_thread();
        g_gone.fetch_add(1);
    });
    verif::Result r = verif::run(bodies, sch, 4000000);
    // ---- names of the stack words -----------------------------------------------------------------------------------
    long D;
    { concurrent_monitor::thread_context tmp{0}; D = (const char*)tmp.sema.begin() - (const char*)&tmp.my_is_in_list; }
    auto owner_of = [&](const void* a) -> int {
        for (size_t t = 0; t < g_N; ++t) if (stack_mark[t]) {
            const char* p = (const char*)a;
            if (p <= stack_mark[t] + 256 && p > stack_mark[t] - (1 << 20)) return (int)t;
        }
        return -1;
    };
    bool in = false;
    std::vector<int> incall(g_N, 0);
    for (auto& e : r.log) {                          // pass 1: names
        if (e.kind == verif::K_NOTE) {
            if (e.tag && !strcmp(e.tag, "begin")) in = true;
            if (e.tag && !strcmp(e.tag, "finish")) in = false;
            if (e.tag && !strcmp(e.tag, "call_begin")) incall[e.tid] = 1;
            if (e.tag && !strcmp(e.tag, "call_end")) incall[e.tid] = 0;
            continue;
        }
        if (!in || !e.addr) continue;
        std::string nm = verif::addr_name(e.addr);
        if (nm.compare(0, 4, "anon") != 0) continue;
        int w = owner_of(e.addr);
        if (w < 0 || !incall[w]) continue;
        if (e.kind == verif::K_STORE && e.a == 1 && e.order == 5 && e.tid == w) {
            verif::name_addr(e.addr, "sem" + std::to_string(w));
            verif::name_addr((const char*)e.addr - D, "inl" + std::to_string(w));
        } else if (e.kind == verif::K_FADD && e.a == 1 && e.b == 0) {
            verif::name_addr(e.addr, "wo" + std::to_string(w));
        }
    }
    std::string verdict = "ok";
    std::vector<std::string> lines;
    int holder = -1;
    in = false;
    for (auto& e : r.log) {                          // pass 2: print + raw-log monitors
        if (e.kind == verif::K_NOTE) {
            if (e.tag && !strcmp(e.tag, "begin")) in = true;
            if (e.tag && !strcmp(e.tag, "finish")) in = false;
            if (in || (e.tag && !strcmp(e.tag, "finish"))) lines.push_back(verif::format_event(e));
            continue;
        }
        if (!in) continue;
        if (e.kind == verif::K_PAUSE || e.kind == verif::K_YIELD || e.kind == verif::K_START || e.kind == verif::K_END) continue;
        if (e.kind == verif::K_FENCE) { if ((size_t)e.tid < g_N) lines.push_back(verif::format_event(e)); continue; }
        std::string nm = verif::addr_name(e.addr);
        if (nm.compare(0, 4, "anon") == 0 || nm == "-") continue;
        if (nm.compare(0, 3, "sem") == 0 && e.kind == verif::K_XCHG && e.b == 0 && e.a == 0 && verdict == "ok")
            verdict = "DOUBLE-V " + nm + " by thread " + std::to_string(e.tid);
        if (nm == "mflag" && e.kind == verif::K_XCHG) { if (e.a == 0 && e.b == 1) holder = e.tid; else if (e.b == 0) holder = -1; }
        else if ((nm == "count" || nm == "epoch") && e.kind != verif::K_LOAD && holder != e.tid && verdict == "ok")
            verdict = "UNLOCKED-WAITSET-WRITE " + nm + " by thread " + std::to_string(e.tid);
        lines.push_back(verif::format_event(e));
    }
    if (r.deadlock) {
        std::vector<int> last_kind(g_N, -1);
        for (auto& e : r.log) if (e.tid >= 0 && (size_t)e.tid < g_N && e.kind != verif::K_NOTE) last_kind[e.tid] = e.kind;
        std::string lost, other;
        bool fs = false;
        if (g_arena) for (int k = 0; k < g_S; ++k) if (slot_free(k)) fs = true;
        for (int t : r.parked) {
            if ((size_t)t >= g_N) continue;
            bool asleep = last_kind[t] == verif::K_FWAIT;
            if (asleep && g_state[t] == ST_CALL && (fs || g_started[t])) lost += " " + std::to_string(t);
            else other += " " + std::to_string(t);
        }
        if (!lost.empty()) verdict = std::string("LOST-WAKEUP every thread parked; asleep although ") + (fs ? "a slot is free" : "the delegated task ran") + ":" + lost;
        else verdict = "DEADLOCK every thread parked:" + other;
    } else if (!g_sleeps.empty() && verdict == "ok") {
        verdict = g_sleeps + " at scheduling point " + std::to_string(g_sleeps_step);
    }
    printf("run %ld\n", run_idx);
    printf("fin %d %d\n", g_S, g_R);
    for (auto& l : lines) printf("e %s\n", l.c_str());
    printf("mon %s\n", verdict.c_str());
    printf("sched"); for (int s : r.schedule) printf(" %d", s); printf("\nend\n");
    fflush(stdout);
    if (r.deadlock) _exit(3);
    return verdict == "ok";
}

int main(int argc, char** argv) {
    verif::init_determinism(argc, argv);
    if (argc < 4) return 2;
    if (!parse(stdin)) { printf("bad-scenario\n"); return 2; }
    std::string mode = argv[1];
    long nruns = mode == "rand" ? atol(argv[3]) : 1;
    long runs = 0, bad = 0;
    for (long i = 0; i < nruns; ++i) {
        fflush(stdout);
        pid_t pid = fork();
        if (pid == 0) {
            unsigned long long seed = mode == "rand" ? strtoull(argv[2], 0, 10) * 1000003ull + (unsigned long long)i : strtoull(argv[3], 0, 10);
            ExSchedule s(seed, 40 + (int)(i % 4) * 50);
            if (mode == "replay") {
                s.use_replay = true; std::stringstream ss(argv[2]); std::string tok;
                while (std::getline(ss, tok, ',')) if (!tok.empty()) s.replay.push_back(atoi(tok.c_str()));
            } else if (mode == "guided") {
                if (!parse_guide(argv[2], s)) { printf("bad-guide\n"); _exit(2); }
            }
            bool ok = run_once(s, i); fflush(stdout); _exit(ok ? 0 : 1);
        }
        int st = 0; waitpid(pid, &st, 0);
        if (!WIFEXITED(st) || WEXITSTATUS(st) != 0) bad++;
        runs++;
    }
    printf("summary runs=%ld bad=%ld\n", runs, bad);
    return bad ? 1 : 0;
}
