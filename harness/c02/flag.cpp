// C02 E-SHIM component harness: the REAL tbb::detail::r1::atomic_flag (src/tbb/arena.h: my_pool_state /
// my_mandatory_concurrency) under the controlled scheduler, driven the way arena::advertise_new_work and
// arena::out_of_work drive it.
// usage: flag <rand|dfs|replay> <arg> [maxruns] ; scenario on stdin: one line  "P <n> ..." (ops per publisher),
// one line "C <n> ..." (ops per cleaner), one line "T <n> ..." (take attempts per consumer).
// publisher op : work.fetch_add(1); atomic_fence_seq_cst(); r = flag.test_and_set(); if (r) demand++ (ghost)
// cleaner op   : r = flag.try_clear_if([&]{ return work.load() == 0; }); if (r) demand--
// consumer op  : if (work > 0) work-- (a CAS loop on the counter, reported as one "take" event)
// Per run: run <i> / e <tid> <kind> <var> <order> <a> <b> <ok> / res <tid> <results> / mon <verdict> / sched / end
// Implementation-side monitor (independent of the model), evaluated when all threads have finished:
//   MISSED-WORK : flag UNSET while work > 0        DEMAND : demand != (flag != UNSET)
#include "tbb/arena.h"
#include <cstdio>
#include <sstream>
#include <string>
#include <vector>

using namespace tbb::detail::r1;

static std::vector<int> g_p, g_c, g_t;

static bool run_once(verif::Schedule& sch, int run_idx, bool print) {
    struct Shared { atomic_flag flag; std::atomic<int> work{0}; int demand = 0; };
    Shared* sh = new Shared();
    size_t P = g_p.size(), C = g_c.size(), T = g_t.size(), N = P + C + T;
    std::vector<std::vector<int>> res(N);
    std::vector<std::uintptr_t> busy_of(C, 0);
    verif::clear_names();
    verif::name_addr(&sh->flag.my_state, "flag");
    verif::name_addr(&sh->work, "work");
    std::vector<std::function<void()>> bodies;
    for (size_t t = 0; t < N; ++t) bodies.push_back([&, t] {
        if (t < P) {
            for (int i = 0; i < g_p[t]; ++i) {
                sh->work.fetch_add(1);
                tbb::detail::atomic_fence_seq_cst();
                bool r = sh->flag.test_and_set();
                if (r) sh->demand++;
                res[t].push_back(r);
            }
        } else if (t < P + C) {
            for (int i = 0; i < g_c[t - P]; ++i) {
                bool r = sh->flag.try_clear_if([&] { return sh->work.load(std::memory_order_acquire) == 0; });
                if (r) sh->demand--;
                res[t].push_back(r);
            }
        } else {
            for (int i = 0; i < g_t[t - P - C]; ++i) {
                // one scheduling point per attempt: the baton makes the read-modify-write below atomic
                int w = sh->work.a.load();
                verif::pre(verif::K_FSUB, &sh->work, 5);
                w = sh->work.a.load();
                if (w > 0) sh->work.a.store(w - 1);
                verif::post(verif::K_FSUB, &sh->work, 5, (uint64_t)w, (uint64_t)(w > 0 ? w - 1 : 0), 1);
            }
        }
    });
    verif::Result r = verif::run(bodies, sch);
    std::string verdict = "ok";
    std::uintptr_t f = sh->flag.my_state.a.load();
    int w = sh->work.a.load();
    if (r.deadlock) verdict = "DEADLOCK";
    else if (f == 0 && w > 0) verdict = "MISSED-WORK flag UNSET with work=" + std::to_string(w) + " and every publisher returned";
    else if (sh->demand != (f != 0 ? 1 : 0)) verdict = "DEMAND demand=" + std::to_string(sh->demand) + " flag=" + std::to_string((unsigned long)f);
    bool ok = verdict == "ok";
    if (print || !ok) {
        printf("run %d\n", run_idx);
        for (auto& e : r.log) {
            if (e.kind == verif::K_PAUSE || e.kind == verif::K_YIELD || e.kind == verif::K_START || e.kind == verif::K_END) continue;
            if (e.kind != verif::K_FENCE && verif::addr_name(e.addr).compare(0, 4, "anon") == 0) continue;
            printf("e %s\n", verif::format_event(e).c_str());
        }
        for (size_t t = 0; t < N; ++t) { printf("res %zu", t); for (int v : res[t]) printf(" %d", v); printf("\n"); }
        printf("fin %lu %d %d\n", (unsigned long)(f > 1 ? 2 : f), w, sh->demand);
        printf("mon %s\n", verdict.c_str());
        printf("sched"); for (int s : r.schedule) printf(" %d", s); printf("\nend\n");
        fflush(stdout);
    }
    if (r.deadlock) { fflush(stdout); _exit(3); }
    delete sh;
    return ok;
}

int main(int argc, char** argv) {
    if (argc < 3) return 2;
    char line[4096];
    while (fgets(line, sizeof line, stdin)) {
        std::istringstream is(line); std::string w; is >> w; int n;
        std::vector<int>* v = w == "P" ? &g_p : w == "C" ? &g_c : w == "T" ? &g_t : nullptr;
        if (!v) continue;
        while (is >> n) v->push_back(n);
    }
    std::string mode = argv[1];
    long maxruns = argc > 3 ? atol(argv[3]) : 1;
    long runs = 0, bad = 0;
    if (mode == "rand") {
        unsigned long long seed = strtoull(argv[2], 0, 10);
        for (long i = 0; i < maxruns; ++i) { verif::RandomSchedule s(seed * 7919 + i, 32 + (int)(i % 4) * 56); if (!run_once(s, (int)i, true)) bad++; runs++; }
    } else if (mode == "dfs") {
        verif::DfsSchedule d(atoi(argv[2]));
        do { if (!run_once(d, (int)runs, false)) { bad++; break; } runs++; } while (runs < maxruns && d.next());
    } else if (mode == "replay") {
        verif::ReplaySchedule s; std::stringstream ss(argv[2]); std::string tok;
        while (std::getline(ss, tok, ',')) if (!tok.empty()) s.tids.push_back(atoi(tok.c_str()));
        if (!run_once(s, 0, true)) bad++; runs++;
    }
    printf("summary runs=%ld bad=%ld\n", runs, bad);
    return bad ? 1 : 0;
}
