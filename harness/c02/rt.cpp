// C02 whole-runtime E-SHIM harness: every src/tbb/*.cpp of /repo compiled under the shim (common.shim_runtime_objects),
// so arena.cpp / market / thread dispatcher / RML private_server / concurrent_monitor / semaphore / address_waiter /
// concurrent_bounded_queue.cpp all run under the baton scheduler.  End-to-end "no lost wake-up" scenarios; the
// scenario body returns only when the awaited thing happened, so: every live thread parked (scheduler's deadlock
// detection) = a thread sleeps forever although its condition holds = VIOLATION, with the schedule as replay.
//
// usage: rt <scenario> <rand|replay> <seed | t,t,t,...> [nruns] [trace]
// scenarios (P = max_allowed_parallelism):
//   tg<P>        task_group whose tasks are submitted and run on workers; the main thread only calls wait() (and sleeps)
//   enq<P>       task_arena a(P); a.enqueue(task); NO thread ever waits in the arena; main spins on a harness flag
//   enq1r        task_arena a(1, reserved 1) (no worker slot: mandatory concurrency must supply a worker), P = 2
//   enq0w        global_control max_allowed_parallelism = 1 (zero workers soft limit) + enqueue into task_arena a(2)
//   enq2a        two arenas competing for one worker, one enqueue into each
//   enqrace<P>   enqueue A; spin until it ran; enqueue B (it races with the out_of_work of the worker that ran A and
//                found nothing more), spin until B ran; then a third enqueue the same way
//   In every enq* scenario the DEMAND MONITOR (arena_enqueue_mandatory on the implementation) is evaluated at EVERY
//   scheduling point: whenever no enqueue of the harness is between its begin and its return, neither arena flag is in
//   its transient `busy` state and my_fifo_task_stream is non-empty: my_mandatory_concurrency and my_pool_state are SET,
//   arena::my_mandatory_requests >= 1, my_total_num_workers_requested >= 1, the client's min_workers == 1 and
//   max_workers >= 1, the proxy's my_num_mandatory_requests >= 1, and with a zero soft limit
//   my_is_mandatory_concurrency_enabled and the serializer's my_soft_limit >= 1.  Verdict "DEMAND-LOST ..." otherwise.
//   bq           concurrent_bounded_queue capacity 1: external producer pushes 3 (blocking), external consumer pops 3
//   bq2          capacity 1, two producers (2 items each), one consumer (4 pops)
//   mtx<N>       tbb::mutex: N external threads, each 2 x { lock; critical section of 2 atomic steps; unlock }
//   rw           tbb::rw_mutex: two writers (lock) and two readers (lock_shared), 2 rounds each
// Per run prints "run <i> <ok|DEADLOCK ...|ASSERT ...> steps=<n>" and, when not ok (or in replay mode), "sched <tids>".
// With `trace`: "e ..." lines of the accesses to the arena's my_pool_state / my_mandatory_concurrency and the fences of
// the enqueuing thread between the notes enqueue_begin / enqueue_end (for the Orders table of advertise_new_work).
#include "oneapi/tbb/global_control.h"
#include "oneapi/tbb/task_group.h"
#include "oneapi/tbb/task_arena.h"
#include "oneapi/tbb/concurrent_queue.h"
#include "oneapi/tbb/mutex.h"
#include "oneapi/tbb/rw_mutex.h"
#include "tbb/governor.h"
#include "tbb/arena.h"
#include "tbb/thread_data.h"
#include "tbb/threading_control.h"
#include "tbb/thread_request_serializer.h"
#include "tbb/pm_client.h"
#include <cstdio>
#include <cstring>
#include <sstream>
#include <string>
#include <vector>

static std::string g_sc;
static bool g_trace = false;
static std::string g_fail;

static void spin_until(std::atomic<int>& f, int v) {
    while (f.load(std::memory_order_acquire) < v) tbb::detail::machine_pause(1);
}

// monitors whose racy emptiness test (my_waitset.empty() at the start of notify*) is checked for a preceding drain
struct MonReg { const void* count; const void* flag; std::string name; };
static std::vector<MonReg> g_mons;
template <class M> static void reg_monitor(M& m, const std::string& name) {
    g_mons.push_back(MonReg{(const void*)&m.my_waitset.count, (const void*)&m.my_mutex.my_flag, name});
}

static void name_arena(tbb::task_arena& a, const char* suffix) {
    tbb::detail::r1::arena* ar = a.my_arena.load();
    if (!ar) return;
    if (g_mons.empty()) reg_monitor(ar->get_waiting_threads_monitor(), "waiting_threads_monitor");
    verif::name_addr(&ar->my_pool_state.my_state, std::string("pool_state") + suffix);
    verif::name_addr(&ar->my_mandatory_concurrency.my_state, std::string("mandatory") + suffix);
}

// ---- demand monitor (arena_enqueue_mandatory, evaluated on the real state at every scheduling point) -------------------
struct WatchedArena { tbb::detail::r1::arena* ar; std::string name; };
static std::vector<WatchedArena> g_watch;
static std::atomic<int> g_enq_inflight_raw{0};       // harness enqueues between begin and return (read via .a: no scheduling point)
static std::string g_demand_fail;
static long g_demand_checks = 0, g_demand_nonempty = 0;
static void watch_arena(tbb::task_arena& a, const char* name) {
    if (tbb::detail::r1::arena* ar = a.my_arena.load()) g_watch.push_back(WatchedArena{ar, name});
}
static void demand_monitor() {
    using namespace tbb::detail::r1;
    if (!g_demand_fail.empty() || g_enq_inflight_raw.a.load(std::memory_order_relaxed) != 0) return;
    for (auto& w : g_watch) {
        arena* ar = w.ar;
        std::uintptr_t fm = ar->my_mandatory_concurrency.my_state.a.load(std::memory_order_relaxed);
        std::uintptr_t fp = ar->my_pool_state.my_state.a.load(std::memory_order_relaxed);
        if (fm > 1 || fp > 1) continue;                                     // a clear transaction is in progress
        g_demand_checks++;
        if (ar->my_fifo_task_stream.population.a.load(std::memory_order_relaxed) == 0) continue;
        g_demand_nonempty++;
        threading_control_impl* tci = ar->my_threading_control->my_pimpl.get();
        thread_request_serializer_proxy* px = tci->my_thread_request_serializer.get();
        pm_client* pc = ar->my_tc_client.get_pm_client();
        int nm = px->my_num_mandatory_requests.a.load(std::memory_order_relaxed);
        bool en = px->my_is_mandatory_concurrency_enabled;
        int soft = px->my_serializer.my_soft_limit;
        char buf[400];
        bool ok = fm == 1 && fp == 1 && ar->my_mandatory_requests >= 1 && ar->my_total_num_workers_requested >= 1 &&
                  pc->my_min_workers == 1 && pc->my_max_workers >= 1 && nm >= 1 && soft >= 1;
        if (!ok) {
            snprintf(buf, sizeof buf, "DEMAND-LOST arena %s: enqueued task present, no enqueue in progress, but mandatory_flag=%lu pool_flag=%lu "
                     "my_mandatory_requests=%d my_total_num_workers_requested=%d min_workers=%d max_workers=%d num_mandatory=%d enabled=%d soft_limit=%d",
                     w.name.c_str(), (unsigned long)fm, (unsigned long)fp, ar->my_mandatory_requests, ar->my_total_num_workers_requested,
                     pc->my_min_workers, pc->my_max_workers, nm, (int)en, soft);
            g_demand_fail = buf;
        }
    }
}
struct MonitoredSchedule : verif::Schedule {
    verif::Schedule& inner;
    explicit MonitoredSchedule(verif::Schedule& s) : inner(s) {}
    int pick(int cur, const std::vector<int>& en, size_t step) override { demand_monitor(); return inner.pick(cur, en, step); }
};
template <class F> static void monitored_enqueue(tbb::task_arena& a, F f) {
    g_enq_inflight_raw.a.fetch_add(1, std::memory_order_relaxed);
    a.enqueue(f);
    g_enq_inflight_raw.a.fetch_sub(1, std::memory_order_relaxed);
}

static std::vector<std::function<void()>> make_bodies() {
    std::vector<std::function<void()>> bodies;
    const std::string& sc = g_sc;
    if (sc.compare(0, 2, "tg") == 0) {
        int P = atoi(sc.c_str() + 2);
        bodies.push_back([P] {
            tbb::global_control gc(tbb::global_control::max_allowed_parallelism, (size_t)P);
            tbb::task_scheduler_handle h{tbb::attach{}};
            {
                reg_monitor(tbb::detail::r1::governor::get_thread_data()->my_arena->get_waiting_threads_monitor(), "waiting_threads_monitor");
                std::atomic<int> done{0}, started{0}, go{0};
                tbb::task_group tg;
                tbb::task_arena here{tbb::task_arena::attach{}};
                // the main thread holds one deferred task of the group (a reference on its wait_context), hands it to an
                // enqueued task running on a worker and only waits: it finds nothing to run or steal, backs off (~1000
                // idle iterations) and sleeps on the wait_context; the worker idles long enough for that, then runs the
                // group's task; the release of the last reference on the worker must wake the main thread
                tbb::task_handle th = tg.defer([&done] { for (int k = 0; k < 20; ++k) done.fetch_add(1); });
                tbb::task_handle* thp = &th;
                here.enqueue([&, thp] {
                    started.store(1, std::memory_order_release);
                    for (int i = 0; i < 1500 && !go.load(std::memory_order_relaxed); ++i) tbb::detail::machine_pause(1);
                    tg.run(std::move(*thp));
                });
                spin_until(started, 1);
                tg.wait();
                if (done.load() != 20) g_fail = "ASSERT task_group::wait returned before its tasks finished";
            }
            tbb::finalize(h);
        });
    } else if (sc.compare(0, 3, "enq") == 0) {
        bodies.push_back([sc] {
            size_t P = 2; int conc = 2; unsigned reserved = 1; int narenas = 1; int rounds = 1;
            if (sc.compare(0, 7, "enqrace") == 0) { P = (size_t)atoi(sc.c_str() + 7); conc = 2; rounds = 3; }
            else if (sc == "enq1r") { P = 2; conc = 1; reserved = 1; }
            else if (sc == "enqallres") { P = 2; conc = 2; reserved = 2; }      // exploration only: every slot reserved for external threads
            else if (sc == "enq0w") { P = 1; conc = 2; }
            else if (sc == "enq2a") { P = 2; conc = 2; narenas = 2; }
            else { P = (size_t)atoi(sc.c_str() + 3); conc = (int)P; }
            tbb::global_control gc(tbb::global_control::max_allowed_parallelism, P);
            tbb::task_scheduler_handle h{tbb::attach{}};
            {
                std::atomic<int> ran{0};
                tbb::task_arena a(conc, reserved), b(conc, reserved);
                a.initialize(); name_arena(a, ""); watch_arena(a, "A");
                if (narenas == 2) { b.initialize(); name_arena(b, "B"); watch_arena(b, "B"); }
                for (int r = 0; r < rounds; ++r) {
                    verif::note("enqueue_begin");
                    monitored_enqueue(a, [&ran] { ran.fetch_add(1); });
                    verif::note("enqueue_end");
                    if (narenas == 2) monitored_enqueue(b, [&ran] { ran.fetch_add(1); });
                    spin_until(ran, narenas * (r + 1));          // nobody waits inside the arena
                }
                g_watch.clear();                                 // the arenas are about to be destroyed
            }
            tbb::finalize(h);
        });
    } else if (sc == "bq" || sc == "bq2") {
        auto* q = new tbb::concurrent_bounded_queue<int>();
        q->set_capacity(1);
        reg_monitor(q->my_monitors[0], "bq_monitor0");
        reg_monitor(q->my_monitors[1], "bq_monitor1");
        int producers = sc == "bq" ? 1 : 2, per = sc == "bq" ? 3 : 2;
        auto* sum = new std::atomic<int>(0);
        for (int p = 0; p < producers; ++p) bodies.push_back([q, per, p] {
            for (int i = 0; i < per; ++i) q->push(100 * p + i + 1);
            tbb::detail::r1::governor::terminate_external_thread();
        });
        bodies.push_back([q, producers, per, sum] {
            for (int i = 0; i < producers * per; ++i) { int v = 0; q->pop(v); sum->fetch_add(v); }
            int expect = 0; for (int p = 0; p < producers; ++p) for (int i = 0; i < per; ++i) expect += 100 * p + i + 1;
            if (sum->load() != expect) g_fail = "ASSERT bounded queue lost or duplicated an item";
            tbb::detail::r1::governor::terminate_external_thread();
        });
    } else if (sc.compare(0, 3, "mtx") == 0) {
        int N = atoi(sc.c_str() + 3);
        auto* m = new tbb::mutex();
        auto* inside = new std::atomic<int>(0);
        for (int t = 0; t < N; ++t) bodies.push_back([m, inside] {
            for (int r = 0; r < 2; ++r) {
                m->lock();
                if (inside->fetch_add(1) != 0) g_fail = "ASSERT two threads inside tbb::mutex";
                for (int k = 0; k < 30; ++k) { inside->fetch_add(2); inside->fetch_sub(2); }   // long enough for waiters to stop spinning and sleep
                inside->fetch_sub(1);
                m->unlock();
            }
            tbb::detail::r1::governor::terminate_external_thread();
        });
    } else if (sc == "rw") {
        auto* m = new tbb::rw_mutex();
        auto* w = new std::atomic<int>(0);
        auto* rd = new std::atomic<int>(0);
        for (int t = 0; t < 4; ++t) bodies.push_back([m, w, rd, t] {
            for (int r = 0; r < 2; ++r) {
                if (t < 2) {
                    m->lock();
                    if (w->fetch_add(1) != 0 || rd->load() != 0) g_fail = "ASSERT writer not exclusive in tbb::rw_mutex";
                    for (int k = 0; k < 30; ++k) { w->fetch_add(2); w->fetch_sub(2); }
                    w->fetch_sub(1);
                    m->unlock();
                } else {
                    m->lock_shared();
                    rd->fetch_add(1);
                    if (w->load() != 0) g_fail = "ASSERT reader inside while a writer holds tbb::rw_mutex";
                    for (int k = 0; k < 10; ++k) { rd->fetch_add(2); rd->fetch_sub(2); }
                    rd->fetch_sub(1);
                    m->unlock_shared();
                }
            }
            tbb::detail::r1::governor::terminate_external_thread();
        });
    }
    return bodies;
}

// Notify-site rule (x86-TSO): when a thread tests a monitor's waitset for emptiness without holding the monitor's
// mutex (the first access of notify / notify_one / notify_all / abort_all and their _relaxed forms), its store buffer
// must be empty: its latest non-load access must be a seq_cst fence ("fence") or a seq_cst RMW ("rmw", a full fence on
// x86 only) — a plain store in between ("dirty") is a state change that the emptiness test can overtake.
static void notify_sites(const verif::Result& r, size_t& nfence, size_t& nrmw, size_t& ndirty, std::string& first_dirty) {
    std::vector<int> state;                 // per thread: 0 nothing yet, 1 fence, 2 rmw, 3 dirty
    std::vector<std::string> last_store;
    std::vector<int> holder(g_mons.size(), -1);
    for (auto& e : r.log) {
        if (e.tid < 0) continue;
        if ((size_t)e.tid >= state.size()) { state.resize(e.tid + 1, 0); last_store.resize(e.tid + 1); }
        bool is_rmw = e.kind >= verif::K_XCHG && e.kind <= verif::K_FXOR;
        for (size_t m = 0; m < g_mons.size(); ++m) {
            if (e.addr == g_mons[m].flag && e.kind == verif::K_XCHG) {
                if (e.a == 0 && e.b == 1) holder[m] = e.tid; else if (e.b == 0) holder[m] = -1;
            }
            if (e.addr == g_mons[m].count && e.kind == verif::K_LOAD && holder[m] != e.tid) {
                if (state[e.tid] == 1) nfence++;
                else if (state[e.tid] == 2 || state[e.tid] == 0) nrmw++;
                else { ndirty++; if (first_dirty.empty()) first_dirty = g_mons[m].name + " tested by thread " + std::to_string(e.tid) + " after plain store to " + last_store[e.tid]; }
            }
        }
        if (e.kind == verif::K_FENCE && e.order == 5) state[e.tid] = 1;
        else if (is_rmw && e.order == 5) state[e.tid] = 2;
        else if (e.kind == verif::K_STORE || is_rmw) { state[e.tid] = 3; last_store[e.tid] = verif::addr_name(e.addr) + "(" + verif::order_name(e.order) + ")"; }
    }
}

static size_t g_nfence = 0, g_nrmw = 0, g_ndirty = 0;
static std::string g_first_dirty;

static bool run_once(verif::Schedule& sch, long run_idx, bool show_sched) {
    g_fail.clear();
    g_mons.clear();
    verif::clear_names();
    auto bodies = make_bodies();
    if (bodies.empty()) { printf("bad-scenario\n"); exit(2); }
    g_watch.clear(); g_demand_fail.clear(); g_enq_inflight_raw.a.store(0);
    MonitoredSchedule msch(sch);
    verif::Result r = verif::run(bodies, msch, 4000000);
    std::string verdict = "ok";
    if (!g_demand_fail.empty()) verdict = g_demand_fail;
    if (r.deadlock) {
        verdict = "DEADLOCK all-threads-parked:";
        for (int t : r.parked) verdict += " " + std::to_string(t);
    } else if (!g_fail.empty()) verdict = g_fail;
    notify_sites(r, g_nfence, g_nrmw, g_ndirty, g_first_dirty);
    size_t parks = 0, parks0 = 0;
    for (auto& e : r.log) if (e.kind == verif::K_FWAIT && e.ok) { parks++; if (e.tid == 0) parks0++; }
    printf("run %ld %s steps=%zu parks=%zu parks0=%zu\n", run_idx, verdict.c_str(), r.steps, parks, parks0);
    if (g_trace) {
        bool in = false;
        for (auto& e : r.log) {
            if (e.kind == verif::K_NOTE) {
                if (e.tag && !strcmp(e.tag, "enqueue_begin")) in = true;
                if (e.tag && !strcmp(e.tag, "enqueue_end")) in = false;
                printf("e %s\n", verif::format_event(e).c_str());
                continue;
            }
            if (e.kind == verif::K_PAUSE || e.kind == verif::K_YIELD || e.kind == verif::K_START || e.kind == verif::K_END) continue;
            std::string nm = verif::addr_name(e.addr);
            bool named = nm.compare(0, 4, "anon") != 0 && nm != "-";
            if (named || (in && e.tid == 0 && e.kind == verif::K_FENCE) || (in && e.tid == 0 && e.kind >= verif::K_STORE && e.kind <= verif::K_FXOR))
                printf("e %s\n", verif::format_event(e).c_str());
        }
    }
    if (verdict != "ok" || show_sched) { printf("sched"); for (int s : r.schedule) printf(" %d", s); printf("\n"); }
    fflush(stdout);
    if (r.deadlock) _exit(3);
    return verdict == "ok";
}

int main(int argc, char** argv) {
    verif::init_determinism(argc, argv);
    if (argc < 4) return 2;
    g_sc = argv[1];
    std::string mode = argv[2];
    long nruns = argc > 4 ? atol(argv[4]) : 1;
    g_trace = argc > 5 && !strcmp(argv[5], "trace");
    long bad = 0, runs = 0;
    if (mode == "rand") {
        unsigned long long seed = strtoull(argv[3], 0, 10);
        for (long i = 0; i < nruns; ++i) {
            verif::RandomSchedule s(seed * 1000003ull + (unsigned long long)i, 64 + (int)(i % 4) * 48);
            if (!run_once(s, i, false)) { bad++; break; }
            runs++;
        }
    } else if (mode == "replay") {
        verif::ReplaySchedule s; std::stringstream ss(argv[3]); std::string tok;
        while (std::getline(ss, tok, ',')) if (!tok.empty()) s.tids.push_back(atoi(tok.c_str()));
        if (!run_once(s, 0, false)) bad++;
        runs++;
    }
    printf("sites fence=%zu rmw=%zu dirty=%zu %s\n", g_nfence, g_nrmw, g_ndirty, g_first_dirty.c_str());
    printf("demand checks=%ld nonempty=%ld\n", g_demand_checks, g_demand_nonempty);
    printf("summary runs=%ld bad=%ld\n", runs, bad);
    return bad ? 1 : 0;
}
