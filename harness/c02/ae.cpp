// C02 E-SHIM harness for the demand bookkeeping behind arena::enqueue_task (whole instrumented runtime, white box):
// application threads run programs of
//     enq   task_arena::enqueue(f)                                  (arena::enqueue_task -> advertise_new_work<work_enqueued>)
//     oow   arena::out_of_work()                                    (what a thread does when it finds nothing / leaves)
// on ONE arena, under a schedule that lets ONLY these threads run until all programs are finished ("phase 1": the worker
// that mandatory concurrency creates is a controlled thread too and simply is not scheduled), so that the accesses to
// my_mandatory_concurrency / my_pool_state / the fifo stream's population / the proxy's my_num_mandatory_requests / the
// market mutex can be replayed one by one on the Lean model `AE`, and the REAL quiescent state after phase 1 compared
// with the model's (and with the statement of arena_enqueue_mandatory).  Afterwards everything runs freely: the enqueued
// tasks must be executed (otherwise the run ends with every thread parked).
// usage: ae <rand|replay> <seed | t,t,...> <nruns>       scenario on stdin:
//     P <max_allowed_parallelism>      (soft limit = P - 1)
//     A <max_concurrency> <reserved>   (the arena; W = max_concurrency - reserved)
//     T <op> ...                       one line per application thread (thread 0 = the main thread)
// Per run: run <i> / e <tid> <kind> <var> <order> <a> <b> <ok> (named variables, fences and notes of threads < N during
// phase 1) / fin <mandflag> <poolflag> <fifo nonempty> <my_mandatory_requests> <my_total_num_workers_requested>
// <min_workers> <max_workers> <num_mandatory> <enabled> <soft_limit> / mon <verdict> / sched ... / end
// Named: mand pool (the flags' state words; a `busy` value is printed as b<tid>) fifo (population) nummand (proxy
// counter) mkt (market mutex state) wtm (waiting-threads monitor's wait-set counter).
#include "oneapi/tbb/global_control.h"
#include "oneapi/tbb/task_arena.h"
#include "tbb/governor.h"
#include "tbb/arena.h"
#include "tbb/thread_data.h"
#include "tbb/threading_control.h"
#include "tbb/thread_request_serializer.h"
#include "tbb/pm_client.h"
#include "tbb/market.h"
#include <cstdio>
#include <cstring>
#include <sstream>
#include <string>
#include <sys/wait.h>
#include <unistd.h>
#include <vector>

using namespace tbb::detail::r1;
static std::vector<std::vector<int>> g_progs;       // 0 enq, 1 oow
static int g_P = 1, g_conc = 2, g_res = 1;

static bool parse(FILE* f) {
    char line[4096];
    while (fgets(line, sizeof line, f)) {
        std::istringstream is(line); std::string w; is >> w;
        if (w == "P") { is >> g_P; continue; }
        if (w == "A") { is >> g_conc >> g_res; continue; }
        if (w != "T") continue;
        std::vector<int> p;
        while (is >> w) { if (w == "enq") p.push_back(0); else if (w == "oow") p.push_back(1); else return false; }
        g_progs.push_back(p);
    }
    return !g_progs.empty();
}

static std::atomic<int> g_ready{0}, g_left{0}, g_phase1_over{0}, g_ran{0}, g_gone{0};
static size_t g_N = 0;

// scenario threads first (seeded random among them) while phase 1 lasts; then everybody
struct PhaseSchedule : verif::Schedule {
    verif::RandomSchedule rnd;
    std::vector<int> replay; bool use_replay = false;
    explicit PhaseSchedule(uint64_t seed, int stay) : rnd(seed, stay) {}
    int pick(int cur, const std::vector<int>& en, size_t step) override {
        if (use_replay && step < replay.size()) { for (int t : en) if (t == replay[step]) return t; }
        if (g_phase1_over.a.load(std::memory_order_relaxed) == 0) {
            std::vector<int> pref;
            for (int t : en) if ((size_t)t < g_N) pref.push_back(t);
            if (!pref.empty()) return rnd.pick(cur, pref, step);
        }
        return rnd.pick(cur, en, step);
    }
};

static std::string g_fin;
static void dump_state(arena* ar) {
    threading_control_impl* tci = ar->my_threading_control->my_pimpl.get();
    thread_request_serializer_proxy* px = tci->my_thread_request_serializer.get();
    pm_client* pc = ar->my_tc_client.get_pm_client();
    std::uintptr_t fm = ar->my_mandatory_concurrency.my_state.a.load(), fp = ar->my_pool_state.my_state.a.load();
    char buf[300];
    snprintf(buf, sizeof buf, "%d %d %d %d %d %d %d %d %d %d", fm > 1 ? 2 : (int)fm, fp > 1 ? 2 : (int)fp,
             ar->my_fifo_task_stream.population.a.load() != 0 ? 1 : 0, ar->my_mandatory_requests, ar->my_total_num_workers_requested,
             pc->my_min_workers, pc->my_max_workers, px->my_num_mandatory_requests.a.load(), (int)px->my_is_mandatory_concurrency_enabled,
             px->my_serializer.my_soft_limit);
    g_fin = buf;
}

static bool run_once(PhaseSchedule& sch, long run_idx) {
    g_N = g_progs.size();
    g_ready.a.store(0); g_left.a.store((int)g_N); g_phase1_over.a.store(0); g_ran.a.store(0); g_gone.a.store(0);
    g_fin.clear();
    verif::clear_names();
    int n_enq = 0; for (auto& p : g_progs) for (int o : p) if (o == 0) n_enq++;
    arena* the_arena = nullptr;
    tbb::task_arena* ta = nullptr;
    auto run_prog = [&](size_t t) {
        for (int o : g_progs[t]) {
            verif::note("op_begin", (uint64_t)o, 0);
            if (o == 0) ta->enqueue([] { g_ran.fetch_add(1); });
            else the_arena->out_of_work();
            verif::note("op_end", (uint64_t)o, 0);
        }
    };
    std::vector<std::function<void()>> bodies;
    bodies.push_back([&] {
        tbb::global_control gc(tbb::global_control::max_allowed_parallelism, (size_t)g_P);
        tbb::task_scheduler_handle h{tbb::attach{}};
        {
            tbb::task_arena a(g_conc, (unsigned)g_res);
            a.initialize();
            ta = &a; the_arena = a.my_arena.load();
            verif::name_addr(&the_arena->my_pool_state.my_state, "pool");
            verif::name_addr(&the_arena->my_mandatory_concurrency.my_state, "mand");
            verif::name_addr(&the_arena->my_fifo_task_stream.population, "fifo");
            threading_control_impl* tci = the_arena->my_threading_control->my_pimpl.get();
            verif::name_addr(&tci->my_thread_request_serializer->my_num_mandatory_requests, "nummand");
            verif::name_addr(&static_cast<market*>(tci->my_permit_manager.get())->my_mutex.m_state, "mkt");
            verif::name_addr(&the_arena->get_waiting_threads_monitor().my_waitset.count, "wtm");
            verif::note("phase1_begin");
            g_ready.store(1, std::memory_order_release);
            run_prog(0);
            g_left.fetch_sub(1);
            while (g_left.load(std::memory_order_acquire) > 0) tbb::detail::machine_pause(1);
            dump_state(the_arena);
            verif::note("phase1_end");
            g_phase1_over.store(1, std::memory_order_release);
            while (g_ran.load(std::memory_order_acquire) < n_enq) tbb::detail::machine_pause(1);      // the enqueued tasks must run
        }
        // the other application threads detach first: finalize() must not meet a still-attached external thread
        while (g_gone.load(std::memory_order_acquire) < (int)g_N - 1) tbb::detail::machine_pause(1);
        tbb::finalize(h, std::nothrow);
    });
    for (size_t t = 1; t < g_N; ++t) bodies.push_back([&, t] {
        governor::get_thread_data();                                  // thread data / implicit arena of this thread: before phase 1
        while (g_ready.load(std::memory_order_acquire) == 0) tbb::detail::machine_pause(1);
        run_prog(t);
        g_left.fetch_sub(1);
        while (g_phase1_over.load(std::memory_order_acquire) == 0) tbb::detail::machine_pause(1);
        governor::terminate_external_thread();
        g_gone.fetch_add(1);
    });
    verif::Result r = verif::run(bodies, sch, 4000000);
    std::string verdict = "ok";
    if (r.deadlock) {
        verdict = g_phase1_over.a.load() ? "DEADLOCK enqueued-task-never-ran all-threads-parked:" : "DEADLOCK phase1 all-threads-parked:";
        for (int t : r.parked) verdict += " " + std::to_string(t);
    }
    printf("run %ld\n", run_idx);
    bool in1 = false;
    std::vector<int> inop(g_N, 0);
    for (auto& e : r.log) {
        if (e.kind == verif::K_NOTE) {
            if (e.tag && !strcmp(e.tag, "phase1_begin")) in1 = true;
            if (e.tag && !strcmp(e.tag, "phase1_end")) in1 = false;
            if ((size_t)e.tid < g_N && e.tag && !strcmp(e.tag, "op_begin")) inop[e.tid] = 1;
            if ((size_t)e.tid < g_N && e.tag && !strcmp(e.tag, "op_end")) inop[e.tid] = 0;
            if ((size_t)e.tid < g_N) printf("e %s\n", verif::format_event(e).c_str());
            continue;
        }
        if (!in1 || e.tid < 0 || (size_t)e.tid >= g_N || !inop[e.tid]) continue;
        if (e.kind == verif::K_PAUSE || e.kind == verif::K_YIELD || e.kind == verif::K_START || e.kind == verif::K_END) continue;
        if (e.kind == verif::K_FENCE) { printf("e %s\n", verif::format_event(e).c_str()); continue; }
        std::string nm = verif::addr_name(e.addr);
        if (nm.compare(0, 4, "anon") == 0 || nm == "-") continue;
        printf("e %s\n", verif::format_event(e).c_str());
    }
    printf("fin %s\n", g_fin.c_str());
    printf("mon %s\n", verdict.c_str());
    printf("sched"); for (int s : r.schedule) printf(" %d", s); printf("\nend\n");
    fflush(stdout);
    if (r.deadlock) _exit(3);
    return verdict == "ok";
}

int main(int argc, char** argv) {
    verif::init_determinism(argc, argv);
    if (argc < 4) return 2;
    if (!parse(stdin)) { printf("bad-scenario\n"); return 2; }
    std::string mode = argv[1];
    long nruns = atol(argv[3]);
    long runs = 0, bad = 0;
    // one scenario per process (whole-runtime harness): a child per run
    for (long i = 0; i < nruns; ++i) {
        fflush(stdout);
        pid_t pid = fork();
        if (pid == 0) {
            PhaseSchedule s(strtoull(argv[2], 0, 10) * 1000003ull + (unsigned long long)i, 40 + (int)(i % 4) * 50);
            if (mode == "replay") {
                s.use_replay = true; std::stringstream ss(argv[2]); std::string tok;
                while (std::getline(ss, tok, ',')) if (!tok.empty()) s.replay.push_back(atoi(tok.c_str()));
            }
            bool ok = run_once(s, i); fflush(stdout); _exit(ok ? 0 : 1);
        }
        int st = 0; waitpid(pid, &st, 0);
        if (!WIFEXITED(st) || WEXITSTATUS(st) != 0) bad++;
        runs++;
        if (mode == "replay") break;
    }
    printf("summary runs=%ld bad=%ld\n", runs, bad);
    return bad ? 1 : 0;
}
