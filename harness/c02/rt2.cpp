// C02 whole-runtime E-SHIM harness, part 2 (same build and command line as rt.cpp):
//   * mutexes that COLLIDE in one address_waiter bucket (src/tbb/address_waiter.cpp: 2048 concurrent monitors shared by
//     every tbb::mutex / tbb::rw_mutex of the process, selected by a hash of the object's address), one sleeping waiter
//     per mutex, known arrival order of the waiters, unlock of the mutex whose waiter is the OLDER / the NEWER node:
//     the waiter must wake (notify_by_address_one -> notify_one_relaxed(pred), notify_by_address[_all] -> notify_relaxed(pred));
//   * two arenas under a zero-worker soft limit: an enqueue into arena B (nobody ever waits there) competing with the
//     spawn-only demand of arena C: the single mandatory worker must serve B ("an enqueued task eventually runs").
// Every scenario body returns only when the awaited thing happened, so "every live thread parked" (deadlock detection of
// the controlled scheduler) = a thread sleeps forever on a satisfied condition / the enqueued task never ran = VIOLATION,
// with the schedule as the concrete replay.
//
// usage: rt2 <scenario> <rand|replay> <seed | t,t,t,... | - (schedule on stdin)> [nruns]
//   coll.<types>.<first>.<target>
//        types  mm (two tbb::mutex) | rr (two tbb::rw_mutex: a writer waits on the first, a reader on the second) |
//               mr (tbb::mutex + tbb::rw_mutex writer) | mmm (three tbb::mutex)
//        first  a | b : which waiter goes to sleep first (a = the waiter of the first mutex); mmm: always 0,1,2
//        target older | newer (mmm: oldest | middle | newest): whose mutex the holder unlocks first
//   enqsp.<order>.<prioB>.<prioC>.<variant>.<k>
//        order  bc | cb : creation order of the arenas;  prio  l | n | h;  k = number of tasks spawned in C (1..3)
//        variant w : the thread in C.execute spawns k tasks (each spins until the flag is set by B's enqueued task),
//                    enqueues into B and calls task_group::wait (it ends up spinning inside one of the tasks)
//                s : same, but instead of waiting for the group it spins on the flag itself (busy, not waiting)
// The bucket of an address is found WITHOUT replicating the hash: a calibration run calls the exported
// r1::notify_by_address_one(addr) for 8192 candidate addresses of a static pool and reads from the event log which
// waitset counter the call tests (the first atomic load) — two addresses collide iff they test the same counter.
#include "oneapi/tbb/global_control.h"
#include "oneapi/tbb/task_group.h"
#include "oneapi/tbb/task_arena.h"
#include "oneapi/tbb/mutex.h"
#include "oneapi/tbb/rw_mutex.h"
#include "tbb/governor.h"
#include "tbb/arena.h"
#include "tbb/thread_data.h"
#include <cstdio>
#include <cstring>
#include <map>
#include <new>
#include <sstream>
#include <string>
#include <vector>

static std::string g_sc;
static std::string g_fail;

static std::vector<std::string> split(const std::string& s, char c) {
    std::vector<std::string> r; std::stringstream ss(s); std::string t;
    while (std::getline(ss, t, c)) r.push_back(t);
    return r;
}
static void spin_until(std::atomic<int>& f, int v) {
    while (f.load(std::memory_order_acquire) < v) tbb::detail::machine_pause(1);
}

// ---------------------------------------------------------------------------------------------------------------
// bucket calibration
// ---------------------------------------------------------------------------------------------------------------
static constexpr size_t kStride = 64, kCand = 8192;
alignas(64) static unsigned char g_pool[kStride * kCand];
struct Group { const void* counter; std::vector<size_t> idx; };
static std::vector<Group> g_groups;          // candidate indices per bucket (only buckets with >= 2 candidates), pool order

static void calibrate() {
    if (!g_groups.empty()) return;
    std::vector<std::function<void()>> b;
    b.push_back([] {
        for (size_t i = 0; i < kCand; ++i) {
            verif::note("cal", i, 0);
            tbb::detail::r1::notify_by_address_one(g_pool + i * kStride);     // empty waitset: tests the counter and returns
        }
    });
    verif::ReplaySchedule s;
    verif::Result r = verif::run(b, s, 4000000);
    std::map<const void*, size_t> where; std::vector<Group> all;
    long cur = -1;
    for (auto& e : r.log) {
        if (e.kind == verif::K_NOTE) { if (e.tag && !strcmp(e.tag, "cal")) cur = (long)e.a; continue; }
        if (e.kind == verif::K_LOAD && cur >= 0) {
            auto it = where.find(e.addr);
            if (it == where.end()) { where[e.addr] = all.size(); all.push_back(Group{e.addr, {(size_t)cur}}); }
            else all[it->second].idx.push_back((size_t)cur);
            cur = -1;
        }
    }
    for (auto& g : all) if (g.idx.size() >= 3) g_groups.push_back(g);
    if (g_groups.empty()) for (auto& g : all) if (g.idx.size() >= 2) g_groups.push_back(g);
}

// ---------------------------------------------------------------------------------------------------------------
// scenarios
// ---------------------------------------------------------------------------------------------------------------
struct AnyMutex {                 // a tbb::mutex or a tbb::rw_mutex living at a chosen address
    char type = 'm'; tbb::mutex* m = nullptr; tbb::rw_mutex* r = nullptr;
    void make(char t, void* at) { type = t; if (t == 'm') m = new (at) tbb::mutex(); else r = new (at) tbb::rw_mutex(); }
    void lock_excl() { if (type == 'm') m->lock(); else r->lock(); }
    void unlock_excl() { if (type == 'm') m->unlock(); else r->unlock(); }
    void waiter_lock(bool shared) { if (type == 'm') m->lock(); else if (shared) r->lock_shared(); else r->lock(); }
    void waiter_unlock(bool shared) { if (type == 'm') m->unlock(); else if (shared) r->unlock_shared(); else r->unlock(); }
};

static bool make_coll(std::vector<std::function<void()>>& bodies, const std::vector<std::string>& p) {
    if (p.size() != 4) return false;
    const std::string types = p[1];
    for (char c : types) if (c != 'm' && c != 'r') return false;
    const size_t N = types.size();
    if (N < 2 || N > 3) return false;
    calibrate();
    if (g_groups.empty() || g_groups[0].idx.size() < N) { g_fail = "SETUP no colliding addresses found among the candidates"; return false; }
    // arrival order of the waiters and the order in which the holder unlocks
    std::vector<int> arrive, unlock;
    if (N == 2) {
        int first = p[2] == "a" ? 0 : 1;
        arrive = {first, 1 - first};
        unlock = p[3] == "older" ? std::vector<int>{first, 1 - first} : std::vector<int>{1 - first, first};
        if (p[3] != "older" && p[3] != "newer") return false;
    } else {
        arrive = {0, 1, 2};
        if (p[3] == "oldest") unlock = {0, 2, 1}; else if (p[3] == "middle") unlock = {1, 2, 0}; else if (p[3] == "newest") unlock = {2, 0, 1};
        else return false;
    }
    struct Sh { AnyMutex mx[3]; std::atomic<int> held{0}, done[3]; std::atomic<size_t>* counter; };
    auto* sh = new Sh();
    for (size_t i = 0; i < N; ++i) {
        sh->done[i].a.store(0);
        sh->mx[i].make(types[i], g_pool + g_groups[0].idx[i] * kStride);
        verif::name_addr(g_pool + g_groups[0].idx[i] * kStride, std::string("mutex") + std::to_string(i));
    }
    sh->counter = (std::atomic<size_t>*)g_groups[0].counter;
    verif::name_addr(sh->counter, "bucket_count");
    auto enq_wait = [sh](size_t k) { while (sh->counter->load(std::memory_order_relaxed) < k) tbb::detail::machine_pause(1); };
    // thread 0: the holder
    bodies.push_back([sh, N, unlock, enq_wait] {
        for (size_t i = 0; i < N; ++i) sh->mx[i].lock_excl();
        sh->held.store(1, std::memory_order_release);
        enq_wait(N);                                   // every waiter has enqueued its node (and goes to sleep)
        for (int i : unlock) {
            sh->mx[i].unlock_excl();
            spin_until(sh->done[i], 1);                // its waiter must get the mutex before the next unlock
        }
        tbb::detail::r1::governor::terminate_external_thread();
    });
    // threads 1..N: the waiters
    for (size_t i = 0; i < N; ++i) {
        size_t pos = 0; while (arrive[pos] != (int)i) ++pos;
        bool shared = (types == "rr" && i == 1);
        bodies.push_back([sh, i, pos, shared, enq_wait] {
            spin_until(sh->held, 1);
            enq_wait(pos);                             // the waiters before me in the arrival order are enqueued
            sh->mx[i].waiter_lock(shared);
            sh->done[i].store(1, std::memory_order_release);
            sh->mx[i].waiter_unlock(shared);
            tbb::detail::r1::governor::terminate_external_thread();
        });
    }
    return true;
}

static tbb::task_arena::priority prio_of(const std::string& s) {
    return s == "l" ? tbb::task_arena::priority::low : s == "h" ? tbb::task_arena::priority::high : tbb::task_arena::priority::normal;
}

static bool make_enqsp(std::vector<std::function<void()>>& bodies, const std::vector<std::string>& p) {
    if (p.size() != 6 || (p[1] != "bc" && p[1] != "cb") || (p[4] != "w" && p[4] != "s")) return false;
    const bool b_first = p[1] == "bc", waits = p[4] == "w";
    const int k = atoi(p[5].c_str());
    const auto pb = prio_of(p[2]), pc = prio_of(p[3]);
    if (k < 1 || k > 3) return false;
    bodies.push_back([=] {
        tbb::global_control gc(tbb::global_control::max_allowed_parallelism, 1);     // zero-worker soft limit
        tbb::task_scheduler_handle h{tbb::attach{}};
        {
            tbb::task_arena B(2, 1, pb), C(4, 1, pc);
            if (b_first) { B.initialize(); C.initialize(); } else { C.initialize(); B.initialize(); }
            std::atomic<int> flag{0}, ran{0};
            C.execute([&] {
                tbb::task_group tg;
                for (int i = 0; i < k; ++i) tg.run([&] { spin_until(flag, 1); });          // spawn-only demand of C
                verif::note("enqueue_begin");
                B.enqueue([&] { ran.fetch_add(1); flag.store(1, std::memory_order_release); });   // nobody ever waits in B
                verif::note("enqueue_end");
                if (!waits) spin_until(flag, 1);                                           // busy, not waiting
                tg.wait();
            });
            if (ran.load() != 1) g_fail = "ASSERT the enqueued task ran " + std::to_string(ran.load()) + " times";
        }
        tbb::finalize(h);
    });
    return true;
}

static std::vector<std::function<void()>> make_bodies() {
    std::vector<std::function<void()>> bodies;
    auto p = split(g_sc, '.');
    if (p.empty()) return bodies;
    bool ok = p[0] == "coll" ? make_coll(bodies, p) : p[0] == "enqsp" ? make_enqsp(bodies, p) : false;
    if (!ok) bodies.clear();
    return bodies;
}

static bool run_once(verif::Schedule& sch, long run_idx) {
    g_fail.clear();
    verif::clear_names();
    auto bodies = make_bodies();
    if (bodies.empty()) { printf("bad-scenario %s\n", g_fail.c_str()); exit(2); }
    const size_t kMaxSteps = 600000;      // ordinary runs: 500 .. 25 000 steps (incl. the idle rounds before a deadlock is declared)
    verif::Result r = verif::run(bodies, sch, kMaxSteps);
    std::string verdict = "ok";
    if (r.deadlock && r.steps >= kMaxSteps) {
        verdict = "NO-PROGRESS step-limit: the awaited event did not happen in " + std::to_string(kMaxSteps) + " steps";
    } else if (r.deadlock) {
        verdict = "DEADLOCK all-threads-parked:";
        for (int t : r.parked) verdict += " " + std::to_string(t);
    } else if (!g_fail.empty()) verdict = g_fail;
    size_t parks = 0;
    for (auto& e : r.log) if (e.kind == verif::K_FWAIT && e.ok) parks++;
    printf("run %ld %s steps=%zu parks=%zu\n", run_idx, verdict.c_str(), r.steps, parks);
    if (verdict != "ok") { printf("sched"); for (int s : r.schedule) printf(" %d", s); printf("\n"); }
    fflush(stdout);
    if (r.deadlock) _exit(3);
    return verdict == "ok";
}

int main(int argc, char** argv) {
    verif::init_determinism(argc, argv);
    if (argc < 4) return 2;
    g_sc = argv[1];
    std::string mode = argv[2];
    long nruns = argc > 4 ? atol(argv[4]) : 1;
    long bad = 0, runs = 0;
    if (mode == "rand") {
        unsigned long long seed = strtoull(argv[3], 0, 10);
        for (long i = 0; i < nruns; ++i) {
            verif::RandomSchedule s(seed * 1000003ull + (unsigned long long)i, 64 + (int)(i % 4) * 48);
            if (!run_once(s, i)) { bad++; break; }
            runs++;
        }
    } else if (mode == "replay") {
        verif::ReplaySchedule s; std::string tok;
        if (!strcmp(argv[3], "-")) { int t; while (scanf("%d", &t) == 1) s.tids.push_back(t); }      // long schedules: from stdin
        else { std::stringstream ss(argv[3]); while (std::getline(ss, tok, ',')) if (!tok.empty()) s.tids.push_back(atoi(tok.c_str())); }
        if (!run_once(s, 0)) bad++;
        runs++;
    }
    printf("summary runs=%ld bad=%ld\n", runs, bad);
    return bad ? 1 : 0;
}
