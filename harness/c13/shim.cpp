// C13 E-SHIM harness: 2-4 real threads call push / try_pop on a real tbb::concurrent_priority_queue under the
// controlled scheduler (harness/shim).  Every atomic access of _aggregator.h / concurrent_priority_queue.h is a
// scheduling point and is logged; the element type's copy/move operations contain an extra scheduling point
// (a relaxed load of the dummy atomic `elem`) so that "status visible before the element was transferred" is
// observable.
//
// An element <x> is `<key>:<id>` or `<n>` (key = id = n); the comparator sees the key only (ties!), results show ids.
// stdin:   init <x> <x> ...                 initial contents (pushed sequentially before the threads start)
//          thread <op> <op> ...             one line per thread; op: p<x> push(const&)  m<x> push(&&)  t<x> push of an
//                                           element whose copy throws  o try_pop  x try_pop into an element whose assignment throws
//          sched random <seed> [stay]  |  sched randoms <seed0> <count> [stay]  |  sched replay <tid> <tid> ...  |  sched dfs <preemption bound> <max runs>
//          mode full | brief                (brief: no event lines)
// stdout per run:
//          run <k>
//          ev <tid> <kind> <var> <order> <a> <b> <ok>      (var: pending busy my_size elem st<t> nx<t>; values op<t>)
//          note <tid> begin|end ...                        (interleaved with ev lines, in log order)
//          op <tid> <seq> <op> <result> <begin-index> <end-index> <node>   node: which of this thread's op_data addresses; result: S | F (push: exception reached the caller) | S:<v> | W (never returned)
//          sched <tid> ...
//          deadlock <0|1> [parked tids]
//          final <sorted remaining contents>        |  locked 1   (handler_busy still set after all threads finished)
//          end
#include <oneapi/tbb/concurrent_priority_queue.h>
#include <cstdio>
#include <cstdlib>
#include <cstring>
#include <iostream>
#include <sstream>
#include <string>
#include <vector>
#include <memory>
#include <map>

static std::atomic<int> g_elem_touch{0};   // a verif_atomic under the prelude: a scheduling point inside element copies/moves

struct CopyBomb {};
struct AssignBomb {};
struct Elem {
    long key; long v; bool bomb; bool abomb = false;      // abomb: assigning INTO this object throws (op `x`)
    Elem(long k_ = -7, long v_ = -7, bool b = false) : key(k_), v(v_), bomb(b) {}
    Elem(const Elem& o) : key(-8), v(-8), bomb(false) { (void)g_elem_touch.load(std::memory_order_relaxed); if (o.bomb) throw CopyBomb(); key = o.key; v = o.v; bomb = o.bomb; }
    Elem(Elem&& o) noexcept : key(-8), v(-8), bomb(false) { (void)g_elem_touch.load(std::memory_order_relaxed); key = o.key; v = o.v; bomb = o.bomb; }
    Elem& operator=(const Elem& o) { (void)g_elem_touch.load(std::memory_order_relaxed); if (abomb) throw AssignBomb(); if (o.bomb) throw CopyBomb(); key = o.key; v = o.v; bomb = o.bomb; return *this; }
    Elem& operator=(Elem&& o) { (void)g_elem_touch.load(std::memory_order_relaxed); if (abomb) throw AssignBomb(); key = o.key; v = o.v; bomb = o.bomb; return *this; }
    friend bool operator<(const Elem& a, const Elem& b) { return a.key < b.key; }
};
using Q = tbb::concurrent_priority_queue<Elem>;

struct OpSpec { char kind; long key; long x; std::string text; };
static bool parse_elem(const std::string& s, long& key, long& id) {
    size_t c = s.find(':');
    try {
        if (c == std::string::npos) { id = std::stol(s); key = id; return true; }
        key = std::stol(s.substr(0, c)); id = std::stol(s.substr(c + 1)); return true;
    } catch (...) { return false; }
}
struct OpRes { std::string res = "W"; long begin = -1, end = -1; int cls = 0; };

static std::vector<std::pair<long, long>> g_init;    // (key, id)
static std::vector<std::vector<OpSpec>> g_threads;
static bool g_full = true;

static bool one_run(verif::Schedule& sch, int runno) {
    auto q = std::make_unique<Q>();
    for (auto& x : g_init) q->push(Elem(x.first, x.second, false));
    std::vector<std::vector<OpRes>> results(g_threads.size());
    for (size_t t = 0; t < g_threads.size(); ++t) results[t].resize(g_threads[t].size());
    std::vector<std::function<void()>> bodies;
    for (size_t t = 0; t < g_threads.size(); ++t) {
        bodies.push_back([&, t] {
            for (size_t k = 0; k < g_threads[t].size(); ++k) {
                OpSpec o = g_threads[t][k];
                verif::note("begin", k, 0);
                std::string r;
                if (o.kind == 'o') {
                    Elem out(-7, -7, false);
                    try {
                        bool ok = q->try_pop(out);
                        r = ok ? "S:" + std::to_string(out.v) : "F";
                    } catch (...) { r = "X"; }     // a foreign exception reached this caller
                } else if (o.kind == 'x') {        // try_pop into an element whose assignment throws
                    Elem out(-7, -7, false); out.abomb = true;
                    try {
                        bool ok = q->try_pop(out);
                        r = ok ? "S:" + std::to_string(out.v) : "F";
                    } catch (const AssignBomb&) { r = "E"; }   // the exception reached the caller of this operation
                    catch (...) { r = "X"; }
                } else {
                    Elem e(o.key, o.x, o.kind == 't');
                    try {
                        if (o.kind == 'm') q->push(std::move(e)); else q->push(e);
                        r = "S";
                    } catch (const std::bad_alloc&) { r = "F"; }
                    catch (...) { r = "X"; }       // a foreign exception reached this caller
                }
                results[t][k].res = r;
                verif::note("end", k, 0);
            }
        });
    }
    verif::clear_names();
    verif::name_addr(&q->my_aggregator.pending_operations, "pending");
    verif::name_addr(&q->my_aggregator.handler_busy, "busy");
    verif::name_addr(&q->my_size, "my_size");
    verif::name_addr(&g_elem_touch, "elem");
    verif::name_value(0, "0");
    verif::Result res = verif::run(bodies, sch, 30000);
    printf("run %d\n", runno);
    // name operation nodes: the first atomic access of an operation is its owner's load of op->status
    std::vector<int> expect(g_threads.size(), 0);
    std::vector<long> curseq(g_threads.size(), -1);
    std::vector<std::vector<const void*>> nodes(g_threads.size());   // distinct op_data addresses per thread, in order of first use
    for (size_t i = 0; i < res.log.size(); ++i) {
        const verif::Event& e = res.log[i];
        if (e.kind == verif::K_NOTE) {
            std::string tag = e.tag ? e.tag : "";
            if (tag == "begin") { expect[e.tid] = 1; curseq[e.tid] = (long)e.a; if ((size_t)e.a < results[e.tid].size()) results[e.tid][e.a].begin = (long)i; }
            if (tag == "end") { if ((size_t)e.a < results[e.tid].size()) results[e.tid][e.a].end = (long)i; }
            if (g_full) printf("note %d %s %llu\n", e.tid, tag.c_str(), (unsigned long long)e.a);
            continue;
        }
        if (expect[e.tid] && e.kind == verif::K_LOAD && e.addr) {
            // first access of an operation: its owner's `op->status.load`.  The node (cpq_operation on the caller's
            // stack) is named op<tid>.<k>, k = index of its address among the addresses this thread has used
            std::string nm = verif::addr_name(e.addr);
            if (nm.rfind("anon", 0) == 0 || nm == "st" + std::to_string(e.tid)) {
                const char* a = (const char*)e.addr;
                auto& nd = nodes[e.tid];
                size_t k = 0; while (k < nd.size() && nd[k] != (const void*)a) ++k;
                if (k == nd.size()) nd.push_back(a);
                verif::name_addr(a, "st" + std::to_string(e.tid));
                verif::name_addr(a + sizeof(std::atomic<uintptr_t>), "nx" + std::to_string(e.tid));
                verif::name_value((uint64_t)(uintptr_t)a, "op" + std::to_string(e.tid) + "." + std::to_string(k));
                if (curseq[e.tid] >= 0 && (size_t)curseq[e.tid] < results[e.tid].size()) results[e.tid][curseq[e.tid]].cls = (int)k;
                expect[e.tid] = 0;
            }
        }
        if (g_full) printf("ev %s\n", verif::format_event(e).c_str());
    }
    for (size_t t = 0; t < g_threads.size(); ++t)
        for (size_t k = 0; k < g_threads[t].size(); ++k) {
            OpSpec o = g_threads[t][k];
            std::string os = o.text;
            printf("op %zu %zu %s %s %ld %ld %d\n", t, k, os.c_str(), results[t][k].res.c_str(), results[t][k].begin, results[t][k].end, results[t][k].cls);
        }
    printf("sched");
    for (int t : res.schedule) printf(" %d", t);
    printf("\ndeadlock %d", res.deadlock ? 1 : 0);
    for (int t : res.parked) printf(" %d", t);
    printf("\n");
    if (res.deadlock) { printf("end\n"); fflush(stdout); return false; }
    // a queue whose handler_busy flag is still set can never be used again (any call would spin forever)
    if (q->my_aggregator.handler_busy.load() != 0) { printf("locked 1\nend\n"); fflush(stdout); q.release(); return true; }
    // remaining contents: drain sequentially (uncontrolled)
    std::vector<long> rest;
    {
        size_t bound = g_init.size() + 8;
        for (auto& th : g_threads) bound += th.size();
        Elem out;
        while (q->try_pop(out) && rest.size() <= bound) rest.push_back(out.v);    // bounded: a broken try_pop may "succeed" forever
    }
    printf("final");
    for (long v : rest) printf(" %ld", v);
    printf("\nend\n");
    fflush(stdout);
    return true;
}

int main() {
    std::string line, schedkind = "random";
    std::vector<long> sargs;
    while (std::getline(std::cin, line)) {
        std::istringstream is(line);
        std::string w; is >> w;
        if (w == "init") { std::string e; while (is >> e) { long k, x; if (!parse_elem(e, k, x)) { puts("bad-scenario"); return 2; } g_init.push_back({k, x}); } }
        else if (w == "thread") {
            g_threads.emplace_back();
            std::string o;
            while (is >> o) {
                OpSpec s{o[0], 0, 0, o};
                if (o[0] != 'o' && o[0] != 'x' && !parse_elem(o.substr(1), s.key, s.x)) { puts("bad-scenario"); return 2; }
                g_threads.back().push_back(s);
            }
        } else if (w == "sched") { is >> schedkind; long x; while (is >> x) sargs.push_back(x); }
        else if (w == "mode") { std::string m; is >> m; g_full = (m != "brief"); }
    }
    if (g_threads.empty()) { puts("bad-scenario"); return 2; }
    if (schedkind == "random") {
        verif::RandomSchedule s(sargs.empty() ? 1 : (uint64_t)sargs[0], sargs.size() > 1 ? (int)sargs[1] : 96);
        if (!one_run(s, 0)) _exit(3);
    } else if (schedkind == "randoms") {          // randoms <seed0> <count> [stay]: one run per seed
        long seed0 = sargs.empty() ? 1 : sargs[0], cnt = sargs.size() > 1 ? sargs[1] : 10;
        for (long i = 0; i < cnt; ++i) {
            verif::RandomSchedule s((uint64_t)(seed0 + i), sargs.size() > 2 ? (int)sargs[2] : 96);
            if (!one_run(s, (int)i)) _exit(3);
        }
    } else if (schedkind == "replay") {
        verif::ReplaySchedule s; for (long t : sargs) s.tids.push_back((int)t);
        if (!one_run(s, 0)) _exit(3);
    } else if (schedkind == "dfs") {
        verif::DfsSchedule s(sargs.empty() ? 1 : (int)sargs[0]);
        long maxruns = sargs.size() > 1 ? sargs[1] : 1000, n = 0;
        bool more = true;
        while (more && n < maxruns) {
            if (!one_run(s, (int)n)) _exit(3);
            ++n;
            more = s.next();
        }
        printf("dfs-runs %ld exhausted %d\n", n, more ? 0 : 1);
    } else { puts("bad-scenario"); return 2; }
    return 0;
}
