// C13 E-PURE harness: white-box calls of the real concurrent_priority_queue::handle_operations / heapify /
// reheap of /repo (built with -fno-access-control).  Line protocol on stdin (same lines go to `drv_c13 c13`):
//   heapify <mark> <d0> <d1> ...          -> "<mark> | <data...>"
//   reheap  <mark> <d0> <d1> ...          -> "<mark> | <data...>"
//   batch <d0> <d1> ... | <op> <op> ... [; <op> ...]*   -> "<res> <res> ... | <mark> | <data...>" per batch, joined by " ; "
//       the queue is set to data = d (mark = size = my_size), the operation list is built by hand
//       (head = first op) and handle_operations(head) is called once.
//       op:  p<x>  push(const T&) of x         m<x>  push(T&&) of x
//            t<x>  push(const T&) of an element whose copy constructor throws        o  try_pop
//            x     try_pop into an element whose (move) assignment throws
//       res: S / F for pushes, S:<v> / F for pops, W if the status was never set
// Element type: int priority + a flag that makes copying throw; moves are noexcept (so vector growth moves).
#include <oneapi/tbb/concurrent_priority_queue.h>
#include <cstdio>
#include <cstdlib>
#include <cstring>
#include <memory>
#include <sstream>
#include <string>
#include <vector>
#include <iostream>

struct CopyBomb {};
struct AssignBomb {};
struct Elem {
    long v; bool bomb; bool abomb = false;       // abomb: assigning INTO this object throws (op `x`)
    Elem(long v_ = -1, bool b = false) : v(v_), bomb(b) {}
    Elem(const Elem& o) : v(o.v), bomb(o.bomb) { if (o.bomb) throw CopyBomb(); }
    Elem(Elem&& o) noexcept : v(o.v), bomb(o.bomb) {}
    Elem& operator=(const Elem& o) { if (abomb) throw AssignBomb(); if (o.bomb) throw CopyBomb(); v = o.v; bomb = o.bomb; return *this; }
    Elem& operator=(Elem&& o) { if (abomb) throw AssignBomb(); v = o.v; bomb = o.bomb; return *this; }
    friend bool operator<(const Elem& a, const Elem& b) { return a.v < b.v; }
};
using Q = tbb::concurrent_priority_queue<Elem>;

// a repaired tree may hand the exception of a pop's element assignment to the pop's caller through the operation
// (member `eptr`); the pinned tree has no such member
template <class Op> static auto op_has_exception(Op& op, int) -> decltype((bool)op.eptr) { return (bool)op.eptr; }
template <class Op> static bool op_has_exception(Op&, long) { return false; }

static bool parse_nat(const std::string& s, long& out) {
    if (s.empty() || s.size() > 18) return false;
    for (char c : s) if (c < '0' || c > '9') return false;
    out = atol(s.c_str());
    return true;
}

static std::string show(Q& q) {
    std::string r = std::to_string(q.mark) + " |";
    for (auto& e : q.data) r += " " + std::to_string(e.v);
    if (q.my_size.load() != q.data.size()) r += " my_size=" + std::to_string(q.my_size.load()) + "!";
    return r;
}

static void set_state(Q& q, const std::vector<long>& d, size_t mark) {
    q.data.clear();
    for (long x : d) q.data.emplace_back(x, false);
    q.mark = mark;
    q.my_size.store(d.size());
}

int main() {
    std::string line;
    while (std::getline(std::cin, line)) {
        std::istringstream is(line);
        std::vector<std::string> ws;
        for (std::string w; is >> w;) ws.push_back(w);
        if (ws.empty()) continue;
        std::string out = "bad-op";
        if ((ws[0] == "heapify" || ws[0] == "reheap") && ws.size() >= 2) {
            long m; std::vector<long> d; bool ok = parse_nat(ws[1], m);
            for (size_t i = 2; ok && i < ws.size(); ++i) { long x; ok = parse_nat(ws[i], x); d.push_back(x); }
            if (ok && (size_t)m <= d.size() && (ws[0] == "heapify" || !d.empty())) {
                Q q; set_state(q, d, (size_t)m);
                if (ws[0] == "heapify") q.heapify(); else { q.reheap(); q.my_size.store(q.data.size()); }
                out = show(q);
            }
        } else if (ws[0] == "batch") {
            // batch <d...> | <ops> ; <ops> ; ...   (several batches handled one after the other on the same queue)
            size_t bar = 1; while (bar < ws.size() && ws[bar] != "|") ++bar;
            bool ok = bar < ws.size();
            std::vector<long> d;
            for (size_t i = 1; ok && i < bar; ++i) { long x; ok = parse_nat(ws[i], x); d.push_back(x); }
            struct OpRec { char kind; Elem arg; Elem outv; std::unique_ptr<Q::cpq_operation> op; };
            std::vector<std::vector<std::unique_ptr<OpRec>>> batches(1);
            for (size_t i = bar + 1; ok && i < ws.size(); ++i) {
                const std::string& w = ws[i];
                if (w == ";") { batches.emplace_back(); continue; }
                auto r = std::make_unique<OpRec>();
                r->kind = w[0];
                if (w == "o" || w == "x") {
                    r->outv = Elem(-7, false);
                    r->outv.abomb = (w == "x");
                    r->op.reset(new Q::cpq_operation(r->outv, Q::POP_OP));
                } else if ((w[0] == 'p' || w[0] == 'm' || w[0] == 't') && w.size() > 1) {
                    long x; ok = parse_nat(w.substr(1), x);
                    r->arg = Elem(x, w[0] == 't');
                    r->op.reset(new Q::cpq_operation(r->arg, w[0] == 'm' ? Q::PUSH_RVALUE_OP : Q::PUSH_OP));
                } else ok = false;
                batches.back().push_back(std::move(r));
            }
            if (ok) {
                Q q; set_state(q, d, d.size());
                out.clear();
                for (size_t b = 0; b < batches.size(); ++b) {
                    auto& ops = batches[b];
                    for (size_t i = 0; i + 1 < ops.size(); ++i) ops[i]->op->next.store(ops[i + 1]->op.get());
                    bool exc = false;
                    try { q.handle_operations(ops.empty() ? nullptr : ops[0]->op.get()); }
                    catch (...) { exc = true; }
                    if (b) out += " ; ";
                    for (auto& r : ops) {
                        uintptr_t st = r->op->status.load();
                        std::string s = st == 0 ? "W" : st == Q::SUCCEEDED ? "S" : st == Q::FAILED ? "F" : "?" + std::to_string(st);
                        if ((r->kind == 'o' || r->kind == 'x') && st == Q::SUCCEEDED) s += ":" + std::to_string(r->outv.v);
                        if (r->kind == 'x' && st == Q::FAILED && op_has_exception(*r->op, 0)) s = "E";
                        out += s + " ";
                    }
                    out += "| " + show(q);
                    if (exc) { out += " EXCEPTION-ESCAPED"; break; }     // handle_operations was left by an exception
                }
            }
        }
        puts(out.c_str());
        fflush(stdout);
    }
    return 0;
}
