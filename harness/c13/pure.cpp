// C13 E-PURE harness: white-box calls of the real concurrent_priority_queue::handle_operations / heapify /
// reheap of /repo (built with -fno-access-control).  Line protocol on stdin (same lines go to `drv_c13 c13`):
//   heapify <mark> <d0> <d1> ...          -> "<mark> | <data...>"
//   reheap  <mark> <d0> <d1> ...          -> "<mark> | <data...>"
//   batch <d0> <d1> ... | <op> <op> ... [; <op> ...]*   -> "<res> <res> ... | <mark> | <data...>" per batch, joined by " ; "
//       the queue is set to data = d (mark = size = my_size), the operation list is built by hand
//       (head = first op) and handle_operations(head) is called once.
//       op:  p<x>  push(const T&) of x         m<x>  push(T&&) of x
//            t<x>  push(const T&) of an element whose copy constructor throws        o  try_pop
//            x     try_pop into an element whose (move) assignment throws
//       res: S / F for pushes, S:<v> / F for pops, W if the status was never set
//   build<h> <d...>  /  bbatch<h> <d...> | <ops> ...   the queue is built from d through public bulk operation h (see make_queue) instead of set_state
//   An element <x> is `<key>:<id>` or `<n>` (key = id = n).  The queue's comparator sees only the key
//   (`compare(a, b) = a.key < b.key`): distinct ids with equal keys are ties of the comparator; outputs show ids.
//   `heapify`/`reheap`/`batch` use tbb::concurrent_priority_queue<Elem> (std::less<Elem>);
//   `rheapify`/`rreheap`/`rbatch` use tbb::concurrent_priority_queue<Elem, KeyGreater> (a user-supplied Compare:
//   a min-queue on the keys; the check mirrors the keys for the model).
//   `abatch <k> …` uses a queue whose allocator throws std::bad_alloc at the k-th allocation made while the FIRST batch
//   is handled (the vector is shrunk to capacity == size first): an allocation failure inside the handler.
// Element type: key + id + a flag that makes copying throw; moves are noexcept (so vector growth moves).
#include <oneapi/tbb/concurrent_priority_queue.h>
#include <cstdio>
#include <cstdlib>
#include <cstring>
#include <memory>
#include <sstream>
#include <string>
#include <vector>
#include <iostream>

struct CopyBomb {};
struct AssignBomb {};
struct Elem {
    long key; long v; bool bomb; bool abomb = false;       // abomb: assigning INTO this object throws (op `x`)
    Elem(long k_ = -1, long v_ = -1, bool b = false) : key(k_), v(v_), bomb(b) {}
    Elem(const Elem& o) : key(o.key), v(o.v), bomb(o.bomb) { if (o.bomb) throw CopyBomb(); }
    Elem(Elem&& o) noexcept : key(o.key), v(o.v), bomb(o.bomb) {}
    Elem& operator=(const Elem& o) { if (abomb) throw AssignBomb(); if (o.bomb) throw CopyBomb(); key = o.key; v = o.v; bomb = o.bomb; return *this; }
    Elem& operator=(Elem&& o) { if (abomb) throw AssignBomb(); key = o.key; v = o.v; bomb = o.bomb; return *this; }
    friend bool operator<(const Elem& a, const Elem& b) { return a.key < b.key; }
};
struct KeyGreater { bool operator()(const Elem& a, const Elem& b) const { return a.key > b.key; } };
// an allocator whose k-th allocation (counted from arming) throws std::bad_alloc: the `abatch` command arms it right
// before handle_operations, so the reallocation inside some push_back of the batch fails inside the handler
static long g_alloc_countdown = -1;      // -1: disarmed
template <class T> struct FaultAlloc {
    using value_type = T;
    FaultAlloc() = default;
    template <class U> FaultAlloc(const FaultAlloc<U>&) {}
    T* allocate(std::size_t n) {
        if (g_alloc_countdown == 0) { g_alloc_countdown = -1; throw std::bad_alloc(); }
        if (g_alloc_countdown > 0) --g_alloc_countdown;
        return std::allocator<T>().allocate(n);
    }
    void deallocate(T* p, std::size_t n) { std::allocator<T>().deallocate(p, n); }
    template <class U> bool operator==(const FaultAlloc<U>&) const { return true; }
    template <class U> bool operator!=(const FaultAlloc<U>&) const { return false; }
};
using QL = tbb::concurrent_priority_queue<Elem>;
using QG = tbb::concurrent_priority_queue<Elem, KeyGreater>;
using QA = tbb::concurrent_priority_queue<Elem, std::less<Elem>, FaultAlloc<Elem>>;

// a repaired tree may hand the exception of a pop's element assignment to the pop's caller through the operation
// (member `eptr`); the pinned tree has no such member
template <class Op> static auto op_has_exception(Op& op, int) -> decltype((bool)op.eptr) { return (bool)op.eptr; }
template <class Op> static bool op_has_exception(Op&, long) { return false; }

static bool parse_nat(const std::string& s, long& out) {
    if (s.empty() || s.size() > 18) return false;
    for (char c : s) if (c < '0' || c > '9') return false;
    out = atol(s.c_str());
    return true;
}

// <key>:<id> or <n>
static bool parse_elem(const std::string& s, long& key, long& id) {
    size_t c = s.find(':');
    if (c == std::string::npos) { if (!parse_nat(s, id)) return false; key = id; return true; }
    return parse_nat(s.substr(0, c), key) && parse_nat(s.substr(c + 1), id);
}

template <class Q> static std::string show(Q& q) {
    std::string r = std::to_string(q.mark) + " |";
    for (auto& e : q.data) r += " " + std::to_string(e.v);
    if (q.my_size.load() != q.data.size()) r += " my_size=" + std::to_string(q.my_size.load()) + "!";
    return r;
}

typedef std::vector<std::pair<long, long>> Elems;   // (key, id)

template <class Q> static void set_state(Q& q, const Elems& d, size_t mark) {
    q.data.clear();
    for (auto& x : d) q.data.emplace_back(x.first, x.second, false);
    q.mark = mark;
    q.my_size.store(d.size());
}

// the queue built through a public bulk operation (the handler's invariant "heap = [0, mark), mark = size" must hold afterwards):
//   0 set_state (white-box, as given)   1 iterator-range constructor   2 assign(first, last)   3 copy constructor of (1)
//   4 move constructor of (1)   5 copy assignment of (1) into a used queue   6 move assignment of (1)   7 assign(initializer-list-sized copy) after pushes
static int g_build_how = 0;
template <class Q> static std::unique_ptr<Q> make_queue(const Elems& d, size_t mark) {
    std::vector<Elem> v;
    for (auto& x : d) v.emplace_back(x.first, x.second, false);
    std::unique_ptr<Q> q;
    switch (g_build_how) {
    case 1: q.reset(new Q(v.begin(), v.end())); break;
    case 2: q.reset(new Q()); q->assign(v.begin(), v.end()); break;
    case 3: { Q a(v.begin(), v.end()); q.reset(new Q(a)); break; }
    case 4: { Q a(v.begin(), v.end()); q.reset(new Q(std::move(a))); break; }
    case 5: { Q a(v.begin(), v.end()); q.reset(new Q()); q->push(Elem(1, 999001, false)); *q = a; break; }
    case 6: { Q a(v.begin(), v.end()); q.reset(new Q()); q->push(Elem(1, 999002, false)); *q = std::move(a); break; }
    case 7: { q.reset(new Q()); q->push(Elem(5, 999003, false)); q->push(Elem(7, 999004, false)); q->assign(v.begin(), v.end()); break; }
    default: q.reset(new Q()); set_state(*q, d, mark); break;
    }
    return q;
}

template <class Q> static std::string handle_line(std::vector<std::string>& ws, long fail_alloc = -1) {
        std::string out = "bad-op";
        g_build_how = 0;
        if (ws[0].size() == 6 && ws[0].compare(0, 5, "build") == 0 && ws[0][5] >= '1' && ws[0][5] <= '7') {
            // build<h> <d...>  ->  "<mark> | <data...>" of the freshly built queue
            g_build_how = ws[0][5] - '0';
            Elems d; bool ok = true;
            for (size_t i = 1; ok && i < ws.size(); ++i) { long k, x; ok = parse_elem(ws[i], k, x); d.push_back({k, x}); }
            if (ok) { auto q = make_queue<Q>(d, 0); out = show(*q); }
            return out;
        }
        if (ws[0].size() == 7 && ws[0].compare(0, 6, "bbatch") == 0 && ws[0][6] >= '1' && ws[0][6] <= '7') { g_build_how = ws[0][6] - '0'; ws[0] = "batch"; }
        if ((ws[0] == "heapify" || ws[0] == "reheap") && ws.size() >= 2) {
            long m; Elems d; bool ok = parse_nat(ws[1], m);
            for (size_t i = 2; ok && i < ws.size(); ++i) { long k, x; ok = parse_elem(ws[i], k, x); d.push_back({k, x}); }
            if (ok && (size_t)m <= d.size() && (ws[0] == "heapify" || !d.empty())) {
                Q q; set_state(q, d, (size_t)m);
                if (ws[0] == "heapify") q.heapify(); else { q.reheap(); q.my_size.store(q.data.size()); }
                out = show(q);
            }
        } else if (ws[0] == "batch") {
            // batch <d...> | <ops> ; <ops> ; ...   (several batches handled one after the other on the same queue)
            size_t bar = 1; while (bar < ws.size() && ws[bar] != "|") ++bar;
            bool ok = bar < ws.size();
            Elems d;
            for (size_t i = 1; ok && i < bar; ++i) { long k, x; ok = parse_elem(ws[i], k, x); d.push_back({k, x}); }
            struct OpRec { char kind; Elem arg; Elem outv; std::unique_ptr<typename Q::cpq_operation> op; };
            std::vector<std::vector<std::unique_ptr<OpRec>>> batches(1);
            for (size_t i = bar + 1; ok && i < ws.size(); ++i) {
                const std::string& w = ws[i];
                if (w == ";") { batches.emplace_back(); continue; }
                auto r = std::make_unique<OpRec>();
                r->kind = w[0];
                if (w == "o" || w == "x") {
                    r->outv = Elem(-7, -7, false);
                    r->outv.abomb = (w == "x");
                    r->op.reset(new typename Q::cpq_operation(r->outv, Q::POP_OP));
                } else if ((w[0] == 'p' || w[0] == 'm' || w[0] == 't') && w.size() > 1) {
                    long k = 0, x = 0; ok = parse_elem(w.substr(1), k, x);
                    r->arg = Elem(k, x, w[0] == 't');
                    r->op.reset(new typename Q::cpq_operation(r->arg, w[0] == 'm' ? Q::PUSH_RVALUE_OP : Q::PUSH_OP));
                } else ok = false;
                batches.back().push_back(std::move(r));
            }
            if (ok) {
                std::unique_ptr<Q> qp = make_queue<Q>(d, d.size());
                Q& q = *qp;
                if (fail_alloc >= 0) q.data.shrink_to_fit();      // capacity == size: the growth policy decides which push reallocates
                out.clear();
                for (size_t b = 0; b < batches.size(); ++b) {
                    auto& ops = batches[b];
                    for (size_t i = 0; i + 1 < ops.size(); ++i) ops[i]->op->next.store(ops[i + 1]->op.get());
                    bool exc = false;
                    if (b == 0 && fail_alloc >= 0) g_alloc_countdown = fail_alloc;
                    try { q.handle_operations(ops.empty() ? nullptr : ops[0]->op.get()); }
                    catch (...) { exc = true; }
                    g_alloc_countdown = -1;
                    if (b) out += " ; ";
                    for (auto& r : ops) {
                        uintptr_t st = r->op->status.load();
                        std::string s = st == 0 ? "W" : st == Q::SUCCEEDED ? "S" : st == Q::FAILED ? "F" : "?" + std::to_string(st);
                        if ((r->kind == 'o' || r->kind == 'x') && st == Q::SUCCEEDED) s += ":" + std::to_string(r->outv.v);
                        if (r->kind == 'x' && st == Q::FAILED && op_has_exception(*r->op, 0)) s = "E";
                        out += s + " ";
                    }
                    out += "| " + show(q);
                    if (exc) { out += " EXCEPTION-ESCAPED"; break; }     // handle_operations was left by an exception
                }
            }
        }
        return out;
}

int main() {
    std::string line;
    while (std::getline(std::cin, line)) {
        std::istringstream is(line);
        std::vector<std::string> ws;
        for (std::string w; is >> w;) ws.push_back(w);
        if (ws.empty()) continue;
        std::string out;
        if (ws[0] == "rheapify" || ws[0] == "rreheap" || ws[0] == "rbatch") {
            ws[0] = ws[0].substr(1);
            out = handle_line<QG>(ws);
        } else if (ws[0] == "abatch" && ws.size() >= 2) {
            // abatch <k> <d...> | <ops> ; ...   the k-th allocation (0-based) during the FIRST batch throws std::bad_alloc
            long k;
            if (parse_nat(ws[1], k)) {
                ws.erase(ws.begin() + 1);
                ws[0] = "batch";
                out = handle_line<QA>(ws, k);
            } else out = "bad-op";
        } else out = handle_line<QL>(ws);
        puts(out.c_str());
        fflush(stdout);
    }
    return 0;
}
