// C18 E-REAL: the C++ wrappers (memory_pool<Alloc>, fixed_pool, memory_pool_allocator, scalable_allocator) report
// failure with std::bad_alloc and leave containers intact.
//   cxx <k> <count>      the underlying allocator of memory_pool<FailAlloc> throws at calls k..k+count-1
// One result line per test: `<test> ok ...` or `<test> VIOLATION ...`; the last line is `done violations=<n>`.
#define TBB_PREVIEW_MEMORY_POOL 1
#include "oneapi/tbb/scalable_allocator.h"
#include "oneapi/tbb/memory_pool.h"
#include <cstdint>
#include <cstdio>
#include <cstdlib>
#include <cstring>
#include <new>
#include <vector>

static int g_calls = 0, g_from = 0, g_count = 0, g_thrown = 0, g_live = 0, g_viol = 0;

template <typename T> struct FailAlloc {
    typedef T value_type;
    template <typename U> struct rebind { typedef FailAlloc<U> other; };
    FailAlloc() {}
    template <typename U> FailAlloc(const FailAlloc<U> &) {}
    T *allocate(size_t n) {
        g_calls++;
        if (g_from && g_calls >= g_from && g_calls < g_from + g_count) { g_thrown++; throw std::bad_alloc(); }
        void *p = malloc(n * sizeof(T));
        if (!p) throw std::bad_alloc();
        g_live++;
        return (T *)p;
    }
    void deallocate(T *p, size_t) { g_live--; free(p); }
};

#define BAD(...) do { printf(__VA_ARGS__); g_viol++; } while (0)

int main(int argc, char **argv) {
    g_from = argc > 1 ? atoi(argv[1]) : 0;
    g_count = argc > 2 ? atoi(argv[2]) : 1;
    // ---- T1: vector over a growable pool whose raw allocator throws ------------------------------------
    {
        int caught = 0, pushed = 0;
        bool intact = true;
        {
            tbb::memory_pool<FailAlloc<char>> pool;
            typedef tbb::memory_pool_allocator<uint64_t> A;
            A a(pool);
            std::vector<uint64_t, A> v(a);
            for (uint64_t i = 0; i < 600000; i++) {
                try { v.push_back(i * 2654435761u + 7); pushed++; }
                catch (const std::bad_alloc &) {
                    caught++;
                    for (size_t j = 0; j < v.size(); j++) if (v[j] != (uint64_t)j * 2654435761u + 7 && intact) { intact = false; }
                    if (v.size() != (size_t)i) intact = false;
                    // retry the same element once the failure window is over
                    i--;
                    if (caught > 50) break;
                }
            }
            for (size_t j = 0; j < v.size(); j++) if (v[j] != (uint64_t)j * 2654435761u + 7) intact = false;
            if (caught <= 50 && v.size() != 600000) intact = false;
        }
        if (!intact) BAD("T1 VIOLATION vector contents damaged after bad_alloc (caught=%d pushed=%d)\n", caught, pushed);
        else if (g_live) BAD("T1 VIOLATION %d raw regions not returned by ~memory_pool\n", g_live);
        else printf("T1 ok rawcalls=%d thrown=%d bad_alloc=%d\n", g_calls, g_thrown, caught);
    }
    // ---- T2: fixed_pool exhaustion and recovery ---------------------------------------------------------
    {
        const size_t N = 2 << 20;
        static char buf[N];
        int got = 0, caught = 0;
        bool inside = true;
        {
            tbb::fixed_pool pool(buf, N);
            tbb::memory_pool_allocator<char> a(pool);
            std::vector<char *> ps;
            for (int i = 0; i < 4000; i++) {
                try { char *p = a.allocate(3000); ps.push_back(p); got++; memset(p, 0x5a, 3000);
                      if (p < buf || p + 3000 > buf + N) inside = false; }
                catch (const std::bad_alloc &) { caught++; if (caught > 3) break; }
            }
            for (char *p : ps) for (int j = 0; j < 3000; j += 499) if (p[j] != 0x5a) inside = false;
            for (char *p : ps) a.deallocate(p, 3000);
            int again = 0;
            for (int i = 0; i < got / 2; i++) { try { char *p = a.allocate(3000); again++; a.deallocate(p, 3000); } catch (const std::bad_alloc &) {} }
            if (again != got / 2) { BAD("T2 VIOLATION after freeing everything only %d of %d allocations succeed again\n", again, got / 2); inside = true; caught = -1; }
        }
        if (caught == -1) {}
        else if (!inside) BAD("T2 VIOLATION fixed_pool block outside its buffer or damaged\n");
        else if (!caught) BAD("T2 VIOLATION fixed_pool of %zu bytes handed out %d x 3000 bytes without bad_alloc\n", N, got);
        else printf("T2 ok got=%d bad_alloc=%d\n", got, caught);
    }
    // ---- T3: sizes that cannot be represented --------------------------------------------------------------
    {
        try { char *p = tbb::scalable_allocator<char>().allocate(SIZE_MAX - 100); BAD("T3 VIOLATION allocate(SIZE_MAX-100) returned %p\n", (void *)p); }
        catch (const std::bad_alloc &) { printf("T3 ok bad_alloc\n"); }
    }
    // ---- T4: n * sizeof(T) wraps around in the C++ allocators (reported, see checks/c18.py) -------------------------
    {
        const size_t n = ((size_t)1 << 61) + 1;       // n * sizeof(uint64_t) == 8 (mod 2^64)
        try {
            uint64_t *p = tbb::scalable_allocator<uint64_t>().allocate(n);
            printf("T4 unchecked scalable_allocator<uint64_t>::allocate(2^61+1) returned a block of msize=%zu instead of throwing std::bad_alloc\n", scalable_msize(p));
            tbb::scalable_allocator<uint64_t>().deallocate(p, n);
        } catch (const std::bad_alloc &) { printf("T4 ok bad_alloc\n"); }
        try {
            tbb::memory_pool<FailAlloc<char>> pool;
            g_from = 0;
            tbb::memory_pool_allocator<uint64_t> a(pool);
            uint64_t *p = a.allocate(n);
            printf("T5 unchecked memory_pool_allocator<uint64_t>::allocate(2^61+1) returned a block instead of throwing std::bad_alloc\n");
            a.deallocate(p, n);
        } catch (const std::bad_alloc &) { printf("T5 ok bad_alloc\n"); }
    }
    printf("done violations=%d\n", g_viol);
    return g_viol ? 3 : 0;
}
