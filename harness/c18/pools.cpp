// C18 E-REAL: memory pools of the real libtbbmalloc with instrumented raw callbacks (region ledger + failure
// injection by call index) and a shadow-heap monitor.
//
// stdin:  P <n>                                         new phase with n fresh threads (previous ones joined)
//         M pool <pid> <fixed> <keepAll> <gran> <fixedBytes> <freeCb>   create a pool (main thread, before the phase's threads)
//         <t> dchurn <pid> <slot> <size> <log2 align|0>   scalable_malloc/aligned_malloc + free on the DEFAULT pool (same thread; slot unused)
//         M fail <pid> <k> <count>                      raw-alloc calls number k .. k+count-1 of that pool fail (k=0: none)
//         <t> ddrain <pid> <slot> 0                      take (and keep) everything the DEFAULT pool can give without asking the OS
//         M osfail <pid> <0|1>                          refuse (1) / allow (0) tbbmalloc's own requests to the OS (not the pools' raw callbacks)
//         M freefail <pid> <k> <count>                  raw-free calls number k .. k+count-1 of that pool (counted from this command on) report an error and
//                                                       keep the region for the caller (it is no longer the pool's: never to be used or offered again)
//         M reset <pid> | M destroy <pid>
//         <t> [!]pmalloc <pid> <slot> <size>            `!` = must succeed (recovery check)
//         <t> [!]pamalloc <pid> <slot> <size> <log2 align>
//         <t> [!]prealloc <pid> <slot> <size>
//         <t> [!]parealloc <pid> <slot> <size> <log2 align>
//         <t> pfree <pid> <slot> | pmsize <pid> <slot>
// Monitors (each prints `VIOLATION <kind> ...`):
//   outside      block not inside a raw region currently owned by its pool
//   identify     rml::pool_identify(block) != its pool
//   overlap / align / msize / prefix / pattern   as in harness/c17/real.cpp
//   null         an allocation failed although no raw-alloc failure was injected during it (growable pool) / `!` op failed
//   fixed-twice  a fixed pool called its raw allocator a second time
//   raw-free     raw free of something the pool does not own (double return, wrong size)
//   in-use       a region was returned while a live block lies in it
//   leak         pool_destroy did not hand every region to the raw-free callback (pools with a free callback), also when some call reports an error
//   after-fail   a live block changed during an operation that hit an injected failure
// Output also contains the per-pool ledger (`LEDGER <pid> a|f|b <start> <size>`) for validation against the Lean
// PoolLedger, `RAWCALLS <pid> <n> <failed>` and `done ops=<n> violations=<m> nulls=<k>`.
#define TBB_PREVIEW_MEMORY_POOL 1
#include "oneapi/tbb/scalable_allocator.h"
#include <sys/mman.h>
#include <sys/syscall.h>
#include <unistd.h>
#include <atomic>
#include <cerrno>
#include <cstdarg>
#include <cstdint>
#include <cstdio>
#include <cstdlib>
#include <cstring>
#include <map>
#include <mutex>
#include <string>
#include <thread>
#include <vector>

struct Op {
    int line, thread, kind, pid, slot;
    size_t a, b;
    unsigned need;
    bool must;
};
enum { PMALLOC, PAMALLOC, PREALLOC, PAREALLOC, PFREE, PMSIZE, DCHURN, DDRAIN };
static std::vector<void *> g_drained;
struct MOp { int line; std::string what; long long pid, a, b, c, d, e; };

struct Slot {
    std::atomic<unsigned> ver{0};
    void *p = nullptr;
    size_t req = 0, usable = 0;
    unsigned tag = 0;
    int pid = -1;
};

struct PoolCtx {
    int pid = 0;
    rml::MemoryPool *pool = nullptr;
    bool fixed = false, keep = false, freeCb = true, alive = false;
    size_t gran = 0, fixedBytes = 0;
    std::mutex mu;
    std::map<uintptr_t, size_t> regions;
    std::map<uintptr_t, uintptr_t> blocks;      // live user blocks of this pool: start -> end
    int rawCalls = 0, failFrom = 0, failCount = 0;
    int freeCalls = 0, freeFailFrom = 0, freeFailCount = 0, freeRefused = 0;
    std::vector<std::pair<void *, size_t>> refused;       // regions whose return was refused: the caller's again, unmapped at the end of the run
    std::atomic<int> failed{0};
    std::vector<std::string> ledger;
};

static PoolCtx g_pools[8];

// tbbmalloc's OWN requests to the OS (the back-reference table and everything else the library keeps outside the pools: it binds to
// these definitions) can be refused on demand (`M osfail <pid> 1`); the pools' raw callbacks below go to the kernel directly.
static std::atomic<int> g_os_fail{0}, g_os_refused{0};
extern "C" void *mmap(void *addr, size_t len, int prot, int flags, int fd, off_t off) __THROW {
    if (g_os_fail.load()) { g_os_refused++; errno = ENOMEM; return MAP_FAILED; }
    return (void *)syscall(SYS_mmap, addr, len, prot, flags, fd, off);
}
extern "C" int munmap(void *addr, size_t len) __THROW { return (int)syscall(SYS_munmap, addr, len); }
static void *raw_mmap(size_t bytes) { return (void *)syscall(SYS_mmap, nullptr, bytes, PROT_READ | PROT_WRITE, MAP_PRIVATE | MAP_ANONYMOUS, -1, 0); }
static std::vector<Slot> *g_slots;
static std::mutex g_mu, g_out;
static std::map<uintptr_t, std::pair<uintptr_t, int>> g_live;
static std::atomic<int> g_viol{0}, g_nulls{0};
static int g_phaseThreads = 1;

static void violation(const char *kind, int line, const char *fmt, ...) __attribute__((format(printf, 3, 4)));
static void violation(const char *kind, int line, const char *fmt, ...) {
    char buf[512];
    va_list ap;
    va_start(ap, fmt);
    vsnprintf(buf, sizeof buf, fmt, ap);
    va_end(ap);
    std::lock_guard<std::mutex> l(g_out);
    printf("VIOLATION %s line=%d %s\n", kind, line, buf);
    fflush(stdout);
    g_viol++;
}

// ---- raw callbacks -----------------------------------------------------------------------------------
static void *rawAlloc(std::intptr_t id, std::size_t &bytes) {
    PoolCtx &c = g_pools[id];
    std::lock_guard<std::mutex> l(c.mu);
    c.rawCalls++;
    if (c.fixed && c.rawCalls > 1) violation("fixed-twice", 0, "pool %d: raw allocator called %d times for a fixed pool", c.pid, c.rawCalls);
    if (c.failFrom && c.rawCalls >= c.failFrom && c.rawCalls < c.failFrom + c.failCount) {
        c.failed++;
        return nullptr;
    }
    if (c.gran && bytes % c.gran) violation("granularity", 0, "pool %d: raw request of %zu bytes is not a multiple of the granularity %zu", c.pid, bytes, c.gran);
    if (c.fixed) bytes = c.fixedBytes;
    void *p = raw_mmap(bytes);
    if (p == MAP_FAILED) { c.failed++; return nullptr; }
    c.regions[(uintptr_t)p] = bytes;
    char b[96];
    snprintf(b, sizeof b, "a %llu %zu", (unsigned long long)(uintptr_t)p, bytes);
    c.ledger.push_back(b);
    return p;
}
static int rawFree(std::intptr_t id, void *ptr, std::size_t bytes) {
    PoolCtx &c = g_pools[id];
    std::lock_guard<std::mutex> l(c.mu);
    char b[96];
    snprintf(b, sizeof b, "f %llu %zu", (unsigned long long)(uintptr_t)ptr, bytes);
    c.ledger.push_back(b);
    auto it = c.regions.find((uintptr_t)ptr);
    if (it == c.regions.end() || it->second != bytes) {
        violation("raw-free", 0, "pool %d returned [%#zx,+%zu) which it does not own (double return / wrong size)", c.pid, (size_t)ptr, bytes);
        return 1;
    }
    uintptr_t s = (uintptr_t)ptr, e = s + bytes;
    auto bl = c.blocks.lower_bound(s);
    if (bl != c.blocks.begin() && std::prev(bl)->second > s) bl = std::prev(bl);
    if (bl != c.blocks.end() && bl->first < e)
        violation("in-use", 0, "pool %d returned region [%#zx,+%zu) while live block [%#zx,%#zx) lies in it", c.pid, (size_t)s, bytes, (size_t)bl->first, (size_t)bl->second);
    c.regions.erase(it);
    c.freeCalls++;
    if (c.freeFailFrom && c.freeCalls >= c.freeFailFrom && c.freeCalls < c.freeFailFrom + c.freeFailCount) {
        // the offer is refused (as a failing munmap would): the region was offered exactly once all the same, and must not be used or offered again
        c.freeRefused++;
        c.refused.push_back({ptr, bytes});
        return 1;
    }
    munmap(ptr, bytes);
    return 0;
}

// ---- shadow heap ---------------------------------------------------------------------------------------
static inline unsigned char pat(unsigned tag, size_t i) { return (unsigned char)(tag * 131u + i * 7u + (i >> 8) * 13u + 1u); }
static void fill(Slot &s) { unsigned char *c = (unsigned char *)s.p; for (size_t i = 0; i < s.usable; i++) c[i] = pat(s.tag, i); }
static size_t first_bad(const void *p, unsigned tag, size_t n) {
    const unsigned char *c = (const unsigned char *)p;
    for (size_t i = 0; i < n; i++) if (c[i] != pat(tag, i)) return i;
    return (size_t)-1;
}
static bool check_pattern(int line, Slot &s, const char *kind = "pattern") {
    size_t b = first_bad(s.p, s.tag, s.usable);
    if (b != (size_t)-1) { violation(kind, line, "live block %#zx of pool %d (request %zu, usable %zu) changed at byte %zu", (size_t)s.p, s.pid, s.req, s.usable, b); return false; }
    return true;
}
static void shadow_insert(int line, Slot &s, int slot) {
    uintptr_t a = (uintptr_t)s.p, e = a + (s.usable ? s.usable : 1);
    {
        std::lock_guard<std::mutex> l(g_mu);
        auto it = g_live.lower_bound(a);
        if (it != g_live.end() && it->first < e) violation("overlap", line, "block [%#zx,%#zx) overlaps live block of slot %d", (size_t)a, (size_t)e, it->second.second);
        if (it != g_live.begin() && std::prev(it)->second.first > a) violation("overlap", line, "block [%#zx,%#zx) overlaps live block of slot %d", (size_t)a, (size_t)e, std::prev(it)->second.second);
        g_live[a] = {e, slot};
    }
    PoolCtx &c = g_pools[s.pid];
    std::lock_guard<std::mutex> l(c.mu);
    auto r = c.regions.upper_bound(a);
    bool inside = false;
    if (r != c.regions.begin()) { --r; inside = r->first <= a && e <= r->first + r->second; }
    if (!inside) violation("outside", line, "block [%#zx,%#zx) of pool %d is not inside a raw region the pool owns", (size_t)a, (size_t)e, c.pid);
    c.blocks[a] = e;
    char b[96];
    snprintf(b, sizeof b, "b %llu %zu", (unsigned long long)a, (size_t)(e - a));
    c.ledger.push_back(b);
}
static void shadow_erase(Slot &s) {
    { std::lock_guard<std::mutex> l(g_mu); g_live.erase((uintptr_t)s.p); }
    PoolCtx &c = g_pools[s.pid];
    std::lock_guard<std::mutex> l(c.mu);
    c.blocks.erase((uintptr_t)s.p);
}
static void adopt(const Op &op, Slot &s, void *p, size_t req, size_t align, unsigned oldtag, size_t keep) {
    PoolCtx &c = g_pools[op.pid];
    s.p = p; s.req = req; s.pid = op.pid;
    s.usable = rml::pool_msize(c.pool, p);
    if (s.usable < req) { violation("msize", op.line, "pool_msize=%zu < request=%zu", s.usable, req); s.usable = req; }
    size_t need = align ? align : ((req ? req : 8) <= 8 ? 8 : 16);
    if ((uintptr_t)p % need) violation("align", op.line, "address %#zx not aligned to %zu", (size_t)p, need);
    if (rml::pool_identify(p) != c.pool) violation("identify", op.line, "pool_identify(%#zx) does not name pool %d", (size_t)p, c.pid);
    if (keep) { size_t b = first_bad(p, oldtag, keep); if (b != (size_t)-1) violation("prefix", op.line, "realloc lost byte %zu of the first %zu", b, keep); }
    shadow_insert(op.line, s, op.slot);
    s.tag = s.tag * 2654435761u + op.line + 17;
    fill(s);
}
static void after_failure(const Op &op) {
    // single-threaded phases: every live block must be intact right after an operation that hit a failure
    if (g_phaseThreads != 1) return;
    for (size_t i = 0; i < g_slots->size(); i++) {
        Slot &s = (*g_slots)[i];
        if (!s.p) continue;
        check_pattern(op.line, s, "after-fail");
        // ... and the allocator still knows every live block: size and owner are what they were when the block was handed out
        PoolCtx &pc = g_pools[s.pid];
        if (pc.alive) {
            size_t m = rml::pool_msize(pc.pool, s.p);
            if (m != s.usable) violation("after-fail", op.line, "after a failed operation pool_msize of live block %#zx (pool %d) is %zu, was %zu", (size_t)s.p, s.pid, m, s.usable);
            if (rml::pool_identify(s.p) != pc.pool) violation("after-fail", op.line, "after a failed operation pool_identify of live block %#zx no longer names pool %d", (size_t)s.p, s.pid);
        }
    }
}

static void run_op(const Op &op) {
    Slot &s = (*g_slots)[op.slot];
    while (s.ver.load(std::memory_order_acquire) != op.need) std::this_thread::yield();
    PoolCtx &c = g_pools[op.pid];
    int failed0 = c.failed.load();
    auto null_result = [&](size_t req) {
        g_nulls++;
        bool injected = c.failed.load() != failed0 || g_os_fail.load() != 0;      // (the library's own OS requests are being refused)
        {   // ... or the pool's failure window is open right now (any raw request would be refused)
            std::lock_guard<std::mutex> l(c.mu);
            int nx = c.rawCalls + 1;
            if (c.failFrom && nx >= c.failFrom && nx < c.failFrom + c.failCount) injected = true;
        }
        if (op.must) violation("null", op.line, "pool %d: allocation of %zu bytes had to succeed (no failure pending)", c.pid, req);
        else if (!injected && !c.fixed && req < ((size_t)1 << 30)) violation("null", op.line, "pool %d: allocation of %zu bytes failed without any raw-alloc failure", c.pid, req);
        after_failure(op);
    };
    if (!c.alive) { s.ver.store(op.need + 1, std::memory_order_release); return; }
    switch (op.kind) {
    case PMALLOC: case PAMALLOC: {
        if (s.p) break;
        size_t align = op.kind == PAMALLOC ? (size_t)1 << op.b : 0;
        void *p = op.kind == PMALLOC ? rml::pool_malloc(c.pool, op.a) : rml::pool_aligned_malloc(c.pool, op.a, align);
        if (!p) { null_result(op.a); break; }
        adopt(op, s, p, op.a, align, 0, 0);
        break;
    }
    case PREALLOC: case PAREALLOC: {
        size_t align = op.kind == PAREALLOC ? (size_t)1 << op.b : 0;
        if (!s.p) {
            void *p = op.kind == PREALLOC ? rml::pool_realloc(c.pool, nullptr, op.a) : rml::pool_aligned_realloc(c.pool, nullptr, op.a, align);
            if (!p) { null_result(op.a); break; }
            adopt(op, s, p, op.a, align, 0, 0);
            break;
        }
        if (s.pid != op.pid) break;
        check_pattern(op.line, s);
        size_t oldreq = s.req; unsigned oldtag = s.tag; void *old = s.p;
        shadow_erase(s);
        void *p = op.kind == PREALLOC ? rml::pool_realloc(c.pool, old, op.a) : rml::pool_aligned_realloc(c.pool, old, op.a, align);
        if (!p) {
            if (op.a == 0) { s.p = nullptr; break; }
            shadow_insert(op.line, s, op.slot);    // the old block must still be there, intact
            check_pattern(op.line, s, "after-fail");
            null_result(op.a);
            break;
        }
        adopt(op, s, p, op.a, align, oldtag, oldreq < op.a ? oldreq : op.a);
        break;
    }
    case PFREE:
        if (!s.p || s.pid != op.pid) break;
        check_pattern(op.line, s);
        shadow_erase(s);
        if (!rml::pool_free(c.pool, s.p)) violation("free", op.line, "pool_free returned false");
        s.p = nullptr;
        break;
    case DCHURN: {
        // default-pool traffic on the same thread between pool operations: allocate + free (the freed block stays in the DEFAULT pool's
        // per-thread caches); a user pool must never hand out memory that came from there
        void *p = op.b ? scalable_aligned_malloc(op.a, (size_t)1 << op.b) : scalable_malloc(op.a);
        if (p) { memset(p, 0x5a, op.a < 4096 ? op.a : 4096); if (op.b) scalable_aligned_free(p); else scalable_free(p); }
        break;
    }
    case DDRAIN: {
        // take everything the DEFAULT pool can still give without asking the OS (use while `osfail` is on), largest pieces first, and keep it
        // until the end of the run: afterwards the library's own structures cannot grow
        for (size_t sz : {(size_t)1 << 20, (size_t)200000, (size_t)70000, (size_t)40000, (size_t)20000, (size_t)9000})
            for (int i = 0; i < 100000; ++i) { void *q = scalable_malloc(sz); if (!q) break; g_drained.push_back(q); }
        break;
    }
    case PMSIZE:
        if (s.p && s.pid == op.pid) {
            size_t m = rml::pool_msize(c.pool, s.p);
            if (m < s.req || m != s.usable) violation("msize", op.line, "pool_msize=%zu request=%zu first=%zu", m, s.req, s.usable);
        }
        break;
    }
    s.ver.store(op.need + 1, std::memory_order_release);
}

static void drop_pool_slots(int pid) {
    for (Slot &s : *g_slots)
        if (s.p && s.pid == pid) { shadow_erase(s); s.p = nullptr; }
}

static void run_mop(const MOp &m) {
    PoolCtx &c = g_pools[m.pid];
    if (m.what == "pool") {
        c.pid = (int)m.pid; c.fixed = m.a; c.keep = m.b; c.gran = (size_t)m.c; c.fixedBytes = (size_t)m.d; c.freeCb = m.e;
        c.rawCalls = 0; c.failFrom = c.failCount = 0; c.failed = 0; c.regions.clear(); c.blocks.clear();
        c.freeCalls = c.freeFailFrom = c.freeFailCount = c.freeRefused = 0;
        rml::MemPoolPolicy pol(rawAlloc, c.freeCb ? rawFree : nullptr, c.gran, c.fixed, c.keep);
        rml::MemPoolError e = rml::pool_create_v1(m.pid, &pol, &c.pool);
        c.alive = e == rml::POOL_OK && c.pool;
        if (!c.alive) violation("create", m.line, "pool_create_v1 failed with %d", (int)e);
    } else if (m.what == "osfail") {
        g_os_fail = (int)m.a;
    } else if (m.what == "freefail") {
        std::lock_guard<std::mutex> l(c.mu);
        c.freeCalls = 0; c.freeFailFrom = (int)m.a; c.freeFailCount = (int)m.b;
    } else if (m.what == "fail") {
        std::lock_guard<std::mutex> l(c.mu);
        c.failFrom = (int)m.a; c.failCount = (int)m.b;
    } else if (m.what == "reset" && c.alive) {
        for (Slot &s : *g_slots) if (s.p && s.pid == m.pid) check_pattern(m.line, s);
        drop_pool_slots((int)m.pid);
        if (!rml::pool_reset(c.pool)) violation("reset", m.line, "pool_reset returned false");
    } else if (m.what == "destroy" && c.alive) {
        for (Slot &s : *g_slots) if (s.p && s.pid == m.pid) check_pattern(m.line, s);
        drop_pool_slots((int)m.pid);
        int refused0;
        { std::lock_guard<std::mutex> l(c.mu); refused0 = c.freeRefused; }
        bool ok = rml::pool_destroy(c.pool);
        c.alive = false;
        std::lock_guard<std::mutex> l(c.mu);
        if (!ok && c.freeRefused == refused0) violation("destroy", m.line, "pool_destroy returned false");
        if (ok && c.freeRefused != refused0)
            violation("destroy", m.line, "pool_destroy returned true although %d raw-free call(s) made by it reported an error", c.freeRefused - refused0);
        printf("RAWFREE %d calls=%d refused=%d left=%zu\n", c.pid, c.freeCalls, c.freeRefused, c.regions.size());
        if (c.freeCb && !c.regions.empty())
            violation("leak", m.line, "pool %d destroyed but %zu raw region(s) were not returned", c.pid, c.regions.size());
        printf("RAWCALLS %d %d %d\n", c.pid, c.rawCalls, c.failed.load());
        for (auto &s : c.ledger) printf("LEDGER %d %s\n", c.pid, s.c_str());
        c.ledger.clear();
        if (!c.freeCb) { for (auto &r : c.regions) munmap((void *)r.first, r.second); c.regions.clear(); }
        for (auto &r : c.refused) munmap(r.first, r.second);
        c.refused.clear(); c.freeRefused = 0; c.freeFailFrom = c.freeFailCount = 0;
    }
}

int main() {
    struct Phase { int T; std::vector<MOp> mops; std::vector<Op> ops; };
    std::vector<Phase> phases;
    std::vector<unsigned> cnt;
    char line[256];
    int ln = 0, maxslot = -1;
    static const char *names[] = {"pmalloc", "pamalloc", "prealloc", "parealloc", "pfree", "pmsize", "dchurn", "ddrain"};
    while (fgets(line, sizeof line, stdin)) {
        ln++;
        char w0[32] = {0}, w1[32] = {0};
        long long v[6] = {0, 0, 0, 0, 0, 0};
        int n = sscanf(line, "%31s %31s %llu %llu %llu %llu %llu %llu", w0, w1, (unsigned long long *)&v[0], (unsigned long long *)&v[1], (unsigned long long *)&v[2],
                       (unsigned long long *)&v[3], (unsigned long long *)&v[4], (unsigned long long *)&v[5]);   // sizes up to 2^64-1 keep their bit pattern
        if (n < 1) continue;
        if (!strcmp(w0, "P")) { phases.push_back({atoi(w1), {}, {}}); continue; }
        if (phases.empty()) phases.push_back({1, {}, {}});
        if (!strcmp(w0, "M")) {
            if (v[0] < 0 || v[0] >= 8) { printf("bad-op line=%d\n", ln); return 2; }
            phases.back().mops.push_back({ln, w1, v[0], v[1], v[2], v[3], v[4], v[5]});
            continue;
        }
        bool must = w1[0] == '!';
        const char *nm = must ? w1 + 1 : w1;
        int kind = -1;
        for (int i = 0; i < 8; i++) if (!strcmp(nm, names[i])) kind = i;
        if (kind < 0 || n < 4 || v[0] < 0 || v[0] >= 8 || v[1] < 0 || v[1] > 1000000) { printf("bad-op line=%d\n", ln); return 2; }
        Op op{ln, atoi(w0), kind, (int)v[0], (int)v[1], (size_t)v[2], (size_t)v[3], 0, must};
        if (op.thread < 0 || op.thread >= phases.back().T) { printf("bad-op line=%d\n", ln); return 2; }
        if (op.slot > maxslot) { maxslot = op.slot; cnt.resize(maxslot + 1, 0); }
        op.need = cnt[op.slot]++;
        phases.back().ops.push_back(op);
    }
    std::vector<Slot> slots(maxslot + 1);
    g_slots = &slots;
    int nops = 0;
    for (Phase &ph : phases) {
        for (const MOp &m : ph.mops) run_mop(m);
        g_phaseThreads = ph.T;
        std::vector<std::vector<Op>> per(ph.T);
        for (Op &op : ph.ops) { per[op.thread].push_back(op); nops++; }
        std::vector<std::thread> th;
        for (int t = 0; t < ph.T; t++)
            th.emplace_back([&per, t] { for (const Op &op : per[t]) run_op(op); });
        for (auto &t : th) t.join();
        for (Slot &s : slots) if (s.p) check_pattern(-1, s);
    }
    for (int i = 0; i < 8; i++)
        if (g_pools[i].alive) { MOp m{0, "destroy", i, 0, 0, 0, 0, 0}; run_mop(m); }
    g_os_fail = 0;
    for (void *q : g_drained) scalable_free(q);
    printf("done ops=%d violations=%d nulls=%d\n", nops, g_viol.load(), g_nulls.load());
    return g_viol.load() ? 3 : 0;
}
