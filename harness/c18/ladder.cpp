// C18 white-box harness for the FAILURE LADDER of the tbbmalloc back end and for pool destroy.
//
// Re-uses the C17 back-end harness unchanged (textual include: OS layer emulated over one arena, every mapping in its
// own window, every OS / raw-callback request can be refused individually and deterministically; `walk` = the
// implementation-side monitors and the canonical snapshot of regions / blocks / bins / coalescing queue) and adds the
// mode
//
//   ladder ld < script      direct drive of one user pool's Backend as in `be bk`, plus
//        osfail <k> <c>         the k-th raw request from now on is refused, and the c-1 following ones (0 0 = off)
//        rawfreefail <k> <c>    the k-th raw-free callback from now on REPORTS failure (the memory is unmapped all the
//                               same), and the c-1 following ones
//        destroy                rml::pool_destroy: result, every raw-free call made (`[F addr size]` / `[F addr size fail]`)
//     after every operation additionally  `T total=<Backend::totalMemSize> regions=<n>`
//     implementation-side monitors (independent of the model), on top of those of `walk`:
//        MON fail-handout   a request that returned null changed the set of blocks in use
//        MON fail-queue     a request that returned null left a delayed-coalescing request queued (no other thread inside)
//        MON destroy        a region was not offered to the raw-free callback exactly once / something else was offered
//        MON fixed          a fixed pool called its raw allocator a second time
//   ladder fe < script      front-end failure windows on the DEFAULT pool, white-box:
//        osfail <k> <c> / slab <size> / large <size> / freeall
//     `slab` = MemoryPool::getEmptyBlock, `large` = ExtMemoryPool::mallocLargeObject, with monitors
//        MON fe-leak        after a FAILED call the back end holds more used blocks / the back-reference table more live
//                           indices than before the call
#define main be_main
#include "../c17/be.cpp"
#undef main

// ---------------------------------------------------------------------------------------------------------------
static long g_freeFailIn = 0, g_freeFailCount = 0;
static int g_ldRawCalls = 0;
static bool g_ldFixed = false;
static std::vector<std::pair<uintptr_t, size_t>> g_freeCalls;      // raw-free callback calls of the current operation

static void *ldRawAlloc(intptr_t id, size_t &bytes) {
    g_ldRawCalls++;
    if (g_ldFixed && g_ldRawCalls > 1) mon("fixed", "raw allocator of a fixed pool called %d times", g_ldRawCalls);
    return poolRawAlloc(id, bytes);
}
static int ldRawFree(intptr_t, void *p, size_t bytes) {
    bool fail = false;
    if (g_freeFailIn > 0 && --g_freeFailIn == 0) {
        fail = true;
        if (g_freeFailCount > 1) { g_freeFailCount--; g_freeFailIn = 1; }
    }
    g_freeCalls.push_back({(uintptr_t)p, bytes});
    bool on = g_osLogOn;
    g_osLogOn = false;
    int r = os_free(p, bytes);
    g_osLogOn = on;
    if (r) oslog("F %llu %zu bad", canon(p), bytes);
    else if (fail) oslog("F %llu %zu fail", canon(p), bytes);
    else oslog("F %llu %zu", canon(p), bytes);
    return fail ? 1 : r;
}

static std::set<uintptr_t> usedSet(const Snap &s) {
    std::set<uintptr_t> u;
    for (auto &r : s.regs) for (auto &b : r.blocks) if (b.kind == 'U' || b.kind == 'C') u.insert(b.addr);
    return u;
}

static int runLd() {
    char line[512];
    rml::MemoryPool *pool = nullptr;
    rml::internal::MemoryPool *mp = nullptr;
    bool fixed = false;
    bool envInside = false;      // a bin mutex is held / a neighbour is being freed by "another thread"
    g_osLogOn = false;
    { void *w = scalable_malloc(1); scalable_free(w); }
    g_osLogOn = true;
    while (fgets(line, sizeof line, stdin)) {
        size_t L = strlen(line);
        while (L && (line[L - 1] == '\n' || line[L - 1] == '\r')) line[--L] = 0;
        if (!L) continue;
        char op[32] = {0};
        unsigned long long a = 0, b = 0, c = 0, d = 0;
        int n = sscanf(line, "%31s %llu %llu %llu %llu", op, &a, &b, &c, &d);
        std::string o(op), res;
        char buf[256];
        if (o == "cfg" && n == 5 && !pool) {
            rml::MemPoolPolicy pol(ldRawAlloc, ldRawFree, (size_t)c, /*fixedPool=*/a != 0, /*keepAllMemory=*/b != 0);
            fixed = g_ldFixed = a != 0;
            g_fixedSize = fixed ? (size_t)d : 0;
            g_fixedGiven = false;
            g_ldRawCalls = 0;
            g_osLogOn = false;
            rml::MemPoolError e = rml::pool_create_v1(7, &pol, &pool);
            g_osLogOn = true;
            mp = (rml::internal::MemoryPool *)pool;
            snprintf(buf, sizeof buf, "cfg %s", e == rml::POOL_OK ? "ok" : "fail");
            flushRecord(line, buf);
            endRecord();
            if (e != rml::POOL_OK) return 0;
            continue;
        }
        if (!pool) { flushRecord(line, "bad-op"); endRecord(); continue; }
        Backend &be = mp->extMemPool.backend;
        g_osLog.clear();
        g_freeCalls.clear();
        bool known = true, failedGet = false;
        std::set<uintptr_t> usedBefore;
        if (o == "destroy" && n == 1) {
            // every region must be offered to the raw-free callback exactly once
            std::vector<std::pair<uintptr_t, size_t>> regs;
            for (MemRegion *r = be.regionList.head; r; r = r->next) regs.push_back({(uintptr_t)r, r->allocSz});
            bool ok = rml::pool_destroy(pool);
            pool = nullptr;
            std::multiset<std::pair<uintptr_t, size_t>> offered(g_freeCalls.begin(), g_freeCalls.end());
            for (auto &r : regs) {
                size_t cnt = offered.count(r);
                if (cnt != 1) mon("destroy", "region %llu (%zu bytes) was offered to the raw-free callback %zu times by pool_destroy", canon(r.first), r.second, cnt);
                offered.erase(r);
            }
            for (auto &x : offered) mon("destroy", "pool_destroy offered [%llu,+%zu), which is not a region of the pool", canon(x.first), x.second);
            res = ok ? "1" : "0";
            res += osLogText();
            flushRecord(line, res);
            endRecord();
            continue;
        }
        if (o == "get" && n == 4 && a >= 1 && a <= 64 && b >= FreeBlock::minBlockSize && b % 8 == 0 && b <= ((size_t)1 << 27) && (!c || b % slabSize == 0) && (a == 1 || a * b < Backend::maxBinned_SmallPage) && a * b >= Backend::minBinnedSize
                   && (!c || fixed || a * b < Backend::maxBinned_SmallPage / 8)) {
            { Snap s0 = walk(be, bkUsedSize, nullptr); g_mon.clear(); usedBefore = usedSet(s0); }
            FreeBlock *r = be.genericGetBlock((int)a, (size_t)b, c != 0);
            if (r) {
                if (c && ((uintptr_t)r % slabSize)) mon("get", "slab-aligned request returned %llu", canon(r));
                for (unsigned i = 0; i < a; i++) {
                    uintptr_t p = (uintptr_t)r + i * (size_t)b;
                    auto it = g_used.upper_bound(p);
                    if (it != g_used.end() && it->first < p + b) mon("get", "block %llu+%llu overlaps the in-use block %llu", canon(p), b, canon(it->first));
                    if (it != g_used.begin()) { --it; if (it->first + it->second.size > p) mon("get", "block %llu+%llu overlaps the in-use block %llu+%zu", canon(p), b, canon(it->first), it->second.size); }
                    g_used[p] = Used{(size_t)b, c != 0};
                    g_handed.push_back(p);
                    patFill(p, (size_t)b);
                }
            } else failedGet = true;
            snprintf(buf, sizeof buf, "%llu", canon(r));
            res = buf;
        } else if ((o == "put" && n == 2) || (o == "putn" && n == 2 && a < g_handed.size())) {
            uintptr_t p = o == "put" ? (uintptr_t)g_arena + a : g_handed[a];
            auto it = g_used.find(p);
            if (it == g_used.end()) res = "not-in-use";
            else {
                Used u = it->second;
                patCheck(p, u.size, "before put");
                g_used.erase(it);
                be.genericPutBlock((FreeBlock *)p, u.size, u.aligned);
                res = "ok";
            }
        } else if (o == "scan" && n == 2) {
            res = be.scanCoalescQ(a != 0) ? "1" : "0";
        } else if (o == "clean" && n == 1) {
            res = be.clean() ? "1" : "0";
        } else if (o == "reset" && n == 1) {
            bool was = mp->extMemPool.delayRegsReleasing;
            mp->extMemPool.delayRegionsReleasing(true);
            be.reset();
            mp->extMemPool.delayRegionsReleasing(was);
            g_used.clear();
            res = "ok";
        } else if (o == "delay" && n == 2) {
            mp->extMemPool.delayRegionsReleasing(a != 0);
            res = "ok";
        } else if (o == "lockempty" && n == 1) {
            for (int al = 0; al < 2; al++) {
                Backend::IndexedBins &ib = al ? be.freeSlabAlignedBins : be.freeLargeBlockBins;
                for (unsigned i = 0; i < Backend::freeBinsNum; i++)
                    if (ib.freeBins[i].empty()) ib.freeBins[i].tLock.m_flag.test_and_set();
            }
            envInside = true;
            res = "ok";
        } else if (o == "unlockall" && n == 1) {
            for (int al = 0; al < 2; al++) {
                Backend::IndexedBins &ib = al ? be.freeSlabAlignedBins : be.freeLargeBlockBins;
                for (unsigned i = 0; i < Backend::freeBinsNum; i++) ib.freeBins[i].tLock.m_flag.clear();
            }
            envInside = false;
            res = "ok";
        } else if (o == "skew" && n == 2 && a < 4) {
            g_skew = (size_t)a * 4096; res = "ok";
        } else if (o == "osfail" && n == 3) {
            g_failIn = (long)a; g_failCount = (long)b; res = "ok";
        } else if (o == "rawfreefail" && n == 3) {
            g_freeFailIn = (long)a; g_freeFailCount = (long)b; res = "ok";
        } else {
            known = false;
            res = "bad-op";
        }
        if (known) res += osLogText();
        flushRecord(line, res);
        if (known) {
            Snap s = walk(be, bkUsedSize, nullptr);
            std::set<uintptr_t> usedSeen = usedSet(s);
            for (auto &u : g_used) {
                if (!usedSeen.count(u.first)) mon("tiling", "in-use block %llu (size %zu) is not a block of any region's tiling", canon(u.first), u.second.size);
                patCheck(u.first, u.second.size, "while in use");
            }
            if (failedGet) {
                if (usedSeen != usedBefore) mon("fail-handout", "a request that returned null changed the set of blocks in use (%zu before, %zu after)", usedBefore.size(), usedSeen.size());
                if (!envInside && !s.queue.empty()) mon("fail-queue", "a request that returned null left %zu delayed-coalescing request(s) queued", s.queue.size());
            }
            printSnap(s);
            printf("S maxReq=%zu boot=%ld\n", (size_t)be.maxRequestedSize.load(), (long)be.bootsrapMemStatus.load());
            printf("T total=%zu regions=%zu\n", (size_t)be.totalMemSize.load(), s.regs.size());
        }
        endRecord();
    }
    return 0;
}

// ---------------------------------------------------------------------------------------------------------------
// fe: front-end failure windows on the default pool
// ---------------------------------------------------------------------------------------------------------------
static size_t liveBackRefs() {
    size_t cnt = 0;
    BackRefMain *m = backRefMain.load();
    if (!m) return 0;
    intptr_t last = m->lastUsed.load();
    for (intptr_t i = 0; i <= last; i++) cnt += (size_t)m->backRefBl[i]->allocatedCount.load();
    return cnt;
}
// bytes of the default back end that are in no bin and not queued (= held by somebody)
static size_t heldBytes(Backend &be) {
    size_t total = 0, freeB = 0;
    for (MemRegion *r = be.regionList.head; r; r = r->next) total += r->blockSz;
    for (int al = 0; al < 2; al++) {
        Backend::IndexedBins &ib = al ? be.freeSlabAlignedBins : be.freeLargeBlockBins;
        for (unsigned i = 0; i < Backend::freeBinsNum; i++)
            for (FreeBlock *f = ib.freeBins[i].head.load(); f; f = f->next) freeB += MYL(f);
    }
    for (FreeBlock *q = be.coalescQ.blocksToFree.load(); q; q = q->nextToFree) freeB += q->sizeTmp;
    return total - freeB;
}

static int runFe() {
    char line[512];
    g_osLogOn = false;
    { void *w = scalable_malloc(1); scalable_free(w); }
    rml::internal::MemoryPool *mp = defaultMemPool;
    Backend &be = mp->extMemPool.backend;
    std::vector<Block *> slabs;
    std::vector<LargeMemoryBlock *> larges;
    std::vector<std::pair<FreeBlock *, size_t>> drained;
    while (fgets(line, sizeof line, stdin)) {
        size_t L = strlen(line);
        while (L && (line[L - 1] == '\n' || line[L - 1] == '\r')) line[--L] = 0;
        if (!L) continue;
        char op[32] = {0};
        unsigned long long a = 0, b = 0;
        int n = sscanf(line, "%31s %llu %llu", op, &a, &b);
        std::string o(op), res;
        char buf[200];
        if (o == "osfail" && n == 3) { g_failIn = (long)a; g_failCount = (long)b; res = "ok"; }
        else if ((o == "slab" || o == "large") && n == 2) {
            be.scanCoalescQ(false);
            size_t refs0 = liveBackRefs(), held0 = heldBytes(be), tot0 = be.totalMemSize.load();
            unsigned long long calls0 = g_osCalls;
            void *r;
            if (o == "slab") { Block *bl = mp->getEmptyBlock((size_t)a); if (bl) slabs.push_back(bl); r = bl; }
            else { LargeMemoryBlock *lmb = mp->extMemPool.mallocLargeObject(mp, (size_t)a); if (lmb) larges.push_back(lmb); r = lmb; }
            be.scanCoalescQ(false);
            size_t refs1 = liveBackRefs(), held1 = heldBytes(be);
            if (!r) {
                // a failed call may have RELEASED cached memory, it must not hold more than before
                if (refs1 > refs0) mon("fe-leak", "failed %s(%llu): %zu live back references before, %zu after", op, a, refs0, refs1);
                if (held1 > held0) mon("fe-leak", "failed %s(%llu): %zu bytes of the back end held before, %zu after", op, a, held0, held1);
            }
            size_t sum = 0;
            for (MemRegion *rg = be.regionList.head; rg; rg = rg->next) sum += rg->allocSz;
            if (sum != be.totalMemSize.load()) mon("regions", "totalMemSize=%zu but the regions sum to %zu (was %zu before the call)", (size_t)be.totalMemSize.load(), sum, tot0);
            snprintf(buf, sizeof buf, "%s os=%llu", r ? "ok" : "null", g_osCalls - calls0);
            res = buf;
        } else if (o == "fillrefs" && n == 1) {
            // live back references up to the capacity of the table: the next newBackRef needs a new leaf
            int guard = 0;
            auto capNow = []() { return (size_t)(backRefMain.load()->lastUsed.load() + 1) * BR_MAX_CNT; };
            while (liveBackRefs() + 1 < capNow() && guard++ < 100000) {
                LargeMemoryBlock *lmb = mp->extMemPool.mallocLargeObject(mp, 16384);
                if (!lmb) break;
                larges.push_back(lmb);
            }
            snprintf(buf, sizeof buf, "refs=%zu leaves=%ld", liveBackRefs(), (long)backRefMain.load()->lastUsed.load() + 1);
            res = buf;
        } else if (o == "drainlarge" && n == 1) {
            // take every block out of the large-block bins (the OS is expected to refuse): only slab-aligned memory stays
            size_t cnt = 0;
            for (size_t sz = (size_t)4 << 20; sz >= 8192; sz /= 2)
                for (int guard = 0; guard < 100000; guard++) {
                    FreeBlock *f = be.genericGetBlock(1, sz, false);
                    if (!f) break;
                    drained.push_back({f, sz});
                    cnt++;
                }
            snprintf(buf, sizeof buf, "drained=%zu", cnt);
            res = buf;
        } else if (o == "freeall" && n == 1) {
            for (auto &x : drained) be.genericPutBlock(x.first, x.second, false);
            drained.clear();
            for (Block *bl : slabs) mp->returnEmptyBlock(bl, /*poolTheBlock=*/false);
            for (LargeMemoryBlock *lmb : larges) mp->extMemPool.freeLargeObject(lmb);
            slabs.clear(); larges.clear();
            mp->extMemPool.hardCachesCleanup(true);
            res = "ok";
        } else res = "bad-op";
        flushRecord(line, res);
        endRecord();
    }
    return 0;
}

int main(int argc, char **argv) {
    if (argc > 1 && (!strcmp(argv[1], "ld") || !strcmp(argv[1], "fe"))) {
        setvbuf(stdout, nullptr, _IOFBF, 1 << 20);
        os_init();
        scalable_allocation_mode(TBBMALLOC_INTERNAL_SOURCE_INCLUDED, 1);
        return !strcmp(argv[1], "ld") ? runLd() : runFe();
    }
    return be_main(argc, argv);
}
