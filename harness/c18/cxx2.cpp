// C18 E-REAL: overflow of size arithmetic in the C++ allocator layer that goes through libtbb (real library linked):
// tbb::cache_aligned_allocator<T>, tbb::tbb_allocator<T>, r1::cache_aligned_allocate, tbb::cache_aligned_resource,
// tbb::scalable_memory_resource.  One line per probe: `<probe> ok ...`, `<probe> unchecked ...` (a size that cannot be
// represented was not refused: the property's "every allocation entry point reports failure" is violated), or
// `<probe> VIOLATION ...`; last line `done`.
#include "oneapi/tbb/cache_aligned_allocator.h"
#include "oneapi/tbb/tbb_allocator.h"
#include "oneapi/tbb/scalable_allocator.h"
#include <cstdint>
#include <cstdio>
#include <cstdlib>
#include <cstring>
#include <memory_resource>
#include <new>

// an upstream resource that records what it is asked for and always hands out the same, large enough, aligned buffer
struct Recording : std::pmr::memory_resource {
    size_t lastBytes = 0, lastAlign = 0;
    int calls = 0;
    alignas(4096) char buf[16384];
    void *do_allocate(size_t bytes, size_t alignment) override { lastBytes = bytes; lastAlign = alignment; calls++; return buf; }
    void do_deallocate(void *, size_t, size_t) override {}
    bool do_is_equal(const std::pmr::memory_resource &o) const noexcept override { return this == &o; }
};

int main() {
    const size_t n = ((size_t)1 << 61) + 1;       // n * sizeof(uint64_t) == 8 (mod 2^64)
    try {
        uint64_t *p = tbb::cache_aligned_allocator<uint64_t>().allocate(n);
        printf("C1 unchecked cache_aligned_allocator<uint64_t>::allocate(2^61+1) returned %s instead of throwing std::bad_alloc\n", p ? "a block" : "null");
        tbb::cache_aligned_allocator<uint64_t>().deallocate(p, n);
    } catch (const std::bad_alloc &) { printf("C1 ok bad_alloc\n"); }
    try {
        uint64_t *p = tbb::tbb_allocator<uint64_t>().allocate(n);
        printf("C2 unchecked tbb_allocator<uint64_t>::allocate(2^61+1) returned %s instead of throwing std::bad_alloc\n", p ? "a block" : "null");
        tbb::tbb_allocator<uint64_t>().deallocate(p, n);
    } catch (const std::bad_alloc &) { printf("C2 ok bad_alloc\n"); }
    // legal large counts still fail cleanly
    try { char *p = tbb::cache_aligned_allocator<char>().allocate(SIZE_MAX - 10); printf("C3 VIOLATION cache_aligned_allocator<char>::allocate(SIZE_MAX-10) returned %p\n", (void *)p); }
    catch (const std::bad_alloc &) { printf("C3 ok bad_alloc\n"); }
    try { char *p = tbb::cache_aligned_allocator<char>().allocate(SIZE_MAX - 200); printf("C4 VIOLATION cache_aligned_allocator<char>::allocate(SIZE_MAX-200) returned %p\n", (void *)p); }
    catch (const std::bad_alloc &) { printf("C4 ok bad_alloc\n"); }
    try { char *p = tbb::tbb_allocator<char>().allocate(SIZE_MAX - 200); printf("C5 VIOLATION tbb_allocator<char>::allocate(SIZE_MAX-200) returned %p\n", (void *)p); }
    catch (const std::bad_alloc &) { printf("C5 ok bad_alloc\n"); }
    // memory resources
    try { void *p = tbb::scalable_memory_resource()->allocate(SIZE_MAX - 100, 64); printf("C6 VIOLATION scalable_memory_resource()->allocate(SIZE_MAX-100, 64) returned %p\n", p); }
    catch (const std::bad_alloc &) { printf("C6 ok bad_alloc\n"); }
    {
        Recording up;
        tbb::cache_aligned_resource res(&up);
        const size_t bytes = SIZE_MAX - 63;
        try {
            void *p = res.allocate(bytes, 64);
            if (up.calls && up.lastBytes < bytes)
                printf("C7 unchecked cache_aligned_resource::allocate(SIZE_MAX-63, 64) asked its upstream resource for %zu bytes and returned %s instead of throwing std::bad_alloc\n",
                       up.lastBytes, p ? "a block" : "null");
            else printf("C7 ok upstream asked for %zu\n", up.lastBytes);
        } catch (const std::bad_alloc &) { printf("C7 ok bad_alloc\n"); }
        // a representable request asks for at least bytes + one alignment
        Recording up2;
        tbb::cache_aligned_resource res2(&up2);
        void *q = res2.allocate(1000, 256);
        if (up2.lastBytes < 1000 + 256 || ((uintptr_t)q % 256) || (char *)q < up2.buf || (char *)q + 1000 > up2.buf + up2.lastBytes)
            printf("C8 VIOLATION cache_aligned_resource::allocate(1000,256): upstream asked for %zu, result misplaced\n", up2.lastBytes);
        else printf("C8 ok upstream asked for %zu\n", up2.lastBytes);
    }
    printf("done\n");
    return 0;
}
