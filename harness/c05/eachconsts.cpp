// E-GEN for parallel_for_each / parallel_invoke: constants and compile-time decisions, printed as JSON.
//   * max_block_size of input_block_handling_task and forward_block_handling_task
//   * which for_each_root_task specialisation iterator_tag_dispatch selects (0 input, 1 forward, 2 random access) for a set of
//     iterator types, including tags derived from the standard ones and std::move_iterator
//   * invoke_subroot_task: number of functions per subroot, what execute() adds to ref_count, how many invokers it owns
// built with -fno-access-control.
#include "r1_each.h"   // defines the r1 entry points the inline header code refers to
#include <oneapi/tbb/parallel_for_each.h>
#include <oneapi/tbb/parallel_invoke.h>
#include <cstdio>
#include <deque>
#include <forward_list>
#include <iterator>
#include <list>
#include <sstream>
#include <vector>

using namespace tbb::detail;

struct Body { void operator()(const int&) const {} };

template <typename Tag> struct CIt {
    typedef Tag iterator_category; typedef int value_type; typedef std::ptrdiff_t difference_type; typedef int* pointer; typedef int& reference;
    int* p = nullptr;
    int& operator*() const { return *p; }
    CIt& operator++() { ++p; return *this; }
    CIt operator++(int) { CIt t = *this; ++p; return t; }
    bool operator==(const CIt& o) const { return p == o.p; }
    bool operator!=(const CIt& o) const { return p != o.p; }
    CIt& operator--() { --p; return *this; }
    CIt operator--(int) { CIt t = *this; --p; return t; }
    CIt& operator+=(std::ptrdiff_t n) { p += n; return *this; }
    CIt& operator-=(std::ptrdiff_t n) { p -= n; return *this; }
    CIt operator+(std::ptrdiff_t n) const { CIt t = *this; t.p += n; return t; }
    CIt operator-(std::ptrdiff_t n) const { CIt t = *this; t.p -= n; return t; }
    std::ptrdiff_t operator-(const CIt& o) const { return p - o.p; }
    int& operator[](std::ptrdiff_t n) const { return p[n]; }
    bool operator<(const CIt& o) const { return p < o.p; }
    bool operator>(const CIt& o) const { return p > o.p; }
    bool operator<=(const CIt& o) const { return p <= o.p; }
    bool operator>=(const CIt& o) const { return p >= o.p; }
};
template <typename Tag> CIt<Tag> operator+(std::ptrdiff_t n, const CIt<Tag>& it) { return it + n; }
struct my_random_tag : std::random_access_iterator_tag {};
struct my_forward_tag : std::forward_iterator_tag {};
struct my_input_tag : std::input_iterator_tag {};

template <typename It> constexpr int path() {
    typedef d2::iterator_tag_dispatch<It> tag;
    // the three specialisations of for_each_root_task are selected by exactly these tag types
    return std::is_same<tag, std::random_access_iterator_tag>::value ? 2 : std::is_same<tag, std::forward_iterator_tag>::value ? 1 :
           std::is_same<tag, std::input_iterator_tag>::value ? 0 : -1;
}

struct F { void operator()() const {} };

int main() {
    typedef d1::invoke_subroot_task<F, F, F> sub_t;
    // the invoker members; what execute() adds to ref_count is read from the source text by checks/c05each.py and checked by
    // the E-MOCK trace (counter value right after the subroot's first spawn)
    int invokers = int((sizeof(sub_t::f2_invoker) + sizeof(sub_t::f3_invoker)) / sizeof(d1::function_invoker<F, sub_t>));
    printf("{\"maxBlockInput\": %zu, \"maxBlockForward\": %zu,\n", d2::input_block_handling_task<Body, int>::max_block_size,
           d2::forward_block_handling_task<std::list<int>::iterator, Body, int>::max_block_size);
    printf(" \"dispatchPointer\": %d, \"dispatchVector\": %d, \"dispatchDeque\": %d, \"dispatchList\": %d, \"dispatchForwardList\": %d, \"dispatchIstream\": %d,\n",
           path<int*>(), path<std::vector<int>::iterator>(), path<std::deque<int>::iterator>(), path<std::list<int>::iterator>(),
           path<std::forward_list<int>::iterator>(), path<std::istream_iterator<int>>());
    printf(" \"dispatchCustomRandom\": %d, \"dispatchCustomForward\": %d, \"dispatchCustomInput\": %d, \"dispatchMoveVector\": %d, \"dispatchMoveList\": %d,\n",
           path<CIt<my_random_tag>>(), path<CIt<my_forward_tag>>(), path<CIt<my_input_tag>>(), path<std::move_iterator<std::vector<int>::iterator>>(),
           path<std::move_iterator<std::list<int>::iterator>>());
    printf(" \"invokeSubrootSpawns\": %d}\n", invokers);
    return 0;
}
