// E-PURE: the real splitting constructors of blocked_range / blocked_range2d / blocked_range3d / blocked_nd_range
// and the real range_vector, driven by a line protocol (same lines go to `drv_c05 c05`).
//   s1 b e g                 -> <divisible> <empty> <kept.b> <kept.e> <new.b> <new.e>        (R(r, split))
//   p1 b e g l r             -> <kept.b> <kept.e> <new.b> <new.e>                            (R(r, proportional_split(l,r)))
//   sn <2|3|n> k (b e g)^k   -> <divisible> <empty> <dim> kept-dims new-dims
//   pn <2|3|n> k (b e g)^k l r -> <dim> kept-dims new-dims
//   rv init b e g | rv fill d | rv popb | rv popf   -> head tail size | depth:b:e from back() to front()
#include "r1_mock.h"
#include <oneapi/tbb/blocked_range.h>
#include <oneapi/tbb/blocked_range2d.h>
#include <oneapi/tbb/blocked_range3d.h>
#include <oneapi/tbb/blocked_nd_range.h>
#include <oneapi/tbb/partitioner.h>
#include <cstdio>
#include <cstring>
#include <iostream>
#include <memory>
#include <sstream>
#include <string>
#include <vector>

using std::size_t;
typedef unsigned long long ull;
typedef tbb::blocked_range<size_t> BR;
using tbb::detail::d1::depth_t;
typedef tbb::detail::d1::range_vector<BR, tbb::detail::d1::auto_partition_type::range_pool_size> pool_t;

struct Dim { size_t b, e, g; };

static std::string show(const BR& r) { return std::to_string(r.begin()) + " " + std::to_string(r.end()); }

template <typename R> struct Dims;
template <> struct Dims<tbb::blocked_range2d<size_t>> {
    static std::vector<BR> get(const tbb::blocked_range2d<size_t>& r) { return {r.rows(), r.cols()}; }
    static tbb::blocked_range2d<size_t> make(const std::vector<Dim>& d) { return {d[0].b, d[0].e, d[0].g, d[1].b, d[1].e, d[1].g}; }
};
template <> struct Dims<tbb::blocked_range3d<size_t>> {
    static std::vector<BR> get(const tbb::blocked_range3d<size_t>& r) { return {r.pages(), r.rows(), r.cols()}; }
    static tbb::blocked_range3d<size_t> make(const std::vector<Dim>& d) { return {d[0].b, d[0].e, d[0].g, d[1].b, d[1].e, d[1].g, d[2].b, d[2].e, d[2].g}; }
};
template <unsigned N> struct Dims<tbb::blocked_nd_range<size_t, N>> {
    typedef tbb::blocked_nd_range<size_t, N> R;
    static std::vector<BR> get(const R& r) { std::vector<BR> v; for (unsigned i = 0; i < N; ++i) v.push_back(r.dim(i)); return v; }
    template <size_t... Is> static R make_impl(const std::vector<Dim>& d, tbb::detail::index_sequence<Is...>) { return R(BR(d[Is].b, d[Is].e, d[Is].g)...); }
    static R make(const std::vector<Dim>& d) { return make_impl(d, tbb::detail::make_index_sequence<N>()); }
};

template <typename R> static std::string split_n(const std::vector<Dim>& d, bool prop, size_t l, size_t r) {
    R a = Dims<R>::make(d);
    std::vector<BR> before = Dims<R>::get(a);
    std::string head;
    if (!prop) head = std::string(a.is_divisible() ? "1" : "0") + " " + (a.empty() ? "1" : "0") + " ";
    std::unique_ptr<R> bp;
    if (prop) { tbb::proportional_split ps(l, r); bp.reset(new R(a, ps)); }
    else { tbb::split s; bp.reset(new R(a, s)); }
    std::vector<BR> ka = Dims<R>::get(a), nb = Dims<R>::get(*bp);
    // which dimension changed?  (the kept part's end or the new part's begin differs from the original)
    int dim = -1, changed = 0;
    for (size_t i = 0; i < before.size(); ++i)
        if (ka[i].end() != before[i].end() || nb[i].begin() != before[i].begin() || ka[i].begin() != before[i].begin() || nb[i].end() != before[i].end()) { dim = int(i); changed++; }
    if (changed == 0) {
        // a split that leaves both parts equal to the original (e.g. right_part == 0 cuts at end; size 0 cut): recover
        // the dimension from where the cut is recorded: kept.end == new.begin in the split dimension only if != original
        dim = -2;
    }
    if (changed > 1) dim = -3;
    std::string s = head + std::to_string(dim);
    for (auto& x : ka) s += " " + show(x);
    for (auto& x : nb) s += " " + show(x);
    return s;
}

int main() {
    mock::reset(4, 1);
    std::string line;
    std::unique_ptr<pool_t> pool;
    auto show_pool = [&]() {
        std::string s = std::to_string(unsigned(pool->my_head)) + " " + std::to_string(unsigned(pool->my_tail)) + " " + std::to_string(unsigned(pool->my_size)) + " |";
        unsigned cap = unsigned(sizeof(pool->my_depth) / sizeof(depth_t));
        unsigned i = pool->my_head;
        for (unsigned k = 0; k < pool->my_size; ++k) {
            BR& r = pool->my_pool.begin()[i];
            s += " " + std::to_string(unsigned(pool->my_depth[i])) + ":" + std::to_string(r.begin()) + ":" + std::to_string(r.end());
            i = (i + cap - 1) % cap;
        }
        return s;
    };
    while (std::getline(std::cin, line)) {
        std::istringstream in(line);
        std::string op;
        if (!(in >> op)) continue;
        std::vector<ull> xs;
        std::string out = "bad-op";
        if (op == "s1" || op == "p1") {
            ull v; while (in >> v) xs.push_back(v);
            if (op == "s1" && xs.size() == 3) {
                BR a(xs[0], xs[1], xs[2]);
                std::string h = std::string(a.is_divisible() ? "1" : "0") + " " + (a.empty() ? "1" : "0") + " ";
                tbb::split s;
                BR b(a, s);
                out = h + show(a) + " " + show(b);
            } else if (op == "p1" && xs.size() == 5) {
                BR a(xs[0], xs[1], xs[2]);
                tbb::proportional_split ps(xs[3], xs[4]);
                BR b(a, ps);
                out = show(a) + " " + show(b);
            }
        } else if (op == "sn" || op == "pn") {
            std::string fl; unsigned k = 0;
            in >> fl >> k;
            ull v; while (in >> v) xs.push_back(v);
            bool prop = op == "pn";
            if (xs.size() == 3 * size_t(k) + (prop ? 2 : 0) && k >= 1) {
                std::vector<Dim> d;
                for (unsigned i = 0; i < k; ++i) d.push_back(Dim{xs[3 * i], xs[3 * i + 1], xs[3 * i + 2]});
                size_t l = prop ? xs[3 * k] : 0, r = prop ? xs[3 * k + 1] : 0;
                if (fl == "2" && k == 2) out = split_n<tbb::blocked_range2d<size_t>>(d, prop, l, r);
                else if (fl == "3" && k == 3) out = split_n<tbb::blocked_range3d<size_t>>(d, prop, l, r);
                else if (fl == "n" && k == 1) out = split_n<tbb::blocked_nd_range<size_t, 1>>(d, prop, l, r);
                else if (fl == "n" && k == 2) out = split_n<tbb::blocked_nd_range<size_t, 2>>(d, prop, l, r);
                else if (fl == "n" && k == 3) out = split_n<tbb::blocked_nd_range<size_t, 3>>(d, prop, l, r);
                else if (fl == "n" && k == 4) out = split_n<tbb::blocked_nd_range<size_t, 4>>(d, prop, l, r);
                else if (fl == "n" && k == 5) out = split_n<tbb::blocked_nd_range<size_t, 5>>(d, prop, l, r);
            }
        } else if (op == "rv") {
            std::string sub; in >> sub;
            ull v; while (in >> v) xs.push_back(v);
            if (sub == "init" && xs.size() == 3) { pool.reset(new pool_t(BR(xs[0], xs[1], xs[2]))); out = show_pool(); }
            else if (sub == "fill" && xs.size() == 1 && pool && pool->my_size > 0 && xs[0] < 256) { pool->split_to_fill(depth_t(xs[0])); out = show_pool(); }
            else if (sub == "popb" && xs.empty() && pool && pool->my_size > 0) { pool->pop_back(); out = show_pool(); }
            else if (sub == "popf" && xs.empty() && pool && pool->my_size > 0) { pool->pop_front(); out = show_pool(); }
        }
        puts(out.c_str());
    }
    return 0;
}
