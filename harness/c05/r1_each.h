// E-MOCK (second generation): a deterministic, single-threaded stand-in for the r1 runtime entry points used by
// parallel_for_each / parallel_invoke (and the parallel_for nested in the random-access path).
//
// Differences to r1_mock.h: task bypass is followed, execute_and_wait / wait really wait on the given wait_context
// (running pending tasks nested until its reference count is zero, reporting DEADLOCK if nothing is pending),
// get_thread_reference_vertex keeps one real d1::reference_vertex per (virtual thread, wait vertex) as r1 does, and every
// task execution is a *frame* with an id and a virtual thread; the harness gets a hook at every task begin/end, spawn,
// wait pass, allocation and deallocation.  A PRNG seeded by the scenario decides, at every spawn and every yield() of a
// body, whether pending tasks run right now (nested: "another thread took it and runs concurrently"), which ones and on
// which virtual thread; inside a wait it decides which pending task runs next.
// Include in exactly one translation unit; build with -fno-access-control.
#pragma once
#include <oneapi/tbb/detail/_task.h>
#include <oneapi/tbb/detail/_small_object_pool.h>
#include <oneapi/tbb/detail/_exception.h>
#include <oneapi/tbb/cache_aligned_allocator.h>
#include <oneapi/tbb/task_group.h>
#include <oneapi/tbb/task_arena.h>
#include <cstdio>
#include <cstdlib>
#include <cstdint>
#include <map>
#include <new>
#include <stdexcept>
#include <vector>

namespace mk {
using namespace tbb::detail;

struct Frame {
    int id = 0;
    int tid = 0;          // virtual thread
    int orig = 0;         // thread that spawned the task (original slot)
    d1::task* t = nullptr;
    bool after_return = false;
    int tag = 0;          // for the harness
};
struct Pending { d1::task* t; d1::task_group_context* ctx; int orig; };

struct Rng {
    uint64_t s = 0x9E3779B97F4A7C15ull;
    void seed(uint64_t x) { s = x * 0x9E3779B97F4A7C15ull + 0xD1B54A32D192ED03ull; next(); next(); }
    uint64_t next() { s ^= s << 13; s ^= s >> 7; s ^= s << 17; return s * 0x2545F4914F6CDD1Dull; }
    unsigned below(unsigned n) { return n ? unsigned((next() >> 11) % n) : 0; }
    bool pct(unsigned p) { return below(100) < p; }
};

struct Ctl {
    int T = 1;                        // number of virtual threads
    unsigned steal_at_spawn = 0;      // percent: a pending task runs nested right at a spawn
    unsigned steal_at_yield = 0;      // percent, repeatedly: a pending task runs nested inside a body
    unsigned lifo = 60;               // percent: a waiting thread takes its newest task
    int max_nest = 40;
    Rng rng;
    std::vector<Pending> pending;
    std::vector<Frame*> stack;
    int next_frame = 1;
    bool returned = false;            // the algorithm call has returned to the harness
    long spawns = 0, frames = 0;
    std::map<std::pair<int, d1::wait_tree_vertex_interface*>, d1::reference_vertex*> vertices;
    // hooks
    void (*on_begin)(Frame&) = nullptr;
    void (*on_end)(Frame&) = nullptr;
    void (*on_spawn)(Frame*, d1::task&) = nullptr;
    void (*on_pass)(Frame*, d1::wait_context&) = nullptr;
    void (*on_alloc)(void*, std::size_t) = nullptr;
    void (*on_free)(void*) = nullptr;
    void (*on_deadlock)(d1::wait_context&) = nullptr;
    void (*on_execute_and_wait)(Frame*, d1::task&, d1::wait_context&) = nullptr;
    void (*on_wait_enter)(Frame*, d1::wait_context&) = nullptr;
};
inline Ctl g;

struct ed_ext : d1::execution_data { Frame* frame; };

inline Frame* top() { return g.stack.empty() ? nullptr : g.stack.back(); }

inline int other_thread(int not_this) {
    if (g.T <= 1) return not_this;
    int s = int(g.rng.below(unsigned(g.T - 1)));
    return s >= not_this ? s + 1 : s;
}

// execute `t` and everything it bypasses to, inside frame `f`
inline void run_chain(d1::task* t, d1::task_group_context& ctx, Frame& f) {
    while (t) {
        ed_ext ed;
        ed.context = &ctx; ed.original_slot = d1::slot_id(f.orig); ed.affinity_slot = d1::no_slot; ed.frame = &f;
        t = t->execute(ed);
    }
}

inline void run_frame(Pending p, int tid) {
    Frame f;
    f.id = g.next_frame++; f.tid = tid; f.orig = p.orig; f.t = p.t; f.after_return = g.returned;
    if (++g.frames > 2000000) { fprintf(stderr, "mock: more than 2000000 task executions\n"); puts("RUNAWAY"); fflush(stdout); _Exit(4); }
    g.stack.push_back(&f);
    if (g.on_begin) g.on_begin(f);
    run_chain(p.t, *p.ctx, f);
    if (g.on_end) g.on_end(f);
    g.stack.pop_back();
}

inline void run_pending(std::size_t i, int tid) {
    Pending p = g.pending[i];
    g.pending.erase(g.pending.begin() + long(i));
    run_frame(p, tid);
}

// "time passes": other threads may take pending tasks now
inline void yield() {
    Frame* cur = top();
    int me = cur ? cur->tid : 0;
    while (!g.pending.empty() && int(g.stack.size()) < g.max_nest && g.rng.pct(g.steal_at_yield))
        run_pending(g.rng.below(unsigned(g.pending.size())), g.T > 1 ? other_thread(me) : me);
}

inline void do_spawn(d1::task& t, d1::task_group_context& ctx) {
    Frame* cur = top();
    int me = cur ? cur->tid : 0;
    if (++g.spawns > 2000000) { fprintf(stderr, "mock: more than 2000000 spawns\n"); puts("RUNAWAY"); fflush(stdout); _Exit(4); }
    if (g.on_spawn) g.on_spawn(cur, t);
    g.pending.push_back(Pending{&t, &ctx, me});
    if (g.T > 1 && int(g.stack.size()) < g.max_nest && g.rng.pct(g.steal_at_spawn)) {
        // a thief takes the new task (mostly) or an older one at once and finishes it while the spawner is still here
        std::size_t i = g.rng.pct(70) ? g.pending.size() - 1 : g.rng.below(unsigned(g.pending.size()));
        run_pending(i, other_thread(me));
    }
}

inline void wait_loop(d1::wait_context& wc) {
    Frame* cur = top();
    int me = cur ? cur->tid : 0;
    if (g.on_wait_enter) g.on_wait_enter(cur, wc);
    while (wc.m_ref_count.load(std::memory_order_acquire) != 0) {
        if (g.pending.empty()) {
            if (g.on_deadlock) g.on_deadlock(wc);
            printf("DEADLOCK wait_context count=%llu nothing pending\n", (unsigned long long)wc.m_ref_count.load());
            fflush(stdout);
            _Exit(3);
        }
        std::size_t i = g.rng.pct(g.lifo) ? g.pending.size() - 1 : g.rng.below(unsigned(g.pending.size()));
        // the waiting thread runs it itself, or another thread does while this one keeps waiting
        run_pending(i, (g.T > 1 && g.rng.pct(40)) ? other_thread(me) : me);
    }
    if (g.on_pass) g.on_pass(cur, wc);
}

inline void reset(int T, uint64_t seed, unsigned at_spawn, unsigned at_yield) {
    g.pending.clear(); g.stack.clear();
    for (auto& kv : g.vertices) free(kv.second);
    g.vertices.clear();
    g.T = T; g.rng.seed(seed); g.steal_at_spawn = at_spawn; g.steal_at_yield = at_yield;
    g.next_frame = 1; g.returned = false; g.spawns = g.frames = 0;
}

// run everything that is still pending after the algorithm returned (there must be nothing)
inline void drain() {
    g.returned = true;
    while (!g.pending.empty()) run_pending(g.pending.size() - 1, 0);
}
} // namespace mk

namespace tbb { namespace detail { namespace r1 {
static d1::small_object_pool* const mock_pool = reinterpret_cast<d1::small_object_pool*>(uintptr_t(0x1000));

static void* mk_alloc(std::size_t n) { void* p = malloc(n ? n : 1); if (!p) throw std::bad_alloc(); if (mk::g.on_alloc) mk::g.on_alloc(p, n); return p; }
static void mk_free(void* p) { if (mk::g.on_free) mk::g.on_free(p); free(p); }
void* allocate(d1::small_object_pool*& pool, std::size_t n, const d1::execution_data&) { pool = mock_pool; return mk_alloc(n); }
void* allocate(d1::small_object_pool*& pool, std::size_t n) { pool = mock_pool; return mk_alloc(n); }
void deallocate(d1::small_object_pool&, void* p, std::size_t, const d1::execution_data&) { mk_free(p); }
void deallocate(d1::small_object_pool&, void* p, std::size_t) { mk_free(p); }

void spawn(d1::task& t, d1::task_group_context& ctx) { mk::do_spawn(t, ctx); }
void spawn(d1::task& t, d1::task_group_context& ctx, d1::slot_id) { mk::do_spawn(t, ctx); }

void execute_and_wait(d1::task& t, d1::task_group_context& t_ctx, d1::wait_context& wc, d1::task_group_context&) {
    mk::Frame* cur = mk::top();
    if (!cur) { fprintf(stderr, "mock: execute_and_wait without a frame\n"); abort(); }
    if (mk::g.on_execute_and_wait) mk::g.on_execute_and_wait(cur, t, wc);
    mk::run_chain(&t, t_ctx, *cur);
    mk::wait_loop(wc);
}
void wait(d1::wait_context& wc, d1::task_group_context&) { mk::wait_loop(wc); }

d1::slot_id execution_slot(const d1::execution_data* ed) {
    if (ed) return d1::slot_id(static_cast<const mk::ed_ext*>(ed)->frame->tid);
    return d1::slot_id(mk::top() ? mk::top()->tid : 0);
}
d1::slot_id execution_slot(const d1::task_arena_base&) { return 0; }
d1::task_group_context* current_context() { return nullptr; }
void notify_waiters(std::uintptr_t) {}
int max_concurrency(const d1::task_arena_base*) { return mk::g.T; }

d1::wait_tree_vertex_interface* get_thread_reference_vertex(d1::wait_tree_vertex_interface* wc) {
    int me = mk::top() ? mk::top()->tid : 0;
    auto key = std::make_pair(me, wc);
    auto it = mk::g.vertices.find(key);
    if (it != mk::g.vertices.end()) return it->second;
    void* p = malloc(sizeof(d1::reference_vertex));
    d1::reference_vertex* v = new (p) d1::reference_vertex(wc, 0);
    mk::g.vertices[key] = v;
    return v;
}

void initialize(d1::task_group_context&) {}
void destroy(d1::task_group_context&) {}
void reset(d1::task_group_context&) {}
bool cancel_group_execution(d1::task_group_context&) { return false; }
bool is_group_execution_cancelled(d1::task_group_context&) { return false; }
void capture_fp_settings(d1::task_group_context&) {}

void throw_exception(exception_id eid) {
    switch (eid) {
    case exception_id::bad_alloc: throw std::bad_alloc();
    default: throw std::runtime_error("tbb exception");
    }
}
void* cache_aligned_allocate(std::size_t size) { void* p = nullptr; if (posix_memalign(&p, 128, size ? size : 1)) throw std::bad_alloc(); return p; }
void cache_aligned_deallocate(void* p) { free(p); }
std::size_t cache_line_size() { return 128; }
void assertion_failure(const char* location, int line, const char* expression, const char* comment) {
    fprintf(stderr, "TBB assertion %s failed at %s:%d (%s)\n", expression, location, line, comment ? comment : "");
    abort();
}
void call_itt_notify(int, void*) {}
}}}
