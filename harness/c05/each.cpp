// E-MOCK for parallel_for_each / parallel_invoke: the REAL header code (for_each_root_task, block handling tasks,
// iteration tasks, feeder_impl / feeder_item_task, invoke_subroot_task, function_invoker …) runs on the scripted runtime
// of r1_each.h.  The harness prints a trace of everything observable at the runtime interface and in user code —
//     B <frame> <thread> <task>        a pending task starts            S <frame> <task> | <counters>   spawn
//     ev <frame> <what …> | <counters> body start/end, iterator ++ / *, item copy / destruction, wait passed, return
//     W <frame> <counter> | <counters> the frame enters a wait (execute_and_wait after the inline task, or wait)
//     E <frame> | <counters>           the task (and what it bypassed to) finished
// with the values of the reference counters (root wait context, block wait contexts, per-thread reference vertices,
// subroot ref_counts) at that moment — which the Lean model (Driver/C05Each.lean) validates event by event, and a
// line `M …` of implementation-side monitors that do not depend on the model.
//
// stdin:  each <i|f|r|d> <T>   (d = input iterator whose category is a tag DERIVED from std::input_iterator_tag)
//         each <i|f|r> <T> <seed> <steal@spawn %> <steal@yield %> <n> <id>*n F <k> (<id> <m> <child>*m)*k
//         invoke <n 2..12> <T> <seed> <steal@spawn %> <steal@yield %> <c 0|1: pass a task_group_context>
// built with -fno-access-control.
#include "r1_each.h"
#include <oneapi/tbb/parallel_for_each.h>
#include <oneapi/tbb/parallel_invoke.h>
#include <algorithm>
#include <iostream>
#include <iterator>
#include <map>
#include <set>
#include <sstream>
#include <string>
#include <vector>

using std::size_t;
typedef unsigned long long ull;
using namespace tbb::detail;

// ---------------------------------------------------------------------------------------------------------------
// global observation state
// ---------------------------------------------------------------------------------------------------------------
static std::vector<std::string> out;                 // trace lines
static d1::wait_context* root_wc = nullptr;
static bool quiet = false;                           // suppress hooks while the harness itself inspects objects
struct Block { char* base; size_t size; int id; char* items = nullptr; d1::wait_context* wc = nullptr; bool freed = false; int copies = 0; };
static std::vector<Block> blocks;                    // block task allocations, by block id
static int cat = 0;                                  // 0 input, 1 forward, 2 random
static bool in_root_execute = false;
static std::vector<int> input_ids;
static std::map<int, std::vector<int>> feeds;
static std::map<int, int> pos_of;                    // input id -> position
// monitors
static std::map<int, int> body_count, body_open;
static long bodies_after_return = 0, dead_item_bodies = 0, double_destroy = 0, underflow = 0, bad_iter = 0, items_live = 0, block_copies_live = 0;
static long iter_pos = 0, iter_n = 0;
static std::string first_problem;
static void problem(const std::string& s) { if (first_problem.empty()) first_problem = s; }

static Block* block_of(const void* p) {
    const char* c = static_cast<const char*>(p);
    for (size_t i = blocks.size(); i-- > 0;)
        if (!blocks[i].freed && c >= blocks[i].base && c < blocks[i].base + blocks[i].size) return &blocks[i];
    return nullptr;
}

static ull rd(const std::atomic<std::uint64_t>& a) { return a.load(std::memory_order_relaxed); }

struct SubInfo { void* p; std::atomic<unsigned>* rc; };
static std::vector<SubInfo> subroots;                // by index (order in which they start executing)

static std::string snapshot() {
    std::string s = " | r=";
    ull r = root_wc ? rd(root_wc->m_ref_count) : 0;
    if (r >> 32) { underflow++; problem("root wait context reference count underflow"); }
    s += std::to_string((long long)r);
    s += " b=";
    bool any = false;
    for (auto& b : blocks) if (!b.freed && b.wc) {
        ull v = rd(b.wc->m_ref_count);
        if (v >> 32) { underflow++; problem("block wait context reference count underflow"); }
        s += (any ? "," : "") + std::to_string(b.id) + ":" + std::to_string((long long)v); any = true;
    }
    if (!any) s += "-";
    s += " v=";
    any = false;
    for (auto& kv : mk::g.vertices) {
        ull v = rd(kv.second->m_ref_count);
        if (v >> 32) { underflow++; problem("reference_vertex released before it was reserved (count underflow)"); }
        s += (any ? "," : "") + std::to_string(kv.first.first) + ":" + std::to_string((long long)v); any = true;
    }
    for (size_t i = 0; i < subroots.size(); ++i) {
        unsigned v = subroots[i].rc ? subroots[i].rc->load() : 0;
        if (v > 1000) { underflow++; problem("subroot ref_count underflow"); }
        s += (any ? "," : "") + std::to_string(i) + ":" + std::to_string(v); any = true;
    }
    if (!any) s += "-";
    return s;
}

static int cur_frame() { return mk::top() ? mk::top()->id : -1; }
static void ev(const std::string& what) {
    if (mk::top() && mk::top()->after_return) { /* still traced: the model has nothing to match it with */ }
    out.push_back("ev " + std::to_string(cur_frame()) + " " + what + snapshot());
}

// ---------------------------------------------------------------------------------------------------------------
// the item type
// ---------------------------------------------------------------------------------------------------------------
static const unsigned ALIVE = 0xA11FEu, DEAD = 0xDEADu;
struct PoisonedCopy {};
static const int POISON0 = 500000;                   // fed ids >= POISON0: the item's copy / move constructor throws (the feeder::add fails, the body goes on)
struct Item {
    int id;
    unsigned magic;
    bool poison = false;
    static int id_of(const Item& o) { if (o.poison) throw PoisonedCopy(); return o.id; }
    explicit Item(int i) : id(i), magic(ALIVE) { items_live++; }
    Item(const Item& o) : id(id_of(o)), magic(ALIVE) { items_live++; note_copy(o); }
    Item(Item&& o) : id(id_of(o)), magic(ALIVE) { items_live++; note_copy(o); }
    Item& operator=(const Item&) = delete;
    ~Item() {
        if (magic != ALIVE) { double_destroy++; problem("item " + std::to_string(id) + " destroyed twice"); return; }
        magic = DEAD; items_live--;
        if (quiet) return;
        if (Block* b = block_of(this)) {
            if (b->items && cat == 0) {
                block_copies_live--;
                ev("destroy " + std::to_string(b->id) + " " + std::to_string((reinterpret_cast<char*>(this) - b->items) / long(sizeof(Item))) + " " + std::to_string(id));
            }
        }
    }
    void note_copy(const Item& from) {
        if (from.magic != ALIVE) problem("item " + std::to_string(id) + " copied from a dead object");
        if (quiet || cat != 0 || !in_root_execute) return;
        if (Block* b = block_of(this)) {
            if (!b->items) b->items = reinterpret_cast<char*>(this);
            b->copies++; block_copies_live++;
            ev("copy " + std::to_string(b->id) + " " + std::to_string((reinterpret_cast<char*>(this) - b->items) / long(sizeof(Item))) + " " + std::to_string(id));
        }
    }
};

// ---------------------------------------------------------------------------------------------------------------
// iterators over std::vector<Item>: input (single pass), forward
// ---------------------------------------------------------------------------------------------------------------
static const void* root_first_addr = nullptr;          // address of for_each_root_task::my_first
static long g_stream_pos = 0;                          // input categories: how far any copy of the iterator has been advanced
struct DerivedInputTag : std::input_iterator_tag {};   // a user-defined category derived from the standard one (Boost-style facades): still single pass
template <typename Tag> struct It {
    typedef Tag iterator_category;
    typedef Item value_type;
    typedef std::ptrdiff_t difference_type;
    typedef Item* pointer;
    typedef Item& reference;
    std::vector<Item>* v = nullptr;
    long k = 0;
    It() {}
    It(std::vector<Item>* vv, long kk) : v(vv), k(kk) {}
    Item& operator*() const {
        if (!quiet && cat == 0 && k < g_stream_pos) {
            // a single-pass iterator: once ANY copy has been advanced past position k the element at k is gone
            bad_iter++; problem("single-pass (input) iterator dereferenced at position " + std::to_string(k) + " after the stream had advanced to " + std::to_string(g_stream_pos));
        }
        if (!quiet) {
            if (k < 0 || k >= long(v->size())) { bad_iter++; problem("iterator dereferenced at position " + std::to_string(k) + " of " + std::to_string(v->size())); static Item dummy(-1); return dummy; }
            if (cat == 0 && this == root_first_addr) ev("deref " + std::to_string(k));
        }
        return (*v)[size_t(k)];
    }
    It& operator++() {
        if (!quiet && this == root_first_addr) {
            if (k >= long(v->size())) { bad_iter++; problem("iterator incremented past the end"); }
            if (k != iter_pos) { bad_iter++; problem("root iterator advanced from position " + std::to_string(k) + " but " + std::to_string(iter_pos) + " was expected"); }
            iter_pos = k + 1;
            ev("inc " + std::to_string(k));
        }
        ++k;
        if (cat == 0 && k > g_stream_pos) g_stream_pos = k;
        return *this;
    }
    It operator++(int) { It t = *this; ++*this; return t; }
    bool operator==(const It& o) const { return k == o.k; }
    bool operator!=(const It& o) const { return k != o.k; }
};
typedef It<std::input_iterator_tag> InIt;
typedef It<DerivedInputTag> DiIt;
typedef It<std::forward_iterator_tag> FwIt;
typedef std::vector<Item>::iterator RaIt;

// ---------------------------------------------------------------------------------------------------------------
// the body
// ---------------------------------------------------------------------------------------------------------------
static std::string src_of(const Item& item) {
    auto p = pos_of.find(item.id);
    if (p == pos_of.end()) return "fed";
    if (cat != 0) return "pos:" + std::to_string(p->second);
    Block* b = block_of(&item);
    if (!b || !b->items) return "unknown";
    return "slot:" + std::to_string(b->id) + ":" + std::to_string((reinterpret_cast<const char*>(&item) - b->items) / long(sizeof(Item)));
}
struct Body {
    void operator()(const Item& item, tbb::feeder<Item>& fd) const {
        std::string src = src_of(item);
        if (item.magic != ALIVE) { dead_item_bodies++; problem("body called on a dead item (id " + std::to_string(item.id) + ")"); }
        if (mk::g.returned) { bodies_after_return++; problem("body called after parallel_for_each returned (item " + std::to_string(item.id) + ")"); }
        body_count[item.id]++; body_open[item.id]++;
        ev("bs " + std::to_string(item.id) + " " + src);
        mk::yield();
        auto f = feeds.find(item.id);
        if (f != feeds.end()) {
            bool mv = false;
            for (int c : f->second) {
                Item child(c);
                if (c >= POISON0) child.poison = true;
                try { if (mv) fd.add(std::move(child)); else fd.add(child); }
                catch (const PoisonedCopy&) { ev("addthrow " + std::to_string(c)); }      // a failed add changes nothing; the loop goes on
                mv = !mv;
                mk::yield();
            }
        }
        if (item.magic != ALIVE) { dead_item_bodies++; problem("item destroyed during its body call (id " + std::to_string(item.id) + ")"); }
        body_open[item.id]--;
        ev("be " + std::to_string(item.id) + " " + src);
    }
};

// ---------------------------------------------------------------------------------------------------------------
// task descriptions
// ---------------------------------------------------------------------------------------------------------------
template <typename Iterator> struct EachTypes {
    typedef d2::for_each_root_task<Iterator, Body, Item> root_t;
    typedef d2::feeder_item_task<Body, Item> feed_t;
    typedef d2::input_block_handling_task<Body, Item> iblock_t;
    typedef d2::forward_block_handling_task<Iterator, Body, Item> fblock_t;
    typedef typename iblock_t::iteration_task iiter_t;
    typedef typename fblock_t::iteration_task fiter_t;
    typedef d2::parallel_for_body_wrapper<Iterator, Body, Item> wrap_t;
};

static int vertex_thread(d1::wait_tree_vertex_interface* v) {
    for (auto& kv : mk::g.vertices) if (kv.second == v) return kv.first.first;
    return -1;
}

template <typename Iterator> struct Describe {
    typedef EachTypes<Iterator> T;
    static std::string of(d1::task* t) {
        quiet = true;
        std::string s = "other";
        if (dynamic_cast<typename T::root_t*>(t)) s = "root";
        else if (auto* f = dynamic_cast<typename T::feed_t*>(t)) s = "feed " + std::to_string(f->item.id) + " " + std::to_string(vertex_thread(f->m_wait_tree_vertex));
        else if (auto* it = dynamic_cast<typename T::iiter_t*>(t)) {
            Block* b = block_of(it);
            const Item& x = *it->item_ptr;
            long slot = b && b->items ? (reinterpret_cast<const char*>(&x) - b->items) / long(sizeof(Item)) : -1;
            s = "iter " + std::to_string(b ? b->id : -1) + " " + std::to_string(x.id) + " slot:" + std::to_string(b ? b->id : -1) + ":" + std::to_string(slot);
        } else if (auto* it = dynamic_cast<typename T::fiter_t*>(t)) {
            Block* b = block_of(it);
            const Item& x = *it->item_ptr;
            s = "iter " + std::to_string(b ? b->id : -1) + " " + std::to_string(x.id) + " pos:" + std::to_string(pos_of.count(x.id) ? pos_of[x.id] : -1);
        } else if (dynamic_cast<d1::start_for<tbb::blocked_range<size_t>, typename T::wrap_t, const tbb::auto_partitioner>*>(t)) s = "sf";
        quiet = false;
        return s;
    }
};
static std::string (*describe)(d1::task*) = nullptr;
static bool (*is_root)(d1::task*) = nullptr;
static d1::wait_context* (*wc_of_block)(void*) = nullptr;

static std::string wc_name(d1::wait_context& wc) {
    if (&wc == root_wc) return "root";
    if (Block* b = block_of(&wc)) return "blk:" + std::to_string(b->id);
    return "pf";
}

// hooks ----------------------------------------------------------------------------------------------------------
static int next_block = 0;
static void on_alloc(void* p, size_t n) {
    if (in_root_execute && cat != 2) { Block b; b.base = static_cast<char*>(p); b.size = n; b.id = next_block++; b.wc = wc_of_block ? wc_of_block(p) : nullptr; blocks.push_back(b); }
}
static void on_free(void* p) { for (auto& b : blocks) if (b.base == p) b.freed = true; }
static void on_begin(mk::Frame& f) {
    out.push_back("B " + std::to_string(f.id) + " " + std::to_string(f.tid) + " " + describe(f.t));
    if (f.after_return) problem("a task started after the call returned");
    if (is_root && is_root(f.t)) { in_root_execute = true; f.tag = 1; }
}
static void on_end(mk::Frame& f) { if (f.tag == 1) in_root_execute = false; out.push_back("E " + std::to_string(f.id) + snapshot()); }
static void on_spawn(mk::Frame* cur, d1::task& t) {
    // the root task re-spawns itself as its last action: its execute() is over
    if (is_root && is_root(&t)) in_root_execute = false;
    std::string dsc = describe(&t);      // (may discover the root wait context)
    out.push_back("S " + std::to_string(cur ? cur->id : -1) + " " + dsc + snapshot());
}
static void on_pass(mk::Frame*, d1::wait_context& wc) {
    if (&wc == root_wc && !mk::g.pending.empty()) problem("the wait on the root wait context returned while " + std::to_string(mk::g.pending.size()) + " spawned tasks had not run");
    ev("pass " + wc_name(wc));
}
static void on_wait_enter(mk::Frame* cur, d1::wait_context& wc) { out.push_back("W " + std::to_string(cur ? cur->id : -1) + " " + wc_name(wc) + snapshot()); }
static void on_deadlock(d1::wait_context& wc) {
    for (auto& l : out) puts(l.c_str());
    printf("M problem=%s:%s\n", (wc.m_ref_count.load() >> 32) ? "reference-count-underflow-(released-more-often-than-reserved)" : "wait-never-satisfied", wc_name(wc).c_str());
}

// ---------------------------------------------------------------------------------------------------------------
// parallel_for_each scenarios
// ---------------------------------------------------------------------------------------------------------------
template <typename Iterator> struct RootHooks {
    typedef EachTypes<Iterator> T;
    static bool is_root_f(d1::task* t) { return dynamic_cast<typename T::root_t*>(t) != nullptr; }
};

template <typename Iterator> static void setup_types() {
    describe = &Describe<Iterator>::of;
    is_root = &RootHooks<Iterator>::is_root_f;
}

template <typename BlockT> static d1::wait_context* wc_of(void* p) { return &reinterpret_cast<BlockT*>(p)->my_wait_context; }

static void main_frame_run(void (*algo)(std::vector<Item>&), std::vector<Item>& v) {
    mk::Frame f; f.id = 0; f.tid = 0; f.orig = 0;
    mk::g.stack.push_back(&f);
    algo(v);
    out.push_back("ev 0 done" + snapshot());
    mk::g.stack.pop_back();
    mk::drain();
}

// the root task lives on the caller's stack; r1::execute_and_wait is entered with it: remember the addresses then
template <typename Iterator> static void run_each(std::vector<Item>& v);

template <> void run_each<InIt>(std::vector<Item>& v) { tbb::task_group_context ctx; tbb::parallel_for_each(InIt(&v, 0), InIt(&v, long(v.size())), Body(), ctx); }
template <> void run_each<DiIt>(std::vector<Item>& v) { tbb::task_group_context ctx; tbb::parallel_for_each(DiIt(&v, 0), DiIt(&v, long(v.size())), Body(), ctx); }
template <> void run_each<FwIt>(std::vector<Item>& v) { tbb::task_group_context ctx; tbb::parallel_for_each(FwIt(&v, 0), FwIt(&v, long(v.size())), Body(), ctx); }
template <> void run_each<RaIt>(std::vector<Item>& v) { tbb::task_group_context ctx; tbb::parallel_for_each(v.begin(), v.end(), Body(), ctx); }

// ---------------------------------------------------------------------------------------------------------------
// parallel_invoke scenarios
// ---------------------------------------------------------------------------------------------------------------
static std::map<int, int> call_count;
struct Fn {
    int i;
    void operator()() const {
        if (mk::g.returned) problem("function " + std::to_string(i) + " called after parallel_invoke returned");
        call_count[i]++;
        ev("cs " + std::to_string(i));
        mk::yield();
        ev("ce " + std::to_string(i));
    }
};
typedef d1::invoke_subroot_task<Fn, Fn, Fn> sub_t;
typedef d1::function_invoker<Fn, sub_t> subinv_t;
typedef d1::function_invoker<Fn, d1::invoke_root_task> rootinv_t;

static int sub_index(void* p) { for (size_t i = 0; i < subroots.size(); ++i) if (subroots[i].p == p) return int(i); return -1; }
static std::string describe_invoke(d1::task* t) {
    if (auto* s = dynamic_cast<sub_t*>(t)) {
        if (!root_wc) root_wc = &s->root_wait_ctx;
        return "subroot " + std::to_string(s->self_invoked_functor.i) + " " + std::to_string(s->f2_invoker.my_function.i) + " " + std::to_string(s->f3_invoker.my_function.i);
    }
    if (auto* v = dynamic_cast<subinv_t*>(t)) return "inv " + std::to_string(v->my_function.i) + " kid:" + std::to_string(sub_index(&v->parent_wait_ctx));
    if (auto* v = dynamic_cast<rootinv_t*>(t)) {
        if (!root_wc) root_wc = &v->parent_wait_ctx.my_wait_context;
        return "inv " + std::to_string(v->my_function.i) + " root";
    }
    return "other";
}
static void on_begin_invoke(mk::Frame& f) {
    if (auto* s = dynamic_cast<sub_t*>(f.t)) subroots.push_back(SubInfo{s, &s->ref_count});
    out.push_back("B " + std::to_string(f.id) + " " + std::to_string(f.tid) + " " + describe_invoke(f.t));
    if (f.after_return) problem("a task started after the call returned");
}
static void on_free_invoke(void* p) { for (auto& s : subroots) if (s.p == p) { s.rc = nullptr; s.p = nullptr; } }

static void run_invoke(int n, bool with_ctx) {
    tbb::task_group_context ctx;
    Fn f[12];
    for (int i = 0; i < 12; ++i) f[i].i = i;
#define INV(...) do { if (with_ctx) tbb::parallel_invoke(__VA_ARGS__, ctx); else tbb::parallel_invoke(__VA_ARGS__); } while (0)
    switch (n) {
    case 2: INV(f[0], f[1]); break;
    case 3: INV(f[0], f[1], f[2]); break;
    case 4: INV(f[0], f[1], f[2], f[3]); break;
    case 5: INV(f[0], f[1], f[2], f[3], f[4]); break;
    case 6: INV(f[0], f[1], f[2], f[3], f[4], f[5]); break;
    case 7: INV(f[0], f[1], f[2], f[3], f[4], f[5], f[6]); break;
    case 8: INV(f[0], f[1], f[2], f[3], f[4], f[5], f[6], f[7]); break;
    case 9: INV(f[0], f[1], f[2], f[3], f[4], f[5], f[6], f[7], f[8]); break;
    case 10: INV(f[0], f[1], f[2], f[3], f[4], f[5], f[6], f[7], f[8], f[9]); break;
    case 11: INV(f[0], f[1], f[2], f[3], f[4], f[5], f[6], f[7], f[8], f[9], f[10]); break;
    default: INV(f[0], f[1], f[2], f[3], f[4], f[5], f[6], f[7], f[8], f[9], f[10], f[11]); break;
    }
#undef INV
}

// ---------------------------------------------------------------------------------------------------------------
static void reset_all() {
    out.clear(); root_wc = nullptr; quiet = false; blocks.clear(); in_root_execute = false; input_ids.clear(); feeds.clear(); pos_of.clear();
    body_count.clear(); body_open.clear(); bodies_after_return = dead_item_bodies = double_destroy = underflow = bad_iter = 0; items_live = 0; block_copies_live = 0;
    iter_pos = 0; first_problem.clear(); next_block = 0; subroots.clear(); call_count.clear(); root_first_addr = nullptr;
    mk::g.on_execute_and_wait = nullptr; wc_of_block = nullptr;
    mk::g.on_begin = nullptr; mk::g.on_end = on_end; mk::g.on_spawn = on_spawn; mk::g.on_pass = on_pass; mk::g.on_alloc = nullptr; mk::g.on_free = nullptr; mk::g.on_deadlock = on_deadlock; mk::g.on_wait_enter = on_wait_enter;
}

// the root wait context and the root task's iterator are known when the caller enters execute_and_wait with the root task
template <typename Iterator> static void on_eaw(mk::Frame*, d1::task& t, d1::wait_context& wc) {
    typedef typename EachTypes<Iterator>::root_t root_t;
    if (auto* r = dynamic_cast<root_t*>(&t)) {
        if (!root_wc) root_wc = &wc;
        root_first_addr = &r->my_first;
    }
}

template <typename Iterator, typename BlockT> static void each_scenario(std::vector<Item>& v) {
    setup_types<Iterator>();
    wc_of_block = &wc_of<BlockT>;
    mk::g.on_begin = on_begin; mk::g.on_alloc = on_alloc; mk::g.on_free = on_free;
    mk::g.on_execute_and_wait = &on_eaw<Iterator>;
    in_root_execute = true;      // the caller runs the root task first (execute_and_wait)
    main_frame_run(&run_each<Iterator>, v);
}

int main() {
    std::string line;
    while (std::getline(std::cin, line)) {
        std::istringstream in(line);
        std::string op;
        if (!(in >> op)) continue;
        reset_all();
        if (op == "each") {
            std::string c; int T; ull seed; unsigned sp, sy; size_t n;
            if (!(in >> c >> T >> seed >> sp >> sy >> n) || T < 1 || n > 100000 || (c != "i" && c != "f" && c != "r" && c != "d")) { puts("bad-op"); puts("END"); continue; }
            const bool derived_tag = c == "d";
            cat = (c == "i" || c == "d") ? 0 : c == "f" ? 1 : 2;
            g_stream_pos = 0;
            bool ok = true;
            for (size_t i = 0; i < n; ++i) { int id; if (!(in >> id)) ok = false; input_ids.push_back(id); pos_of[id] = int(i); }
            std::string F; size_t k = 0;
            if (!ok || !(in >> F >> k) || F != "F") { puts("bad-op"); puts("END"); continue; }
            for (size_t i = 0; i < k && ok; ++i) { int id; size_t m; if (!(in >> id >> m)) { ok = false; break; } for (size_t j = 0; j < m; ++j) { int ch; if (!(in >> ch)) ok = false; feeds[id].push_back(ch); } }
            if (!ok || pos_of.size() != n) { puts("bad-op"); puts("END"); continue; }
            mk::reset(T, seed, sp, sy);
            iter_n = long(n);
            long live0;
            {
                quiet = true;
                std::vector<Item> v;
                v.reserve(n);
                for (int id : input_ids) v.emplace_back(id);
                quiet = false;
                live0 = items_live;
                if (cat == 0 && derived_tag) each_scenario<DiIt, EachTypes<DiIt>::iblock_t>(v);
                else if (cat == 0) each_scenario<InIt, EachTypes<InIt>::iblock_t>(v);
                else if (cat == 1) each_scenario<FwIt, EachTypes<FwIt>::fblock_t>(v);
                else each_scenario<RaIt, EachTypes<RaIt>::fblock_t>(v);
                quiet = true;
            }
            quiet = false;
            // monitors
            std::set<int> all(input_ids.begin(), input_ids.end());
            std::vector<int> todo(input_ids.begin(), input_ids.end());
            while (!todo.empty()) { int x = todo.back(); todo.pop_back(); auto f = feeds.find(x); if (f != feeds.end()) for (int ch : f->second) if (ch < POISON0 && all.insert(ch).second) todo.push_back(ch); }      // (a poisoned child is never added: its body must not run)
            std::string badc = "-";
            for (int x : all) if (body_count[x] != 1) { badc = std::to_string(x) + ":" + std::to_string(body_count[x]); break; }
            for (auto& kv : body_count) if (!all.count(kv.first) && kv.second) { badc = std::to_string(kv.first) + ":" + std::to_string(kv.second) + ":unknown-item"; break; }
            if (badc != "-") problem("item visited a wrong number of times (id:count) " + badc);
            if (items_live != 0 || live0 != long(n)) problem("item copies constructed and destroyed do not balance: " + std::to_string(items_live) + " alive at the end");
            if (cat != 2 && iter_pos != long(n) && n > 0) problem("the root iterator stopped at position " + std::to_string(iter_pos) + " of " + std::to_string(n));
            for (auto& l : out) puts(l.c_str());
            std::string p = first_problem; std::replace(p.begin(), p.end(), ' ', '_');
            printf("M items=%zu visits=%s live=%ld underflow=%ld baditer=%ld afterreturn=%ld dead=%ld dbl=%ld problem=%s\n", all.size(), badc.c_str(), items_live, underflow, bad_iter,
                   bodies_after_return, dead_item_bodies, double_destroy, p.empty() ? "-" : p.c_str());
        } else if (op == "invoke") {
            int n, T, c; ull seed; unsigned sp, sy;
            if (!(in >> n >> T >> seed >> sp >> sy >> c) || n < 2 || n > 12 || T < 1) { puts("bad-op"); puts("END"); continue; }
            mk::reset(T, seed, sp, sy);
            mk::g.on_begin = on_begin_invoke; mk::g.on_free = on_free_invoke;
            describe = describe_invoke; is_root = nullptr;
            {
                mk::Frame f; f.id = 0; f.tid = 0; f.orig = 0;
                mk::g.stack.push_back(&f);
                run_invoke(n, c != 0);
                out.push_back("ev 0 done" + snapshot());
                mk::g.stack.pop_back();
                mk::drain();
            }
            std::string badc = "-";
            for (int i = 0; i < 12; ++i) if (call_count[i] != (i < n ? 1 : 0)) { badc = std::to_string(i) + ":" + std::to_string(call_count[i]); break; }
            if (badc != "-") problem("function called a wrong number of times (index:count) " + badc);
            for (auto& l : out) puts(l.c_str());
            std::string p = first_problem; std::replace(p.begin(), p.end(), ' ', '_');
            printf("M n=%d calls=%s underflow=%ld problem=%s\n", n, badc.c_str(), underflow, p.empty() ? "-" : p.c_str());
        } else { puts("bad-op"); }
        puts("END");
        fflush(stdout);
    }
    return 0;
}
