// E-MOCK: a deterministic, single-threaded stand-in for the r1 runtime entry points that the header-only
// parallel_for / partitioner code calls.  Include in exactly one translation unit per executable.
//
// The mock keeps a pool of spawned-but-not-yet-run tasks.  A *script* (a PRNG seeded by the scenario) decides
//   * at every spawn: run the new task right now, nested, on another virtual slot ("a thief took it at once and
//     runs concurrently with the spawner"), or leave it pending;
//   * at every body call (the harness' body calls mock::yield()): run some pending task nested on another slot;
//   * after the root returns: which pending task runs next and on which slot (its original one = not stolen).
// So is_stolen_task, is_same_affinity, `parent->m_ref_count >= 2`, is_peer_stolen and the cancellation flag take
// every combination, while the real header code runs unmodified and sequentially.
#pragma once
#include <oneapi/tbb/detail/_task.h>
#include <oneapi/tbb/detail/_small_object_pool.h>
#include <oneapi/tbb/detail/_exception.h>
#include <oneapi/tbb/cache_aligned_allocator.h>
#include <oneapi/tbb/task_group.h>
#include <oneapi/tbb/task_arena.h>
#include <cstdio>
#include <cstdlib>
#include <cstdint>
#include <new>
#include <stdexcept>
#include <vector>

namespace mock {
using namespace tbb::detail;

struct Frame {
    d1::task* t = nullptr;
    d1::slot_id exec = 0, orig = 0, aff = d1::no_slot;
    bool is_root = false;
    int spawns = 0;
    void* user = nullptr;   // scenario data
};

struct Pending { d1::task* t; d1::task_group_context* ctx; d1::slot_id orig, aff; };

struct Rng {
    uint64_t s = 0x9E3779B97F4A7C15ull;
    void seed(uint64_t x) { s = x * 0x9E3779B97F4A7C15ull + 0xD1B54A32D192ED03ull; next(); next(); }
    uint64_t next() { s ^= s << 13; s ^= s >> 7; s ^= s << 17; return s * 0x2545F4914F6CDD1Dull; }
    unsigned below(unsigned n) { return n ? unsigned((next() >> 11) % n) : 0; }
    bool pct(unsigned p) { return below(100) < p; }
};

struct Ctl {
    int P = 1;                        // max_concurrency()
    d1::slot_id master = 0;           // slot of the thread that calls parallel_for
    unsigned steal_at_spawn = 0;      // percent
    unsigned steal_at_body = 0;       // percent
    unsigned steal_late = 0;          // percent: a pending task later runs on a foreign slot
    long cancel_after = -1;           // number of is_group_execution_cancelled() reads answered `false`; -1: never cancel
    int max_nest = 48;
    Rng rng;
    // observers installed by the scenario
    void (*on_start)(Frame&) = nullptr;
    void (*on_end)(Frame&) = nullptr;
    void (*on_spawn)(Frame* parent, d1::task& child) = nullptr;    // child fully constructed, before it can run
    void (*after_callout)(Frame* parent) = nullptr;               // after a spawn or a yield returned
    void (*on_cancel_read)(Frame* cur, bool answer) = nullptr;
    // state
    std::vector<Pending> pending;
    std::vector<Frame*> stack;
    long cancel_reads = 0;
    bool cancelled = false;
    long tasks_run = 0, tasks_cancelled = 0, max_depth_seen = 0, spawns = 0;
    void (*on_runaway)() = nullptr;   // a loop that keeps spawning without end
};
inline Ctl g;

inline d1::slot_id other_slot(d1::slot_id not_this) {
    if (g.P <= 1) return not_this;
    d1::slot_id s = d1::slot_id(g.rng.below(unsigned(g.P - 1)));
    return s >= not_this ? d1::slot_id(s + 1) : s;
}

struct ed_ext : d1::execution_data { Frame* frame; };

inline void run_task(d1::task& t, d1::task_group_context& ctx, d1::slot_id exec, d1::slot_id orig, d1::slot_id aff, bool is_root) {
    Frame f;
    f.t = &t; f.exec = exec; f.orig = orig; f.aff = aff; f.is_root = is_root;
    ed_ext ed;
    ed.context = &ctx; ed.original_slot = orig; ed.affinity_slot = aff; ed.frame = &f;
    g.stack.push_back(&f);
    if (long(g.stack.size()) > g.max_depth_seen) g.max_depth_seen = long(g.stack.size());
    if (g.cancelled && !is_root) {
        g.tasks_cancelled++;
        d1::task* n = t.cancel(ed);
        if (n) { fprintf(stderr, "mock: task bypass from cancel not supported\n"); abort(); }
    } else {
        g.tasks_run++;
        if (g.on_start) g.on_start(f);
        d1::task* n = t.execute(ed);
        if (n) { fprintf(stderr, "mock: task bypass not supported\n"); abort(); }
        if (g.on_end) g.on_end(f);
    }
    g.stack.pop_back();
}

inline void run_pending(size_t i, bool as_thief) {
    Pending p = g.pending[i];
    g.pending.erase(g.pending.begin() + long(i));
    d1::slot_id exec = as_thief ? other_slot(p.orig) : p.orig;
    run_task(*p.t, *p.ctx, exec, p.orig, p.aff, false);
}

// called by the harness' body: "time passes", other threads may steal and run pending tasks now
inline void yield() {
    Frame* cur = g.stack.empty() ? nullptr : g.stack.back();
    while (g.P > 1 && !g.pending.empty() && int(g.stack.size()) < g.max_nest && g.rng.pct(g.steal_at_body))
        run_pending(g.rng.below(unsigned(g.pending.size())), true);
    if (g.after_callout) g.after_callout(cur);
}

inline void do_spawn(d1::task& t, d1::task_group_context& ctx, d1::slot_id aff) {
    Frame* cur = g.stack.empty() ? nullptr : g.stack.back();
    d1::slot_id orig = cur ? cur->exec : g.master;
    if (cur) cur->spawns++;
    if (++g.spawns > 4000000) { if (g.on_runaway) g.on_runaway(); fprintf(stderr, "mock: more than 4000000 spawns in one loop\n"); _Exit(4); }
    if (g.on_spawn) g.on_spawn(cur, t);
    if (g.P > 1 && int(g.stack.size()) < g.max_nest && g.rng.pct(g.steal_at_spawn))
        run_task(t, ctx, other_slot(orig), orig, aff, false);
    else
        g.pending.push_back(Pending{&t, &ctx, orig, aff});
    if (g.after_callout) g.after_callout(cur);
}

inline void reset(int P, uint64_t seed) {
    g.pending.clear(); g.stack.clear();
    g.P = P; g.rng.seed(seed);
    g.master = d1::slot_id(g.rng.below(unsigned(P)));
    g.cancel_reads = 0; g.cancelled = false; g.tasks_run = g.tasks_cancelled = 0; g.max_depth_seen = 0; g.spawns = 0;
}
} // namespace mock

namespace tbb { namespace detail { namespace r1 {
static d1::small_object_pool* const mock_pool = reinterpret_cast<d1::small_object_pool*>(uintptr_t(0x1000));

void* allocate(d1::small_object_pool*& pool, std::size_t n, const d1::execution_data&) { pool = mock_pool; void* p = malloc(n ? n : 1); if (!p) throw std::bad_alloc(); return p; }
void* allocate(d1::small_object_pool*& pool, std::size_t n) { pool = mock_pool; void* p = malloc(n ? n : 1); if (!p) throw std::bad_alloc(); return p; }
void deallocate(d1::small_object_pool&, void* p, std::size_t, const d1::execution_data&) { free(p); }
void deallocate(d1::small_object_pool&, void* p, std::size_t) { free(p); }

void spawn(d1::task& t, d1::task_group_context& ctx) { mock::do_spawn(t, ctx, d1::no_slot); }
void spawn(d1::task& t, d1::task_group_context& ctx, d1::slot_id id) { mock::do_spawn(t, ctx, id); }

void execute_and_wait(d1::task& t, d1::task_group_context& t_ctx, d1::wait_context&, d1::task_group_context&) {
    using namespace mock;
    run_task(t, t_ctx, g.master, g.master, d1::no_slot, true);
    while (!g.pending.empty()) {
        size_t i = g.rng.below(unsigned(g.pending.size()));
        // LIFO bias: the owner pops its newest task first
        if (g.rng.pct(60)) i = g.pending.size() - 1;
        run_pending(i, g.P > 1 && g.rng.pct(g.steal_late));
    }
}
void wait(d1::wait_context&, d1::task_group_context&) {}
d1::slot_id execution_slot(const d1::execution_data* ed) {
    if (ed) return static_cast<const mock::ed_ext*>(ed)->frame->exec;
    return mock::g.stack.empty() ? mock::g.master : mock::g.stack.back()->exec;
}
d1::slot_id execution_slot(const d1::task_arena_base&) { return mock::g.master; }
d1::task_group_context* current_context() { return nullptr; }
void notify_waiters(std::uintptr_t) {}
int max_concurrency(const d1::task_arena_base*) { return mock::g.P; }

void initialize(d1::task_group_context&) {}
void destroy(d1::task_group_context&) {}
void reset(d1::task_group_context&) {}
bool cancel_group_execution(d1::task_group_context&) { bool was = mock::g.cancelled; mock::g.cancelled = true; return !was; }
bool is_group_execution_cancelled(d1::task_group_context&) {
    using namespace mock;
    if (!g.cancelled && g.cancel_after >= 0 && g.cancel_reads >= g.cancel_after) g.cancelled = true;
    g.cancel_reads++;
    if (g.on_cancel_read) g.on_cancel_read(g.stack.empty() ? nullptr : g.stack.back(), g.cancelled);
    return g.cancelled;
}
void capture_fp_settings(d1::task_group_context&) {}

void throw_exception(exception_id eid) {
    switch (eid) {
    case exception_id::bad_alloc: throw std::bad_alloc();
    case exception_id::nonpositive_step: throw std::invalid_argument("Step must be positive");
    default: throw std::runtime_error("tbb exception");
    }
}
void* cache_aligned_allocate(std::size_t size) { void* p = nullptr; if (posix_memalign(&p, 128, size ? size : 1)) throw std::bad_alloc(); return p; }
void cache_aligned_deallocate(void* p) { free(p); }
std::size_t cache_line_size() { return 128; }
void assertion_failure(const char* location, int line, const char* expression, const char* comment) {
    fprintf(stderr, "TBB assertion %s failed at %s:%d (%s)\n", expression, location, line, comment ? comment : "");
    abort();
}
void call_itt_notify(int, void*) {}
}}}
