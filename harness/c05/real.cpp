// E-REAL: the real library with real threads.  Implementation-side monitors only (per-element counters, chunk log).
//   real <kind> <flavour 1|2|3|n|i> <k> (b e g)^k <P>      parallel_for(range, body, partitioner) inside task_arena(P)
//        -> M chunks=… empty=… oob=… elems=ok|bad:<flat index>:<count>|skipped      and   C ; b e … ; b e …
//        flavour i = blocked_range<int> with begin offset by -1000000 (signed values)
//   strided <first> <last> <step> <kind> <P>                 parallel_for(first, last, step, f, partitioner) over long long
//        -> S visited=<n> expected=<n> bad=<first bad index or ->
//   foreach <n> <feed> <iter r|f|i> <P>                      parallel_for_each over n items, every item < feed adds 2 more through the feeder
//        -> F items=<n> bad=<id:count or ->
//   invoke <n> <P>                                           parallel_invoke with n (2..12) functions
//        -> I n=<n> bad=<index:count or ->
//   foreach2 <n> <depth 0..3> <fan 1..3> <iter r|f|i> <P> <seed>   parallel_for_each over n items of a class type that counts its copies
//        and destructions; every item feeds up to <fan> new items (alternating copy / move add), recursively up to <depth> levels
//        -> F2 items=<reachable> bad=<id:count or -> dead=<body calls on a destroyed item> live=<copies never destroyed> late=<0|1 copies still
//           alive when the call returned (they are destroyed by a worker shortly afterwards: finalize releases the wait reference first)>
#include <oneapi/tbb/blocked_range.h>
#include <oneapi/tbb/blocked_range2d.h>
#include <oneapi/tbb/blocked_range3d.h>
#include <oneapi/tbb/blocked_nd_range.h>
#include <oneapi/tbb/parallel_for.h>
#include <oneapi/tbb/parallel_for_each.h>
#include <oneapi/tbb/parallel_invoke.h>
#include <oneapi/tbb/task_arena.h>
#include <oneapi/tbb/spin_mutex.h>
#include <atomic>
#include <chrono>
#include <thread>
#include <cstdlib>
#include <cstdio>
#include <forward_list>
#include <iostream>
#include <iterator>
#include <list>
#include <memory>
#include <sstream>
#include <string>
#include <vector>

using std::size_t;
typedef unsigned long long ull;
typedef tbb::blocked_range<size_t> BR;

struct Dim { long long b, e; size_t g; };

template <typename R> struct Dims;
template <> struct Dims<BR> {
    static std::vector<std::pair<long long, long long>> get(const BR& r) { return {{(long long)r.begin(), (long long)r.end()}}; }
    static BR make(const std::vector<Dim>& d) { return BR(size_t(d[0].b), size_t(d[0].e), d[0].g); }
};
template <> struct Dims<tbb::blocked_range<int>> {
    static std::vector<std::pair<long long, long long>> get(const tbb::blocked_range<int>& r) { return {{r.begin(), r.end()}}; }
    static tbb::blocked_range<int> make(const std::vector<Dim>& d) { return tbb::blocked_range<int>(int(d[0].b), int(d[0].e), d[0].g); }
};
template <> struct Dims<tbb::blocked_range2d<size_t>> {
    static std::vector<std::pair<long long, long long>> get(const tbb::blocked_range2d<size_t>& r) {
        return {{(long long)r.rows().begin(), (long long)r.rows().end()}, {(long long)r.cols().begin(), (long long)r.cols().end()}}; }
    static tbb::blocked_range2d<size_t> make(const std::vector<Dim>& d) { return {size_t(d[0].b), size_t(d[0].e), d[0].g, size_t(d[1].b), size_t(d[1].e), d[1].g}; }
};
template <> struct Dims<tbb::blocked_range3d<size_t>> {
    static std::vector<std::pair<long long, long long>> get(const tbb::blocked_range3d<size_t>& r) {
        return {{(long long)r.pages().begin(), (long long)r.pages().end()}, {(long long)r.rows().begin(), (long long)r.rows().end()}, {(long long)r.cols().begin(), (long long)r.cols().end()}}; }
    static tbb::blocked_range3d<size_t> make(const std::vector<Dim>& d) {
        return {size_t(d[0].b), size_t(d[0].e), d[0].g, size_t(d[1].b), size_t(d[1].e), d[1].g, size_t(d[2].b), size_t(d[2].e), d[2].g}; }
};
template <unsigned N> struct Dims<tbb::blocked_nd_range<size_t, N>> {
    typedef tbb::blocked_nd_range<size_t, N> R;
    static std::vector<std::pair<long long, long long>> get(const R& r) {
        std::vector<std::pair<long long, long long>> v; for (unsigned i = 0; i < N; ++i) v.push_back({(long long)r.dim(i).begin(), (long long)r.dim(i).end()}); return v; }
    template <size_t... Is> static R make_impl(const std::vector<Dim>& d, tbb::detail::index_sequence<Is...>) { return R(BR(size_t(d[Is].b), size_t(d[Is].e), d[Is].g)...); }
    static R make(const std::vector<Dim>& d) { return make_impl(d, tbb::detail::make_index_sequence<N>()); }
};

static std::vector<Dim> root_dims;
static std::vector<std::vector<std::pair<long long, long long>>> chunks;
static tbb::spin_mutex chunk_mx;
static std::unique_ptr<std::atomic<unsigned char>[]> counters;
static size_t ncounters = 0;
static bool count_elems = false;
static std::atomic<ull> out_of_bounds{0}, empty_chunks{0};

static void record_chunk(const std::vector<std::pair<long long, long long>>& v) {
    bool empty = false, oob = false;
    for (size_t i = 0; i < v.size(); ++i) {
        if (!(v[i].first < v[i].second)) empty = true;
        if (v[i].first < root_dims[i].b || v[i].second > root_dims[i].e) oob = true;
    }
    {
        tbb::spin_mutex::scoped_lock l(chunk_mx);
        if (chunks.size() > 20000000) { puts("RUNAWAY"); fflush(stdout); _Exit(4); }   // a loop that never ends
        chunks.push_back(v);
    }
    if (empty) { empty_chunks++; return; }
    if (oob) { out_of_bounds++; return; }
    if (!count_elems) return;
    std::vector<long long> idx(v.size());
    for (size_t i = 0; i < v.size(); ++i) idx[i] = v[i].first;
    for (;;) {
        size_t flat = 0;
        for (size_t i = 0; i < v.size(); ++i) flat = flat * size_t(root_dims[i].e - root_dims[i].b) + size_t(idx[i] - root_dims[i].b);
        unsigned char c = counters[flat].load(std::memory_order_relaxed);
        while (c < 255 && !counters[flat].compare_exchange_weak(c, (unsigned char)(c + 1))) {}
        size_t d = v.size();
        while (d > 0) {
            --d;
            if (++idx[d] < v[d].second) break;
            idx[d] = v[d].first;
            if (d == 0) return;
        }
    }
}

template <typename Range> struct Body {
    void operator()(const Range& r) const {
        record_chunk(Dims<Range>::get(r));
        // a little uneven work so that thieves get a chance
        volatile unsigned spin = 0;
        for (unsigned i = 0; i < 200; ++i) spin = spin + i;
    }
};

static std::string first_pass_elems = "-";
static std::string check_elems(unsigned expect) {
    if (!count_elems) return "skipped";
    for (size_t i = 0; i < ncounters; ++i)
        if (counters[i].load() != expect) return "bad:" + std::to_string(i) + ":" + std::to_string(unsigned(counters[i].load()));
    return "ok";
}
// affinity_partitioner: the loop is run twice with the same partitioner object (the second run replays the recorded
// affinities); the first pass is checked and the monitors are reset in between
static void between_passes() {
    first_pass_elems = check_elems(1);
    if (empty_chunks.load() || out_of_bounds.load()) first_pass_elems = "bad:empty-or-oob";
    for (size_t i = 0; i < ncounters; ++i) counters[i].store(0);
    chunks.clear();
}

template <typename Range> static bool run_kind(const std::string& kind, const std::vector<Dim>& d, int P) {
    Range r = Dims<Range>::make(d);
    tbb::task_arena arena(P);
    bool ok = true;
    arena.execute([&] {
        if (kind == "simple") tbb::parallel_for(r, Body<Range>(), tbb::simple_partitioner());
        else if (kind == "auto") tbb::parallel_for(r, Body<Range>(), tbb::auto_partitioner());
        else if (kind == "static") tbb::parallel_for(r, Body<Range>(), tbb::static_partitioner());
        else if (kind == "affinity") { tbb::affinity_partitioner ap; tbb::parallel_for(r, Body<Range>(), ap); between_passes(); tbb::parallel_for(r, Body<Range>(), ap); }
        else ok = false;
    });
    return ok;
}

// an input iterator over 0..n-1 (single pass), a forward iterator (std::forward_list) and random access (vector)
struct InputIt {
    typedef std::input_iterator_tag iterator_category; typedef size_t value_type; typedef std::ptrdiff_t difference_type;
    typedef const size_t* pointer; typedef const size_t& reference;
    size_t i; mutable size_t cur;
    explicit InputIt(size_t i_ = 0) : i(i_), cur(0) {}
    reference operator*() const { cur = i; return cur; }
    InputIt& operator++() { ++i; return *this; }
    InputIt operator++(int) { InputIt t = *this; ++i; return t; }
    bool operator==(const InputIt& o) const { return i == o.i; }
    bool operator!=(const InputIt& o) const { return i != o.i; }
};

// item type for foreach2: counts constructions / destructions, detects use after destruction
static std::atomic<long> ci_live{0}, ci_dead_use{0};
struct CItem {
    unsigned level, index; unsigned magic;
    CItem(unsigned l, unsigned i) : level(l), index(i), magic(0xA11FEu) { ci_live++; }
    CItem(const CItem& o) : level(o.level), index(o.index), magic(0xA11FEu) { if (o.magic != 0xA11FEu) ci_dead_use++; ci_live++; }
    CItem(CItem&& o) : level(o.level), index(o.index), magic(0xA11FEu) { if (o.magic != 0xA11FEu) ci_dead_use++; ci_live++; }
    ~CItem() { if (magic != 0xA11FEu) ci_dead_use++; magic = 0xDEADu; ci_live--; }
};
template <typename Tag> struct CIt {
    typedef Tag iterator_category; typedef CItem value_type; typedef std::ptrdiff_t difference_type; typedef CItem* pointer; typedef CItem& reference;
    std::vector<CItem>* v; long k;
    CItem& operator*() const { return (*v)[size_t(k)]; }
    CIt& operator++() { ++k; return *this; }
    CIt operator++(int) { CIt t = *this; ++k; return t; }
    bool operator==(const CIt& o) const { return k == o.k; }
    bool operator!=(const CIt& o) const { return k != o.k; }
};
static unsigned ci_fanout(unsigned long long seed, unsigned level, unsigned index, unsigned fan) {
    unsigned long long h = seed * 0x9E3779B97F4A7C15ull + level * 0xD1B54A32D192ED03ull + index * 0x2545F4914F6CDD1Dull;
    h ^= h >> 29; h *= 0xBF58476D1CE4E5B9ull; h ^= h >> 32;
    return unsigned(h % (fan + 1));
}

// watchdog: a loop of a broken tree may never end (or allocate tasks without end)
static std::atomic<long long> deadline_ms{0};
static long long now_ms() { return std::chrono::duration_cast<std::chrono::milliseconds>(std::chrono::steady_clock::now().time_since_epoch()).count(); }

int main(int argc, char** argv) {
    long long limit_ms = argc > 1 ? atoll(argv[1]) * 1000 : 120000;
    std::thread([] {
        for (;;) {
            std::this_thread::sleep_for(std::chrono::milliseconds(200));
            long long d = deadline_ms.load();
            if (d && now_ms() > d) { puts("TIMEOUT"); fflush(stdout); _Exit(5); }
        }
    }).detach();
    std::string line;
    while (std::getline(std::cin, line)) {
        deadline_ms = now_ms() + limit_ms;
        std::istringstream in(line);
        std::string op;
        if (!(in >> op)) continue;
        if (op == "real") {
            std::string kind, fl; unsigned k = 0;
            in >> kind >> fl >> k;
            std::vector<Dim> d; bool ok = k >= 1 && k <= 4;
            for (unsigned i = 0; ok && i < k; ++i) { Dim x; ull b, e; if (!(in >> b >> e >> x.g) || b > e || x.g == 0) ok = false; x.b = (long long)b; x.e = (long long)e; d.push_back(x); }
            int P = 0;
            if (!ok || !(in >> P) || P < 1) { puts("bad-op"); continue; }
            if (fl == "i") for (auto& x : d) { x.b -= 1000000; x.e -= 1000000; }
            root_dims = d; chunks.clear(); out_of_bounds = 0; empty_chunks = 0;
            long double vol = 1;
            for (auto& x : d) vol *= (long double)(x.e - x.b);
            count_elems = vol <= (long double)(1u << 24);
            ncounters = count_elems ? size_t(vol) : 0;
            counters.reset(new std::atomic<unsigned char>[ncounters ? ncounters : 1]);
            for (size_t i = 0; i < ncounters; ++i) counters[i].store(0);
            bool known = false;
            first_pass_elems = "-";
            if (fl == "1" && k == 1) known = run_kind<BR>(kind, d, P);
            else if (fl == "i" && k == 1) known = run_kind<tbb::blocked_range<int>>(kind, d, P);
            else if (fl == "2" && k == 2) known = run_kind<tbb::blocked_range2d<size_t>>(kind, d, P);
            else if (fl == "3" && k == 3) known = run_kind<tbb::blocked_range3d<size_t>>(kind, d, P);
            else if (fl == "n" && k == 1) known = run_kind<tbb::blocked_nd_range<size_t, 1>>(kind, d, P);
            else if (fl == "n" && k == 2) known = run_kind<tbb::blocked_nd_range<size_t, 2>>(kind, d, P);
            else if (fl == "n" && k == 3) known = run_kind<tbb::blocked_nd_range<size_t, 3>>(kind, d, P);
            else if (fl == "n" && k == 4) known = run_kind<tbb::blocked_nd_range<size_t, 4>>(kind, d, P);
            if (!known) { puts("bad-op"); continue; }
            std::string elems = check_elems(1);
            if (kind == "affinity" && first_pass_elems != "ok" && first_pass_elems != "skipped") elems = first_pass_elems;
            printf("M chunks=%zu empty=%llu oob=%llu elems=%s\n", chunks.size(), (ull)empty_chunks.load(), (ull)out_of_bounds.load(), elems.c_str());
            std::string cs = "C";
            long long off = fl == "i" ? 1000000 : 0;
            for (auto& c : chunks) { cs += " ;"; for (auto& p : c) cs += " " + std::to_string(p.first + off) + " " + std::to_string(p.second + off); }
            puts(cs.c_str());
        } else if (op == "strided") {
            long long first, last, step; std::string kind; int P;
            if (!(in >> first >> last >> step >> kind >> P) || step <= 0 || P < 1) { puts("bad-op"); continue; }
            ull n = first < last ? ull((last - first - 1) / step + 1) : 0;
            if (n > (1ull << 24)) { puts("bad-op"); continue; }
            std::unique_ptr<std::atomic<unsigned char>[]> cnt(new std::atomic<unsigned char>[n ? n : 1]);
            for (ull i = 0; i < n; ++i) cnt[i].store(0);
            std::atomic<ull> visited{0}, bad_outside{0};
            std::atomic<long long> bad_val{0};
            auto f = [&](long long v) {
                visited++;
                if (v < first || v >= last || (v - first) % step != 0) { bad_outside++; bad_val = v; return; }
                cnt[ull((v - first) / step)]++;
            };
            tbb::task_arena arena(P);
            arena.execute([&] {
                if (kind == "simple") tbb::parallel_for(first, last, step, f, tbb::simple_partitioner());
                else if (kind == "auto") tbb::parallel_for(first, last, step, f, tbb::auto_partitioner());
                else if (kind == "static") tbb::parallel_for(first, last, step, f, tbb::static_partitioner());
                else { tbb::affinity_partitioner ap; tbb::parallel_for(first, last, step, f, ap); }
            });
            std::string bad = "-";
            if (bad_outside.load()) bad = "outside:" + std::to_string(bad_val.load());
            else for (ull i = 0; i < n; ++i) if (cnt[i].load() != 1) { bad = std::to_string(first + (long long)i * step) + ":" + std::to_string(unsigned(cnt[i].load())); break; }
            printf("S visited=%llu expected=%llu bad=%s\n", (ull)visited.load(), n, bad.c_str());
        } else if (op == "foreach") {
            size_t n, feed; std::string it; int P;
            if (!(in >> n >> feed >> it >> P) || P < 1 || n > (1u << 20)) { puts("bad-op"); continue; }
            // ids: initial items 0..n-1; item i < feed adds items n+2i and n+2i+1 (which add nothing)
            size_t total = n + 2 * (feed < n ? feed : n);
            std::unique_ptr<std::atomic<unsigned>[]> cnt(new std::atomic<unsigned>[total ? total : 1]);
            for (size_t i = 0; i < total; ++i) cnt[i].store(0);
            std::atomic<ull> outside{0};
            auto body = [&](size_t id, tbb::feeder<size_t>& fd) {
                if (id >= total) { outside++; return; }
                cnt[id]++;
                if (id < n && id < feed) { fd.add(n + 2 * id); fd.add(n + 2 * id + 1); }
            };
            tbb::task_arena arena(P);
            arena.execute([&] {
                if (it == "r") { std::vector<size_t> v(n); for (size_t i = 0; i < n; ++i) v[i] = i; tbb::parallel_for_each(v.begin(), v.end(), body); }
                else if (it == "f") { std::forward_list<size_t> v; for (size_t i = n; i > 0; --i) v.push_front(i - 1); tbb::parallel_for_each(v.begin(), v.end(), body); }
                else { tbb::parallel_for_each(InputIt(0), InputIt(n), body); }
            });
            std::string bad = "-";
            if (outside.load()) bad = "outside";
            else for (size_t i = 0; i < total; ++i) if (cnt[i].load() != 1) { bad = std::to_string(i) + ":" + std::to_string(cnt[i].load()); break; }
            printf("F items=%zu bad=%s\n", total, bad.c_str());
        } else if (op == "foreach2") {
            size_t n; unsigned depth, fan; std::string it; int P; ull seed;
            if (!(in >> n >> depth >> fan >> it >> P >> seed) || P < 1 || n > 5000 || depth > 3 || fan < 1 || fan > 3) { puts("bad-op"); continue; }
            // flat id of (level, index): offset[level] + index, level l has n*fan^l slots
            size_t offset[5], width = n, total = 0;
            for (unsigned l = 0; l <= depth; ++l) { offset[l] = total; total += width; width *= fan; }
            offset[depth + 1] = total;
            std::unique_ptr<std::atomic<unsigned>[]> cnt(new std::atomic<unsigned>[total ? total : 1]);
            for (size_t i = 0; i < total; ++i) cnt[i].store(0);
            std::atomic<ull> outside{0};
            auto body = [&](const CItem& x, tbb::feeder<CItem>& fd) {
                if (x.magic != 0xA11FEu) ci_dead_use++;
                if (x.level > depth || offset[x.level] + x.index >= offset[x.level + 1]) { outside++; return; }
                cnt[offset[x.level] + x.index]++;
                if (x.level < depth) {
                    unsigned k = ci_fanout(seed, x.level, x.index, fan);
                    for (unsigned j = 0; j < k; ++j) {
                        CItem c(x.level + 1, x.index * fan + j);
                        if (j & 1) fd.add(std::move(c)); else fd.add(c);
                    }
                }
                if (x.magic != 0xA11FEu) ci_dead_use++;
            };
            long base = ci_live.load(), after = 0;
            ci_dead_use = 0;
            {
                std::vector<CItem> v; v.reserve(n);
                for (size_t i = 0; i < n; ++i) v.emplace_back(0u, unsigned(i));
                tbb::task_arena arena(P);
                arena.execute([&] {
                    if (it == "r") tbb::parallel_for_each(v.begin(), v.end(), body);
                    else if (it == "f") tbb::parallel_for_each(CIt<std::forward_iterator_tag>{&v, 0}, CIt<std::forward_iterator_tag>{&v, long(n)}, body);
                    else tbb::parallel_for_each(CIt<std::input_iterator_tag>{&v, 0}, CIt<std::input_iterator_tag>{&v, long(n)}, body);
                });
                after = ci_live.load() - long(n);
                // copies may still be destroyed by a worker right after the return: wait for them (only the watchdog bounds this wait,
                // so that the verdict does not depend on machine load; copies that are never destroyed end as TIMEOUT)
                while (ci_live.load() != base + long(n)) std::this_thread::yield();
            }
            long leaked = ci_live.load() - base;
            // expected visits: an item is reachable iff its parent is and its child number is below the parent's fan-out
            std::string bad = "-";
            size_t reachable = 0;
            if (outside.load()) bad = "outside";
            else {
                std::vector<unsigned char> reach(total ? total : 1, 0);
                for (size_t i = 0; i < n; ++i) reach[i] = 1;
                size_t w = n;
                for (unsigned l = 0; l < depth; ++l) {
                    for (size_t i = 0; i < w; ++i) if (reach[offset[l] + i]) {
                        unsigned k = ci_fanout(seed, l, unsigned(i), fan);
                        for (unsigned j = 0; j < k; ++j) reach[offset[l + 1] + i * fan + j] = 1;
                    }
                    w *= fan;
                }
                for (size_t i = 0; i < total; ++i) { reachable += reach[i]; if (cnt[i].load() != reach[i]) { if (bad == "-") bad = std::to_string(i) + ":" + std::to_string(cnt[i].load()); } }
            }
            printf("F2 items=%zu bad=%s dead=%ld live=%ld late=%d\n", reachable, bad.c_str(), ci_dead_use.load(), leaked, after != base ? 1 : 0);
        } else if (op == "invoke") {
            int n, P;
            if (!(in >> n >> P) || n < 2 || n > 12 || P < 1) { puts("bad-op"); continue; }
            std::atomic<unsigned> c[12];
            for (auto& x : c) x.store(0);
            auto f = [&](int i) { return [&c, i] { c[i]++; }; };
            tbb::task_arena arena(P);
            arena.execute([&] {
                switch (n) {
                case 2: tbb::parallel_invoke(f(0), f(1)); break;
                case 3: tbb::parallel_invoke(f(0), f(1), f(2)); break;
                case 4: tbb::parallel_invoke(f(0), f(1), f(2), f(3)); break;
                case 5: tbb::parallel_invoke(f(0), f(1), f(2), f(3), f(4)); break;
                case 6: tbb::parallel_invoke(f(0), f(1), f(2), f(3), f(4), f(5)); break;
                case 7: tbb::parallel_invoke(f(0), f(1), f(2), f(3), f(4), f(5), f(6)); break;
                case 8: tbb::parallel_invoke(f(0), f(1), f(2), f(3), f(4), f(5), f(6), f(7)); break;
                case 9: tbb::parallel_invoke(f(0), f(1), f(2), f(3), f(4), f(5), f(6), f(7), f(8)); break;
                case 10: tbb::parallel_invoke(f(0), f(1), f(2), f(3), f(4), f(5), f(6), f(7), f(8), f(9)); break;
                case 11: tbb::parallel_invoke(f(0), f(1), f(2), f(3), f(4), f(5), f(6), f(7), f(8), f(9), f(10)); break;
                default: tbb::parallel_invoke(f(0), f(1), f(2), f(3), f(4), f(5), f(6), f(7), f(8), f(9), f(10), f(11)); break;
                }
            });
            std::string bad = "-";
            for (int i = 0; i < 12; ++i) if (c[i].load() != (i < n ? 1u : 0u)) { bad = std::to_string(i) + ":" + std::to_string(c[i].load()); break; }
            printf("I n=%d bad=%s\n", n, bad.c_str());
        } else puts("bad-op");
        fflush(stdout);
    }
    return 0;
}
