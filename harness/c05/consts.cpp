// E-GEN: constants of partitioner.h / blocked_range.h as the current tree defines them, printed as JSON.
// Built with -fno-access-control; the partition objects are the real ones, constructed against the mock runtime
// with a chosen max_concurrency().
#include "r1_mock.h"
#include <oneapi/tbb/partitioner.h>
#include <oneapi/tbb/blocked_range.h>
#include <oneapi/tbb/blocked_range2d.h>
#include <oneapi/tbb/blocked_range3d.h>
#include <oneapi/tbb/blocked_nd_range.h>
#include <oneapi/tbb/parallel_for.h>
#include <cfloat>
#include <cstdio>

using namespace tbb::detail::d1;

// Which dimension-selection rule do blocked_range2d/3d/nd have?  Probe inputs on which the binary64 products
// size*double(grainsize) of an indivisible first dimension and a divisible last dimension round to a tie:
//   result 1: the divisible dimension is cut on all of them (an indivisible dimension is never preferred: "guarded")
//   result 0: the indivisible first dimension is cut on all of them (bare ratio comparison)
//   result -1: mixed / something else
struct Tie { std::size_t s1, g1, s2, g2; };
static const Tie ties[] = {
    {1, 1, (1ull << 53) + 1, 1ull << 53},
    {3, 3, 3 * (1ull << 53) + 1, 3 * (1ull << 53)},
    {1, 1, (1ull << 60) + 1, 1ull << 60},
    {7, 7, (1ull << 62) + 2, 1ull << 62},
};
template <typename F> static int probe(F cut_is_legal) {
    int yes = 0, no = 0;
    for (const Tie& t : ties) (cut_is_legal(t) ? yes : no)++;
    return no == 0 ? 1 : yes == 0 ? 0 : -1;
}
static bool legal(const tbb::blocked_range<std::size_t>& first_kept, const tbb::blocked_range<std::size_t>& first_new, const Tie& t) {
    // legal = the first (indivisible) dimension is untouched in both parts
    return first_kept.size() == t.s1 && first_new.size() == t.s1;
}

int main() {
    int sel2 = probe([](const Tie& t) {
        tbb::blocked_range2d<std::size_t> r(0, t.s1, t.g1, 0, t.s2, t.g2); tbb::split s; tbb::blocked_range2d<std::size_t> b(r, s);
        return legal(r.rows(), b.rows(), t); });
    int sel3 = probe([](const Tie& t) {
        tbb::blocked_range3d<std::size_t> r(0, t.s1, t.g1, 0, t.s1, t.g1, 0, t.s2, t.g2); tbb::split s; tbb::blocked_range3d<std::size_t> b(r, s);
        return legal(r.pages(), b.pages(), t) && legal(r.rows(), b.rows(), t); });
    int selN = probe([](const Tie& t) {
        typedef tbb::blocked_range<std::size_t> BR;
        tbb::blocked_nd_range<std::size_t, 3> r(BR(0, t.s1, t.g1), BR(0, t.s1, t.g1), BR(0, t.s2, t.g2)); tbb::split s; tbb::blocked_nd_range<std::size_t, 3> b(r, s);
        return legal(r.dim(0), b.dim(0), t) && legal(r.dim(1), b.dim(1), t); });
    typedef range_vector<tbb::blocked_range<std::size_t>, auto_partition_type::range_pool_size> pool_t;
    unsigned long long autoDiv[2], staticDiv[2], affDiv[2], staticMaxAff[2], affMaxAff[2];
    unsigned autoDepth = 0, affDepth = 0, autoDelay = 0;
    int Ps[2] = {3, 7};
    for (int i = 0; i < 2; ++i) {
        mock::reset(Ps[i], 1);
        tbb::auto_partitioner ap;
        auto_partition_type a(ap);
        autoDiv[i] = a.my_divisor; autoDepth = a.my_max_depth; autoDelay = unsigned(a.my_delay);
        tbb::static_partitioner sp;
        static_partition_type s(sp);
        staticDiv[i] = s.my_divisor; staticMaxAff[i] = s.my_max_affinity;
        tbb::affinity_partitioner fp;
        affinity_partition_type f((affinity_partitioner_base&)fp);
        affDiv[i] = f.my_divisor; affDepth = f.my_max_depth; affMaxAff[i] = f.my_max_affinity;
    }
    auto per = [&](unsigned long long* d) -> long long {
        if (d[0] % Ps[0] || d[1] % Ps[1] || d[0] / Ps[0] != d[1] / Ps[1]) return -1;   // not linear in P
        return (long long)(d[0] / Ps[0]);
    };
    depth_t dmax = depth_t(~depth_t(0));
    unsigned depthBits = 0;
    while (dmax) { depthBits++; dmax = depth_t(dmax >> 1); }
    printf("{\"poolCapacity\": %u, \"poolCapacityAffinity\": %u, \"poolSlots\": %u, \"depthBits\": %u, "
           "\"initDepthAuto\": %u, \"initDepthAffinity\": %u, \"initDelayAuto\": %u, \"demandDepthAdd\": %d, "
           "\"affinityFactor\": %u, \"autoFactor\": %u, \"staticFactor\": %u, "
           "\"autoDivPerThread\": %lld, \"staticDivPerThread\": %lld, \"affinityDivPerThread\": %lld, "
           "\"staticMaxAffPerThread\": %lld, \"affinityMaxAffPerThread\": %lld, "
           "\"sel2Guarded\": %d, \"sel3Guarded\": %d, \"selNdGuarded\": %d, "
           "\"sizeTypeBits\": %u, \"floatMantBits\": %d, \"doubleMantBits\": %d, \"fltEvalMethod\": %d}\n",
           unsigned(auto_partition_type::range_pool_size), unsigned(affinity_partition_type::range_pool_size),
           unsigned(sizeof(pool_t::my_depth) / sizeof(depth_t)), depthBits,
           autoDepth, affDepth, autoDelay, int(__TBB_DEMAND_DEPTH_ADD),
           unsigned(affinity_partition_type::factor), unsigned(auto_partition_type::factor), unsigned(static_partition_type::factor),
           per(autoDiv), per(staticDiv), per(affDiv), per(staticMaxAff), per(affMaxAff),
           sel2, sel3, selN,
           unsigned(sizeof(std::size_t) * 8), int(FLT_MANT_DIG), int(DBL_MANT_DIG), int(FLT_EVAL_METHOD));
    return 0;
}
